"""C07 -- the validator set used at each height is the one the chain committed."""
import vlib, mirrorcheck

META = {
    "level": "model_checking",
    "text": "Headers in Mirror.tla carry validator-set ids for the height and the next height; TLC checks that the voting/next-round/committing views always use the set the committed chain prescribes (genesis, then the next-set of the header committed one height below) on chains where the application changes keys and powers at every height, with proposals and replayed headers claiming other sets; the behaviours are replayed on a real Mirror and the oracle compares the real views' full validator sets (keys, powers and both hashes) with the set prescribed by what was committed. StateMachine.tla behaviours (incl. crashes and restarts) are replayed on the real state machine with a driver that changes the set at every height: the finalization store must hold exactly what the driver returned and proposed headers must carry the chain's sets.",
    "note": "Forged validator LIST cases (scripted, real Mirror): header that changes the set and header that keeps it (next-set hashes equal the current set's), forged copy before/after the honest one, through HandleProposedHeader and through the replayed-header path. Bounded as C01 with three validator sets. Forged validator LISTS under unchanged hashes are a scripted case on the real Mirror (forged copy first / honest copy first / forged ValidatorSet; predicate ListsMatchHashes), because two header values with one block hash cannot be expressed in Mirror.tla's label-per-hash world. State-machine side: the replay harness's driver changes the vote powers at every height; predicates FinalizationStoresDriverSet and ProposesWithChainSets are evaluated on the real state machine (same keys, all powers scaled, so that StateMachine.tla's 3-of-4 thresholds stay valid); StateMachine.tla carries the set ids (curVS/nextVS/finVS, finalization store) and TLC checks C07_SMSets on it; the sets are part of the compared outputs.",
    "technique": "TLA+ spec (Mirror.tla) + TLC exhaustive bounded check + replay on the real Mirror with real-state validator-set comparison",
}


def run(ctx):
    q = ctx.quick()
    plans = [
        {"world": "focus_valsets", "cover": True, "steps": 6 if q else 7, "avoid": True, "crash": True},
        {"world": "valsets", "sim": 5 if q else 30, "steps": 7 if q else 10, "avoid": True, "cap": 300 if q else 4000, "seeds": 1 if q else 3},
        {"world": "replay", "sim": 3 if q else 20, "steps": 6 if q else 9, "avoid": True, "cap": 120 if q else 2000, "seeds": 1 if q else 2},
    ]
    design = [("Mirror_c07.cfg", {"MaxSteps": 5 if q else 6}, "C07_ViewVS on every reachable state")]
    cov, mismatches, inconcl = mirrorcheck.collect(ctx, {"C07"}, plans, design_cfgs=design)
    # forged validator LISTS under unchanged hashes (two header values with one block hash cannot be expressed in Mirror.tla's
    # label-per-hash world, so this is a scripted case on the real Mirror): forged copy first, honest copy first, forged
    # ValidatorSet; every set of every view and of the stored proposed headers must be the list its hashes were computed from
    import mirrorlib
    lrun = mirrorlib.MirrorRun(ctx, "valsets")
    lrun.build()
    lout = ctx.path("c07lists.ndjson")
    rc_l, o_l = ctx.go_test(mirrorlib.PKG, "^TestVerifC07Lists$", binary=lrun.binary, env={"VERIF_WORLD": lrun.world_json, "VERIF_OUT": lout}, timeout=300)
    lrecs = [r for r in vlib.read_ndjson(lout) if r.get("kind") == "c07lists"]
    if len(lrecs) < 10:
        raise vlib.Inconclusive("forged validator list cases did not run:\n" + o_l[-2000:])
    for r in lrecs:
        bad = sorted(k for k, v in r.items() if k.endswith("_lists_match_hashes") and v is False)
        if bad:
            ctx.violation("ListsMatchHashes", "HandleProposedHeader", r["variant"] + ":" + ",".join(b.replace("_lists_match_hashes", "") for b in bad),
                          "a proposed header with a forged validator list under unchanged hashes (%s) was accepted (%s): %s hold a list that does not match the hashes covered by the committed block hash"
                          % (r["variant"], r.get("ph_results"), ", ".join(b.replace("_lists_match_hashes", "") for b in bad)), replay_obj={"case": r})
    cov["forged_validator_list_cases"] = len(lrecs)
    # the state machine half: the driver of the replay harness changes the vote powers at every height (finalizing h returns
    # a set that applies from h+2 on, checks/sm_worlds.py); on the real state machine the finalization store must record
    # exactly the returned set and every header it proposes must carry the sets the chain prescribes for its height and the next
    import smcheck
    sm_plans = [{"cover": True, "universe": "Small", "steps": 5 if q else 6, "crash": True, "rich": False, "cap": 4000 if q else 40000},
                {"universe": "", "rich": True, "sim": 8 if q else 60, "steps": 10 if q else 13, "crash": True, "cap": 200 if q else 4000, "seeds": 1 if q else 3, "maxh": 4}]
    sm_design = [{"steps": 5 if q else 7, "universe": "Small", "crash": True, "rich": True, "maxh": 3, "invariants": ["C07_SMSets"]}]
    scov, smis, sinc = smcheck.collect(ctx, {"C07"}, sm_plans, sm_design)
    cov["state_machine_validator_sets"] = scov
    cov["behaviours_replayed_on_real_code"] += scov["behaviours_replayed_on_real_code"]
    cov["evaluations"] += scov["evaluations"]
    # code -> spec direction: the repository's own tests run under the invariant monitor
    import suitemon
    cov.update(suitemon.run_suite(ctx, {"C07"}, kind="mirror"))
    rc = ctx.finish("model_checking", extra_cov=cov)
    return mirrorcheck.conclude(rc, mismatches + smis, inconcl + sinc)
