"""C07 -- the validator set used at each height is the one the chain committed."""
import vlib, mirrorcheck

META = {
    "level": "model_checking",
    "text": "Headers in Mirror.tla carry validator-set ids for the height and the next height; TLC checks that the voting/next-round/committing views always use the set the committed chain prescribes (genesis, then the next-set of the header committed one height below) on chains where the application changes keys and powers at every height, with proposals and replayed headers claiming other sets; the behaviours are replayed on a real Mirror and the oracle compares the real views' full validator sets (keys, powers and both hashes) with the set prescribed by what was committed.",
    "note": "Bounded as C01 with three validator sets. Forged validator LISTS under unchanged hashes are exercised by the valsets world only once listsVS/listsNVS headers are enabled (see DESIGN.md). State-machine side (CurValSet at h+2) is covered by C08's harness.",
    "technique": "TLA+ spec (Mirror.tla) + TLC exhaustive bounded check + replay on the real Mirror with real-state validator-set comparison",
}


def run(ctx):
    q = ctx.quick()
    plans = [
        {"world": "focus_valsets", "cover": True, "steps": 6 if q else 7, "avoid": True, "crash": True},
        {"world": "valsets", "sim": 5 if q else 30, "steps": 7 if q else 10, "avoid": True, "cap": 300 if q else 4000, "seeds": 1 if q else 3},
        {"world": "replay", "sim": 3 if q else 20, "steps": 6 if q else 9, "avoid": True, "cap": 120 if q else 2000, "seeds": 1 if q else 2},
    ]
    design = [("Mirror_c07.cfg", {"MaxSteps": 5 if q else 6}, "C07_ViewVS on every reachable state")]
    return mirrorcheck.run(ctx, {"C07"}, plans, design_cfgs=design)
