"""C09 -- no configuration, message or schedule can crash or wedge the engine."""
import importlib, os
import vlib, mirrorcheck

META = {
    "level": "model_checking",
    "text": "Message/schedule part: every TODO/BUG panic and non-terminating loop of the mirror kernel and of the Handle* callers is an explicit `pan` outcome of Mirror.tla; TLC explores a message universe covering every class of consensus message (proposed header, prevote, precommit, replayed header, state machine entrance/action) at every position relative to the node (heights voting-1..voting+2 and 0, rounds 0..voting+3, every proof shape incl. malformed key ids, empty proofs, foreign proposers) and reports NoPanic counterexamples; the behaviours, panicking ones included, are replayed on a real Mirror running in child processes: a death of the process, a panic in the calling goroutine, a Handle* call that does not return and a mirror that stops answering VotingView are violations, attributed to the last input and fingerprinted by panic site. Configuration part (Config.tla, Mapper.tla): every subset/order of constructor options for tmengine.New and tmengine.NewMirror and every result value through both feedback mappers (see checks/c09_config.py). Generation additionally: exhaustive covers of the focused worlds (rounds; shrinking/growing validator set) and the concurrent-caller driver MirrorConcMC.tla -- two Handle*Proofs calls parked between their two phases, and a caller whose context ends while the kernel is inside its add request (the harness holds the round store write): the mirror must keep serving.",
    "note": "Races between Handle* callers and view shifts are driven through the gate hooks: a FUTURE-round vote parked between its view lookup and the kernel's addFuture* request while another caller moves the voting round there or commits the height (Mirror.tla AddFutureRace; this found the addFuture* TODO panic, repaired in 532f5aa). libp2p and codec inputs belong to C14/C20. Slow strategy/driver callbacks belong to the state-machine harness (C08). Bounded as C01 with heights 0..3, rounds 0..3.",
    "technique": "TLA+ specs (Mirror.tla panic outcomes; Config.tla; Mapper.tla) + TLC exhaustive bounded check + replay on the real code in crash-isolated child processes",
}


def run(ctx):
    q = ctx.quick()
    plans = [
        {"world": "focus_conc", "conc": True, "steps": 6 if q else 7, "cap": None if q else 80000},
        {"world": "focus_valsets", "cover": True, "steps": 6 if q else 7, "avoid": False},
        {"world": "focus_rounds", "cover": True, "steps": 5 if q else 7, "avoid": False, "crash": False},
        {"world": "wide", "sim": 4 if q else 30, "steps": 6 if q else 8, "avoid": False, "cap": 350 if q else 6000, "seeds": 1 if q else 3},
        {"world": "wide", "sim": 3 if q else 20, "steps": 8 if q else 10, "avoid": True, "cap": 200 if q else 4000, "seeds": 1 if q else 2},
        {"world": "replay", "sim": 3 if q else 20, "steps": 6 if q else 8, "avoid": False, "crash": not q, "cap": 200 if q else 3000, "seeds": 1 if q else 2},
    ]
    if not q:
        plans.append({"world": "valsets", "sim": 20, "steps": 8, "avoid": False, "cap": 3000, "seeds": 2})
        plans.append({"world": "adversarial", "sim": 10, "steps": 8, "avoid": False, "cap": 2000, "seeds": 1})
    design = [("Mirror_c09.cfg", {"MaxSteps": 3 if q else 4}, "C09_NoPanic over the wide message universe")]
    cov, mismatches, inconcl = mirrorcheck.collect(ctx, {"C09"}, plans, design_cfgs=design, report_deaths=True)
    extra = {}
    if os.path.exists(os.path.join(vlib.VERIF, "checks", "c09_config.py")) and mirrorcheck.replay_stored(ctx) is None:
        c09_config = importlib.import_module("c09_config")
        extra = c09_config.collect(ctx) or {}
    cov["configuration_and_mappers"] = extra
    rc = ctx.finish("model_checking", extra_cov=cov)
    return mirrorcheck.conclude(rc, mismatches, inconcl)
