"""Worlds for the Mirror model: validator sets, header universe and message universes.
The same world dict is (a) written as MirrorWorld.tla for TLC and (b) given to the Go harness as JSON,
which instantiates it with real ed25519 keys, real hashes and real signatures.

Entry: {"pos": i, "cls": c}; pos 1-based position in the valset's key list, 0 = out of range,
-1 = key id shorter than two bytes, -3 = three-byte key id; cls "ok" = authentic, otherwise one of
"flip" (bit-flipped signature), "otherkey" (signature by another validator), "otherkind",
"otherround", "othertarget", "otherheight".
"""
import itertools, json
from tlagen import S, tla, module


def E(pos, cls="ok"):
    return {"pos": pos, "cls": cls}


def ok(*positions):
    return S([E(p) for p in positions])


def base_world(pow4=(1, 1, 1, 1)):
    """N=4 genesis set G; two headers per height for heights 1..2 (height 2 extends A1)."""
    w = {}
    w["valsets"] = {"G": {"keys": [1, 2, 3, 4], "pow": list(pow4)}}
    w["genesis"] = "G"
    hdr = {}
    for l in ("A1", "B1"):
        hdr[l] = {"h": 1, "prev": "gen", "vs": "G", "nvs": "G", "pcpR": 0, "pcpPkh": "none", "pcp": {}, "data": l}
    full = {"A1": ok(1, 2, 3)}
    hdr["A2"] = {"h": 2, "prev": "A1", "vs": "G", "nvs": "G", "pcpR": 0, "pcpPkh": "G", "pcp": full, "data": "A2"}
    hdr["B2"] = {"h": 2, "prev": "A1", "vs": "G", "nvs": "G", "pcpR": 0, "pcpPkh": "G", "pcp": {"A1": ok(1, 2, 3, 4)}, "data": "B2"}
    w["hdr"] = hdr
    return w


def vote(kind, h, r, proofs, pkh="G"):
    return {"kind": kind, "h": h, "r": r, "pkh": pkh, "proofs": proofs}


def ph(hdr, r, prop, sig="ok", hashOK=True):
    return {"hdr": hdr, "r": r, "prop": prop, "sig": sig, "hashOK": hashOK}


def replay(hdr, r, proofs, hashOK=True):
    return {"hdr": hdr, "r": r, "hashOK": hashOK, "proofs": proofs}


def singles(kind, h, r, targets, sets, pkh="G"):
    return [vote(kind, h, r, {t: ok(*ss)}, pkh) for t in targets for ss in sets]


SM_DEFAULT = dict(
    smentr=S([{"h": 1, "r": 0, "pub": 1}, {"h": 1, "r": 1, "pub": 1}, {"h": 2, "r": 0, "pub": 1}, {"h": 2, "r": 1, "pub": 1},
              {"h": 1, "r": 0, "pub": 0}]),
    smvotes=S([{"kind": "prevote", "target": "A1"}, {"kind": "precommit", "target": "A1"}, {"kind": "precommit", "target": "nil"},
               {"kind": "prevote", "target": "A2"}, {"kind": "precommit", "target": "A2"}]),
)


def world_happy():
    """honest traffic: proposals, prevotes, precommits, nil rounds, round jumps, commits of heights 1 and 2,
    replay of both heights, state machine entrances and votes, both consumers."""
    w = base_world()
    V = []
    for kind in ("prevote", "precommit"):
        V += singles(kind, 1, 0, ("A1", "nil"), ((1,), (2, 3), (4,)))
        V += singles(kind, 1, 1, ("A1", "nil"), ((1,), (2, 3)))
        V += singles(kind, 2, 0, ("A2", "nil"), ((1,), (2, 3), (4,)))
    V += singles("precommit", 1, 0, ("B1",), ((4,),))
    V += singles("prevote", 1, 2, ("nil",), ((2, 3),))          # future round
    V += singles("precommit", 2, 0, ("A2",), ((1, 2, 3),))       # future height while voting on 1
    w["votes"] = S(V)
    w["phs"] = S([ph("A1", 0, 1), ph("B1", 0, 2), ph("A1", 1, 2), ph("A2", 0, 1), ph("B2", 0, 2)])
    w["replays"] = S([replay("A1", 0, {"A1": ok(1, 2, 3)}), replay("A2", 0, {"A2": ok(2, 3, 4)})])
    w.update(SM_DEFAULT)
    return w


def world_adversarial():
    """C05/C09: every corruption class of a vote entry, for the voting, next, committing and future rounds,
    mixed with authentic entries; wrong validator-set hash; malformed key ids; unknown block hash."""
    w = base_world()
    V = []
    bads = [E(2, c) for c in ("flip", "otherkey", "otherkind", "otherround", "othertarget", "otherheight", "stolen")]
    for kind in ("prevote", "precommit"):
        for (h, r) in ((1, 0), (1, 1), (1, 2), (2, 0)):
            t = "A1" if h == 1 else "A2"
            for b in bads:
                V.append(vote(kind, h, r, {t: S([b])}))
            V.append(vote(kind, h, r, {t: S([E(1), E(3, "flip")])}))        # mixed
            V.append(vote(kind, h, r, {t: S([E(1), E(2, "stolen")])}))      # validator 1's signature re-filed under key id 2
            V.append(vote(kind, h, r, {t: ok(1)}))
            V.append(vote(kind, h, r, {"X": S([E(2, "flip")])}))             # unknown hash, invalid
            V.append(vote(kind, h, r, {"X": ok(2)}))                         # unknown hash, authentic
            V.append(vote(kind, h, r, {t: S([E(0), E(-3)])}))               # out of range / 3-byte ids only
            V.append(vote(kind, h, r, {t: ok(1, 2)}))
        V.append(vote(kind, 1, 0, {"A1": ok(3)}, pkh="bad"))
        V.append(vote(kind, 1, 0, {"nil": S([E(4, "othertarget")])}))
        V.append(vote(kind, 1, 0, {"A1": ok(1, 2, 3)}))
    w["votes"] = S(V)
    w["phs"] = S([ph("A1", 0, 1), ph("A2", 0, 1)])
    w["replays"] = S([])
    w.update(SM_DEFAULT)
    w["smentr"] = S([{"h": 1, "r": 0, "pub": 1}])
    w["smvotes"] = S([{"kind": "prevote", "target": "A1"}])
    return w


def world_equivocation(pow4=(1, 1, 1, 1)):
    """C06: one validator signing several targets, in the voting and in the next round; heavy validators."""
    w = base_world(pow4)
    V = []
    for kind in ("prevote", "precommit"):
        for r in (0, 1):
            for p in (1, 4):
                V.append(vote(kind, 1, r, {"A1": ok(p), "B1": ok(p)}))
                V.append(vote(kind, 1, r, {"A1": ok(p), "B1": ok(p), "nil": ok(p)}))
                V.append(vote(kind, 1, r, {"X": ok(p)}))
            V += singles(kind, 1, r, ("A1", "B1", "nil"), ((2,), (3,)))
            V.append(vote(kind, 1, r, {"A1": ok(1, 2), "nil": ok(3)}))
    w["votes"] = S(V)
    w["phs"] = S([ph("A1", 0, 1), ph("B1", 0, 2)])
    w["replays"] = S([])
    w.update(SM_DEFAULT)
    w["smentr"] = S([{"h": 1, "r": 0, "pub": 2}])
    w["smvotes"] = S([{"kind": "prevote", "target": "A1"}, {"kind": "prevote", "target": "B1"}])
    return w


def world_replay():
    """C01/C04/C07: replayed headers (own set, foreign set, wrong predecessor, insufficient or forged
    certificates, later round), proposed headers with every shape of previous-commit proof."""
    w = base_world()
    w["valsets"]["F"] = {"keys": [5, 6, 7], "pow": [1, 1, 1]}          # foreign set
    hdr = w["hdr"]
    hdr["F1"] = {"h": 1, "prev": "gen", "vs": "F", "nvs": "F", "pcpR": 0, "pcpPkh": "none", "pcp": {}, "data": "F1"}
    hdr["C2"] = {"h": 2, "prev": "B1", "vs": "G", "nvs": "G", "pcpR": 0, "pcpPkh": "G", "pcp": {"B1": ok(1, 2, 3)}, "data": "C2"}   # wrong predecessor when A1 committed
    hdr["D2"] = {"h": 2, "prev": "A1", "vs": "G", "nvs": "G", "pcpR": 0, "pcpPkh": "G", "pcp": {"A1": ok(1, 2)}, "data": "D2"}      # insufficient pcp
    hdr["E2"] = {"h": 2, "prev": "A1", "vs": "G", "nvs": "G", "pcpR": 0, "pcpPkh": "G", "pcp": {"A1": S([E(1), E(2), E(3, "flip")])}, "data": "E2"}  # forged pcp entry
    hdr["G2"] = {"h": 2, "prev": "A1", "vs": "G", "nvs": "G", "pcpR": 0, "pcpPkh": "G", "pcp": {"A1": ok(1, 2, 3), "nil": ok(3)}, "data": "G2"}     # double signer
    hdr["K2"] = {"h": 2, "prev": "A1", "vs": "G", "nvs": "G", "pcpR": 0, "pcpPkh": "G", "pcp": {"A1": S([E(1), E(2), E(3), E(-1)])}, "data": "K2"}   # 1-byte key id
    hdr["L2"] = {"h": 2, "prev": "A1", "vs": "G", "nvs": "G", "pcpR": 0, "pcpPkh": "G", "pcp": {"A1": S([E(1), E(2), E(3), E(-3)])}, "data": "L2"}   # 3-byte key id
    hdr["M2"] = {"h": 2, "prev": "A1", "vs": "G", "nvs": "G", "pcpR": 0, "pcpPkh": "G", "pcp": {"A1": ok(1, 2, 3), "nil": ok(4)}, "data": "M2"}      # honest nil precommit the node has not seen
    hdr["H2"] = {"h": 2, "prev": "A1", "vs": "G", "nvs": "G", "pcpR": 0, "pcpPkh": "bad", "pcp": {"A1": ok(1, 2, 3)}, "data": "H2"}
    V = singles("precommit", 1, 0, ("A1",), ((1, 2, 3), (1,), (4,))) + singles("precommit", 1, 0, ("B1",), ((1, 2, 3),)) \
        + singles("precommit", 2, 0, ("A2", "C2"), ((1, 2, 3),)) + singles("prevote", 1, 0, ("A1",), ((1, 2),))
    w["votes"] = S(V)
    w["phs"] = S([ph("A1", 0, 1), ph("B1", 0, 2), ph("A2", 0, 1), ph("C2", 0, 1), ph("D2", 0, 2), ph("E2", 0, 2), ph("G2", 0, 3), ph("H2", 0, 3), ph("K2", 0, 1), ph("L2", 0, 1), ph("M2", 0, 2),
                  ph("F1", 0, 5), ph("A1", 0, 5), ph("A1", 0, 2, sig="bad"), ph("A1", 0, 2, hashOK=False), ph("A1", 0, 0)])
    w["replays"] = S([
        replay("A1", 0, {"A1": ok(1, 2, 3)}), replay("A1", 0, {"A1": ok(1, 2)}), replay("A1", 0, {"A1": S([E(1), E(2), E(3, "otherkey")])}),
        replay("A1", 1, {"A1": ok(1, 2, 3)}), replay("A1", 2, {"A1": ok(1, 2, 3)}),
        replay("F1", 0, {"F1": ok(1, 2, 3)}),                       # signed only by the foreign set
        replay("A2", 0, {"A2": ok(1, 2, 3)}), replay("C2", 0, {"C2": ok(1, 2, 3)}),
        replay("A1", 0, {"A1": ok(1, 2, 3)}, hashOK=False), replay("A1", 0, {"B1": ok(1, 2, 3)}),
        replay("A1", 0, {"A1": S([E(1), E(2), E(3), E(-1)])}), replay("A1", 0, {"A1": S([E(1), E(2), E(3), E(0)])}),
    ])
    w.update(SM_DEFAULT)
    w["smentr"] = S([{"h": 1, "r": 0, "pub": 1}, {"h": 2, "r": 0, "pub": 1}])
    w["smvotes"] = S([{"kind": "precommit", "target": "A1"}])
    return w


def world_valsets():
    """C07: the application changes keys and powers at every height; forged validator lists."""
    w = base_world()
    w["valsets"]["W"] = {"keys": [2, 3, 4, 5], "pow": [3, 1, 1, 1]}
    w["valsets"]["F"] = {"keys": [6, 7, 8], "pow": [1, 1, 1], "stored": True}    # known to the validator store
    hdr = w["hdr"]
    hdr["A1"]["nvs"] = "W"
    hdr["B1"]["nvs"] = "G"
    hdr["A2"] = {"h": 2, "prev": "A1", "vs": "W", "nvs": "G", "pcpR": 0, "pcpPkh": "G", "pcp": {"A1": ok(1, 2, 3)}, "data": "A2"}
    hdr["B2"] = {"h": 2, "prev": "A1", "vs": "G", "nvs": "G", "pcpR": 0, "pcpPkh": "G", "pcp": {"A1": ok(1, 2, 3)}, "data": "B2"}   # claims the old set
    V = singles("precommit", 1, 0, ("A1",), ((1, 2, 3), (1, 2), (3,))) + singles("prevote", 1, 0, ("A1",), ((1, 2, 3),))
    V += [vote("precommit", 2, 0, {"A2": ok(1, 2)}, "W"), vote("precommit", 2, 0, {"A2": ok(1,)}, "W"), vote("precommit", 2, 0, {"A2": ok(2, 3, 4)}, "W"),
          vote("prevote", 2, 0, {"A2": ok(1, 2)}, "W"), vote("precommit", 2, 0, {"A2": ok(1, 2, 3)}, "G"), vote("precommit", 2, 0, {"B2": ok(1, 2, 3)}, "G"),
          vote("precommit", 2, 0, {"A2": ok(1, 2, 3)}, "F")]
    # a future round of the voting height, claimed for (and signed by) a set that is not the height's
    for kind in ("prevote", "precommit"):
        V += [vote(kind, 1, 2, {"A1": ok(1, 2, 3)}, "F"), vote(kind, 1, 3, {"nil": ok(1, 2)}, "W"), vote(kind, 1, 2, {"A1": ok(1, 2)}, "G"),
              vote(kind, 2, 2, {"A2": ok(1, 2, 3)}, "G"), vote(kind, 2, 2, {"A2": ok(1, 2, 3)}, "F")]
    w["votes"] = S(V)
    w["phs"] = S([ph("A1", 0, 1), ph("A2", 0, 2), ph("B2", 0, 2), ph("A2", 0, 5), ph("A2", 0, 1)])
    w["replays"] = S([replay("A1", 0, {"A1": ok(1, 2, 3)}), replay("A2", 0, {"A2": ok(1, 2)}), replay("B2", 0, {"B2": ok(1, 2, 3)})])
    w.update(SM_DEFAULT)
    w["smentr"] = S([{"h": 1, "r": 0, "pub": 2}, {"h": 2, "r": 0, "pub": 2}, {"h": 2, "r": 0, "pub": 1}])
    w["smvotes"] = S([{"kind": "precommit", "target": "A1"}, {"kind": "precommit", "target": "A2"}])
    return w


def world_consumers():
    """C11: few inputs, state machine entrances at every position, both readers at any speed."""
    w = base_world()
    V = []
    for kind in ("prevote", "precommit"):
        V += singles(kind, 1, 0, ("A1",), ((1, 2), (3,)))
        V += singles(kind, 1, 0, ("nil",), ((1, 2, 3),))
        V += singles(kind, 1, 1, ("nil",), ((1,), (2, 3)))
    V += singles("precommit", 2, 0, ("A2",), ((1, 2, 3),))
    w["votes"] = S(V)
    w["phs"] = S([ph("A1", 0, 1), ph("A2", 0, 1)])
    w["replays"] = S([])
    w["smentr"] = S([{"h": 1, "r": 0, "pub": 4}, {"h": 1, "r": 1, "pub": 4}, {"h": 1, "r": 2, "pub": 4}, {"h": 2, "r": 0, "pub": 4}])
    w["smvotes"] = S([{"kind": "prevote", "target": "A1"}, {"kind": "precommit", "target": "A1"}, {"kind": "precommit", "target": "nil"}])
    return w


def world_focus_rounds():
    """C11/C09/C04 (exhaustive cover): a height decided in round 0 or in round 1 after a nil round, late votes for the
    committing round, state machine entrances at every position, both consumers reading at any time."""
    w = base_world()
    V = [vote("precommit", 1, 0, {"nil": ok(1, 2, 3)}), vote("precommit", 1, 0, {"A1": ok(1, 2, 3)}), vote("precommit", 1, 0, {"A1": ok(4)}),
         vote("precommit", 1, 1, {"A1": ok(1, 2, 3)}), vote("precommit", 1, 1, {"A1": ok(4)}), vote("prevote", 1, 1, {"A1": ok(1, 2)}),
         vote("precommit", 1, 0, {"nil": ok(4)})]
    w["votes"] = S(V)
    w["phs"] = S([ph("A1", 0, 1), ph("A1", 1, 2), ph("A2", 0, 1)])
    w["replays"] = S([])
    w["smentr"] = S([{"h": 1, "r": 0, "pub": 4}, {"h": 1, "r": 1, "pub": 4}, {"h": 2, "r": 0, "pub": 4}])
    w["smvotes"] = S([{"kind": "precommit", "target": "A1"}])
    return w


def world_focus_chain():
    """C04/C10 (exhaustive cover): a header of the NEXT height that arrives while the node still votes on the height before it
    (HandleProposedHeader backfills the commit from the header's previous-commit proof and starts over): one that extends
    the block it commits (B2), one that names ANOTHER predecessor although its proof commits A1 (X2); a committing round that
    holds precommits for two targets when the next height's header brings a late precommit for one of them (the round store
    collection is rewritten); restarts after every write."""
    w = base_world()
    hdr = w["hdr"]
    hdr["X2"] = {"h": 2, "prev": "B1", "vs": "G", "nvs": "G", "pcpR": 0, "pcpPkh": "G", "pcp": {"A1": ok(1, 2, 3)}, "data": "X2"}
    V = [vote("precommit", 1, 0, {"A1": ok(1, 2, 3)}), vote("precommit", 1, 0, {"nil": ok(4)}),
         vote("precommit", 2, 0, {"X2": ok(1, 2, 3)}), vote("precommit", 2, 0, {"B2": ok(1, 2, 3)})]
    w["votes"] = S(V)
    w["phs"] = S([ph("A1", 0, 1), ph("B2", 0, 2), ph("X2", 0, 1)])
    w["replays"] = S([])
    w["smentr"] = S([{"h": 1, "r": 0, "pub": 4}])
    w["smvotes"] = S([])
    return w


def world_focus_valsets():
    """C07/C09/C06/C10 (exhaustive cover): the validator set shrinks at height 2 and grows back at height 3; late votes of the
    removed validator for the committing height; restarts at every height."""
    w = base_world()
    w["valsets"]["T"] = {"keys": [1, 2, 3], "pow": [1, 1, 1]}
    hdr = {}
    hdr["D1"] = {"h": 1, "prev": "gen", "vs": "G", "nvs": "T", "pcpR": 0, "pcpPkh": "none", "pcp": {}, "data": "D1"}
    hdr["D2"] = {"h": 2, "prev": "D1", "vs": "T", "nvs": "G", "pcpR": 0, "pcpPkh": "G", "pcp": {"D1": ok(1, 2, 3)}, "data": "D2"}
    hdr["D3"] = {"h": 3, "prev": "D2", "vs": "G", "nvs": "G", "pcpR": 0, "pcpPkh": "T", "pcp": {"D2": ok(1, 2, 3)}, "data": "D3"}
    w["hdr"] = hdr
    V = [vote("precommit", 1, 0, {"D1": ok(1, 2, 3)}), vote("precommit", 1, 0, {"D1": ok(4)}), vote("prevote", 1, 0, {"D1": ok(4)}),
         vote("precommit", 2, 0, {"D2": ok(1, 2, 3)}, "T"), vote("precommit", 2, 0, {"D2": ok(1, 2)}, "T"),
         vote("precommit", 3, 0, {"D3": ok(4)}, "G"), vote("prevote", 3, 1, {"D3": ok(1, 4)}, "G")]
    w["votes"] = S(V)
    w["phs"] = S([ph("D1", 0, 1), ph("D2", 0, 2), ph("D3", 0, 4)])
    w["replays"] = S([])
    w["smentr"] = S([{"h": 2, "r": 0, "pub": 1}, {"h": 3, "r": 0, "pub": 4}])
    w["smvotes"] = S([{"kind": "precommit", "target": "D2"}])
    return w


def world_focus_conc():
    """schedules (C04 C05 C06 C09): few votes for the voting and the next round that overlap in targets and signers, so that
    two callers between the two phases of Handle*Proofs conflict, complete a quorum together, or race a round change."""
    w = base_world()
    V = [vote("precommit", 1, 0, {"A1": ok(1, 2)}), vote("precommit", 1, 0, {"A1": ok(2, 3)}), vote("precommit", 1, 0, {"nil": ok(1, 2, 3)}),
         vote("precommit", 1, 1, {"nil": ok(1, 2)}), vote("precommit", 1, 0, {"A1": S([E(3), E(4, "flip")])}),
         # a vote for a FUTURE round: parked between the lookup (answer: future) and the add request while another
         # caller's votes move the voting round there or commit the height (Kernel.addFuture* looks the round up again)
         vote("prevote", 1, 2, {"nil": ok(4)}), vote("precommit", 1, 2, {"nil": ok(3)}),
         # two targets in one message: between its lookup and its add request another caller moves one target's version, so
         # the kernel applies the request PARTLY (one target accepted, one conflicting) and the caller's retry finds nothing new
         vote("precommit", 1, 0, {"A1": ok(3), "nil": ok(4)})]
    w["votes"] = S(V)
    w["phs"] = S([ph("A1", 0, 1), ph("A1", 1, 2)])
    w["replays"] = S([])
    w["smentr"] = S([{"h": 1, "r": 0, "pub": 4}])
    w["smvotes"] = S([])
    return w


def world_wide():
    """C09: every message class at every position relative to the node: heights 0..3, rounds 0..3, every
    proof shape, proposers inside/outside the set, replays for any height/round."""
    w = base_world()
    hdr = w["hdr"]
    hdr["A3"] = {"h": 3, "prev": "A2", "vs": "G", "nvs": "G", "pcpR": 0, "pcpPkh": "G", "pcp": {"A2": ok(1, 2, 3)}, "data": "A3"}
    hdr["Z0"] = {"h": 0, "prev": "bogus", "vs": "G", "nvs": "G", "pcpR": 0, "pcpPkh": "none", "pcp": {}, "data": "Z0"}
    hdr["N2"] = {"h": 2, "prev": "A1", "vs": "G", "nvs": "G", "pcpR": 1, "pcpPkh": "G", "pcp": {"A1": ok(1, 2, 3)}, "data": "N2"}   # commit proof of another round
    hdr["M2"] = {"h": 2, "prev": "A1", "vs": "G", "nvs": "G", "pcpR": 0, "pcpPkh": "G", "pcp": {"A1": ok(1, 2, 3), "nil": ok(4)}, "data": "M2"}
    hdr["K2"] = {"h": 2, "prev": "A1", "vs": "G", "nvs": "G", "pcpR": 0, "pcpPkh": "G", "pcp": {"A1": S([E(1), E(2), E(3), E(-1)])}, "data": "K2"}
    # headers of the initial height that carry a previous-commit proof although nothing precedes them
    hdr["P1"] = {"h": 1, "prev": "gen", "vs": "G", "nvs": "G", "pcpR": 0, "pcpPkh": "none", "pcp": {"X": ok(1, 2)}, "data": "P1"}
    hdr["Q1"] = {"h": 1, "prev": "gen", "vs": "G", "nvs": "G", "pcpR": 0, "pcpPkh": "G", "pcp": {"nil": ok(1, 2, 3)}, "data": "Q1"}
    byh = {0: "Z0", 1: "A1", 2: "A2", 3: "A3"}
    V = []
    for kind in ("prevote", "precommit"):
        for h in (0, 1, 2, 3):
            for r in (0, 1, 2, 3):
                t = byh[h]
                V.append(vote(kind, h, r, {t: ok(1, 2, 3)}))
                V.append(vote(kind, h, r, {"nil": ok(2)}))
                if r < 2:
                    V.append(vote(kind, h, r, {t: S([E(1), E(-1)])}))
                    V.append(vote(kind, h, r, {"X": S([E(3, "flip"), E(0), E(-3)])}))
                    V.append(vote(kind, h, r, {t: ok(1)}, pkh="bad"))
        V.append(vote(kind, 1, 0, {}))
    w["votes"] = S(V)
    P = []
    for l in ("Z0", "A1", "B1", "A2", "N2", "M2", "K2", "A3", "P1", "Q1"):
        for r in (0, 1, 2, 3):
            P.append(ph(l, r, 1))
        P.append(ph(l, 0, 5))
        P.append(ph(l, 0, 0))
        P.append(ph(l, 0, 2, sig="bad"))
    w["phs"] = S(P)
    R = []
    for l in ("Z0", "A1", "A2", "A3"):
        for r in (0, 1, 2):
            R.append(replay(l, r, {l: ok(1, 2, 3)}))
        R.append(replay(l, 0, {l: ok(1, 2)}))
        R.append(replay(l, 0, {l: S([E(1), E(2), E(-1)])}))
        R.append(replay(l, 0, {"nil": ok(1, 2, 3)}))
        R.append(replay(l, 0, {}))
    w["replays"] = S(R)
    w["smentr"] = S([{"h": h, "r": r, "pub": p} for h in (1, 2, 3) for r in (0, 1, 2) for p in (1, 0)])
    w["smvotes"] = S([{"kind": k, "target": t} for k in ("prevote", "precommit") for t in ("A1", "A2", "nil", "X")])
    return w


WORLDS = {"wide": world_wide, "consumers": world_consumers, "happy": world_happy, "adversarial": world_adversarial, "equivocation": world_equivocation,
          "equivocation_heavy": lambda: world_equivocation((3, 1, 1, 2)), "replay": world_replay, "valsets": world_valsets,
          "focus_rounds": world_focus_rounds, "focus_valsets": world_focus_valsets, "focus_conc": world_focus_conc,
          "focus_chain": world_focus_chain}


def to_sets(v):
    """JSON value -> TLA+ value where every list is a set (behaviour arguments only contain sets)."""
    if isinstance(v, dict):
        # ToJson renders an empty TLA+ function as []: these keys hold functions, not sets
        return {k: ({} if (k in ('proofs',) and x == []) else to_sets(x)) for k, x in v.items()}
    if isinstance(v, list):
        return S([to_sets(x) for x in v])
    return v


def with_stored(valsets):
    return {k: dict(v, stored=bool(v.get("stored", False))) for k, v in valsets.items()}


def write_world(w, rank, path, guide=None):
    g = [{"op": s["op"], "args": to_sets(s["args"]) if s["args"] not in (None, "null") else "null", "crashAt": s.get("crashAt", 0)}
         for s in (guide or [])]
    defs = {
        "W_Guide": g,
        "W_Valsets": with_stored(w["valsets"]), "W_Genesis": w["genesis"], "W_HDR": w["hdr"], "W_Rank": rank,
        "W_VoteMsgs": w["votes"], "W_PHMsgs": w["phs"], "W_ReplayMsgs": w["replays"],
        "W_SMEntrances": w["smentr"], "W_SMVotes": w["smvotes"],
    }
    open(path, "w").write(module("MirrorWorld", defs))


def world_json(w):
    def conv(v):
        if isinstance(v, dict):
            return {k: conv(x) for k, x in v.items()}
        if isinstance(v, (list, tuple)):
            return [conv(x) for x in v]
        return v
    return conv(w)
