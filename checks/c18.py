"""C18 -- Byzantine thresholds are exact for every total power.
Thresholds.tla: TLAPS proof over unbounded Nat (n = 3q+r); ThresholdsMC: TLC exhaustive for small n and
table export; Go functions bound to the spec by table replay, boundary/prefix/random characterisation in
math/big, and trace validation of recorded triples (ThresholdsTrace)."""
import json, os, re, shutil, subprocess
import vlib

META = {
    "level": "proof",
    "text": "TLAPS proves over unbounded Nat (n = 3q+r, the shape of math.go) that Maj is the least m with 3m>2n, Min the least m with 3m>=n, Maj<=n (no 64-bit overflow), quorum overlap >= Min and that a set below Min can neither form nor block a majority; TLC re-checks the literal least-m search exhaustively for small n; the Go functions are bound to the proved definitions by replaying the TLC-exported table, by evaluating the proved characterisation in math/big on an exhaustive prefix, all power-of-two/2^64 boundaries and seeded 64-bit values, and by validating recorded Go triples with ThresholdsTrace.tla. Proof is the right level because the quantifier is all of [1,2^64-1].",
    "note": "Trusted: tlapm+SMT/Zenon/Isabelle, TLC, Go's uint64 Euclidean division (links n/3,n%3 to n=3q+r); the Go<->spec link beyond 2^24 is by boundary and random sampling, not proof.",
    "technique": "TLA+ spec with TLAPS proof + TLC exhaustive bounded instance + table replay and trace validation against the Go functions",
    "design_ref": "DESIGN.md section 5, C18",
}


def run(ctx):
    quick = ctx.quick()
    # 1. proof
    wd = ctx.path("tlaps", "x"); wd = os.path.dirname(wd)
    shutil.copy(os.path.join(vlib.SPEC, "Thresholds.tla"), wd)
    cmd = "tlapm --threads %d --cleanfp Thresholds.tla" % vlib.NCPU
    p = subprocess.run(["timeout", "600"] + cmd.split(), cwd=wd, stdout=subprocess.PIPE, stderr=subprocess.STDOUT, text=True)
    m = re.search(r"All (\d+) obligations? proved", p.stdout)
    if not m:
        raise vlib.Inconclusive("tlapm did not prove Thresholds.tla:\n" + p.stdout[-3000:])
    obligations = int(m.group(1))
    ctx.log("tlapm: %d obligations proved" % obligations)

    # 2. TLC exhaustive on the bounded instance
    r1 = ctx.tlc("ThresholdsMC", "Thresholds_mc.cfg", timeout=600, defines={"NMax": 400 if quick else 1500})
    r2 = ctx.tlc("ThresholdsMC", "Thresholds_big.cfg", timeout=1200, defines={"NMax": 200000 if quick else 3000000})
    ctx.log("TLC: literal-search instance %d states, arithmetic instance %d states" % (r1["distinct"], r2["distinct"]))

    # 3. table export (spec -> code)
    r3 = ctx.tlc("ThresholdsMC", "Thresholds_emit.cfg", timeout=600, defines={"NMax": 3000 if quick else 30000})
    rows = ctx.tlc_emitted(r3)
    if len(rows) < 100:
        raise vlib.Inconclusive("table export produced %d rows" % len(rows))
    tin = ctx.path("table.ndjson")
    with open(tin, "w") as f:
        for r in rows:
            f.write(json.dumps(r) + "\n")

    # 4. Go harness on /repo's working tree
    ov = ctx.harness_overlay("tm/tmconsensus", only=("zz_verif_c18",))
    out, trace = ctx.path("out.ndjson"), ctx.path("trace.ndjson")
    env = {"VERIF_IN": tin, "VERIF_OUT": out, "VERIF_TRACE": trace, "VERIF_SEED": str(ctx.seed),
           "VERIF_PREFIX": str(1 << 20 if quick else 1 << 24), "VERIF_RANDOM": str(200000 if quick else 3000000),
           "VERIF_TRACE_N": str(2000 if quick else 20000)}
    rc, o = ctx.go_test("tm/tmconsensus", "^TestVerifC18$", env=env, overlay=ov, timeout=1200)
    recs = vlib.read_ndjson(out)
    summ = [r for r in recs if r.get("kind") == "summary"]
    if rc != 0 or not summ:
        raise vlib.Inconclusive("C18 harness failed rc=%s\n%s" % (rc, o[-3000:]))
    summ = summ[0]
    mism = [r for r in recs if r.get("kind") == "mismatch"]
    for r in mism:
        ctx.violation("ThresholdExact", "ByzantineMajority/ByzantineMinority", r.get("src"),
                      "Go thresholds disagree with Thresholds.tla: %s" % json.dumps(r), replay_obj=r)

    # 5. code -> spec trace validation
    tv = 0
    if not mism:
        rt = ctx.tlc("ThresholdsTrace", "Thresholds_trace.cfg", workers=1, timeout=600, copy={trace: "trace.ndjson"},
                     allow_violation=True)
        if rt["violated"]:
            ctx.violation("ThresholdExact", "ByzantineMajority/ByzantineMinority", "trace",
                          "a triple recorded from the Go functions is rejected by ThresholdsTrace.tla",
                          replay_obj={"tlc_tail": rt["lines"][-30:]})
        else:
            tv = 1
    for r in rows[:3]:
        ctx.sample({"spec_table_row": r})
    tl = vlib.read_ndjson(trace)
    for r in tl[-3:]:
        ctx.sample({"go_triple_validated_by_spec": r})
    ctx.assumptions += ["Go uint64 / and % are Euclidean division (n = 3*quo + rem, rem in 0..2): links math.go to the (q,r) form proved",
                        "tlapm 1.6.0-pre with its SMT/Zenon/Isabelle back ends is sound",
                        "Go function linked to the proved definition by exhaustive prefix n<=2^20 (2^24 thorough), +-64 around every power of two, 4096 values below 2^64-1 and seeded random 64-bit values"]
    cov = {
        "obligations": obligations, "discharged": obligations, "checker_cmd": cmd,
        "trusted_base": ["tlapm 1.6.0-pre (SMT: Z3, Zenon, Isabelle)", "TLC 1.8.0", "Go integer division semantics", "math/big"],
        "states": ctx.tlc_states, "transitions": ctx.tlc_transitions,
        "traces_validated_against_impl": tv,
        "evaluations": summ["table_rows"] + summ["characterised"] + summ["trace_rows"],
        "distinct_nontrivial": summ["distinct"],
        "rule": "every n checked against the proved characterisation in 128-bit-safe arithmetic; distinct_nontrivial = number of distinct n (counted in a set by the harness) checked against the characterisation",
        "go_table_rows_compared": summ["table_rows"], "go_triples_validated_by_tlc": summ["trace_rows"],
        "exhaustive": False,
    }
    return ctx.finish("proof", extra_cov=cov)
