"""C11 -- view consumers see strictly newer, growing views and end up current."""
import vlib, mirrorcheck

META = {
    "level": "model_checking",
    "text": "Mirror.tla models the two view managers (round entrance, lastSentVersion, jump-ahead, outgoing view; per-view sent markers and the nil-voted round) and makes every send to the state machine and to gossip a separate action that is enabled only when the kernel offers a value, so any relative speed of the consumers is an interleaving of RecvSM/RecvGossip with the inputs; TLC explores them and the behaviours are replayed on a real Mirror whose two unbuffered output channels are read exactly when the behaviour says. On the real values received the harness checks per (height, round) strictly increasing versions, that proposals and signer sets only grow, that a nil-committed round's final precommits reach gossip, and - after inputs stop and both channels are drained - that each consumer's last received view has the content of the mirror's current view of every round it is entitled to. Generation: simulation plus an exhaustive state cover of the focused rounds world (a height decided in round 0 or in round 1 after a nil round, late votes, state machine entrances at every position, both consumers reading at any time); after a divergence the free run still reaches the quiescence predicates; the repository's own tests run under the invariant monitor (views only grow).",
    "note": "Concurrent-caller stage (MirrorConcMC.tla on world focus_conc): an add request that the kernel applies PARTLY (one target accepted, another conflicting) must still reach both consumers; the quiescence predicates are evaluated at the end of every interleaving. " +
             "The other stages deliver one Handle* call at a time. Liveness is checked in its finite form (drain at the end of every behaviour). Bounded as C01.",
    "technique": "TLA+ spec (Mirror.tla view managers) + TLC bounded exploration of consumer interleavings + replay on the real Mirror with checks on the values actually received on StateMachineRoundViewOut / GossipStrategyOut",
}


def run(ctx):
    q = ctx.quick()
    plans = [
        {"world": "focus_rounds", "cover": True, "steps": 6 if q else 7, "avoid": True, "crash": False},
        # concurrent callers: an add request applied partly (one target accepted, another conflicting) still has to reach both consumers
        {"world": "focus_conc", "conc": True, "steps": 6 if q else 7, "cap": None if q else 80000},
        {"world": "consumers", "sim": 6 if q else 40, "steps": 9 if q else 12, "avoid": True, "cap": 350 if q else 5000, "seeds": 1 if q else 3},
        {"world": "happy", "sim": 3 if q else 20, "steps": 8 if q else 10, "avoid": True, "cap": 150 if q else 3000, "seeds": 1 if q else 2},
    ]
    design = [("Mirror_c11.cfg", {"MaxSteps": 5 if q else 6}, "C11_SMFresh, C11_GossipFresh on every reachable state of the consumers world")]
    return mirrorcheck.run(ctx, {"C11"}, plans, design_cfgs=design, suite="mirror")
