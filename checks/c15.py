"""C15 -- block hashes bind all header fields; sign bytes are domain separated.
HashSign.tla: abstract header / sign-target shape space with the canonical serialization the shipped
schemes write; TLC checks injectivity of the design on the space and exports every enumerated case;
the Go harness evaluates HashDiffers / HashIgnoresHashFieldAndOrder / SignBytesDistinct on the REAL
SimpleHashScheme / SimpleSignatureScheme outputs; HashSignTrace.tla validates the kernel of the real
functions against the specification (code -> spec)."""
import json, os
import vlib

META = {
    "level": "other",
    "text": "Level 'other' (spec-enumerated cases instantiated on the code). HashSign.tla models a header as a record over 2-4 value domains per field (incl. every entry of the previous-commit proof: block key, key id, signature; nil/empty/non-empty annotations; the stored Hash) and the canonical labelled-field serialization SimpleHashScheme.Block feeds to BLAKE2b, and sign targets (kind,height,round,hash|nil) / proposal contents with SimpleSignatureScheme's content. TLC checks exhaustively on that space that the design serialization is injective modulo the Hash field (action property over every single-field edit, all-pairs on the radius-1 ball, all pairs of 536 sign items) and exports every single-field-difference pair, permutation case and sign item. The Go harness instantiates each exported case under several seeded valuations of the abstract constants (prefix-related, one-bit-apart, max-width values), computes the REAL hashes / sign bytes and evaluates the predicates on them, adds seeded random pairs over the full product, all-pairs collision detection on everything hashed, and byte-level boundary-shift cases derived from the spec's field order. A trace of (abstract value, class of real output) is validated by TLC: real equality must coincide with equality of the spec serialization.",
    "note": "Limit: inequality of real hashes is observed on enumerated pairs only; BLAKE2b-256 collision resistance is assumed (a collision of the hash function itself would be reported as a violation). Validator sets are bound through their PubKeyHash/VotePowerHash (well-formed sets only; list-vs-hash agreement is C07). Proposals are identified by the content the scheme signs, not by the block hash.",
    "technique": "TLA+ shape-space spec checked by TLC + exported cases instantiated on the real hash/signature schemes + TLC validation of the real functions' kernel",
    "design_ref": "DESIGN.md section 5, C15",
}

EXPLANATION = ("Technique level 'other': the TLA+ module fixes the abstract domain and the design-level property (injective canonical "
               "serialization), TLC enumerates the domain exhaustively and exports the cases, and the verdict comes from evaluating the "
               "predicates on real SimpleHashScheme/SimpleSignatureScheme outputs for every exported case plus seeded random cases. "
               "This is case enumeration bound to a spec, not a proof: it shows that no enumerated field (or commit-proof entry) edit, "
               "permutation, or sign-target pair collides on the real code; it assumes BLAKE2b collision resistance and does not cover "
               "values outside the instantiated valuations.")


def replay(ctx):
    """bin/check C15 --replay out/C15/replay-*.json : re-run exactly that case on the real schemes (no evidence written)."""
    d = json.load(open(ctx.replay))
    rp = d.get("replay") or {}
    strip = lambda h: {k: v for k, v in h.items() if k != "Hash"}
    if "h1" in rp and "h2" in rp:
        me = json.dumps(strip(rp["h1"]), sort_keys=True) == json.dumps(strip(rp["h2"]), sort_keys=True)
        cases = [{"op": "pair", "base": 0, "field": rp.get("field", "replay"), "kind": rp.get("edit", "replay"), "h1": rp["h1"], "h2": rp["h2"],
                  "must_equal": me, "exp_equal_design": me, "exp_equal_asis": me}]
    elif "a" in rp and "b" in rp:
        cases = [{"op": "sign", "item": rp["a"]}, {"op": "sign", "item": rp["b"]}]
    elif "h1" in rp and "order" in rp:
        cases = [{"op": "perm", "base": 0, "h1": rp["h1"], "orders": [rp["order"]]}]
    elif "x" in rp and "y" in rp:
        cases = [{"op": "serorder", "order": [rp["x"], rp["y"]]}]
    else:
        raise vlib.Inconclusive("replay file has no replayable case")
    tin = ctx.path("cases.ndjson")
    with open(tin, "w") as f:
        for c in cases:
            f.write(json.dumps(c) + "\n")
    pkg = "tm/tmconsensus/tmconsensustest"
    out = ctx.path("out.ndjson")
    env = {"VERIF_IN": tin, "VERIF_OUT": out, "VERIF_TRACE": ctx.path("trace.ndjson"), "VERIF_SEED": str(ctx.seed),
           "VERIF_VALUATIONS": "3" if ctx.quick() else "6", "VERIF_RANDOM": "0", "VERIF_TRACE_N": "0", "VERIF_PERM_REPS": "50"}
    rc, o = ctx.go_test(pkg, "^TestVerifC15$", env=env, overlay=ctx.harness_overlay(pkg), timeout=900)
    recs = vlib.read_ndjson(out)
    if rc != 0 or not [r for r in recs if r.get("kind") == "summary"]:
        raise vlib.Inconclusive("C15 replay harness failed rc=%s\n%s" % (rc, o[-2000:]))
    return vlib_report(ctx, recs)


def vlib_report(ctx, recs):
    for r in recs:
        if r.get("kind") == "violation":
            ctx.violation(r["predicate"], r["site"], r["class"], r["what"], replay_obj=r.get("case"))
    for k in ctx.known_seen:
        print("KNOWN-FINDING: property=%s %s" % (ctx.pid, k["known"].get("what", k["what"])))
    for v in ctx.violations:
        print("VIOLATION property=%s replay=%s\n  %s" % (ctx.pid, v["replay"] or "-", v["what"]))
    if not ctx.violations and not ctx.known_seen:
        print("replayed case: every predicate held on the real code")
    return 1 if ctx.violations else 0


def run(ctx):
    if ctx.replay:
        return replay(ctx)
    quick = ctx.quick()
    # 1. design: serialization injective on the space (SigsBound=TRUE is the intended design; FALSE the as-is deviation,
    #    characterised exactly by KnownCollision)
    md = 2 if quick else 4
    r_design = ctx.tlc("HashSign", "HashSign_mc.cfg", timeout=1500, defines={"MaxDist": md})
    ctx.log("TLC design (both serialization variants characterised on every single-field step): %d states, %d transitions"
            % (r_design["distinct"], r_design["states"]))

    # 2. export cases
    r_emit = ctx.tlc("HashSign", "HashSign_emit.cfg", timeout=1800, defines={"MaxSigs": 1 if quick else 2, "MaxDist": 1})
    cases = ctx.tlc_emitted(r_emit)
    items = [c for c in cases if c.get("op") == "sign"]
    cases = [c for c in cases if c.get("op") != "sign"]
    ctx.log("TLC export: %d states; %d cases, %d sign items (pairwise distinct in the spec)" % (r_emit["distinct"], len(cases), len(items)))
    pairs = [c for c in cases if c.get("op") == "pair"]
    perms = [c for c in cases if c.get("op") == "perm"]
    if len(pairs) < 1000 or len(perms) < 10 or len(items) < 500:
        raise vlib.Inconclusive("export too small: %d pairs %d perms %d sign items" % (len(pairs), len(perms), len(items)))
    kinds = set((c["field"], c["kind"]) for c in pairs)
    need = {("pcp", k) for k in ("addkey", "delkey", "rekey", "addsig", "delsig", "chgsig", "chgkeyid")} | {("Hash", "set"), ("DataID", "set"), ("annUser", "set")}
    if not need <= kinds:
        raise vlib.Inconclusive("export misses edit kinds: %s" % sorted(need - kinds))
    tin = ctx.path("cases.ndjson")
    with open(tin, "w") as f:
        for c in cases + items:
            f.write(json.dumps(c) + "\n")

    # 3. Go harness on the real schemes
    pkg = "tm/tmconsensus/tmconsensustest"
    ov = ctx.harness_overlay(pkg)
    out, trace = ctx.path("out.ndjson"), ctx.path("trace.ndjson")
    env = {"VERIF_IN": tin, "VERIF_OUT": out, "VERIF_TRACE": trace, "VERIF_SEED": str(ctx.seed),
           "VERIF_VALUATIONS": "3" if quick else "6", "VERIF_RANDOM": "20000" if quick else "400000",
           "VERIF_TRACE_N": "250" if quick else "700", "VERIF_PERM_REPS": "50"}
    rc, o = ctx.go_test(pkg, "^TestVerifC15$", env=env, overlay=ov, timeout=1800)
    recs = vlib.read_ndjson(out)
    summ = [r for r in recs if r.get("kind") == "summary"]
    if rc != 0 or not summ:
        raise vlib.Inconclusive("C15 harness failed rc=%s\n%s" % (rc, o[-3000:]))
    summ = summ[0]
    if summ["pair_evals"] < len(pairs) or summ["sign_evals"] < len(items) or summ["perm_evals"] < len(perms):
        raise vlib.Inconclusive("harness did not execute every exported case: %s" % json.dumps(summ))
    for r in recs:
        if r.get("kind") == "violation":
            ctx.violation(r["predicate"], r["site"], r["class"], r["what"], replay_obj=r.get("case"))
        elif r.get("kind") == "panic":
            ctx.violation("Total", r["site"], "panic", "scheme panicked: %s" % r.get("what"), replay_obj=r.get("case"))
    bad = [r for r in recs if r.get("kind") == "mismatch"]
    if bad:
        raise vlib.Inconclusive("scheme returned errors: %s" % json.dumps(bad[:3]))

    # 4. code -> spec: kernel of the real functions == kernel of the spec serialization.  The spec variant is the one the
    #    code exhibits (as-is deviation PcpSigsNotHashed iff it was observed on the real code in this run).
    sigs_dev = any(v["fingerprint"]["class"] == "pcp.sigs" for v in ctx.violations + ctx.known_seen)
    tv = 0
    other_viol = [v for v in ctx.violations if v["fingerprint"]["class"] != "pcp.sigs"]
    rejected = None
    try:
        rt = ctx.tlc("HashSignTrace", "HashSign_trace.cfg", workers=1, timeout=1800, copy={trace: "trace.ndjson"},
                     defines={"SigsBound": "FALSE" if sigs_dev else "TRUE"}, allow_violation=True)
        if rt["violated"]:
            rejected = "\n".join(rt["lines"][-25:])
    except vlib.Inconclusive as ex:
        if "Postcondition" not in str(ex):
            raise
        rejected = str(ex)
    if rejected and not other_viol:
        # The spec's serialization is injective on the abstract header modulo the Hash field (and, in the as-is variant,
        # modulo the commit-proof signatures), so a rejected trace has a concrete witness among its rows: two headers
        # that must hash differently share a real hash, or one header got two real hashes.  Report the witness.
        def canon(h):
            h = json.loads(json.dumps(h))
            if isinstance(h, dict):
                h.pop("Hash", None)
                if sigs_dev and isinstance(h.get("pcp"), (dict, list)):
                    h["pcp"] = sorted(h["pcp"].keys()) if isinstance(h["pcp"], dict) else sorted(json.dumps(x.get("b", x) if isinstance(x, dict) else x) for x in h["pcp"])
            return json.dumps(h, sort_keys=True)
        rows = vlib.read_ndjson(trace)
        for op, key in (("hash", "h"), ("sign", "item")):
            by_cls, by_ser = {}, {}
            for r in rows:
                if r.get("op") != op or key not in r:
                    continue
                c, sr = r.get("cls"), canon(r[key])
                if c in by_cls and by_cls[c][0] != sr:
                    ctx.violation("HashDiffers" if op == "hash" else "SignBytesDistinct", "trace", "collision",
                                  "two different %s share one real output: %s and %s" % ("headers (modulo the Hash field)" if op == "hash" else "sign items", by_cls[c][0][:600], sr[:600]),
                                  replay_obj={"rows": [by_cls[c][1], r]})
                    break
                by_cls.setdefault(c, (sr, r))
                if sr in by_ser and by_ser[sr][0] != c:
                    ctx.violation("HashIgnoresHashFieldAndOrder" if op == "hash" else "SignBytesDistinct", "trace", "not-a-function",
                                  "the same %s produced two different real outputs: %s" % ("header (modulo the Hash field and map/slice order)" if op == "hash" else "sign item", sr[:600]),
                                  replay_obj={"rows": [by_ser[sr][1], r]})
                    break
                by_ser.setdefault(sr, (c, r))
        other_viol = [v for v in ctx.violations if v["fingerprint"]["class"] != "pcp.sigs"]
    if rejected:
        if not other_viol:
            # the spec cannot explain the kernel of the real functions but no property predicate failed on the harness side
            raise vlib.Inconclusive("HashSignTrace rejected the Go trace although no predicate failed:\n" + rejected[-2500:])
    else:
        tv = 1
    ctx.log("harness: %s" % json.dumps(summ))
    for c in pairs[:2]:
        ctx.sample({"tlc_pair": {"field": c["field"], "kind": c["kind"], "must_equal": c["must_equal"], "h2": c["h2"]}})
    for r in vlib.read_ndjson(trace)[:2]:
        ctx.sample({"go_row_validated_by_spec": r})
    ctx.sample({"harness_summary": summ})
    ctx.assumptions += ["BLAKE2b-256 is collision resistant (inequality of hashes is observed, equality of serializations is not inspected)",
                        "validator sets are bound through PubKeyHash/VotePowerHash of well-formed sets (lists vs hashes is C07)",
                        "proposal sign bytes are identified by the content SimpleSignatureScheme signs (height, round, PrevBlockHash, PrevAppStateHash, DataID, proposal annotations)"]
    evals = summ["pair_evals"] + summ["perm_evals"] + summ["random_evals"] + summ["framing_evals"] + summ["sign_pairs"]
    cov = {
        "evaluations": evals, "distinct_nontrivial": summ["distinct"],
        "rule": "one evaluation = one predicate evaluated on real outputs (pair of real hashes compared, permuted rebuild compared with reference, pair of real sign byte strings compared); distinct_nontrivial = distinct (abstract case, valuation) keys counted in a set by the harness",
        "tlc_states": ctx.tlc_states, "tlc_transitions": ctx.tlc_transitions,
        "exported_pairs": len(pairs), "exported_perm_cases": len(perms), "sign_items": len(items),
        "pair_evals": summ["pair_evals"], "perm_evals": summ["perm_evals"], "random_evals": summ["random_evals"],
        "framing_evals": summ["framing_evals"], "sign_pairs": summ["sign_pairs"], "valuations": summ["valuations"],
        "traces_validated_against_impl": tv, "trace_rows": summ["trace_rows"],
        "spec_variant_matching_code": "as-is (PcpSigsNotHashed)" if sigs_dev else "design",
        "exhaustive": False,
    }
    return ctx.finish("other", extra_cov=cov, explanation=EXPLANATION)
