"""C14 -- the wire codec round-trips every message and never panics on bytes.
Codec.tla: abstract message shape space, Encode/Decode over a JSON-tree model of tmjson, structural
corruption operators; TLC enumerates shapes x corruptions, checks RoundTripEq / VariantPreserved /
DecodeTotal on the design and exports every case; the Go harness instantiates each on the REAL
tmjson.MarshalCodec + gcrypto.Registry (every Marshal*/Unmarshal* method), adds seeded byte-level
mutations and direct Registry/ed25519 decoding; CodecTrace.tla validates outcomes observed on seeded
random shapes/corruptions against the specification (code -> spec)."""
import json, os
import vlib

META = {
    "level": "other",
    "text": "Level 'other' (spec-enumerated cases instantiated on the code). Codec.tla models a message as a shape (variant Header / ProposedHeader / CommittedHeader / Prevote- / PrecommitProof / the three ConsensusMessage variants x nil/empty/non-empty of every optional byte field and annotation x 0/1/2 validators in each set x 0/1/2 proof entries with 0/1/2 signatures incl. the nil block x numeric extremes 0/1/max), Encode as the JSON tree tmjson writes (tagged ConsensusMessage object, intermediate structs), Decode as encoding/json plus the tmjson conversions and Registry.Unmarshal do it, and structural corruption operators on the encoded tree (drop / null / wrong JSON type for every node, public-key encoding truncated to 0..8 bytes, unknown type prefix, short key body, negative / overflowing / fractional numbers, variant tag swapped / missing / doubled / null, truncated / empty / non-object / trailing-garbage document). TLC enumerates shapes (Hamming ball around a fully populated and an all-zero base) x corruptions, checks RoundTripEq, VariantPreserved and DecodeTotal on the design and exports every case with the predicted outcome per Unmarshal method. The Go harness instantiates every case with real ed25519 keys through the real registry on tmjson.MarshalCodec: round trip through the method of the variant compared on consensus-relevant fields (nil-vs-empty only where the shipped hash / signature scheme distinguishes it; block hash and proposal sign bytes of original and decoded value must agree), variant of decoded consensus messages, and all six Unmarshal methods under recover on every valid, structurally corrupted and seeded byte-mutated document, plus Registry.Unmarshal / Decode / NewEd25519PubKey on every prefix of a valid key encoding and seeded byte strings. Outcomes observed on seeded random shapes over the full product are validated by TLC against the spec's Decode.",
    "note": "Limit: 'arbitrary bytes' is covered only through the spec's structural corruption operators and seeded byte-level mutations (flip/replace/delete/insert/truncate/splice/base64-string and number-token replacement) of valid encodings derived from the enumerated shapes -- NOT all byte strings; decoder totality is observed, not proved. Only decoding is covered: a decoded public key of the wrong length is a value here (its later use is outside C14).",
    "technique": "TLA+ shape/corruption-space spec checked by TLC + exported cases instantiated on the real codec + TLC validation of observed decode outcomes",
    "design_ref": "DESIGN.md section 5, C14",
}

EXPLANATION = ("Technique level 'other': the TLA+ module fixes the abstract message/corruption space and a model of tmjson's Encode/Decode; "
               "TLC enumerates the space exhaustively within the stated radius, checks the three predicates on the model and exports every case; "
               "the verdict comes from the real codec: decode(encode(x)) compared with x on consensus-relevant fields, decoded variant, and "
               "panic-freedom of all six Unmarshal methods plus Registry/ed25519 decoding on every enumerated and seeded-mutated document. "
               "Limit: totality is claimed only for spec-enumerated structural corruptions and seeded byte mutations of valid encodings derived "
               "from those shapes, not for all byte strings; round-trip is claimed for the enumerated shapes under seeded valuations.")

NEED_OPS = ["shape:-", "corrupt:drop", "corrupt:null", "corrupt:retype", "corrupt:pk_trunc", "corrupt:pk_badprefix", "corrupt:pk_shortbody",
            "corrupt:num", "corrupt:doc", "corrupt:tag_swap", "corrupt:tag_two"]


def replay(ctx):
    """bin/check C14 --replay out/C14/replay-*.json : re-run exactly that case on the real codec (no evidence written)."""
    d = json.load(open(ctx.replay))
    rp = d.get("replay") or {}
    env = {"VERIF_REPLAY": "1", "VERIF_BYTE_MUTATIONS": "0", "VERIF_TRACE_N": "0", "VERIF_REGISTRY_RANDOM": "0", "VERIF_VALUATIONS": "3"}
    cases = []
    inner = rp.get("case") if isinstance(rp.get("case"), dict) else None
    if "input_b64" in rp:
        env["VERIF_REPLAY_REG_B64"] = rp["input_b64"]
        env["VERIF_REPLAY_REG"] = rp.get("call", "Registry.Unmarshal")
    elif inner and "corr" in inner and "shape" in inner:
        cases = [{"op": "corrupt", "base": 0, "shape": inner["shape"], "corr": inner["corr"], "exp_asis": {}, "exp_design": {}, "variant": "-"}]
    elif rp.get("src") == "byte-mutation" and rp.get("bytes_b64"):
        env["VERIF_REPLAY_BYTES_B64"] = rp["bytes_b64"]
    elif "shape" in rp or (inner and "variant" in inner):
        cases = [{"op": "shape", "base": 0, "shape": rp.get("shape") or inner, "corr": {"op": "-", "path": [], "arg": "-"},
                  "exp_asis": {}, "exp_design": {}, "variant": "-"}]
    else:
        raise vlib.Inconclusive("replay file has no replayable case")
    tin = ctx.path("cases.ndjson")
    with open(tin, "w") as f:
        for c in cases:
            f.write(json.dumps(c) + "\n")
    pkg = "tm/tmcodec/tmjson"
    out = ctx.path("out.ndjson")
    env.update({"VERIF_IN": tin, "VERIF_OUT": out, "VERIF_TRACE": ctx.path("trace.ndjson"), "VERIF_SEED": str(ctx.seed)})
    rc, o = ctx.go_test(pkg, "^TestVerifC14$", env=env, overlay=ctx.harness_overlay(pkg), timeout=900)
    recs = vlib.read_ndjson(out)
    if rc != 0 or not [r for r in recs if r.get("kind") == "summary"]:
        raise vlib.Inconclusive("C14 replay harness failed rc=%s\n%s" % (rc, o[-2000:]))
    for r in recs:
        if r.get("kind") == "violation":
            ctx.violation(r["predicate"], r["site"], r["class"], r["what"], replay_obj=r.get("case"))
    for k in ctx.known_seen:
        print("KNOWN-FINDING: property=%s %s" % (ctx.pid, k["known"].get("what", k["what"])))
    for v in ctx.violations:
        print("VIOLATION property=%s replay=%s\n  %s" % (ctx.pid, v["replay"] or "-", v["what"]))
    if not ctx.violations and not ctx.known_seen:
        print("replayed case: every predicate held on the real code")
    return 1 if ctx.violations else 0


def run(ctx):
    if ctx.replay:
        return replay(ctx)
    quick = ctx.quick()
    # 1. design + export in one TLC pass (both registry variants are characterised by the raw outcome "short")
    r = ctx.tlc("Codec", "Codec_mc.cfg", timeout=3000, defines={"MaxDist": 1 if quick else 2, "CorrDist": 0})
    cases = ctx.tlc_emitted(r)
    nstates = r["distinct"]
    if not quick:
        # corruptions of every shape at distance 1 from the bases, for one variant of each structural family
        r2 = ctx.tlc("Codec", "Codec_mc.cfg", timeout=3000, defines={"MaxDist": 1, "CorrDist": 1,
                     "Variants": '{"ProposedHeader", "CommittedHeader", "PrevoteProof", "CM.PrecommitProof"}'})
        seen = set(json.dumps(c, sort_keys=True) for c in cases)
        for c in ctx.tlc_emitted(r2):
            k = json.dumps(c, sort_keys=True)
            if k not in seen:
                seen.add(k)
                cases.append(c)
        nstates += r2["distinct"]
        del seen
    r = {"distinct": nstates}
    shapes = [c for c in cases if c["op"] == "shape"]
    corrs = [c for c in cases if c["op"] == "corrupt"]
    ctx.log("TLC: %d states; %d shapes, %d corrupted documents exported (design predicates hold on all)" % (r["distinct"], len(shapes), len(corrs)))
    if len(shapes) < 300 or len(corrs) < 2000:
        raise vlib.Inconclusive("export too small: %d shapes %d corruptions" % (len(shapes), len(corrs)))
    tin = ctx.path("cases.ndjson")
    with open(tin, "w") as f:
        for c in cases:
            f.write(json.dumps(c) + "\n")

    # 2. Go harness on the real codec
    pkg = "tm/tmcodec/tmjson"
    ov = ctx.harness_overlay(pkg)
    out, trace = ctx.path("out.ndjson"), ctx.path("trace.ndjson")
    env = {"VERIF_IN": tin, "VERIF_OUT": out, "VERIF_TRACE": trace, "VERIF_SEED": str(ctx.seed),
           "VERIF_VALUATIONS": "2" if quick else "3", "VERIF_BYTE_MUTATIONS": "40" if quick else "60",
           "VERIF_TRACE_N": "250" if quick else "2000", "VERIF_REGISTRY_RANDOM": "20000" if quick else "300000"}
    rc, o = ctx.go_test(pkg, "^TestVerifC14$", env=env, overlay=ov, timeout=3000)
    recs = vlib.read_ndjson(out)
    summ = [x for x in recs if x.get("kind") == "summary"]
    for x in recs:
        if x.get("kind") == "violation":
            ctx.violation(x["predicate"], x["site"], x["class"], x["what"], replay_obj=x.get("case"))
    if rc != 0 or not summ:
        if ctx.violations:
            # a crash after violations were recorded: report what was observed
            ctx.log("harness ended abnormally after recording violations rc=%s" % rc)
            return ctx.finish("other", extra_cov={"evaluations": 0, "distinct_nontrivial": 0, "rule": "harness crashed", "exhaustive": False},
                              explanation=EXPLANATION)
        raise vlib.Inconclusive("C14 harness failed rc=%s\n%s" % (rc, o[-3000:]))
    summ = summ[0]
    missing = [k for k in NEED_OPS if summ["ops_seen"].get(k, 0) == 0]
    if missing or summ["shape_evals"] < len(shapes) or summ["corrupt_evals"] < len(corrs):
        raise vlib.Inconclusive("harness did not execute every exported case / operator: missing=%s %s" % (missing, json.dumps(summ)))
    mism = [x for x in recs if x.get("kind") == "mismatch"]
    ctx.log("harness: %s" % json.dumps(summ))

    # 3. code -> spec: outcomes observed on random shapes/corruptions recomputed by the spec.  The registry variant is the
    #    one the code exhibits (as-is deviation RegistryShortKeyPanics iff a panic in Registry.Unmarshal was observed).
    short_panics = any("Registry).Unmarshal" in v["fingerprint"]["site"] for v in ctx.violations + ctx.known_seen)
    other_viol = [v for v in ctx.violations if "Registry).Unmarshal" not in v["fingerprint"]["site"]]
    tv, rejected = 0, None
    try:
        rt = ctx.tlc("CodecTrace", "Codec_trace.cfg", workers=1, timeout=3000, copy={trace: "trace.ndjson"},
                     defines={"RegistryChecksLength": "FALSE" if short_panics else "TRUE"}, allow_violation=True)
        if rt["violated"]:
            rejected = "\n".join(rt["lines"][-25:])
    except vlib.Inconclusive as ex:
        if "Postcondition" not in str(ex):
            raise
        rejected = str(ex)
    if not rejected:
        tv = 1
    if (mism or rejected) and not ctx.violations:
        # the specification does not describe what the code does, but no property predicate failed: not a violation
        raise vlib.Inconclusive("spec/code disagreement without a failed predicate: %d outcome mismatches, trace %s\n%s\n%s"
                                % (len(mism), "rejected" if rejected else "accepted", json.dumps(mism[:3])[:2500], (rejected or "")[-1500:]))

    ctx.sample({"tlc_shape_case": {"shape": shapes[0]["shape"]["variant"], "exp": shapes[0]["exp_asis"]}})
    pk = [c for c in corrs if c["corr"]["op"] == "pk_trunc"][:1]
    for c in pk + corrs[:1]:
        ctx.sample({"tlc_corrupt_case": {"variant": c["shape"]["variant"], "corr": c["corr"], "exp_asis": c["exp_asis"], "exp_design": c["exp_design"]}})
    for x in vlib.read_ndjson(trace)[:2]:
        ctx.sample({"go_row_validated_by_spec": {"variant": x["shape"]["variant"], "corr": x["corr"], "outs": x["outs"]}})
    ctx.sample({"harness_summary": {k: v for k, v in summ.items() if k != "ops_seen"}})
    ctx.assumptions += ["byte strings offered to the decoders are those derived from the enumerated shapes by the spec's structural operators and by seeded byte-level mutations; other byte strings are not covered",
                        "consensus-relevant equality: byte fields modulo nil/empty except annotations (nil vs empty changes the block hash / proposal sign bytes under the shipped schemes); nil map == empty map; validator order, powers, keys, proof key sets and signature order exact"]
    evals = summ["shape_evals"] + summ["decode_calls"] + summ["registry_calls"] + summ["registry_roundtrips"]
    cov = {
        "evaluations": evals, "distinct_nontrivial": summ["distinct"],
        "rule": "one evaluation = one round trip compared field-wise on the real codec, or one Unmarshal / Registry call under recover; distinct_nontrivial = distinct (shape), (shape, corruption), registry prefix and trace-row keys counted in a set by the harness (byte-mutated documents are not counted as distinct)",
        "tlc_states": ctx.tlc_states, "tlc_transitions": ctx.tlc_transitions,
        "exported_shapes": len(shapes), "exported_corruptions": len(corrs),
        "roundtrips": summ["shape_evals"] + summ["random_roundtrips"], "corrupt_docs": summ["corrupt_evals"],
        "decode_calls": summ["decode_calls"], "byte_mutation_docs": summ["byte_mutation_docs"], "registry_calls": summ["registry_calls"],
        "traces_validated_against_impl": tv, "trace_rows": summ["trace_rows"],
        "spec_variant_matching_code": "as-is (RegistryShortKeyPanics)" if short_panics else "design",
        "exhaustive": False,
    }
    return ctx.finish("other", extra_cov=cov, explanation=EXPLANATION)
