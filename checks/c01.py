"""C01 -- a header is committed only on a valid >2/3 precommit certificate."""
import vlib, mirrorcheck

META = {
    "level": "model_checking",
    "text": "Mirror.tla models the kernel, the caller side of Handle*, replay and the stores action by action; TLC checks CommitHasCert (every committed header carries authentic precommits of > 2/3 of the chain-prescribed set for exactly its height, round and hash) exhaustively on bounded histories of proposals, votes, replayed headers (wrong set, wrong round, forged or insufficient certificates) and state machine actions; TLC-generated behaviours are replayed on a real tmmirror.Mirror with real ed25519 signatures, the projected real state is compared with the spec after every step and the predicate is re-evaluated on the REAL committed-header store, committing view and round-entrance responses by an oracle that verifies every signature itself against the set the chain prescribes. Generation: TLC simulation on curated worlds plus an exhaustive state cover of the focused validator-set world; predicate failures and divergences must reproduce on a second replay; after a divergence the run continues as a free run in which only the predicates are evaluated; the repository's own tests run under an invariant monitor evaluating the same state predicate inside the kernel goroutine.",
    "note": "Bounded: N=4 (+ foreign keys), heights 1..2, rounds 0..2, curated message universes (checks/mirror_worlds.py); behaviours by TLC simulation, not all paths. Trusted: TLC, the harness oracle (crypto/ed25519 via gcrypto.PubKey.Verify, SimpleSignatureScheme sign bytes), tmmemstore as the store.",
    "technique": "TLA+ spec (Mirror.tla) + TLC exhaustive bounded check + replay of TLC behaviours on the real Mirror with per-step state comparison and real-state predicate evaluation",
}


def run(ctx):
    q = ctx.quick()
    plans = [
        {"world": "focus_valsets", "cover": True, "steps": 6 if q else 7, "avoid": True},
        {"world": "replay", "sim": 4 if q else 25, "steps": 7 if q else 9, "avoid": True, "cap": 260 if q else 3000, "seeds": 1 if q else 3},
        {"world": "happy", "sim": 3 if q else 20, "steps": 7 if q else 10, "avoid": True, "cap": 200 if q else 3000, "seeds": 1 if q else 3},
    ]
    if not q:
        plans.append({"world": "valsets", "sim": 20, "steps": 9, "avoid": True, "cap": 3000, "seeds": 2})
    design = [("Mirror_c01.cfg", {"MaxSteps": 5 if q else 6}, "C01_CommitHasCert on every reachable state")]
    return mirrorcheck.run(ctx, {"C01"}, plans, design_cfgs=design, suite="mirror")
