"""C05 -- only authentic votes enter views, stores and gossip; all-invalid messages are inert."""
import vlib, mirrorcheck

META = {
    "level": "model_checking",
    "text": "Mirror.tla carries every signature entry with its authenticity class; TLC checks that a vote message without any authentic entry changes no view and no store and is not reported accepted (C05_Inert) over every corruption class (bit flip, other key, other kind/round/target/height, out-of-range and malformed key ids, unknown block hash, wrong validator-set hash) for voting, next-round, committing and future rounds; the behaviours are replayed on a real Mirror with real signatures and an oracle re-verifies EVERY signature held in the three views, the previous-commit proofs, the round store, committed-header proofs and every NetworkViewUpdate handed to gossip against the validator set the chain prescribes, and checks inertness on the real views/stores. Generation additionally: the concurrent-caller driver (MirrorConcMC.tla) replayed with the verifGate hook, validator sets already known to the validator store with future-round votes claimed for them, another validator's authentic signature re-filed under a different key id; the repository's own tests run under the invariant monitor (every signature of every view re-verified).",
    "note": "Bounded as C01. Trusted: TLC, the oracle's own verification (gcrypto.PubKey.Verify over SimpleSignatureScheme sign bytes with the harness's key table).",
    "technique": "TLA+ spec (Mirror.tla) + TLC exhaustive bounded check over corruption classes + replay on the real Mirror with independent signature re-verification of all views, stores and gossip output",
}


def run(ctx):
    q = ctx.quick()
    plans = [
        {"world": "focus_conc", "conc": True, "steps": 6 if q else 7, "cap": None if q else 80000},
        {"world": "adversarial", "sim": 3 if q else 20, "steps": 7 if q else 9, "avoid": True, "cap": 280 if q else 4000, "seeds": 1 if q else 3},
        {"world": "replay", "sim": 3 if q else 20, "steps": 6 if q else 9, "avoid": True, "cap": 150 if q else 2000, "seeds": 1 if q else 2},
    ]
    plans.append({"world": "valsets", "sim": 3 if q else 20, "steps": 7 if q else 9, "avoid": True, "cap": 200 if q else 3000, "seeds": 1 if q else 2})
    if not q:
        plans.append({"world": "happy", "sim": 20, "steps": 10, "avoid": True, "cap": 3000, "seeds": 2})
    design = [("Mirror_c05.cfg", {"MaxSteps": 3 if q else 4}, "C05_Inert (action property) over the adversarial vote universe")]
    return mirrorcheck.run(ctx, {"C05"}, plans, design_cfgs=design, suite="mirror")
