"""C06 -- vote power accounting counts every validator exactly once.
VoteSummary.tla models the two proof maps of a round view (signature bit set per target), the stored
VoteSummary rewritten by Set<kind>Powers after every admitted vote (transcribed loop, any map iteration
order), newVoteDistribution, GetStepFromVoteSummary and the kernel's threshold tests on the totals.
TLC checks the C06 predicates exhaustively on the intended design, lists the states where the tree AS IT
IS (deviation D1: total summed per block) breaks them, and exports every enumerated proof-map state and
simulated behaviours with the expected summaries.  Three Go harnesses instantiate every exported state /
behaviour with real ed25519 signature proofs and run the real functions; VoteSummaryTrace.tla re-reads
what the real code returned (including seeded random larger cases) and re-evaluates every predicate."""
import json, os, random, re, threading
import vlib

META = {
    "level": "model_checking",
    "text": "TLC exhaustively checks, for every proof-map state of up to 4 validators x 3-4 targets (several power vectors incl. a heavy validator and totals not divisible by 3; both vote kinds together for 2-3 validators), that the summary computed by the transcribed Set*Powers loop equals the recount from the signatures (available, per-target, total-once, most-voted with lexicographic tie-break, independent of map iteration order) and that signers below the Byzantine minority cannot alone reach the round-jump, delay-timeout, 100%-present or any later-step threshold. Every enumerated state and simulated arrival order is instantiated with real ed25519 signature proofs and run through the real VoteSummary.Set*Powers, newVoteDistribution and GetStepFromVoteSummary; the real outputs, plus seeded random cases up to 7 validators, are validated back against the spec by TLC. The kernel stage also replays validator-set worlds in which the total power changes from height to height, the exhaustive cover of the focused validator-set world and the concurrent-caller driver; the repository's own tests run under the invariant monitor (summary = recount on every view after every kernel step).",
    "note": "The Mirror-kernel consequence (a real Mirror jumping rounds / advancing on 100% present) is checked by replaying MirrorMC behaviours of the equivocation worlds on a real Mirror. uint64 overflow of the sums is out of TLC's range and not covered. Proofs are SimpleCommonMessageSignatureProof over the round's own validator keys (bits beyond len(vals) cannot occur).",
    "technique": "TLA+ spec + TLC exhaustive (design and as-is variants) + state/behaviour replay on the real Go functions with real signatures + TLC trace validation of recorded results",
    "design_ref": "DESIGN.md section 5, C06",
}

INV = ("TypeOK SumIsCoded AvailableIsSum BlockPowerIsSigners TotalCountsOnce MostVotedIsOracle OrderIndependent "
       "MinorityCannotSkip MinorityNotFull StepConsequences DistIsRecount")
KINDS = ("prevote", "precommit")
SITE = {"prevote": "SetPrevotePowers", "precommit": "SetPrecommitPowers"}


def gen_cfg(ctx, name, configs, torder, dc, invariants, maxlen=0, view=True, constraint=None):
    txt = "CONSTANTS\n  Configs <- %s\n  TOrder <- %s\n  DoubleCount = %s\n  MaxLen = %d\nINIT Init\nNEXT Next\n" % (
        configs, torder, "TRUE" if dc else "FALSE", maxlen)
    if view:
        txt += "VIEW view\n"
    txt += "INVARIANTS %s\n" % invariants
    if constraint:
        txt += "CONSTRAINT %s\n" % constraint
    txt += "CHECK_DEADLOCK FALSE\n"
    p = ctx.path("cfg", name)
    open(p, "w").write(txt)
    return p


def cls_of(equiv, perblock, total, k):
    if not equiv[k]:
        return "no-equivocation"
    return "equivocation/per-block-sum" if total == perblock[k] else "equivocation/other"


def model_asis_and_behaviours(ctx, quick, rnd, states):
    # ------------------------------------------------------------------ 2. TLC, the tree as it is (D1)
    r = ctx.tlc("VoteSummaryMC", "VoteSummary_asis.cfg", timeout=1500)
    bad = ctx.tlc_emitted(r, tag="BAD")
    st = ctx.tlc_emitted(r)
    states += st
    badcount = {}
    for b in bad:
        for p in b["bad"]:
            badcount[p] = badcount.get(p, 0) + 1
    ctx.log("TLC as-is (DoubleCount): %d states, design-level counterexamples per invariant: %s" % (r["distinct"], badcount))
    if not bad:
        raise vlib.Inconclusive("as-is model shows no counterexample: the deviation is not modelled")
    ctx.sample({"tlc_asis_counterexample_state": bad[0]})

    # ------------------------------------------------------------------ 3. behaviours (arrival orders)
    nbeh = 120 if quick else 1200
    r = ctx.tlc("VoteSummaryMC", "VoteSummary_emit.cfg", timeout=900, workers=4,
                simulate="num=%d" % max(2, nbeh // 40), depth=16, extra=["-seed", str(ctx.seed)])
    behs = ctx.tlc_emitted(r)
    rnd.shuffle(behs)
    behs = behs[:nbeh]
    if len(behs) < 20:
        raise vlib.Inconclusive("behaviour export produced %d behaviours" % len(behs))
    ctx.log("TLC simulation: %d behaviours of %d steps exported" % (len(behs), len(behs[0]["steps"])))

    return badcount, behs


def run(ctx):
    quick = ctx.quick()
    rnd = random.Random(ctx.seed)

    # ------------------------------------------------------------------ 1. TLC, intended design
    # (the .cfg files in spec/ are the quick-tier instances; other instances are generated from the same text)
    JOINT_INV = "TypeOK SumIsCoded TotalCountsOnce MostVotedIsOracle MinorityCannotSkip MinorityNotFull StepConsequences"
    runs = [("C_quick", "TO3", INV, True)] if quick else [
        ("C_thoroughA", "TO3", INV, True), ("C_four", "TO4", INV, True), ("C_joint", "TO3", JOINT_INV, False)]
    if ctx.replay:
        runs = []
    states = []
    for i, (cfgs, to, inv, emit) in enumerate(runs):
        if quick:
            r = ctx.tlc("VoteSummaryMC", "VoteSummary_mc.cfg", timeout=3000, heap="8g")   # spec/VoteSummary_mc.cfg is this instance
        else:
            g = gen_cfg(ctx, "mc%d.cfg" % i, cfgs, to, False, inv + (" EmitState" if emit else ""))
            r = ctx.tlc("VoteSummaryMC", "mc%d.cfg" % i, timeout=3000, copy={g: "mc%d.cfg" % i}, heap="8g")
        st = ctx.tlc_emitted(r)
        ctx.log("TLC design %s/%s: %d distinct states, %d generated, %.0fs; invariants hold (%s); %d states exported"
                % (cfgs, to, r["distinct"], r["states"], r["wall"], inv, len(st)))
        if emit and len(st) != r["distinct"]:
            raise vlib.Inconclusive("state export incomplete: %d lines for %d states" % (len(st), r["distinct"]))
        states += st
    design_states = ctx.tlc_states

    badcount, behs = {}, []
    if ctx.replay:
        # --replay <file written by ctx.violation>: run exactly that proof-map state on the real code and
        # let VoteSummaryTrace evaluate the predicates on what comes back
        rp = json.load(open(ctx.replay))["replay"]
        st = rp.get("state") or {}
        pw = rp.get("pow")
        if not st or not pw:
            raise vlib.Inconclusive("replay file has no state/pow")
        states = [{"pow": pw, "votes": st["votes"], "keys": st["keys"]}]
    else:
        badcount, behs = model_asis_and_behaviours(ctx, quick, rnd, states)

    # ------------------------------------------------------------------ 4. input for the Go harnesses
    ntrace_states = 300 if quick else 5000
    pick = set(rnd.sample(range(len(states)), min(ntrace_states, len(states))))
    tin = ctx.path("in.ndjson")
    with open(tin, "w") as f:
        for i, s in enumerate(states):
            s["trace"] = i in pick
            f.write(json.dumps(s) + "\n")
        for b in behs:
            f.write(json.dumps(b) + "\n")
    nrandom = 200 if quick else 3000
    if ctx.replay:
        nrandom, pick = 0, {0}

    # ------------------------------------------------------------------ 5. run the real code
    pkgs = {"tmconsensus": ("tm/tmconsensus", "^TestVerifC06$"),
            "tmi": ("tm/tmengine/internal/tmmirror/internal/tmi", "^TestVerifC06Dist$"),
            "tsi": ("tm/tmengine/internal/tmstate/internal/tsi", "^TestVerifC06Step$")}
    # only this check's files (+ the shared helper package): other checks' harness files that live in the same
    # package directories are not compiled in
    mapping = {}
    for pkg in [p for p, _ in pkgs.values()] + ["internal/verifc06", "internal/verifcommon"]:
        d = os.path.join(vlib.HARNESS, pkg)
        for f in sorted(os.listdir(d)):
            if f.endswith(".go") and (f.startswith("zz_verif_c06") or pkg == "internal/verifcommon"):
                mapping[os.path.join(pkg, f)] = os.path.join(d, f)
    ov = ctx.overlay(mapping)
    res = {}

    def go(name):
        pkg, run_re = pkgs[name]
        env = {"VERIF_IN": tin, "VERIF_OUT": ctx.path("out-%s.ndjson" % name), "VERIF_TRACE": ctx.path("trace-%s.ndjson" % name),
               "VERIF_SEED": str(ctx.seed), "VERIF_RANDOM": str(nrandom), "VERIF_REPS": "4" if quick else "6"}
        res[name] = ctx.go_test(pkg, run_re, env=env, overlay=ov, timeout=2400) + (env,)

    ths = [threading.Thread(target=go, args=(n,)) for n in pkgs]
    [t.start() for t in ths]
    [t.join() for t in ths]

    summ, mism, nviol_go = {}, [], 0
    for name in pkgs:
        rc, o, env = res[name]
        recs = vlib.read_ndjson(env["VERIF_OUT"])
        s = [x for x in recs if x.get("kind") == "summary"]
        if rc != 0 or not s:
            raise vlib.Inconclusive("C06 harness %s failed rc=%s\n%s" % (name, rc, o[-3000:]))
        summ[name] = s[0]
        nviol_go += s[0].get("violations", 0)
        for x in recs:
            k = x.get("kind")
            if k == "violation":
                ctx.violation(x["predicate"], x["site"], x["class"], "[%s harness, real code] %s; powers %s, votes %s"
                              % (name, x["what"], x.get("pow"), json.dumps((x.get("state") or {}).get("votes"))), replay_obj=x)
            elif k == "panic":
                ctx.violation("NoPanic", name, "panic", "real code panicked: %s" % x.get("what"), replay_obj=x)
            elif k == "mismatch":
                mism.append(x)
        ctx.log("harness %s: %s" % (name, json.dumps({k: v for k, v in s[0].items() if k != "kind"})))

    # vacuity: the harnesses really ran everything that was exported
    nexp = len(states) + sum(len(b["steps"]) for b in behs)
    for name, s in summ.items():
        if ctx.replay:
            break
        if s["cases"] < nexp + nrandom or not all(s["ops"].get(op, 0) > 0 for op in ("load", "vote", "entry")) \
                or not all(s["srcs"].get(x, 0) > 0 for x in ("state", "beh", "random")):
            raise vlib.Inconclusive("harness %s executed too little: %s (expected >= %d cases)" % (name, s, nexp + nrandom))

    # which model variant does the real code implement?
    va = sum(s["variant"].get("asis", 0) for s in summ.values())
    vf = sum(s["variant"].get("fixed", 0) for s in summ.values())
    vn = sum(s["variant"].get("neither", 0) for s in summ.values())
    variant = None
    if vn == 0 and va > 0 and vf == 0:
        variant = "asis"
    elif vn == 0 and vf > 0 and va == 0:
        variant = "fixed"
    ctx.log("real code equals model variant: %s (asis-only %d, fixed-only %d, neither %d cases)" % (variant, va, vf, vn))

    # ------------------------------------------------------------------ 6. code -> spec: trace validation
    tv, ntrace, nviol_tlc = 0, 0, 0
    parts = {n: {x["i"]: x for x in vlib.read_ndjson(res[n][2]["VERIF_TRACE"]) if "i" in x} for n in pkgs}
    events, incomplete = [], False
    for i in sorted(parts["tmconsensus"]):
        e = dict(parts["tmconsensus"][i])
        e.pop("i")
        if e["op"] != "reset":
            if i not in parts["tmi"] or i not in parts["tsi"]:
                # one harness recorded nothing for this event (a recovered panic, already reported)
                if ctx.violations:
                    incomplete = True
                    break
                raise vlib.Inconclusive("trace parts disagree at event %d" % i)
            e["obs"]["dist"] = parts["tmi"][i]["dist"]
            e["obs"]["step"] = parts["tsi"][i]["step"]
        events.append(e)
    # drop resets that are followed by another reset (no traced event in between)
    ev2 = [e for j, e in enumerate(events) if not (e["op"] == "reset" and (j + 1 == len(events) or events[j + 1]["op"] == "reset"))]
    ntrace = len(ev2)
    def validate(dc, tag):
        """Run VoteSummaryTrace over the recorded events (in chunks, each its own TLC).  Returns
        (chunks accepted, MISMATCH records, VIOL records) or raises Inconclusive."""
        nchunks = 1 if (quick or ctx.replay) else 8
        size = (len(ev2) + nchunks - 1) // nchunks
        chunks, cur = [], []
        for e in ev2:
            if len(cur) >= size and e["op"] == "reset":
                chunks.append(cur)
                cur = []
            cur.append(e)
        if cur:
            chunks.append(cur)
        out = {}

        def tv_run(ci):
            tf = ctx.path("trace-%s%d.ndjson" % (tag, ci))
            with open(tf, "w") as f:
                for e in chunks[ci]:
                    f.write(json.dumps(e) + "\n")
            cn = "tr%s%d.cfg" % (tag, ci)
            g = ctx.path("cfg", cn)
            open(g, "w").write(open(os.path.join(vlib.SPEC, "VoteSummary_trace.cfg")).read())
            try:
                out[ci] = ctx.tlc("VoteSummaryTrace", cn, workers=1, timeout=2400, copy={tf: "trace.ndjson", g: cn},
                                  defines={"DoubleCount": "TRUE" if dc else "FALSE"}, allow_violation=True)
            except vlib.Inconclusive as ex:
                out[ci] = ex

        ths = [threading.Thread(target=tv_run, args=(ci,)) for ci in range(len(chunks))]
        for t in ths:
            t.start()
        for t in ths:
            t.join()
        ok, tmis, viols = 0, [], []
        for ci in range(len(chunks)):
            rt = out[ci]
            if isinstance(rt, Exception):
                raise rt
            if rt["violated"] or not rt["ok"]:
                raise vlib.Inconclusive("trace not accepted by VoteSummaryTrace:\n" + "\n".join(rt["lines"][-30:]))
            tmis += ctx.tlc_emitted(rt, tag="MISMATCH")
            viols += ctx.tlc_emitted(rt, tag="VIOL")
            ok += 1
        return ok, tmis, viols

    tmis, viols, dc = [], [], None
    try:
        if ctx.replay:
            # no expectations were exported: find the model variant the recorded results conform to
            for dc in (True, False):
                tv, tmis, viols = validate(dc, "a" if dc else "f")
                if not tmis:
                    variant = "asis" if dc else "fixed"
                    break
        elif incomplete:
            ctx.log("trace incomplete (a harness panicked, reported above): trace validation skipped")
        elif variant is not None or ctx.violations:
            # validate against the variant the code implements; when undecided (a mutation), against the tree as it is
            dc = variant != "fixed"
            tv, tmis, viols = validate(dc, "")
    except vlib.Inconclusive as ex:
        if not ctx.violations:
            raise
        ctx.log("trace validation did not complete (%s); violations already established on the real code" % str(ex)[:300])
    for v in viols:
        nviol_tlc += 1
        k, o = v["kind"], v["obs"]
        if v["pred"].startswith("Dist"):
            cl = "any" if v["pred"] == "DistAvailableIsSum" else cls_of(v["equiv"], v["perblock"], o["dist"][k]["present"], k)
        elif k in KINDS:
            cl = cls_of(v["equiv"], v["perblock"], o["tot"][k], k)
        elif v["pred"] == "AvailableIsSum":
            cl = "any"
        else:
            cl = "no-equivocation"
            for kk in KINDS:
                c2 = cls_of(v["equiv"], v["perblock"], o["tot"][kk], kk)
                if c2 != "no-equivocation" and cl != "equivocation/other":
                    cl = c2
        ctx.violation(v["pred"], v["site"], cl,
                      "[TLC on the recorded real-code result, trace event %s] predicate %s is false on the observed summary %s"
                      % (v["line"], v["pred"], json.dumps(o)), replay_obj=v)
    if tmis and not ctx.violations:
        raise vlib.Inconclusive("recorded results differ from the specification's (%d events) without any C06 predicate failing: %s"
                                % (len(tmis), json.dumps(tmis[0])[:1500]))
    if dc is not None:
        ctx.log("trace validation: %d events in %d chunk(s) accepted by VoteSummaryTrace (variant %s), %d predicate failures printed"
                % (ntrace, tv, "as-is" if dc else "design", nviol_tlc))
    ctx.traces_validated = tv

    if (mism or variant is None) and not ctx.violations:
        raise vlib.Inconclusive("real code matches neither model variant on %d cases and no C06 predicate fails: %s"
                                % (len(mism), json.dumps(mism[0])[:1500] if mism else "(mixed variants)"))

    # ------------------------------------------------------------------ evidence
    ctx.sample({"exported_state_with_expectations": {k: states[0][k] for k in ("pow", "votes", "keys")}})
    if ev2:
        ctx.sample({"real_code_event_validated_by_spec": ev2[min(len(ev2) - 1, 5)]})
    ctx.assumptions += [
        "Thresholds.tla Maj/Min (proved, C18) are tmconsensus.ByzantineMajority/Minority",
        "proof bit sets only contain indices of the round's validators (proofs are created over the view's own key list)",
        "sums stay below 2^64 (TLC integers are 32 bit; overflow of the uint64 sums is not examined)",
        "TLC 1.8.0 / CommunityModules Json, SequencesExt are sound",
    ]
    cov = {
        "states": ctx.tlc_states, "transitions": ctx.tlc_transitions,
        "design_states": design_states,
        "asis_counterexample_states": badcount,
        "traces_validated_against_impl": tv, "trace_events_validated": ntrace,
        "behaviours_replayed": len(behs), "states_replayed": len(states), "random_cases": nrandom,
        "evaluations": sum(s["cases"] for s in summ.values()),
        "distinct_nontrivial": summ["tmconsensus"]["distinct"],
        "rule": "evaluations = events executed on the real functions by the three harnesses; distinct_nontrivial = distinct (power vector, proof-map state) pairs, counted in a set by the tm/tmconsensus harness, each compared field by field with the spec's recount",
        "real_code_variant": variant, "go_violation_records": nviol_go, "tlc_trace_predicate_failures": nviol_tlc,
        "exhaustive": True,
    }
    # ---- Mirror-kernel consequence: a real Mirror must not skip a round, start a delay or regard a round as
    # fully voted on the strength of validators holding less than a third of the power (MirrorMC behaviours
    # with one validator signing many targets, replayed on a real tmmirror.Mirror; summaries from VotingView)
    import mirrorcheck
    q = ctx.quick()
    plans = [
        {"world": "focus_conc", "conc": True, "steps": 6 if q else 7, "cap": None if q else 80000},
        {"world": "focus_valsets", "cover": True, "steps": 6 if q else 7, "avoid": True},
        {"world": "equivocation", "sim": 3 if q else 20, "steps": 7 if q else 9, "avoid": True, "cap": 220 if q else 3000, "seeds": 1 if q else 2},
        {"world": "equivocation_heavy", "sim": 3 if q else 20, "steps": 7 if q else 9, "avoid": True, "cap": 220 if q else 3000, "seeds": 1 if q else 2},
        # validator sets whose total power changes from height to height: the summary's available power follows the set
        {"world": "valsets", "sim": 3 if q else 20, "steps": 7 if q else 9, "avoid": True, "cap": 200 if q else 3000, "seeds": 1 if q else 2},
    ]
    mcov, mismatches, inconcl = mirrorcheck.collect(ctx, {"C06"}, plans,
                                                    design_cfgs=[("Mirror_c06.cfg", {"MaxSteps": 4 if q else 5}, "C06_Recount on every reachable state of the equivocation world")])
    cov["mirror_level"] = {k: mcov[k] for k in ("design_checks", "behaviours_replayed_on_real_code", "steps_replayed",
                                                 "distinct_abstract_states_reached_on_real_code", "spec_vs_code_divergences")}
    # code -> spec direction: the repository's own tests run under the invariant monitor
    import suitemon
    cov.update(suitemon.run_suite(ctx, {"C06"}, kind="mirror"))
    rc = ctx.finish("model_checking", extra_cov=cov)
    return mirrorcheck.conclude(rc, mismatches, inconcl)
