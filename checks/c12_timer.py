"""C12 (b) -- the production round timer (StandardRoundTimer, roundtimer.go).
RoundTimer.tla models the background goroutine's two selects and the caller's getTimer / cancel; TLC
exhausts the interleavings for the repaired design (Dev = {}) and for the code as it is (named deviations);
the exported behaviours are projected to gated schedules and replayed on the real timer in child processes
(64x each: a Go select picks among ready cases at random), an ungated stress loop runs beside them, and the
recorded executions are validated by RoundTimerTrace.tla.

Used by the C12 check:  cov = c12_timer.collect(ctx)   (never calls ctx.finish).
Standalone:  python3 /verif/checks/c12_timer.py [--tier quick|thorough] [--seed N]
"""
import json, os, re, subprocess, sys, time
from concurrent.futures import ThreadPoolExecutor

if __name__ == "__main__":
    sys.path.insert(0, os.path.join(os.path.dirname(os.path.dirname(os.path.abspath(__file__))), "lib"))
import vlib

SITE = "StandardRoundTimer.background"
PKG = "tm/tmengine/internal/tmstate"
ASIS = '{"StartBeatsCancel", "TickBeatsCancel", "CloseNotAtomic"}'
BUG_MSG = "BUG: new timer requested before previous timer elapsed or was cancelled"
PREDICATES = ("RestartAfterCancelSucceeds", "CancelledNeverElapses", "FiresAtMostOnce", "NoLostStart")


# ------------------------------------------------------------------------------------------------
# spec -> schedules
def project(beh):
    """One TLC behaviour (hist of start/serve/cancel/observe/pick) -> the gated schedule the harness can
    force: caller steps in order, and for every execution of the running-select the set of cases that are
    ready when it runs.  The case the select takes is NOT part of a schedule (Go decides at random)."""
    hist = beh["hist"]
    picks = {e["k"]: e for e in hist if e["op"] == "pick"}
    steps = []
    for e in hist:
        op, k = e["op"], e.get("k")
        if op == "start":
            short = k in picks and "tick" in picks[k]["ready"]
            steps.append({"op": "start", "k": k, "dur": "short" if short else "long"})
        elif op == "serve":
            steps.append({"op": "startRet", "k": k})
        elif op == "cancel":
            steps.append({"op": "cancel", "k": k})
        elif op == "observe":
            if k in picks and picks[k]["ready"] == ["tick"]:
                steps.append({"op": "waitElapsed", "k": k})
        elif op == "pick":
            ready = sorted(e["ready"])
            steps.append({"op": "release", "k": k, "ready": ready})
            if "start" in ready:
                steps.append({"op": "startRet", "k": k + 1})
    return steps


def schedule_classes(steps):
    out = set()
    for s in steps:
        if s["op"] == "release":
            out.add("+".join(s["ready"]))
    return sorted(out)


def death_class(stage):
    """Abstract input class of a schedule stage in which the process died with the BUG panic."""
    if stage is None:
        return "unattributed"
    if stage.get("at") == "stress":
        return "cancel-then-start" if stage.get("prev") in ("cancelled", "cancelled-gap", "traced") else "start-after-" + str(stage.get("prev"))
    ready = stage.get("ready") or []
    if stage.get("variant") == "early":
        return "cancel-then-start/select-waiting"
    if stage.get("at") == "release" and "cancel" in ready and "start" in ready:
        return "cancel-then-start"
    if stage.get("at") == "release":
        return "select-with-" + "+".join(ready)
    return "start-after-cancel-settled"   # the goroutine had all the time to consume the cancellation / elapse


# ------------------------------------------------------------------------------------------------
def _tlc_parallel(ctx, jobs, workers):
    """jobs: list of (name, module, cfg, kwargs).  ctx.tlc derives its scratch dir from a listing of the
    scratch dir, which is not unique under concurrency: serialise the directory creation."""
    import threading, itertools
    lock, uniq, _path = threading.Lock(), itertools.count(), ctx.path

    def unique_path(*p):
        with lock:
            if p and p[0].startswith("tlc-"):
                p = ("%s-c12rt%d" % (p[0], next(uniq)),) + tuple(p[1:])
            return _path(*p)
    ctx.path = unique_path
    res = {}
    try:
        with ThreadPoolExecutor(max_workers=workers) as pool:
            futs = {name: pool.submit(ctx.tlc, module, cfg, **kw) for name, module, cfg, kw in jobs}
            for name, f in futs.items():
                res[name] = f.result()
    finally:
        ctx.path = _path
    return res


def _run_child(ctx, binary, env, timeout):
    e = vlib.goenv()
    e.update(env)
    cmd = ["timeout", str(int(timeout)), binary, "-test.run", "^TestVerifC12RT$", "-test.count", "1",
           "-test.timeout", "%ds" % int(timeout)]
    p = subprocess.run(cmd, cwd=os.path.join(vlib.REPO, PKG), env=e, stdout=subprocess.PIPE,
                       stderr=subprocess.STDOUT, text=True, errors="replace")
    return p.returncode, p.stdout


def _panic_kind(output):
    if BUG_MSG in output:
        return "bug"
    if "close of closed channel" in output:
        return "doubleclose"
    if "close of nil channel" in output:
        return "closenil"
    return None


def _append_died(trace_path, stage, kind):
    """The dying process cannot log its own death: add it to its trace if the dying repetition was traced."""
    evs = vlib.read_ndjson(trace_path)
    last_reset = None
    for e in evs:
        if e.get("ev") == "reset":
            last_reset = e
    if not last_reset or stage is None:
        return False
    if (last_reset.get("script"), last_reset.get("rep"), last_reset.get("variant")) != \
            (stage.get("script"), stage.get("rep"), stage.get("variant")):
        return False
    seq = max([e.get("seq", 0) for e in evs] or [0]) + 1
    with open(trace_path, "a") as f:
        f.write(json.dumps({"ev": "died", "why": kind, "seq": seq}) + "\n")
    return True


# ------------------------------------------------------------------------------------------------
def collect(ctx):
    quick = ctx.quick()
    t0 = time.time()
    cov = {"rt_samples": []}
    nv0 = len(ctx.violations)

    def sample(s, cap=8):
        if len(cov["rt_samples"]) < cap:
            cov["rt_samples"].append(s)

    # ---------------------------------------------------------------- 1. TLC: design, as-is design, export
    mt = 3 if quick else 4
    mt_emit = 2 if quick else 3
    tw = 2 if quick else 4
    heap = "1g" if quick else "4g"
    jobs = []
    for gt in ("sync", "legacy"):
        jobs.append(("design/" + gt, "RoundTimer", "RoundTimer_mc.cfg",
                     dict(workers=tw, heap=heap, timeout=900, defines={"MaxTimers": mt, "Dev": "{}", "GoTimer": '"%s"' % gt})))
        if gt == "legacy" and quick:
            continue
        jobs.append(("asis-envelope/" + gt, "RoundTimer", "RoundTimer_env.cfg",
                     dict(workers=tw, heap=heap, timeout=900, defines={"MaxTimers": mt, "Dev": ASIS, "GoTimer": '"%s"' % gt})))
    # the as-is model has not lost the defects (-continue: every violated invariant is reported; these
    # counterexamples are what gets replayed below)
    jobs.append(("asis-strict", "RoundTimer", "RoundTimer_strict.cfg",
                 dict(workers=1, heap=heap, timeout=600, allow_violation=True, extra=["-continue"], defines={"Dev": ASIS})))
    if not quick:
        # the "non-blocking check" repair alone still lets a cancelled timer elapse; each deviation alone
        for nm, dev in (("checkonly", '{"CloseNotAtomic"}'), ("startbeats", '{"StartBeatsCancel"}'), ("tickbeats", '{"TickBeatsCancel"}')):
            jobs.append((nm + "-strict", "RoundTimer", "RoundTimer_strict.cfg",
                         dict(workers=1, heap=heap, timeout=600, allow_violation=True, extra=["-continue"], defines={"Dev": dev})))
        jobs.append(("asis-ctx", "RoundTimer", "RoundTimer_ctx.cfg",
                     dict(workers=1, heap=heap, timeout=600, allow_violation=True, defines={"Dev": ASIS})))
    jobs.append(("emit/asis", "RoundTimer", "RoundTimer_emit.cfg",
                 dict(workers=tw, heap=heap, timeout=900, defines={"MaxTimers": mt_emit, "Dev": ASIS})))
    jobs.append(("emit/design", "RoundTimer", "RoundTimer_emit.cfg",
                 dict(workers=tw, heap=heap, timeout=900, defines={"MaxTimers": mt_emit, "Dev": "{}"})))
    st0, tr0 = ctx.tlc_states, ctx.tlc_transitions
    res = _tlc_parallel(ctx, jobs, workers=6)
    tlc_runs = []
    for name, _m, cfg, _kw in jobs:
        r = res[name]
        tlc_runs.append({"config": name, "cfg": cfg, "distinct": r.get("distinct"), "generated": r.get("states"),
                         "violated": bool(r["violated"]), "wall_s": round(r["wall"], 1)})
    def violated_invs(r):
        return sorted(set(re.findall(r"Invariant (\w+) is violated", r["out"])))
    expect = {"asis-strict": ["CancelledNeverElapses", "RestartAfterCancelSucceeds"], "checkonly-strict": ["CancelledNeverElapses"],
              "startbeats-strict": ["RestartAfterCancelSucceeds"], "tickbeats-strict": ["CancelledNeverElapses"]}
    for name, want in expect.items():
        if name in res and violated_invs(res[name]) != want:
            raise vlib.Inconclusive("RoundTimer.tla: config %s violates %s, expected %s" % (name, violated_invs(res[name]), want))
    for t in tlc_runs:
        if t["config"] in expect:
            t["violated_invariants"] = expect[t["config"]]
    # only the exhaustive passes count as states explored (emit runs re-explore with the history in the state)
    mc_states = sum(res[n].get("distinct", 0) for n in res if not n.startswith("emit/"))
    mc_trans = sum(res[n].get("states", 0) for n in res if not n.startswith("emit/"))
    ctx.tlc_states, ctx.tlc_transitions = st0 + mc_states, tr0 + mc_trans
    ctx.log("RoundTimer TLC: %s" % ", ".join("%s=%s%s" % (t["config"], t["distinct"], "(cex)" if t["violated"] else "") for t in tlc_runs))

    behs = ctx.tlc_emitted(res["emit/asis"]) + ctx.tlc_emitted(res["emit/design"])
    if len(behs) < 100:
        raise vlib.Inconclusive("RoundTimer behaviour export produced %d behaviours" % len(behs))
    seen = {}
    for b in behs:
        st = project(b)
        seen.setdefault(json.dumps(st, sort_keys=True), st)
    scripts = [{"idx": i, "steps": seen[k]} for i, k in enumerate(sorted(seen))]
    ready_sets = sorted({c for s in scripts for c in schedule_classes(s["steps"])})
    ctx.log("RoundTimer: %d behaviours -> %d schedules, ready sets at the running-select: %s" % (len(behs), len(scripts), ready_sets))
    for need in ("cancel", "tick", "cancel+start", "cancel+tick", "cancel+start+tick"):
        if need not in ready_sets:
            raise vlib.Inconclusive("exported schedules never make {%s} ready at the running-select" % need)
    if ctx.replay:
        rp = json.load(open(ctx.replay)).get("replay", {})
        if isinstance(rp, dict) and rp.get("schedule"):
            scripts = [{"idx": 0, "steps": rp["schedule"]["steps"]}]
    byidx = {s["idx"]: s for s in scripts}

    # ---------------------------------------------------------------- 2. build the child binary
    ov = ctx.harness_overlay(PKG, only=("zz_verif_c12rt",))
    binary = ctx.path("c12rt.test")
    ctx.go_test(PKG, "x", overlay=ov, compile_only=True, binary=binary, timeout=900)

    # ---------------------------------------------------------------- 3. gated replay in child processes
    reps = 64
    early_reps = 8 if quick else 24
    trace_reps = 1 if quick else 2
    nshards = min(8, max(1, vlib.NCPU // 2))
    shards = [[s for j, s in enumerate(scripts) if j % nshards == n] for n in range(nshards)]
    traces = []

    def run_shard(n, legacy=False):
        """Runs one shard to completion, restarting the child after every death.  Returns (records, deaths)."""
        mine = shards[n]
        if not mine:
            return [], []
        tagn = "%d%s" % (n, "L" if legacy else "")
        fin = ctx.path("shard%s-in.ndjson" % tagn)
        with open(fin, "w") as f:
            for s in mine:
                f.write(json.dumps(s) + "\n")
        frm, records, deaths, attempt = 0, [], [], 0
        while True:
            attempt += 1
            out, trace = ctx.path("shard%s-out-%d.ndjson" % (tagn, attempt)), ctx.path("shard%s-trace-%d.ndjson" % (tagn, attempt))
            env = {"VERIF_MODE": "scripts", "VERIF_IN": fin, "VERIF_OUT": out, "VERIF_TRACE": trace, "VERIF_FROM": str(frm),
                   "VERIF_REPS": str(reps), "VERIF_EARLY_REPS": str(early_reps), "VERIF_TRACE_REPS": str(trace_reps),
                   "VERIF_SEED": str(ctx.seed * 1000 + n)}
            if legacy:
                env.update({"GODEBUG": "asynctimerchan=1", "VERIF_TRACE_REPS": "0", "VERIF_REPS": "16", "VERIF_TICK_MS": "3"})
            rc, o = _run_child(ctx, binary, env, timeout=600 if quick else 1800)
            rs = vlib.read_ndjson(out)
            records.extend(rs)
            if os.path.exists(trace) and os.path.getsize(trace):
                traces.append(trace)
            if rc == 0 and any(r.get("kind") == "summary" for r in rs):
                return records, deaths
            if any(r.get("kind") == "violation" and r.get("class") == "timer-goroutine-wedged" for r in rs):
                # the child stopped itself after showing (goroutine stack) that the timer goroutine is stuck for good
                return records, deaths
            stages = [r for r in rs if r.get("kind") == "stage"]
            stage = stages[-1] if stages else None
            kind = _panic_kind(o)
            if kind is None or stage is None:
                errs = [r for r in rs if r.get("kind") == "error"]
                raise vlib.Inconclusive("C12 timer child (shard %d) failed rc=%s errs=%s\n%s" % (n, rc, errs[:3], o[-3000:]))
            _append_died(trace, stage, kind)
            deaths.append({"stage": stage, "kind": kind, "tail": o[-1500:]})
            frm = stage["script"] + 1
            if attempt > len(mine) + 2:
                raise vlib.Inconclusive("C12 timer child (shard %d) keeps dying" % n)

    t_replay = time.time()
    with ThreadPoolExecutor(max_workers=nshards) as pool:
        futs = [pool.submit(run_shard, n) for n in range(nshards)]
        if not quick:
            futs += [pool.submit(run_shard, n, True) for n in range(nshards)]
        shard_res = [f.result() for f in futs]

    # ---------------------------------------------------------------- 4. ungated stress in child processes
    t_stress = time.time()
    iters_target = 20000 if quick else 400000
    stress_records, stress_deaths, stress_counts, stress_iters = [], [], {}, {}

    def run_stress(label, gap_us, max_attempts, traced_inst, extra_env=None):
        """One flavour of the loop; restarts after a death and adds the iterations up."""
        done, attempt, died = 0, 0, 0
        while done < iters_target and attempt < max_attempts:
            attempt += 1
            out, trace, prog = (ctx.path("stress-%s-%s-%d.ndjson" % (label, x, attempt)) for x in ("out", "trace", "prog"))
            env = {"VERIF_MODE": "stress", "VERIF_OUT": out, "VERIF_TRACE": trace, "VERIF_PROGRESS": prog, "VERIF_GAP_US": str(gap_us),
                   "VERIF_ITERS": str(iters_target - done), "VERIF_TRACE_INST": str(traced_inst if attempt == 1 else 0),
                   "VERIF_SEED": str(ctx.seed * 7919 + attempt * 2 + (1 if gap_us else 0))}
            env.update(extra_env or {})
            rc, o = _run_child(ctx, binary, env, timeout=600 if quick else 1800)
            rs = vlib.read_ndjson(out)
            stress_records.extend(rs)
            pl = vlib.read_ndjson(prog)
            last = pl[-1] if pl else None
            summ = [r for r in rs if r.get("kind") == "summary"]
            if rc == 0 and summ:
                done += summ[0]["iters"]
                for k, v in summ[0].get("counts", {}).items():
                    stress_counts[k] = stress_counts.get(k, 0) + v
                if os.path.exists(trace) and os.path.getsize(trace):
                    traces.append(trace)
                break
            if any(r.get("kind") == "violation" and r.get("class") == "timer-goroutine-wedged" for r in rs):
                # the child showed (goroutine stack) that the timer goroutine is stuck for good and stopped itself
                done += (last or {}).get("i", 0)
                died += 1
                break
            if rc == 3 and any(r.get("kind") == "violation" and r.get("predicate") == "NoLostStart" for r in rs):
                done += (last or {}).get("i", 0)
                died += 1
                if died >= 2:
                    break
                continue
            kind = _panic_kind(o)
            if kind is None or last is None:
                errs = [r for r in rs if r.get("kind") == "error"]
                raise vlib.Inconclusive("C12 timer stress child failed rc=%s errs=%s\n%s" % (rc, errs[:3], o[-3000:]))
            died += 1
            if last.get("prev") != "traced":
                done += last.get("i", 0)
            else:
                # died in the traced prologue: the trace is a valid prefix, the death is its last event
                evs = vlib.read_ndjson(trace)
                with open(trace, "a") as f:
                    f.write(json.dumps({"ev": "died", "why": kind, "seq": max([e.get("seq", 0) for e in evs] or [0]) + 1}) + "\n")
                traces.append(trace)
            stress_deaths.append({"stage": {"at": "stress", "prev": last.get("prev"), "i": last.get("i"), "variant": "stress-" + label,
                                            "script": -2, "rep": last.get("i")}, "kind": kind, "tail": o[-1500:]})
        stress_iters[label] = {"iterations": done, "deaths": died}
        # vacuity: the loop ran, or every attempt ended in an attributed death (the as-is tree dies at once)
        if done < iters_target // 2 and died == 0:
            raise vlib.Inconclusive("stress loop %s reached only %d of %d iterations" % (label, done, iters_target))

    # back to back: cancel, then start at once;  spaced: a short pause lets the goroutine consume the cancellation
    run_stress("immediate", 0, 3 if quick else 6, 30 if quick else 300)
    run_stress("spaced", 60, 8 if quick else 30, 0)
    # the same loop with the pre-1.23 timer channel semantics a deployment can still select (GoTimer = "legacy")
    run_stress("spaced-legacy-timers", 60, 8 if quick else 30, 0, extra_env={"GODEBUG": "asynctimerchan=1"})
    iters_done = sum(v["iterations"] for v in stress_iters.values())
    t_end_go = time.time()

    # ---------------------------------------------------------------- 5. classify what the real code did
    records = [r for rs, _ in shard_res for r in rs] + stress_records
    deaths = [d for _, ds in shard_res for d in ds] + stress_deaths
    for d in deaths:
        stg = d["stage"]
        cl = death_class(stg)
        sched = byidx.get(stg.get("script"))
        if d["kind"] == "bug":
            what = ("RestartAfterCancelSucceeds: the process was killed by the timer goroutine's panic \"%s\" although the previous "
                    "timer's cancel() had returned (or its elapse had been observed) before the new timer was requested [%s; %s]"
                    % (BUG_MSG, cl, json.dumps({k: stg.get(k) for k in ("variant", "at", "k", "ready", "prev")})))
            ctx.violation("RestartAfterCancelSucceeds", SITE, cl, what, replay_obj={"stage": stg, "schedule": sched, "stderr_tail": d["tail"]})
        elif d["kind"] == "doubleclose":
            ctx.violation("FiresAtMostOnce", SITE, "double-close",
                          "FiresAtMostOnce: the timer goroutine closed an Elapsed channel twice (panic: close of closed channel) [%s]" % cl,
                          replay_obj={"stage": stg, "schedule": sched, "stderr_tail": d["tail"]})
        else:
            ctx.violation("RestartAfterCancelSucceeds", SITE, "close-nil/" + cl,
                          "RestartAfterCancelSucceeds: the process was killed by a panic in the timer code (close of nil channel) [%s]" % cl,
                          replay_obj={"stage": stg, "schedule": sched, "stderr_tail": d["tail"]})
    for r in records:
        if r.get("kind") != "violation":
            continue
        pred, cl = r.get("predicate"), r.get("class")
        if pred not in PREDICATES:
            raise vlib.Inconclusive("harness reported unknown predicate %r" % pred)
        ctx.violation(pred, SITE, cl, "%s on the real StandardRoundTimer [%s, %s run]: %s" % (pred, cl, r.get("variant"), r.get("detail")),
                      replay_obj={"record": r, "schedule": byidx.get(r.get("script"))})

    errs = [r for r in records if r.get("kind") == "error" or "_bad" in r]
    if len(ctx.violations) > nv0:
        # a predicate failed on the real code (and it is not a listed finding): that is the verdict; a run cut short
        # by it is not judged for completeness
        cov.update({"rt_child_deaths": len(deaths), "rt_harness_errors": errs[:3], "rt_tlc_runs": tlc_runs, "rt_states": mc_states,
                    "rt_transitions": mc_trans, "rt_schedules": len(scripts)})
        return cov
    if errs:
        raise vlib.Inconclusive("C12 timer harness could not drive the timer: %s" % json.dumps(errs[:3]))
    # vacuity: the harness really ran every schedule and every kind of step, and saw both sides of the coin
    srecs = [r for r in records if r.get("kind") == "script"]
    ran = {(r["script"], r["variant"]) for r in srecs if r.get("reps", 0) > 0}
    died_scripts = {d["stage"].get("script") for d in deaths}
    missing = [s["idx"] for s in scripts if (s["idx"], "parked") not in ran and s["idx"] not in died_scripts]
    if missing:
        raise vlib.Inconclusive("%d schedules were not executed (e.g. %s)" % (len(missing), missing[:5]))
    outcomes = {}
    notes = {}
    reps_done = 0
    for r in srecs:
        reps_done += r.get("reps", 0)
        for k, v in (r.get("outcomes") or {}).items():
            outcomes[k] = outcomes.get(k, 0) + v
        for k, v in (r.get("notes") or {}).items():
            notes[k] = notes.get(k, 0) + v
    ops_seen = {st["op"] for s in scripts for st in s["steps"]}
    if not {"start", "startRet", "cancel", "release", "waitElapsed"} <= ops_seen:
        raise vlib.Inconclusive("schedules lack step kinds: %s" % sorted(ops_seen))
    raced = [k for k in outcomes if k.startswith("cancel+start")]
    if reps_done < 10 * len(scripts) or not outcomes.get("cancel->cancel") or not outcomes.get("tick->tick") or not (raced or deaths):
        raise vlib.Inconclusive("gated replay too thin: %d repetitions, outcomes %s" % (reps_done, outcomes))

    # ---------------------------------------------------------------- 6. code -> spec
    tv, trace_events, accepted_by = _validate_traces(ctx, traces, quick)

    for s in scripts[:2]:
        sample({"schedule_from_TLC": s})
    for d in deaths[:2]:
        sample({"child_death": {"stage": d["stage"], "kind": d["kind"]}})
    cov.update({
        "rt_tlc_runs": tlc_runs, "rt_states": mc_states, "rt_transitions": mc_trans,
        "rt_behaviours_exported": len(behs), "rt_schedules": len(scripts), "rt_ready_sets": ready_sets,
        "rt_schedule_repetitions": reps_done, "rt_reps_per_schedule": reps, "rt_select_outcomes": outcomes,
        "rt_child_deaths": len(deaths), "rt_stress_iterations": iters_done, "rt_stress_runs": stress_iters, "rt_stress_counts": stress_counts,
        "rt_harness_notes": notes,
        "rt_traces_validated": tv, "rt_trace_events": trace_events, "rt_traces_explained_by": accepted_by,
        "rt_wall_s": {"tlc": round(t_replay - t0, 1), "replay": round(t_stress - t_replay, 1), "stress": round(t_end_go - t_stress, 1),
                      "trace_validation": round(time.time() - t_end_go, 1)},
    })
    ctx.traces_validated += tv
    return cov


def _validate_traces(ctx, traces, quick):
    """Concatenate the recorded executions and ask RoundTimerTrace.tla to explain them, first with the as-is
    deviations, then (for a repaired tree, whose select may serve a request directly) with Dev = {}."""
    evs = []
    for p in sorted(traces):
        evs.extend(e for e in vlib.read_ndjson(p) if "_bad" not in e)
    if not evs:
        raise vlib.Inconclusive("no trace events were recorded")
    cap = 6000 if quick else 60000
    if len(evs) > cap:
        # cut at a reset boundary
        cut = cap
        while cut < len(evs) and evs[cut].get("ev") != "reset":
            cut += 1
        evs = evs[:cut]
    norm = []
    for e in evs:
        norm.append({"ev": e.get("ev"), "op": e.get("op", "-"), "k": int(e.get("k", 0)), "pt": e.get("pt", "-"), "n": int(e.get("n", 0)),
                     "long": bool(e.get("long", False)), "closed": bool(e.get("closed", False)), "why": e.get("why", "-")})
    tf = ctx.path("rt-trace.ndjson")
    with open(tf, "w") as f:
        for e in norm:
            f.write(json.dumps(e) + "\n")
    maxk = max([e["k"] for e in norm] + [1])
    accepted = []
    last = None
    for name, dev in (("as-is", ASIS), ("repaired", "{}")):
        r = ctx.tlc("RoundTimerTrace", "RoundTimer_trace.cfg", workers=1, timeout=900, copy={tf: "trace.ndjson"}, allow_violation=True,
                    heap="2g" if quick else "8g", defines={"Dev": dev, "MaxTimers": max(2, maxk)})
        last = r
        ok = (not r["violated"]) and any("TRACE-ACCEPTED" in ln for ln in r["lines"])
        if ok:
            accepted.append(name)
            break
    if not accepted:
        hw = [ln for ln in last["lines"] if "TRACE-" in ln]
        if ctx.violations or ctx.known_seen:
            ctx.notes.append("RoundTimerTrace could not explain the recorded executions (%s); violations were observed directly" % hw[-1:])
            return 0, len(norm), []
        raise vlib.Inconclusive("RoundTimerTrace.tla explains the recorded executions neither with the as-is deviations nor without: %s" % hw[-2:])
    return 1, len(norm), accepted


if __name__ == "__main__":
    import argparse
    ap = argparse.ArgumentParser()
    ap.add_argument("--tier", default="quick", choices=["quick", "thorough"])
    ap.add_argument("--seed", type=int, default=int(os.environ.get("VERIF_SEED", "1") or 1))
    ap.add_argument("--replay", default=None)
    a = ap.parse_args()
    c = vlib.Ctx("C12", a.tier, a.seed, a.replay)
    rc = 0
    try:
        cv = collect(c)
        print(json.dumps(cv, indent=1, sort_keys=True)[:6000])
        for k in c.known_seen:
            print("KNOWN-FINDING: property=C12", k["known"].get("what", k["what"])[:300])
        for v in c.violations:
            print("VIOLATION property=C12", json.dumps(v["fingerprint"]), "replay=%s" % v["replay"])
            print("  " + v["what"][:600])
        rc = 1 if c.violations else 0
    except vlib.Inconclusive as e:
        print("INCONCLUSIVE property=C12:", e)
        rc = 2
    finally:
        if not os.environ.get("VERIF_KEEP"):
            c.cleanup()
    print("exit", rc, "wall %.1fs" % (time.time() - c.t0))
    sys.exit(rc)
