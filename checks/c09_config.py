"""C09, configuration clause and feedback-mapper clause (called from checks/c09.py; does not call ctx.finish).

(A) spec/Config.tla + ConfigMC.tla: TLC enumerates option sequences for tmengine.New / tmengine.NewMirror
    (all subsets of the required options, all subsets of the optional ones on a complete configuration, every
    single other value x every single missing option, orders that matter), checks NoPanic /
    ErrorListsEveryRejectedOption / InstanceOnlyIfComplete on the design and exports every sequence with the
    required outcome; harness/tm/tmengine/zz_verif_c09cfg_test.go builds the real []tmengine.Opt for each, calls
    the real constructor in child processes and evaluates the predicates on the real outcome.
(B) spec/Mapper.tla: the result enums and the mapping; harness/tm/tmconsensus/zz_verif_c09cfg_test.go drives both
    shipped mappers with every enum value found in the real source through all three Handle* methods.

    python3 -c "import sys; sys.path.insert(0,'/verif/lib'); sys.path.insert(0,'/verif/checks'); import vlib, c09_config; \
        ctx=vlib.Ctx('C09','quick',1); print(c09_config.collect(ctx)); print(ctx.violations, ctx.known_seen); ctx.cleanup()"
"""
import concurrent.futures, json, os, re, subprocess, sys, time
import vlib

VALNAMES = ["ok", "nil", "zero", "novals", "h0", "buffered", "nonempty"]
NSHARDS = int(os.environ.get("VERIF_C09_SHARDS", "8"))


def _spec_opts():
    """Option names in the order of `Opts == << ... >>` in spec/Config.tla (single source of truth)."""
    txt = open(os.path.join(vlib.SPEC, "Config.tla")).read()
    m = re.search(r"(?s)^Opts == <<(.*?)>>", txt, re.M)
    if not m:
        raise vlib.Inconclusive("cannot find Opts in Config.tla")
    return re.findall(r'"([A-Za-z]+)"', m.group(1))


def _rejects(o, v):
    """Option applications whose function is documented (opts.go) to refuse the value."""
    return (o, v) in (("LagStateChannel", "buffered"), ("MetricsChannel", "nonempty"))


# ------------------------------------------------------------------------------------------ (A) configuration
def _decode_cases(rows, opts):
    cases = []
    for n, r in enumerate(rows):
        applied = [[opts[x // 10 - 1], VALNAMES[x % 10]] for x in r["h"]]
        cases.append({
            "id": n, "fam": r["f"], "ctor": r["c"], "world": r["w"], "opts": applied,
            "exp": r["e"], "all": sorted(opts[i - 1] for i in r["m"]), "any": sorted(opts[i - 1] for i in r["n"]),
            "exp0": r["e0"], "all0": sorted(opts[i - 1] for i in r["m0"]), "any0": sorted(opts[i - 1] for i in r["n0"]),
            "as_out": r["ak"], "as_men": sorted(opts[i - 1] for i in r["am"]), "as_why": r["aw"],
            "spec_out": r["k"],
        })
    return cases


def _run_child(ctx, binary, cases, tag, settle_ms, timeout):
    """One child process over `cases`.  Returns dict(recs, ended {id: outcome signature}, last (id begun last),
    died, out).  The harness writes "b <id>" before and "e <id> <sig>" after every case, unbuffered."""
    fin, fout, fprog = ctx.path("cfg", tag + ".in"), ctx.path("cfg", tag + ".out"), ctx.path("cfg", tag + ".prog")
    for f in (fout, fprog):
        if os.path.exists(f):
            os.remove(f)
    with open(fin, "w") as f:
        for c in cases:
            f.write(json.dumps({k: c[k] for k in ("id", "ctor", "world", "opts", "exp", "all", "any", "exp0", "all0", "any0", "as_out", "as_men")}) + "\n")
    env = {"VERIF_IN": fin, "VERIF_OUT": fout, "VERIF_PROGRESS": fprog, "VERIF_SETTLE_MS": str(settle_ms),
           "VERIF_SEED": str(ctx.seed)}
    rc, out = ctx.go_test("tm/tmengine", "^TestVerifC09Config$", env=env, binary=binary, timeout=timeout)
    recs = vlib.read_ndjson(fout)
    done = any(r.get("kind") == "summary" for r in recs)
    last, ended = None, {}
    if os.path.exists(fprog):
        with open(fprog) as f:
            for ln in f:
                if ln.startswith("b "):
                    last = int(ln[2:])
                elif ln.startswith("e "):
                    _, i, sig = ln.rstrip("\n").split(" ", 2)
                    ended[int(i)] = sig
    return {"recs": [r for r in recs if r.get("kind") != "summary"], "ended": ended, "last": last,
            "died": rc != 0 or not done, "out": out}


def _crash_site(output):
    """First gordian frame of the goroutine that killed the child."""
    m = re.search(r"(?m)^(?:panic:|fatal error:).*$", output)
    head = m.group(0)[:300] if m else ""
    frames = re.findall(r"(?m)^(github\.com/gordian-engine/gordian/[^\s(]+(?:\(\*?[A-Za-z]+\))?[^\s(]*)\(", output)
    frames = [f.split("gordian/")[-1] for f in frames if "_test." not in f and "tmengine_test" not in f]
    return head, (frames[0] if frames else "?")


def _run_shard(ctx, binary, cases, tag, settle_ms):
    """Run a shard to completion.  A child death (panic in a goroutine started by a constructor) is attributed
    to a single case by re-running the last begun cases alone; the shard continues after it."""
    recs, ended, crashes = [], {}, []
    todo = list(cases)
    rounds = 0
    while todo:
        rounds += 1
        if rounds > 100:
            raise vlib.Inconclusive("C09 config harness: shard %s keeps dying (%d deaths)" % (tag, len(crashes)))
        r = _run_child(ctx, binary, todo, "%s-r%d" % (tag, rounds), settle_ms, timeout=900)
        recs += r["recs"]
        ended.update(r["ended"])
        if not r["died"]:
            break
        if r["last"] is None:
            raise vlib.Inconclusive("C09 config harness died before the first case:\n" + r["out"][-3000:])
        pos = [i for i, c in enumerate(todo) if c["id"] == r["last"]][0]
        culprit = None
        for back in range(0, min(pos, 3) + 1):   # the dying goroutine may belong to a slightly earlier case
            c = todo[pos - back]
            r1 = _run_child(ctx, binary, [c], "%s-r%d-iso%d" % (tag, rounds, back), 400, timeout=120)
            if r1["died"]:
                culprit = (c, r1["out"])
                break
        if culprit is None:
            raise vlib.Inconclusive("C09 config harness: child died around case %d but no single case reproduces it:\n%s"
                                    % (r["last"], r["out"][-3000:]))
        crashes.append(culprit)
        cid = culprit[0]["id"]
        ended.pop(cid, None)
        recs = [x for x in recs if x.get("id") != cid]
        todo = [c for c in todo[pos:] if c["id"] != cid and c["id"] not in ended]
    return recs, ended, crashes


def _final_val(case, field_opts):
    v = "unset"
    for o, val in case["opts"]:
        if o in field_opts and not _rejects(o, val):
            v = "unset" if val == "nil" else val
            if o == "TimeoutStrategy" and val == "nil":
                v = "nilstrat"
    return v


def _classify_panic(case, text, psite, crash=False):
    gen = _final_val(case, ("Genesis",))
    if case["ctor"] == "mirror" and psite.startswith("tmengine.With"):
        return "nil-smconfig:" + psite[len("tmengine."):]
    if "initial validator set is empty" in text:
        return "empty-validator-set"
    if "without any precommits" in text and gen in ("h0", "zero"):
        return "zero-initial-height"
    if case["ctor"] == "mirror" and psite.startswith("tmengine.NewMirror") and gen == "unset":
        return "nil-genesis"
    if crash and "StandardRoundTimer" in psite and any(o == "TimeoutStrategy" and v == "nil" for o, v in case["opts"]):
        return "nil-timeout-strategy"
    if crash and case["ctor"] == "mirror" and ("Watchdog" in psite or "mainLoop" in psite) and _final_val(case, ("Watchdog",)) == "unset":
        return "mirror-without-watchdog"
    if crash and "saveCurrentCommittingHeader" in psite and _final_val(case, ("CommittedHeaderStore",)) == "unset":
        return "no-committed-header-store"
    return "panic-at:" + psite


def _report(ctx, case, rec):
    site = "tmengine.New" if case["ctor"] == "engine" else "tmengine.NewMirror"
    really = set(rec.get("optrej") or [])                  # options whose function did return an error
    last_rejects = bool(rec.get("last_rejects"))           # the last option of the sequence is one of them
    replay = {"case": case, "observed": rec}
    optsdesc = " ".join("%s=%s" % (o, v) for o, v in case["opts"])

    def lost_class(l, prefix):
        if l in really:
            return "opt-error-then-opt-error" if last_rejects else "opt-error-then-valid-opt"
        return prefix + "With" + l

    for pred in rec.get("viol", []):
        if pred == "NoPanic":
            cls = _classify_panic(case, rec.get("text", ""), rec.get("psite", "?"), crash=rec.get("crash", False))
            what = "%s panics (%s at %s) for options [%s]" % (site, rec.get("text", "")[:200], rec.get("psite"), optsdesc)
            ctx.violation(pred, site, cls, what, replay_obj=replay)
        elif pred == "ErrorListsEveryRejectedOption":
            for l in rec.get("lost") or []:
                what = "%s returns an error that does not mention With%s (error: %r) for options [%s]" % (
                    site, l, rec.get("text", "")[:300], optsdesc)
                ctx.violation(pred, site, lost_class(l, "missing-not-reported:"), what, replay_obj=replay)
            if rec.get("lost_any"):
                what = "%s returns an error that mentions none of %s (error: %r) for options [%s]" % (
                    site, ",".join("With" + x for x in rec["lost_any"]), rec.get("text", "")[:300], optsdesc)
                ctx.violation(pred, site, "unusable-not-reported:" + ",".join("With" + x for x in sorted(rec["lost_any"])),
                              what, replay_obj=replay)
        elif pred == "InstanceOnlyIfComplete":
            for l in rec.get("lost") or []:
                what = "%s returns a running instance although With%s had to be reported, options [%s]" % (site, l, optsdesc)
                ctx.violation(pred, site, lost_class(l, "missing-required:"), what, replay_obj=replay)
            if rec.get("lost_any"):
                what = "%s returns a running instance although one of %s had to be reported, options [%s]" % (
                    site, ",".join("With" + x for x in rec["lost_any"]), optsdesc)
                ctx.violation(pred, site, "unusable-accepted:" + ",".join("With" + x for x in sorted(rec["lost_any"])),
                              what, replay_obj=replay)


def collect_config(ctx):
    quick = ctx.quick()
    t0 = time.time()
    opts = _spec_opts()
    tier = '"quick"' if quick else '"thorough"'
    # 1. design: exhaustive over the families, predicates + export
    res = ctx.tlc("ConfigMC", "Config_mc.cfg", timeout=600 if quick else 3000, defines={"Tier": tier}, workers=4 if quick else 16)
    rows = ctx.tlc_emitted(res)
    if len(rows) < 1000:
        raise vlib.Inconclusive("Config export produced only %d cases" % len(rows))
    bad_spec = [r for r in rows if r["k"] != r["e"]]   # CompleteGivesInstance / InstanceOnlyIfComplete restated on the export
    if bad_spec:
        raise vlib.Inconclusive("Config.tla design outcome differs from requirement for %d cases" % len(bad_spec))
    ctx.log("Config.tla design: %d distinct states, %d option sequences, %.0fs" % (res["distinct"], len(rows), res["wall"]))
    # 2. as-is deviations: TLC must find the counterexamples (documented defects of the unchanged tree)
    asis = ctx.tlc("ConfigMC", "Config_asis.cfg", timeout=300, defines={"Tier": tier}, allow_violation=True, workers=2)
    cases = _decode_cases(rows, opts)
    fams = sorted({c["fam"] for c in cases})

    # 3. real code
    ov = ctx.harness_overlay("tm/tmengine", only=("zz_verif_c09cfg",))
    binary = ctx.path("cfg", "tmengine.test")
    ctx.go_test("tm/tmengine", "", overlay=ov, compile_only=True, binary=binary, timeout=900)
    # cases for which the as-is model predicts the death of a goroutine run one per child
    risky = [c for c in cases if c["as_why"] in ("nil-timeout-strategy", "mirror-without-watchdog", "no-committed-header-store")]
    riskyids = {c["id"] for c in risky}
    rest = [c for c in cases if c["id"] not in riskyids]
    shards = [rest[i::NSHARDS] for i in range(NSHARDS)]
    recs, ended, crashes = [], {}, []
    with concurrent.futures.ThreadPoolExecutor(max_workers=NSHARDS) as ex:
        futs = [ex.submit(_run_shard, ctx, binary, sh, "s%d" % i, 50) for i, sh in enumerate(shards) if sh]
        rfuts = [ex.submit(_run_child, ctx, binary, [c], "iso%d" % c["id"], 400, 120) for c in risky]
        for f in futs:
            r, e, cr = f.result()
            recs += r
            ended.update(e)
            crashes += cr
        for c, f in zip(risky, rfuts):
            r = f.result()
            if r["died"]:
                crashes.append((c, r["out"]))
            else:
                recs += r["recs"]
                ended.update(r["ended"])
    byid = {c["id"]: c for c in cases}
    executed = len(ended) + len(crashes)
    counts, sigs, committed = {}, set(), 0
    for i, sig in ended.items():
        k = ":".join(sig.split("|")[:2])
        counts[k] = counts.get(k, 0) + 1
        sigs.add(sig)
        committed += sig.endswith("|committed")
    herr = [r for r in recs if r.get("kind") == "harness-error"]
    if herr:
        raise vlib.Inconclusive("C09 config harness error: %s" % json.dumps(herr[:3]))
    if executed != len(cases) or set(ended) | {c["id"] for c, _ in crashes} != set(byid):
        raise vlib.Inconclusive("C09 config harness executed %d of %d cases" % (executed, len(cases)))

    nviol, mismatches, explained = 0, [], 0
    for c, out in crashes:
        head, site = _crash_site(out)
        counts[c["ctor"] + ":crash"] = counts.get(c["ctor"] + ":crash", 0) + 1
        sigs.add("%s|crash||%s" % (c["ctor"], site))
        rec = {"id": c["id"], "outcome": "crash", "text": head, "psite": site, "viol": ["NoPanic"], "crash": True,
               "stderr_tail": out[-1500:]}
        if c["as_out"] == "panic":
            explained += 1
        _report(ctx, c, rec)
        nviol += 1
    for r in recs:
        if r.get("kind") != "case":
            continue
        c = byid[r["id"]]
        if r.get("viol"):
            nviol += 1
            if r.get("asis"):
                explained += 1
            _report(ctx, c, r)
        elif not r.get("design") or not r.get("wait_ok", True):
            mismatches.append({"case": c, "observed": r})
    for m in mismatches[:3]:
        ctx.sample({"config_mismatch": m})
    if mismatches and not ctx.violations:
        raise vlib.Inconclusive("Config.tla does not explain %d real outcomes (no predicate fails), e.g. %s"
                                % (len(mismatches), json.dumps(mismatches[0])[:1500]))
    # vacuity
    for k in ("engine:error", "engine:instance"):
        if counts.get(k, 0) == 0:
            raise vlib.Inconclusive("C09 config harness never observed outcome %s" % k)
    if committed == 0:
        raise vlib.Inconclusive("C09 config harness: no instance accepted the first-commit probe")
    inst = [c for c in cases if c["exp"] == "instance"]
    ctx.sample({"config_case": {k: cases[0][k] for k in ("fam", "ctor", "opts", "exp", "all", "any")}})
    if inst:
        ctx.sample({"config_case_complete": {k: inst[-1][k] for k in ("fam", "ctor", "world", "opts", "exp")}})
    cov = {
        "config_tlc_states": res["distinct"], "config_tlc_transitions": res["states"],
        "config_asis_model_violates": bool(asis["violated"]),
        "config_families": fams, "config_sequences": len(cases),
        "config_constructions_on_real_code": executed,
        "config_real_outcomes": counts, "config_instances_that_committed_first_block": committed, "config_distinct_real_outcomes": len(sigs),
        "config_cases_violating": nviol, "config_violations_matching_asis_model": explained,
        "config_unexplained_mismatches": len(mismatches),
        "config_child_deaths_attributed": len(crashes),
        "config_wall_s": round(time.time() - t0, 1),
    }
    ctx.log("config: %d constructions on real code, outcomes %s, %d violating cases, %d child deaths, %.0fs"
            % (executed, counts, nviol, len(crashes), time.time() - t0))
    return cov


# ------------------------------------------------------------------------------------------ (B) feedback mappers
FEEDBACK = {"Accepted", "Rejected", "Ignored", "RejectAndDisconnect"}


def collect_mapper(ctx):
    t0 = time.time()
    ov = ctx.harness_overlay("tm/tmconsensus", only=("zz_verif_c09cfg",))
    out = ctx.path("mapper", "out.ndjson")
    rc, o = ctx.go_test("tm/tmconsensus", "^TestVerifC09Mapper$", env={"VERIF_OUT": out, "VERIF_SEED": str(ctx.seed)},
                        overlay=ov, timeout=900)
    recs = vlib.read_ndjson(out)
    summ = [r for r in recs if r.get("kind") == "summary"]
    rows = [r for r in recs if r.get("kind") == "row"]
    if rc != 0 or not summ or not rows:
        raise vlib.Inconclusive("C09 mapper harness failed rc=%s\n%s" % (rc, o[-3000:]))
    summ = summ[0]
    # the property on the real rows
    bad = {}
    for r in rows:
        if r["inrange"] and r["fb"] not in FEEDBACK:
            bad[(r["mapper"], r["method"], r["value"])] = r
            ctx.violation("MapperTotal", r["mapper"] + "FeedbackMapper", "%s:%s" % (r["method"], r["name"]),
                          "%sFeedbackMapper.%s does not translate result %s (%d): %s %s" % (
                              r["mapper"], r["method"], r["name"], r["value"], r["fb"], r.get("panic", "")),
                          replay_obj=r)
    # code -> spec and spec -> code in one TLC run over spec rows + observed rows
    obs = ctx.path("mapper", "mapper_obs.ndjson")
    with open(obs, "w") as f:
        for r in rows:
            f.write(json.dumps({k: r[k] for k in ("mapper", "method", "value", "name", "fb")}) + "\n")
    res = ctx.tlc("MapperMC", "Mapper_mc.cfg", workers=1, timeout=300, copy={obs: "mapper_obs.ndjson"}, allow_violation=True)
    table = ctx.tlc_emitted(res)
    nonconf = ctx.tlc_emitted(res, tag="NONCONF")
    uncovered = ctx.tlc_emitted(res, tag="UNCOVERED")
    if len(table) < 20:
        raise vlib.Inconclusive("Mapper.tla exported only %d rows" % len(table))
    unexplained = [r for r in nonconf + uncovered if (r["mapper"], r["method"], r["value"]) not in bad]
    if res["violated"] and not bad:
        raise vlib.Inconclusive("MapperMC reports a violated invariant but no real row violates MapperTotal:\n"
                                + "\n".join(res["lines"][-20:]))
    if unexplained and not ctx.violations:
        raise vlib.Inconclusive("Mapper.tla and the real mappers disagree on %d rows the property does not name "
                                "(spec stale?), e.g. %s" % (len(unexplained), json.dumps(unexplained[0])))
    if summ["ph_values"] < 5 or summ["vote_values"] < 5 or len(rows) < 2 * 3 * 5:
        raise vlib.Inconclusive("C09 mapper harness saw too few enum values: %s" % json.dumps(summ))
    if not bad:
        ctx.traces_validated += 1
    ctx.sample({"mapper_row_real": {k: rows[1][k] for k in ("mapper", "method", "value", "name", "fb")}})
    ctx.sample({"mapper_row_out_of_range": {k: rows[0][k] for k in ("mapper", "method", "value", "name", "fb")}})
    cov = {
        "mapper_rows_observed": len(rows), "mapper_rows_in_range": sum(1 for r in rows if r["inrange"]),
        "mapper_ph_values_in_source": summ["ph_values"], "mapper_vote_values_in_source": summ["vote_values"],
        "mapper_spec_rows": len(table), "mapper_rows_violating": len(bad),
        "mapper_rows_unexplained": len(unexplained), "mapper_stringer_stale": summ["stringer_stale"],
        "mapper_tlc_states": res["distinct"], "mapper_wall_s": round(time.time() - t0, 1),
    }
    ctx.log("mapper: %d rows on real code (%d PH + %d vote values, 2 mappers, 3 methods), %d violating, %.0fs"
            % (len(rows), summ["ph_values"], summ["vote_values"], len(bad), time.time() - t0))
    return cov


def collect(ctx):
    """Runs both parts; reports violations through ctx.violation; returns measured coverage."""
    cov = {}
    cov.update(collect_mapper(ctx))
    cov.update(collect_config(ctx))
    return cov
