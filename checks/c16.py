"""C16 -- in-memory stores are linearizable and honour their no-overwrite contracts.

spec/StoresModel.tla  sequential reference model of the seven tmmemstore types (one pure function per
                      interface method, exact documented result: value or which error)
spec/Stores.tla       sequential spec over it: TLC explores the complete reachable graph (VIEW hides hist,
                      action properties Frozen/RefusedIsNoop) and every operation sequence up to a bound
                      (declarative Contract over the history); behaviours are exported three ways (one per
                      (state, op) edge, every sequence, simulation) and replayed on the real stores
spec/StoresLin.tla    linearizability / trace checker: histories recorded from the real stores (3 goroutines
                      x 3 ops with call/return events under one logger mutex; seeded random single-threaded
                      sequences over larger domains) must have a linearization in the model
harness               harness/tm/tmstore/tmmemstore/zz_verif_c16_test.go
"""
import json, os, re, concurrent.futures as cf
import vlib

META = {
    "level": "model_checking",
    "text": "Each tmmemstore type is modelled as a sequential object (StoresModel.tla). TLC exhaustively explores the model's complete reachable state graph at small domains and every operation sequence up to a bound, checking a second, declarative statement of the contract over the history (latest/first completed save, refusal of a second proposal/prevote/precommit and of a key change, no finalization overwrite, hash -> list binding). Every (state, operation) edge, every bounded sequence and simulated longer sequences are replayed on the real stores with concrete fixture values (real headers, signatures, sparse proofs, validator sets, real SimpleHashScheme) and the projected real result must equal the model's after every step. Concurrent use: recorded call/return histories of 3 goroutines x 3 ops on the real stores (intervals widened, never narrowed) are checked for a linearization by TLC (StoresLin.tla); the race detector and an unlogged stress run look for unsynchronised access.",
    "note": "Bounded: heights <= 3, rounds <= 2, 2-3 payload ids per kind; schedules are those the Go scheduler produced in this run (linearizability is checked on observed histories, not on all interleavings); value aliasing of caller-owned slices is recorded but not judged (repository convention: shared slices are immutable).",
    "technique": "TLA+ sequential reference model + TLC exhaustive (state graph and bounded sequences) + behaviour replay on the real stores + TLC linearizability search over recorded real histories + race detector",
    "design_ref": "DESIGN.md section 5, C16",
}

PKG = "tm/tmstore/tmmemstore"
STORES = ["action", "round", "fin", "hdr", "mirror", "sm", "val"]
GO_TYPE = {"action": "ActionStore", "round": "RoundStore", "fin": "FinalizationStore", "hdr": "CommittedHeaderStore",
           "mirror": "MirrorStore", "sm": "StateMachineStore", "val": "ValidatorStore"}
GO_METHOD = {
    ("action", "SavePH"): "SaveProposedHeaderAction", ("action", "SavePrevote"): "SavePrevoteAction",
    ("action", "SavePrecommit"): "SavePrecommitAction", ("action", "Load"): "LoadActions",
    ("round", "SavePH"): "SaveRoundProposedHeader", ("round", "SaveReplayed"): "SaveRoundReplayedHeader",
    ("round", "OverwritePrevotes"): "OverwriteRoundPrevoteProofs", ("round", "OverwritePrecommits"): "OverwriteRoundPrecommitProofs",
    ("round", "Load"): "LoadRoundState",
    ("fin", "Save"): "SaveFinalization", ("fin", "Load"): "LoadFinalizationByHeight",
    ("hdr", "Save"): "SaveCommittedHeader", ("hdr", "Load"): "LoadCommittedHeader",
    ("mirror", "Set"): "SetNetworkHeightRound", ("mirror", "Get"): "NetworkHeightRound",
    ("sm", "Set"): "SetStateMachineHeightRound", ("sm", "Get"): "StateMachineHeightRound",
    ("val", "SavePubKeys"): "SavePubKeys", ("val", "SaveVotePowers"): "SaveVotePowers", ("val", "LoadPubKeys"): "LoadPubKeys",
    ("val", "LoadVotePowers"): "LoadVotePowers", ("val", "LoadValidators"): "LoadValidators",
}
# every documented result must have been produced by the REAL store at least once (vacuity)
REQUIRED_RESULTS = [
    "action.SavePH:", "action.SavePH:DoubleAction:proposed block", "action.SavePrevote:", "action.SavePrevote:DoubleAction:prevote",
    "action.SavePrevote:PubKeyChanged:prevote", "action.SavePrecommit:", "action.SavePrecommit:DoubleAction:precommit",
    "action.SavePrecommit:PubKeyChanged:precommit", "action.Load:", "action.Load:RoundUnknown",
    "round.SavePH:", "round.SavePH:Overwrite:pubkey", "round.SaveReplayed:", "round.SaveReplayed:Overwrite:hash",
    "round.OverwritePrevotes:", "round.OverwritePrecommits:", "round.Load:", "round.Load:RoundUnknown",
    "fin.Save:", "fin.Save:FinalizationOverwrite", "fin.Load:", "fin.Load:HeightUnknown",
    "hdr.Save:", "hdr.Load:", "hdr.Load:HeightUnknown",
    "mirror.Set:", "mirror.Get:", "mirror.Get:Uninitialized", "sm.Set:", "sm.Get:", "sm.Get:Uninitialized",
    "val.SavePubKeys:", "val.SavePubKeys:PubKeysAlreadyExist", "val.SaveVotePowers:", "val.SaveVotePowers:VotePowersAlreadyExist",
    "val.LoadPubKeys:", "val.LoadPubKeys:NoPubKeyHash", "val.LoadVotePowers:", "val.LoadVotePowers:NoVotePowerHash",
    "val.LoadValidators:", "val.LoadValidators:NoPubKeyHash", "val.LoadValidators:NoVotePowerHash",
    "val.LoadValidators:NoPubKeyHash+NoVotePowerHash", "val.LoadValidators:PubKeyPowerCountMismatch",
]


def site_of(store, op):
    return "%s.%s" % (GO_TYPE.get(store, store), GO_METHOD.get((store, op), op))


def predicate_of(store, op, exp_err):
    if store == "action" and exp_err.startswith("DoubleAction"):
        return "ActionRefusesSecond"
    if store == "action" and exp_err.startswith("PubKeyChanged"):
        return "ActionRefusesKeyChange"
    if store == "fin" and exp_err == "FinalizationOverwrite":
        return "FinalizationNoOverwrite"
    if store == "val":
        return "ValidatorHashBinding"
    if op in ("Load", "Get"):
        return "LoadReturnsLatestSave"
    return "SequentialContract"


def tlc_named(ctx, module, cfg, name, **kw):
    """ctx.tlc with a private copy of the cfg, so that runs can go on in parallel threads."""
    copy = dict(kw.pop("copy", None) or {})
    copy[os.path.join(vlib.SPEC, cfg)] = name
    res = ctx.tlc(module, name, copy=copy, **kw)
    ctx.log("  TLC %s: %d states generated, %d distinct, %.0fs" % (name, res.get("states", 0), res.get("distinct", 0), res["wall"]))
    return res


def split_histories(events):
    """events -> list of histories (each starts with its reset line)."""
    hs = []
    for e in events:
        if e.get("ev") == "reset":
            hs.append([e])
        elif hs:
            hs[-1].append(e)
    return [h for h in hs if len(h) > 1]


def lin_check(ctx, histories, tag, timeout):
    """Validate histories with StoresLin.  Returns (n_accepted, rejected histories, events consumed).
    After 4 rejected histories the rest of the batch is left unchecked (the rejections are reported)."""
    rejected, todo, accepted, consumed = [], list(histories), 0, 0
    for attempt in range(4):
        if not todo:
            break
        tf = ctx.path("lin-%s-%d.ndjson" % (tag, attempt))
        n = 0
        with open(tf, "w") as f:
            for h in todo:
                for e in h:
                    f.write(json.dumps(e) + "\n")
                    n += 1
            f.write(json.dumps({"ev": "reset", "store": "mirror", "t": 0, "op": "", "a": [], "err": "", "v": []}) + "\n")
            n += 1
        res = tlc_named(ctx, "StoresLin", "StoresLin_trace.cfg", "StoresLin_%s_%d.cfg" % (tag, attempt), workers=1,
                        timeout=timeout, copy={tf: "trace.ndjson"}, deque=True, heap="4g")
        m = re.search(r'<<"HW", (\d+), (\d+), (TRUE|FALSE)>>', res["out"])
        if not m:
            raise vlib.Inconclusive("StoresLin did not report a high-water mark (%s)" % tag)
        hw, nt = int(m.group(1)), int(m.group(2))
        if nt != n:
            raise vlib.Inconclusive("StoresLin read %d lines, %d were written (%s)" % (nt, n, tag))
        if hw == nt + 1:
            accepted += len(todo)
            consumed += n
            todo = []
            break
        # line hw (1-based) could not be consumed: it belongs to the first history without a linearization
        pos, bad = 0, None
        for k, h in enumerate(todo):
            if pos < hw <= pos + len(h):
                bad = k
                break
            pos += len(h)
        if bad is None:
            raise vlib.Inconclusive("StoresLin stopped at line %d which is in no history (%s)" % (hw, tag))
        accepted += bad
        consumed += pos
        rejected.append({"history": todo[bad], "stuck_at_line_of_history": hw - pos})
        todo = todo[bad + 1:]
    if todo:
        ctx.notes.append("%s: %d histories left unchecked after %d rejections" % (tag, len(todo), len(rejected)))
    return accepted, rejected, consumed


def run_children(ctx, binary, race, stores, env_base, timeout):
    """Run the concurrent + stress tests once per store in a child process (a runtime fatal error such as
    'concurrent map writes' cannot be recovered in-process).  Returns per-store dict."""
    res = {}
    for s in stores:
        tag = "%s-%s" % (s, "race" if race else "plain")
        out, trace = ctx.path("conc-out-%s.ndjson" % tag), ctx.path("conc-trace-%s.ndjson" % tag)
        env = dict(env_base)
        env.update({"VERIF_STORE": s, "VERIF_OUT": out, "VERIF_TRACE": trace, "GORACE": "halt_on_error=0"})
        rc, o = ctx.go_test(PKG, "^TestVerifC16(Conc|Stress)$", env=env, binary=binary, timeout=timeout)
        res[s] = {"rc": rc, "output": o, "recs": vlib.read_ndjson(out), "trace": vlib.read_ndjson(trace), "race": race}
    return res


def classify_child(ctx, store, r):
    """Data races / runtime fatal errors of a child run -> violations; anything else abnormal -> Inconclusive."""
    o = r["output"]
    frame = re.compile(r"tmmemstore\.\(\*(\w+)\)\.(\w+)")
    if "WARNING: DATA RACE" in o:
        blocks = o.split("WARNING: DATA RACE")[1:]
        sites = set()
        for b in blocks:
            m = frame.search(b)
            if m:
                sites.add("%s.%s" % (m.group(1), m.group(2)))
        if not sites:
            raise vlib.Inconclusive("race detector report without a tmmemstore frame (harness race?)\n" + o[-3000:])
        for st in sorted(sites):
            ctx.violation("DataRace", st, "race-detector",
                          "the race detector reports unsynchronised access in %s while the store is used concurrently "
                          "(the stores guard their state with a mutex; concurrent use is part of the property)" % st,
                          replay_obj={"store": store, "report": blocks[0][:4000]})
        return True
    if "fatal error: concurrent map" in o:
        m = frame.search(o[o.index("fatal error: concurrent map"):])
        st = "%s.%s" % (m.group(1), m.group(2)) if m else GO_TYPE[store]
        ctx.violation("DataRace", st, "runtime-fatal",
                      "Go runtime aborted with a concurrent map access inside %s under concurrent use" % st,
                      replay_obj={"store": store, "report": o[o.index("fatal error: concurrent map"):][:4000]})
        return True
    if r["rc"] != 0:
        soft(ctx, "C16 concurrent child for store %s failed rc=%s\n%s" % (store, r["rc"], o[-3000:]))
        return True
    return False


def soft(ctx, msg):
    """A vacuity / completeness problem: inconclusive, unless a violation on the real code was already
    observed (then the violation stands and the problem is only noted)."""
    if ctx.violations:
        ctx.notes.append(msg)
        ctx.log("note: " + msg.splitlines()[0])
        return
    raise vlib.Inconclusive(msg)


def run(ctx):
    quick = ctx.quick()
    tier = '"quick"' if quick else '"thorough"'
    # several JVMs run side by side: keep each one's helper threads small
    os.environ.setdefault("JAVA_TOOL_OPTIONS", "-XX:ParallelGCThreads=2 -XX:CICompilerCount=2")
    ov = ctx.harness_overlay(PKG)
    seed_env = {"VERIF_SEED": str(ctx.seed)}

    # ------------------------------------------------------------------ replay of a recorded finding
    if ctx.replay:
        rp = json.load(open(ctx.replay))["replay"]
        if "hist" in rp:
            tin = ctx.path("replay-in.ndjson")
            open(tin, "w").write(json.dumps({"store": rp["store"], "h": rp["hist"]}) + "\n")
            out = ctx.path("replay-out.ndjson")
            env = dict(seed_env, VERIF_IN=tin, VERIF_OUT=out, VERIF_RAND_N="0")
            rc, o = ctx.go_test(PKG, "^TestVerifC16Seq$", env=env, overlay=ov, timeout=900)
            for r in vlib.read_ndjson(out):
                if r.get("kind") in ("mismatch", "panic"):
                    print("REPLAY reproduces: %s" % json.dumps({k: r[k] for k in r if k != "hist"}))
                    return 1
            print("REPLAY does not reproduce (rc=%s)" % rc)
            return 0 if rc == 0 else 2
        if "history" in rp:
            acc, rej, _ = lin_check(ctx, [rp["history"]], "replay", 300)
            print("REPLAY recorded history: %s" % ("no linearization" if rej else "linearizable"))
            return 1 if rej else 0
        raise vlib.Inconclusive("replay file has neither a behaviour nor a history")

    # ------------------------------------------------------------------ stage 1 (parallel): TLC + Go build/concurrent runs
    plain_bin, race_bin = ctx.path("c16.test"), ctx.path("c16.race.test")
    conc_n = 150 if quick else 1500
    child_env = dict(seed_env, VERIF_CONC_N=str(conc_n), VERIF_STRESS_OPS=str(4000 if quick else 40000))

    def job_mc():
        r = tlc_named(ctx, "Stores", "Stores_mc.cfg", "Stores_mc_q.cfg", timeout=900, workers=4)
        extra = None
        if not quick:
            extra = tlc_named(ctx, "Stores", "Stores_mc.cfg", "Stores_mc_t.cfg", timeout=2400, workers=8,
                              defines={"Tier": tier, "EmitOn": "FALSE"})
        return r, extra

    def job_seq():
        return tlc_named(ctx, "Stores", "Stores_seq.cfg", "Stores_seq_x.cfg", timeout=2400, workers=4 if quick else 8,
                         defines={"Tier": tier})

    def job_sim():
        num = 60 if quick else 1500
        return tlc_named(ctx, "Stores", "Stores_sim.cfg", "Stores_sim_x.cfg", timeout=1200, workers=2,
                         simulate="num=%d" % num, depth=30, defines={"Tier": tier}, extra=["-seed", str(ctx.seed)])

    def job_go():
        ctx.go_test(PKG, "x", overlay=ov, compile_only=True, binary=plain_bin, timeout=1500)
        plain = run_children(ctx, plain_bin, False, STORES, child_env, 900)
        ctx.log("  go: plain binary built, concurrent + stress children done")
        return plain

    def job_go_race():
        ctx.go_test(PKG, "x", overlay=ov, compile_only=True, binary=race_bin, race=True, timeout=1800)
        env = dict(child_env, VERIF_CONC_N=str(60 if quick else 400), VERIF_STRESS_OPS=str(2000 if quick else 20000))
        r = run_children(ctx, race_bin, True, STORES, env, 1500)
        ctx.log("  go: race binary built, concurrent + stress children done")
        return r

    with cf.ThreadPoolExecutor(max_workers=5) as ex:
        f_mc, f_seq, f_sim = ex.submit(job_mc), ex.submit(job_seq), ex.submit(job_sim)
        f_go, f_race = ex.submit(job_go), ex.submit(job_go_race)
        (r_mc, r_mc_big), r_seq, r_sim = f_mc.result(), f_seq.result(), f_sim.result()
        plain, raced = f_go.result(), f_race.result()
    ctx.log("TLC: state graph %d distinct states / %d transitions%s; bounded sequences %d histories; simulation %d states"
            % (r_mc["distinct"], r_mc["states"],
               (" (+ thorough graph %d / %d)" % (r_mc_big["distinct"], r_mc_big["states"])) if r_mc_big else "",
               r_seq["distinct"], r_sim["states"]))

    # ------------------------------------------------------------------ stage 2: replay exported behaviours on the real stores
    behs, seen = [], set()
    n_src = {}
    for src, res in (("edge", r_mc), ("seq", r_seq), ("sim", r_sim)):
        try:
            vals = ctx.tlc_emitted(res)
        except Exception as e:  # interleaved output line
            raise vlib.Inconclusive("cannot decode behaviours exported by TLC (%s): %s" % (src, e))
        n_src[src] = len(vals)
        for b in vals:
            k = json.dumps(b, sort_keys=True)
            if k not in seen:
                seen.add(k)
                behs.append(b)
    need = 20000 if quick else 100000
    if len(behs) < need or min(n_src.values()) == 0:
        raise vlib.Inconclusive("only %d behaviours exported %s" % (len(behs), n_src))
    tin = ctx.path("behaviours.ndjson")
    with open(tin, "w") as f:
        for b in behs:
            f.write(json.dumps(b) + "\n")
    out, trace = ctx.path("seq-out.ndjson"), ctx.path("seq-trace.ndjson")
    env = dict(seed_env, VERIF_IN=tin, VERIF_OUT=out, VERIF_TRACE=trace, VERIF_RAND_N=str(40 if quick else 400))
    rc, o = ctx.go_test(PKG, "^TestVerifC16Seq$", env=env, binary=plain_bin, timeout=1800)
    recs = vlib.read_ndjson(out)
    summ = [r for r in recs if r.get("kind") == "summary"]
    if rc != 0 or not summ:
        raise vlib.Inconclusive("C16 sequential harness failed rc=%s\n%s" % (rc, o[-3000:]))
    summ = summ[0]
    for r in recs:
        if r.get("kind") == "mismatch":
            cls = "exp=%s/got=%s" % (r["exp_err"] or "ok", (r["got_err"] or "ok") if r["got_err"] != r["exp_err"] else "other value")
            if r["got_err"].startswith("?:"):
                cls = "exp=%s/got=undocumented error" % (r["exp_err"] or "ok")
            ctx.violation(predicate_of(r["store"], r["op"], r["exp_err"]), site_of(r["store"], r["op"]), cls,
                          "real %s disagrees with the sequential model at step %d of a TLC behaviour: %s(%s) expected err=%r v=%s, got err=%r v=%s"
                          % (GO_TYPE[r["store"]], r["step"], r["op"], r["a"], r["exp_err"], r["exp_v"], r["got_err"], r["got_v"]),
                          replay_obj={"store": r["store"], "hist": r["hist"], "step": r["step"]})
        elif r.get("kind") == "panic":
            op = r["hist"][r["step"]]["op"] if r.get("hist") and 0 <= r.get("step", -1) < len(r["hist"]) else "?"
            ctx.violation("SequentialContract", site_of(r["store"], op), "panic",
                          "real %s panicked instead of returning the documented result: %s" % (GO_TYPE[r["store"]], r["what"]),
                          replay_obj={"store": r["store"], "hist": r.get("hist"), "step": r.get("step")})
    ctx.log("replayed %d behaviours / %d steps on the real stores, %d mismatches" % (summ["behaviours"], summ["steps"], summ["mismatches"]))

    # vacuity: the harness really executed every operation and produced every documented result
    if summ["behaviours"] != len(behs):
        soft(ctx, "harness replayed %d of %d behaviours" % (summ["behaviours"], len(behs)))
    if not ctx.violations and not ctx.known_seen:
        missing = [k for k in REQUIRED_RESULTS if not summ["results_seen"].get(k)]
        if missing:
            raise vlib.Inconclusive("documented results never produced by the real stores: %s" % missing)

    # ------------------------------------------------------------------ stage 3: data races / runtime fatals of the concurrent children
    all_conc = []
    stress_ops = 0
    for group in (plain, raced):
        for s in STORES:
            r = group[s]
            crashed = classify_child(ctx, s, r)
            for rec in r["recs"]:
                if rec.get("kind") == "stress-anomaly":
                    ctx.violation("LoadReturnsSavedValue", GO_TYPE[s], "stress",
                                  "under unlogged concurrent use %s: %s" % (GO_TYPE[s], rec["what"]), replay_obj=rec)
                elif rec.get("kind") == "panic":
                    ctx.violation("SequentialContract", GO_TYPE[s], "panic-concurrent",
                                  "%s panicked under concurrent use: %s" % (GO_TYPE[s], rec["what"]), replay_obj=rec)
                elif rec.get("kind") == "summary" and rec.get("src") == "stress":
                    stress_ops += rec["ops"]
            if not crashed:
                ok = {x.get("src") for x in r["recs"] if x.get("kind") == "summary"}
                if ok != {"concurrent", "stress"}:
                    soft(ctx, "concurrent child for %s did not finish both tests: %s\n%s" % (s, ok, r["output"][-2000:]))
            hs = split_histories(r["trace"])
            if crashed and hs:
                hs = hs[:-1]  # the child died mid-run: its last recorded history may be cut short
            all_conc.append((s, r["race"], hs))

    # ------------------------------------------------------------------ stage 4: TLC searches for linearizations (code -> spec)
    seq_hist = split_histories(vlib.read_ndjson(trace))
    if len(seq_hist) < 7 * (40 if quick else 400):
        soft(ctx, "only %d random sequential histories recorded" % len(seq_hist))
    jobs = [("seqrand", seq_hist)]
    conc_all = [h for _, _, hs in all_conc for h in hs]
    nchunks = 3 if quick else 10
    for c in range(nchunks):
        part = conc_all[c::nchunks]
        if part:
            jobs.append(("conc%d" % c, part))
    n_conc = sum(len(hs) for _, _, hs in all_conc)
    n_overlap = sum(rec.get("overlapping", 0) for g in (plain, raced) for s in STORES for rec in g[s]["recs"]
                    if rec.get("kind") == "summary" and rec.get("src") == "concurrent")
    lin_acc, lin_events = 0, 0
    with cf.ThreadPoolExecutor(max_workers=6) as ex:
        futs = {ex.submit(lin_check, ctx, hs, tag, 1800): (tag, hs) for tag, hs in jobs}
        for fu in cf.as_completed(futs):
            tag, hs = futs[fu]
            acc, rej, consumed = fu.result()
            lin_acc += acc
            lin_events += consumed
            for rj in rej:
                store = rj["history"][0]["store"]
                if tag == "seqrand":
                    ctx.violation("SequentialContract", GO_TYPE[store], "random-trace",
                                  "a seeded random operation sequence executed on the real %s is not a behaviour of the sequential model (StoresLin stops at line %d of the history)"
                                  % (GO_TYPE[store], rj["stuck_at_line_of_history"]), replay_obj=rj)
                else:
                    ctx.violation("Linearizable", GO_TYPE[store], "concurrent 3x3",
                                  "a history of 3 goroutines x 3 operations recorded from the real %s has no linearization in the sequential model (TLC search exhausted; stuck at line %d of the history)"
                                  % (GO_TYPE[store], rj["stuck_at_line_of_history"]), replay_obj=rj)
    ctx.traces_validated = lin_acc
    ctx.log("StoresLin accepted %d recorded histories (%d concurrent, %d with overlapping calls), %d lines"
            % (lin_acc, n_conc, n_overlap, lin_events))
    if not ctx.violations and not ctx.known_seen:
        if n_conc < 7 * 2 * 40:
            raise vlib.Inconclusive("only %d concurrent histories recorded" % n_conc)
        if n_overlap * 10 < n_conc:
            raise vlib.Inconclusive("only %d of %d concurrent histories had overlapping calls" % (n_overlap, n_conc))

    # ------------------------------------------------------------------ evidence
    alias = [r for r in recs if r.get("kind") == "info" and r.get("what") == "alias"]
    for b in behs[:2]:
        ctx.sample({"tlc_behaviour_replayed_on_real_store": b})
    if all_conc and all_conc[0][2]:
        ctx.sample({"concurrent_history_linearized_by_tlc": all_conc[0][2][0][:12]})
    ctx.sample({"aliasing_observed_not_judged": alias})
    ctx.assumptions += [
        "linearizability is judged on the schedules the Go scheduler produced in this run (recorded intervals contain the real ones, so a rejected history is a real violation; an accepted run is not a proof over all interleavings)",
        "abstract ids are instantiated with one concrete value each (table c16World in the harness); heights <= 3, rounds <= 2",
        "caller-owned slices handed to / returned by the stores are not mutated (repository convention: shared slices are immutable); observed aliasing is listed in samples, not judged",
        "MirrorStore/StateMachineStore: every payload has a non-zero height (height 0 is the implementation's uninitialized marker)",
    ]
    cov = {
        "states": ctx.tlc_states, "transitions": ctx.tlc_transitions,
        "traces_validated_against_impl": lin_acc,
        "evaluations": summ["steps"] + summ["random_ops"] + lin_events,
        "distinct_nontrivial": summ["distinct_prefixes"],
        "rule": "evaluations = operations executed on the real stores whose result was compared with the model (replayed TLC behaviours step by step, plus recorded histories validated by TLC); distinct_nontrivial = distinct (store, operation-history prefix, result) triples, counted in a set by the harness",
        "exhaustive": False,
        "exhaustive_scope": "exhaustive at the bounds of Stores.tla (Bounds) for the sequential part: complete reachable model graph, all bounded operation sequences, and every (state, operation) edge and bounded sequence replayed on the real stores; concurrent schedules are sampled, hence exhaustive=false",
        "behaviours_replayed": summ["behaviours"], "behaviours_by_source": n_src,
        "concurrent_histories": n_conc, "concurrent_histories_overlapping": n_overlap,
        "stress_ops": stress_ops, "race_detector_runs": len(STORES),
    }
    return ctx.finish("model_checking", extra_cov=cov)
