"""C19 -- the transaction buffer's pending list always applies cleanly in order.
TxBuf.tla models workingstate.go (BaseState, curState, isUpdated, Txs; Initialize / AddTx / Buffered /
Rebase) over arbitrary finite Apply tables.  TLC checks the property exhaustively (all 2x2 tables, a
curated + seeded selection of 3x3 tables) for the design and for the code as it is (named deviation:
invalidated transactions pruned by value).  Behaviours exported by TLC are replayed on the real
gtxbuf.Buffer and the real workingState, the predicates are evaluated on the REAL outputs by re-folding
the table; sequential executions are validated by TxBufTrace.tla, concurrent call/return histories are
linearized by TLC with TxBufLin.tla."""
import json, os, random, re, subprocess, time
from concurrent.futures import ThreadPoolExecutor
import vlib

META = {
    "level": "model_checking",
    "text": "TLC checks TxBuf.tla (the shape of workingstate.go) exhaustively for ALL apply tables over 2 states x 2 transactions and a curated+seeded selection of 3x3 tables (order-dependent, identity, becomes-invalid-after-rebase, duplicates in the pending list): PendingAppliesInOrder, AppendOnlyIfApplies, RebaseKeepsExactly, RebaseReturnsRestAsInvalidated hold for the design, and for the code as it is they hold except through the one named deviation (by-value pruning of invalidated transactions).  Every exported behaviour (all sequences up to the bound per table, plus simulated deeper ones) is replayed on the real gtxbuf.Buffer (kernel goroutine included) and the real workingState with a table-driven addTxFunc and the documented map-of-reject-values deleter; after every step Buffered() is compared with the spec and the four predicates are evaluated on the real outputs by re-folding the table.  Seeded random executions beyond the bounds are validated step by step by TxBufTrace.tla; concurrent AddTx/Buffered/Rebase histories (call logged before, return after) are linearized by TLC (TxBufLin.tla).",
    "note": "Apply tables are finite (<= 5 states x 5 txs in the random drivers, 3x3 in TLC); a non-TxInvalidError failure of addTxFunc during Rebase is documented as fatal and is not exercised; 'reported applied' is by value (doc of Rebase: 'present in the applied slice').",
    "technique": "TLA+ spec + TLC exhaustive (table as rigid variable) + behaviour replay and trace validation / linearization search against the real Go Buffer",
    "design_ref": "DESIGN.md section 5, C19",
}

TLC_OPS = {"Initialize": "I", "AddTx": "A", "Buffered": "B", "Rebase": "R"}

CURATED3 = [
    [[2, 1, 0], [3, 2, 1], [0, 3, 1]],   # t1 counter up to 3 (becomes invalid), t2 identity, t3 reset
    [[2, 3, 1], [3, 1, 2], [1, 2, 3]],   # all valid, order dependent
    [[2, 0, 0], [0, 3, 0], [0, 0, 1]],   # strict chain: only one order applies
    [[1, 1, 1], [2, 2, 2], [3, 3, 3]],   # identity transactions
    [[0, 0, 0], [0, 0, 0], [0, 0, 0]],   # nothing applies
    [[2, 2, 0], [3, 0, 2], [0, 1, 1]],   # order dependent with invalid cells
]


def tla_table(t):
    return "<<" + ",".join("<<" + ",".join(str(x) for x in row) + ">>" for row in t) + ">>"


def tables_module(path, tables):
    uniq = sorted({tla_table(t) for t in tables})
    with open(path, "w") as f:
        f.write("---- MODULE TxBufTables ----\nSampleTables == {\n" + ",\n".join(uniq) + "\n}\n====\n")
    return len(uniq)


def random_tables(rng, n):
    out = []
    for _ in range(n):
        pinv = rng.choice([0.1, 0.25, 0.4, 0.6])
        out.append([[0 if rng.random() < pinv else rng.randint(1, 3) for _ in range(3)] for _ in range(3)])
    return out


def unknown_so_far(ctx):
    return bool(ctx.violations)


class Runner:
    """Unique cfg per TLC run so that runs can go in parallel (ctx.tlc names its scratch dir after the cfg)."""

    def __init__(self, ctx):
        self.ctx = ctx
        self.n = 0

    def tlc(self, name, module, base_cfg, consts=None, tables=None, copy=None, **kw):
        txt = open(os.path.join(vlib.SPEC, base_cfg)).read()
        for k, v in (consts or {}).items():
            txt, n = re.subn(r"(?m)^(\s*%s\s*(?:=|<-)\s*).*$" % re.escape(k), lambda m: m.group(1) + str(v), txt)
            if n == 0:
                raise vlib.Inconclusive("cfg %s has no constant %s" % (base_cfg, k))
        self.n += 1
        cfg = "c19_%s_%d.cfg" % (name, self.n)
        p = self.ctx.path("cfg", cfg)
        open(p, "w").write(txt)
        cp = {p: cfg}
        if tables:
            cp[tables] = "TxBufTables.tla"
        cp.update(copy or {})
        t = time.time()
        res = self.ctx.tlc(module, cfg, copy=cp, **kw)
        res["wall"] = time.time() - t
        self.ctx.log("TLC %-14s %9d generated %8d distinct  %5.1fs" % (name, res.get("states", 0), res.get("distinct", 0), res["wall"]))
        return res


def convert(rows, path, mode="w"):
    n = 0
    with open(path, mode) as f:
        for tbl, h in rows:
            hh = [{"o": TLC_OPS[e[0]], "a": e[1], "p": e[2], "k": e[3], "i": e[4], "e": e[5], "b": e[6], "f": e[7]} for e in h]
            f.write(json.dumps({"t": tbl, "h": hh}, separators=(",", ":")) + "\n")
            n += 1
    return n


def run_children(ctx, binary, jobs, timeout):
    """jobs: list of (label, test regexp, env).  Runs the test binary once per job, in parallel.
    A child that dies (panic in the Buffer's kernel goroutine cannot be recovered in-process) is
    attributed to the input it logged last."""
    def one(job):
        label, rx, env = job
        e = dict(env)
        e["VERIF_PROGRESS"] = ctx.path("progress", label + ".txt")
        rc, out = ctx.go_test("gdriver/gtxbuf", rx, env=e, binary=binary, timeout=timeout)
        return label, rc, out, e["VERIF_PROGRESS"]
    with ThreadPoolExecutor(max_workers=min(len(jobs), max(2, vlib.NCPU // 2))) as ex:
        return list(ex.map(one, jobs))


def run(ctx):
    quick = ctx.quick()
    rng = random.Random(ctx.seed)
    R = Runner(ctx)
    W = min(vlib.NCPU, 16)

    # ------------------------------------------------------------------ tables
    n_rand = 30 if quick else 600
    tab_mc = ctx.path("tables", "mc", "TxBufTables.tla")
    n_tables = tables_module(tab_mc, CURATED3 + random_tables(rng, n_rand))
    tab_cur = ctx.path("tables", "cur", "TxBufTables.tla")
    tables_module(tab_cur, CURATED3[:2] if quick else CURATED3)
    tab_sim = ctx.path("tables", "sim", "TxBufTables.tla")
    tables_module(tab_sim, CURATED3 + random_tables(rng, 400 if quick else 4000))

    # ------------------------------------------------------------------ build the harness binary (in parallel with TLC)
    ov = ctx.harness_overlay("gdriver/gtxbuf")
    binary = ctx.path("bin", "gtxbuf.test")
    pool = ThreadPoolExecutor(max_workers=5)
    f_build = pool.submit(ctx.go_test, "gdriver/gtxbuf", "", overlay=ov, compile_only=True, binary=binary, timeout=900)
    # race-instrumented binary for the concurrent driver: "a single kernel goroutine serializes all
    # requests" is the mechanism behind the concurrent clause; an unsynchronised access is a break of it
    binary_race = ctx.path("bin", "gtxbuf.race.test")
    f_build_race = pool.submit(ctx.go_test, "gdriver/gtxbuf", "", overlay=ov, compile_only=True, binary=binary_race, timeout=1500, race=True)

    # ------------------------------------------------------------------ 1. TLC: the design and the code as it is
    mp2 = 4 if quick else 6
    mp3 = 3 if quick else 4
    skip_mc = bool(os.environ.get("VERIF_C19_SKIP_MC")) or bool(ctx.replay)   # development aid (mutation experiments): Go side only
    futs = {} if skip_mc else {
        "mc2-design": pool.submit(R.tlc, "mc2design", "TxBufMC", "TxBuf_mc2.cfg", {"MaxPending": mp2, "ByValueInvalidation": "FALSE"}, workers=4, timeout=1500),
        "mc2-asis": pool.submit(R.tlc, "mc2asis", "TxBufMC", "TxBuf_mc2.cfg", {"MaxPending": mp2, "ByValueInvalidation": "TRUE"}, workers=4, timeout=1500),
        "mc3-design": pool.submit(R.tlc, "mc3design", "TxBufMC", "TxBuf_mc3.cfg", {"MaxPending": mp3, "ByValueInvalidation": "FALSE"}, tables=tab_mc, workers=W, timeout=3000),
        "mc3-asis": pool.submit(R.tlc, "mc3asis", "TxBufMC", "TxBuf_mc3.cfg", {"MaxPending": mp3, "ByValueInvalidation": "TRUE"}, tables=tab_mc, workers=W, timeout=3000),
        "cex": pool.submit(R.tlc, "cex", "TxBufMC", "TxBuf_cex.cfg", None, workers=2, timeout=600, allow_violation=True),
    }
    if not quick and not skip_mc:
        futs["props"] = pool.submit(R.tlc, "props", "TxBufMC", "TxBuf_props.cfg", None, workers=4, timeout=1500)
    # behaviour export (spec -> code)
    h2 = 4 if quick else 5
    emits = []
    if not ctx.replay:
      emits.append(("emit2", pool.submit(R.tlc, "emit2", "TxBufMC", "TxBuf_emit.cfg", {"MaxHist": h2}, workers=W, timeout=3000)))
      emits.append(("emit3", pool.submit(R.tlc, "emit3", "TxBufMC", "TxBuf_emit3.cfg", {"MaxHist": 4 if quick else 5}, tables=tab_cur, workers=W, timeout=3000)))
    sim_hist = 8 if quick else 12
    sim_workers = 4
    sim_num = 150 if quick else 2500        # per worker; every trace prints all successors of its last state
    if not ctx.replay:
      emits.append(("sim3", pool.submit(R.tlc, "sim3", "TxBufMC", "TxBuf_emit3.cfg", {"MaxHist": sim_hist}, tables=tab_sim, workers=sim_workers,
                                        timeout=3000, simulate="num=%d" % sim_num, depth=sim_hist + 1, check_deadlock=False,
                                        extra=["-seed", str(ctx.seed)])))

    res = {k: f.result() for k, f in futs.items()}
    # vacuity of the model: the deviation branch is reachable in the as-is runs (more states than the
    # design), and every action is taken (counted below on the exported spec behaviours)
    if not skip_mc and not (res["mc2-asis"]["distinct"] > res["mc2-design"]["distinct"] and res["mc3-asis"]["distinct"] > res["mc3-design"]["distinct"]):
        raise vlib.Inconclusive("vacuity: the as-is runs never reach the named deviation")
    # the as-is design breaks the pure invariant only through the named deviation -- and does break it
    if not skip_mc and not (res["cex"]["violated"] and "Invariant PendingAppliesInOrder is violated" in res["cex"]["out"]):
        raise vlib.Inconclusive("expected TLC counterexample (as-is spec vs pure PendingAppliesInOrder) not produced")
    states_exh = sum(res[k]["distinct"] for k in res if k != "cex")
    trans_exh = sum(res[k]["states"] for k in res if k != "cex")

    # ------------------------------------------------------------------ 2. replay on the real code
    tin = ctx.path("in", "beh.ndjson")
    n_beh = 0
    spec_ops = {}
    for name, fut in emits:
        r = fut.result()
        rows = ctx.tlc_emitted(r)
        for _, h in rows:
            for e in h:
                spec_ops[e[0]] = spec_ops.get(e[0], 0) + 1
                if e[0] == "Rebase" and e[5] != e[6]:
                    spec_ops["Rebase(deviating)"] = spec_ops.get("Rebase(deviating)", 0) + 1
        r["out"] = None
        r["lines"] = None
        k = convert(rows, tin, "a")
        ctx.log("exported %d behaviours from %s" % (k, name))
        if k < 100:
            raise vlib.Inconclusive("behaviour export %s produced %d behaviours" % (name, k))
        n_beh += k
        if n_beh == k:
            ctx.sample({"spec_behaviour": {"tbl": rows[len(rows) // 2][0], "ops": [e[:3] for e in rows[len(rows) // 2][1]]}})
        del rows
    for act in ("Initialize", "AddTx", "Buffered", "Rebase", "Rebase(deviating)"):
        if not spec_ops.get(act) and not ctx.replay:
            raise vlib.Inconclusive("vacuity: spec action %s never taken in the exported behaviours" % act)
    rc, o = f_build.result()
    if ctx.replay:
        # --replay <file>: re-run exactly the recorded behaviour
        rp = json.load(open(ctx.replay))
        open(tin, "w").write(json.dumps(rp["replay"]["beh"]) + "\n")
        n_beh = 1

    nsh = 1 if ctx.replay else (6 if quick else 12)
    jobs = []
    outs, traces = [], []
    for i in range(nsh):
        o_, t_ = ctx.path("go", "replay-%d.out" % i), ctx.path("go", "replay-%d.trace" % i)
        outs.append(o_); traces.append(t_)
        jobs.append(("replay-%d" % i, "^TestVerifC19Replay$", {
            "VERIF_IN": tin, "VERIF_OUT": o_, "VERIF_TRACE": t_, "VERIF_SHARD": str(i), "VERIF_NSHARDS": str(nsh),
            "VERIF_SEED": str(ctx.seed), "VERIF_TRACE_EVERY": str(max(1, n_beh // (1500 if quick else 15000)))}))
    nrs = 2 if quick else 8
    for i in range(nrs):
        o_, t_ = ctx.path("go", "random-%d.out" % i), ctx.path("go", "random-%d.trace" % i)
        outs.append(o_); traces.append(t_)
        jobs.append(("random-%d" % i, "^TestVerifC19Random$", {
            "VERIF_OUT": o_, "VERIF_TRACE": t_, "VERIF_SHARD": str(i), "VERIF_SEED": str(ctx.seed),
            "VERIF_RANDOM": str(3000 if quick else 20000), "VERIF_TRACE_EVERY": str(6 if quick else 20)}))
    lin_out, lin = ctx.path("go", "conc.out"), ctx.path("go", "lin.ndjson")
    outs.append(lin_out)
    jobs.append(("conc", "^TestVerifC19Conc$", {
        "VERIF_OUT": lin_out, "VERIF_LIN": lin, "VERIF_SEED": str(ctx.seed),
        "VERIF_HISTORIES": str(400 if quick else 6000)}))
    if ctx.replay:
        jobs = jobs[:1]
    done = run_children(ctx, binary, jobs, timeout=3000)

    race_hist = 0
    if not ctx.replay:
        f_build_race.result()
        race_hist = 300 if quick else 3000
        rc_r, out_r = ctx.go_test("gdriver/gtxbuf", "^TestVerifC19Conc$", binary=binary_race, timeout=3000, env={
            "VERIF_OUT": ctx.path("go", "race.out"), "VERIF_LIN": ctx.path("go", "race-lin.ndjson"),
            "VERIF_SEED": str(ctx.seed + 1), "VERIF_HISTORIES": str(race_hist), "GORACE": "halt_on_error=0"})
        races = out_r.split("WARNING: DATA RACE")[1:]
        in_buf = [r for r in races if re.search(r"gdriver/gtxbuf/(workingstate|txbuffer)\.go", r.split("==================")[0])]
        if in_buf:
            ctx.violation("Linearizable", "Buffer(concurrent)", "data-race",
                          "Go race detector: unsynchronised access inside gtxbuf while goroutines mix AddTx/Buffered/Rebase on one Buffer (the kernel goroutine no longer serializes the requests):\n"
                          + in_buf[0].split("==================")[0][:2500], replay_obj={"race_report": in_buf[0][:6000]})
        elif rc_r != 0:
            raise vlib.Inconclusive("race-instrumented concurrent driver failed rc=%s\n%s" % (rc_r, out_r[-3000:]))

    recs = []
    for o_ in outs:
        recs += vlib.read_ndjson(o_)
    crashed = [(lb, rc_, out_, pf) for lb, rc_, out_, pf in done if rc_ != 0]
    for lb, rc_, out_, pf in crashed:
        last = open(pf).read()[:600] if os.path.exists(pf) else "(none)"
        ctx.log("harness child %s exited rc=%s; last input: %s" % (lb, rc_, last))
    summ = {}
    for r in recs:
        if r.get("kind") == "summary":
            s = summ.setdefault(r["driver"], {})
            for k, v in r.items():
                if isinstance(v, int) and not isinstance(v, bool):
                    s[k] = s.get(k, 0) + v
                elif isinstance(v, dict):
                    d = s.setdefault(k, {})
                    for kk, vv in v.items():
                        d[kk] = d.get(kk, 0) + vv
    viols = [r for r in recs if r.get("kind") == "violation"]
    mism = [r for r in recs if r.get("kind") == "mismatch"]
    panics = [r for r in recs if r.get("kind") == "panic"]
    for r in viols:
        ctx.violation(r["pred"], r["site"], r["class"], r["what"],
                      replay_obj={"beh": r["beh"], "step": r["step"], "src": r["src"]})
    for r in panics:
        ctx.log("recovered panic in harness: %s" % json.dumps(r)[:400])
    if crashed and not ctx.violations:
        lb, rc_, out_, pf = crashed[0]
        raise vlib.Inconclusive("harness child %s died rc=%s (last input in %s):\n%s" % (lb, rc_, pf, out_[-3000:]))

    rep = summ.get("replay", {})
    rnd = summ.get("random", {})
    cnc = summ.get("conc", {})
    if not ctx.replay and not ctx.violations:
        # the harness really ran
        if rep.get("input_behaviours", 0) < n_beh or rep.get("steps", 0) < 4 * n_beh:
            raise vlib.Inconclusive("replay executed %s of %d behaviours" % (rep.get("input_behaviours"), n_beh))
        for op in ("Initialize", "AddTx", "Buffered", "Rebase"):
            if rep.get("ops", {}).get(op, 0) == 0 or (op != "Initialize" and cnc.get("ops", {}).get(op, 0) == 0):
                raise vlib.Inconclusive("operation %s never executed by the harness" % op)
        if cnc.get("overlapping_calls", 0) < cnc.get("histories", 0) // 4:
            raise vlib.Inconclusive("concurrent driver produced too few overlapping calls: %s" % cnc)

    # which variant of the spec does the code follow?  (decided on the deviating steps only)
    dev_asis = rep.get("dev_asis", 0) + rnd.get("dev_asis", 0)
    dev_fixed = rep.get("dev_fixed", 0) + rnd.get("dev_fixed", 0)
    if dev_asis and dev_fixed:
        variant = None
    elif dev_fixed:
        variant = "FALSE"
    elif dev_asis:
        variant = "TRUE"
    elif not unknown_so_far(ctx) and not ctx.replay:
        raise vlib.Inconclusive("no deviating Rebase step (invalidated value duplicated among the kept) was executed; cannot tell which spec variant the code follows")
    else:
        variant = "TRUE"
    ctx.log("replayed %d behaviours (%d steps) + %d random executions; deviating steps: %d follow the as-is spec, %d the design; mismatches %d, violations %d"
            % (rep.get("behaviours", 0), rep.get("steps", 0), rnd.get("behaviours", 0), dev_asis, dev_fixed, len(mism), len(viols)))
    unknown = list(ctx.violations)
    if mism and not unknown:
        # the spec models the code; a disagreement on which no named predicate fails is not a verdict
        raise vlib.Inconclusive("real code disagrees with TxBuf.tla on %d steps although no property predicate fails, e.g. %s"
                                % (len(mism), json.dumps(mism[0])[:1500]))
    if variant is None and not unknown:
        raise vlib.Inconclusive("code follows the as-is spec on %d deviating steps and the design on %d" % (dev_asis, dev_fixed))

    # ------------------------------------------------------------------ 3. code -> spec
    tv = 0
    lin_hist = 0
    if not unknown and not ctx.replay:
        # sequential traces, split over several TLC runs
        chunks = [[] for _ in range(3 if quick else 8)]
        cur, ci = [], 0
        def flush():
            nonlocal cur, ci
            if cur:
                chunks[ci % len(chunks)].extend(cur); ci += 1; cur = []
        n_ev = 0
        for tpath in traces:
            if not os.path.exists(tpath):
                continue
            for ln in open(tpath):
                if ln.startswith('{"ev":"reset"'):
                    flush()
                cur.append(ln); n_ev += 1
        flush()
        tf = []
        for i, ch in enumerate(chunks):
            if not ch:
                continue
            p = ctx.path("trace", "trace-%d.ndjson" % i)
            open(p, "w").writelines(ch)
            tf.append((p, len(ch), sum(1 for l in ch if l.startswith('{"ev":"reset"'))))
        if n_ev < 1000:
            raise vlib.Inconclusive("only %d trace events recorded" % n_ev)

        def validate(kind, module, cfg, path, target, nlines):
            try:
                r = R.tlc(kind, module, cfg, {"ByValueInvalidation": variant}, copy={path: target}, workers=1,
                          deque=(kind == "lin"), timeout=3000, allow_violation=True)
            except vlib.Inconclusive as e:
                msg = str(e)
                if "ostcondition" in msg:
                    m = re.search(r"depth of the complete state graph search is (\d+)", msg)
                    return {"rejected": True, "depth": int(m.group(1)) if m else None, "msg": msg, "path": path}
                raise
            if r["violated"]:
                m = re.search(r"Invariant (\w+) is violated", r["out"])
                return {"invariant": m.group(1) if m else "?", "msg": "\n".join(r["lines"][-60:]), "path": path}
            return {"ok": True, "states": r["distinct"]}

        vf = [pool.submit(validate, "trace", "TxBufTrace", "TxBuf_trace.cfg", p, "trace.ndjson", n) for p, n, _ in tf]
        # concurrent histories: split at "reset" lines; call ids are line numbers, re-based per chunk
        lin_lines = open(lin).read().splitlines()
        starts = [i for i, l in enumerate(lin_lines) if l.startswith('{"ev":"reset"')]
        nchunks = 1 if quick else 6
        per = (len(starts) + nchunks - 1) // nchunks
        lfs = []
        for c in range(nchunks):
            hs = starts[c * per:(c + 1) * per]
            if not hs:
                continue
            lo = hs[0]
            hi = starts[(c + 1) * per] if (c + 1) * per < len(starts) else len(lin_lines)
            p = ctx.path("trace", "lin-%d.ndjson" % c)
            with open(p, "w") as f:
                for l in lin_lines[lo:hi]:
                    e = json.loads(l)
                    if e["ev"] != "reset":
                        e["id"] -= lo
                    f.write(json.dumps(e, separators=(",", ":")) + "\n")
            lfs.append((p, len(hs), pool.submit(validate, "lin", "TxBufLin", "TxBuf_lin.cfg", p, "lin.ndjson", 0)))
        for (p, n, k), f in zip(tf, vf):
            v = f.result()
            if v.get("ok"):
                tv += k
            elif v.get("invariant"):
                ctx.violation(v["invariant"].replace("G", "") if v["invariant"].endswith("G") else v["invariant"],
                              "sequential-trace", "spec-invariant-on-recorded-execution",
                              "TxBufTrace.tla: invariant %s is false on an execution recorded from the real code\n%s" % (v["invariant"], v["msg"][-2500:]),
                              replay_obj={"trace_tail": open(p).read().splitlines()[-5:]})
            else:
                bad_line = open(p).read().splitlines()[(v["depth"] or 1) - 1] if v.get("depth") else "?"
                raise vlib.Inconclusive("TxBufTrace.tla cannot explain line %s of a recorded execution (no named predicate failed): %s"
                                        % (v.get("depth"), bad_line[:600]))
        for p, nh, f in lfs:
            v = f.result()
            if v.get("ok"):
                lin_hist += nh
                tv += nh
            elif v.get("invariant"):
                ctx.violation(v["invariant"], "concurrent-history", "spec-invariant-on-linearization",
                              "TxBufLin.tla: invariant %s false on a linearization of a real concurrent history\n%s" % (v["invariant"], v["msg"][-2500:]))
            else:
                lines = open(p).read().splitlines()
                ctx.violation("Linearizable", "Buffer(concurrent)", "no-linearization",
                              "a concurrent AddTx/Buffered/Rebase history recorded from the real Buffer has no linearization in TxBuf.tla (search stopped at depth %s; file has %d lines)" % (v.get("depth"), len(lines)),
                              replay_obj={"lin_file": lines[:400]})
    ctx.traces_validated = tv

    # ------------------------------------------------------------------ evidence
    for r in (viols[:2]):
        ctx.sample({"violation_on_real_code": {k: r[k] for k in ("pred", "site", "class", "what")}})
    if os.path.exists(lin):
        with open(lin) as f:
            ctx.sample({"concurrent_history_head": [json.loads(next(f)) for _ in range(4)]})
    ctx.assumptions += [
        "addTxFunc is a pure finite table wrapped in TxInvalidError; non-TxInvalidError failures during Rebase (documented as fatal) are out of scope",
        "the deleter is the recipe documented on gtxbuf.New (map of reject values, report presence)",
        "'reported applied' is by value, as Rebase documents ('present in the applied slice')",
        "call is logged before and return after the real call under one mutex, so logged intervals contain the real ones",
    ]
    cov = {
        "states": states_exh, "transitions": trans_exh,
        "tlc_runs": {k: {"generated": v.get("states"), "distinct": v.get("distinct"), "wall_s": round(v["wall"], 1)} for k, v in res.items()},
        "tables_2x2": 81, "tables_3x3": n_tables, "max_pending": {"2x2": mp2, "3x3": mp3},
        "behaviours_exported": n_beh, "spec_actions_in_exported_behaviours": spec_ops,
        "behaviours_replayed": rep.get("behaviours", 0) + rnd.get("behaviours", 0),
        "evaluations": rep.get("steps", 0) + rnd.get("steps", 0),
        "distinct_nontrivial": rep.get("distinct", 0) + rnd.get("distinct", 0),
        "rule": "every step of every replayed/random execution: Buffered() and results compared with the spec and the four predicates re-evaluated on the real outputs; distinct_nontrivial = distinct (table, base, pending-before, op, args) tuples, counted in a set per harness process and summed over processes",
        "deviating_steps_as_is": dev_asis, "deviating_steps_design": dev_fixed,
        "spec_variant_followed_by_code": {"TRUE": "as-is (by-value pruning of invalidated txs)", "FALSE": "design (positional pruning)", None: "mixed"}[variant],
        "traces_validated_against_impl": tv,
        "concurrent_histories_linearized": lin_hist, "concurrent_calls": cnc.get("calls", 0),
        "overlapping_calls": cnc.get("overlapping_calls", 0), "race_detector_histories": race_hist,
        "exhaustive": True,
    }
    pool.shutdown(wait=False)
    if skip_mc:
        ctx.log("NOTE: VERIF_C19_SKIP_MC / --replay: TLC exhaustive runs skipped (development mode)")
        cov["exhaustive"] = False
    return ctx.finish("model_checking", extra_cov=cov)
