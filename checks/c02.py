"""C02 -- the local validator never signs two proposals or votes in one round; recorded before released."""
import vlib, smcheck, mirrorcheck

META = {
    "level": "model_checking",
    "text": "StateMachine.tla models the round lifecycle event by event with the action store written between signing and emission and a crash after any event followed by a restart on the same stores; TLC checks SignOnce (at most one signature per kind, height and round over the whole history, restarts included) and exports every counterexample witness; witnesses and simulated behaviours are replayed on a real tmstate.StateMachine with a recording Signer and a recording ActionStore: the harness counts real Signer calls per (kind, height, round) across restarts and checks for every action received on the mirror channel that its action-store record already exists, and that no second, DIFFERENT proposal or vote for a round is ever released (ReleasedOnce: holds on the unchanged tree even where the known re-sign-after-restart finding applies, because the action store refuses the duplicate). Generation: witnesses of design counterexamples, simulation, and an edge cover (one behaviour per reachable (state, event) pair, including events the model ignores such as a duplicate strategy answer); free run after a divergence; predicate failures must reproduce on a second replay.",
    "note": "N=4 equal powers, heights 1..3, rounds 0..2, strategy answers chosen by the behaviour (any proposed hash or nil, late or never). Crash = cancel the state machine and start a new one on the same store objects. Trusted: TLC, the recording wrappers.",
    "technique": "TLA+ spec (StateMachine.tla) + TLC exhaustive bounded check with crash/restart + replay of counterexample witnesses and simulated behaviours on the real state machine with recording signer/action store",
}


def run(ctx):
    q = ctx.quick()
    design = [{"steps": 6 if q else 7, "universe": "Small", "crash": True, "invariants": ["C02_SignOnce"], "witnesses": 60 if q else 600}]
    plans = [{"cover": True, "universe": "Small", "steps": 4 if q else 5, "crash": True, "cap": 4000 if q else None},
             {"universe": "Small", "rich": False, "sim": 15 if q else 120, "steps": 9 if q else 11, "crash": True, "cap": 250 if q else 4000, "seeds": 1 if q else 3},
             {"universe": "", "rich": True, "sim": 4 if q else 40, "steps": 8 if q else 10, "crash": False, "cap": 150 if q else 3000, "seeds": 1 if q else 2}]
    cov, mismatches, inconcl = smcheck.collect(ctx, {"C02"}, plans, design)
    rc = ctx.finish("model_checking", extra_cov=cov)
    return mirrorcheck.conclude(rc, mismatches, inconcl)
