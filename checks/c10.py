"""C10 -- restart on the same stores resumes without loss or regression (mirror, state machine, whole engine)."""
import json, os
import vlib, mirrorcheck

META = {
    "level": "model_checking",
    "text": "Every store write of Mirror.tla is a separate crash point: a step may die after any prefix of its writes, and Restart is NewKernel's initialisation from the store variables; TLC checks that restart never fails (C10_RestartOK) and the chain/position invariants of C04 across crashes. The same crash points are replayed on a real Mirror: the recording stores are truncated to the first k writes of the interrupted step, a new Mirror is started on them, and the harness checks on the real objects that it starts, that positions are not behind what was durable, that every vote and proposed header persisted for the resumed rounds is present again (and, by C05's oracle, still verifies), and it continues with the rest of the behaviour. The state machine half of a restart is replayed too (StateMachine.tla with a crash after every macro step, edge cover + simulation): predicate ResumesAtDurablePosition; at every crash point of the mirror the durable committed chain must cover the durably recorded position (DurableChainCoversPosition). The whole engine is restarted too: three real tmengine engines (the C03 cluster harness) finalize k heights, one node is stopped and started again with tmengine.New on the same stores; its state machine must enter a round (or ask for a catch-up finalization) again, its positions must not be behind, and the cluster must go on finalizing one chain.",
    "note": "World focus_chain (edge cover with a crash after every store write): a committing round holding precommits for two targets whose store collection is rewritten when the next height's header brings a late precommit; PersistedVotesReloaded is judged against every vote EVER durably written for the resumed rounds (write log), not only against what the store holds at the restart; after a divergence the crash and the restart are still carried out (free run). Mirror/stores only; the state machine's restart (action store, finalization store) is exercised by C02. 'Same result as the crash-free run' is checked through state equality with the spec (whose crash-free and crashed runs are both explored), not by a twin execution. Bounded as C01.",
    "technique": "TLA+ spec (Mirror.tla) with a crash point after every store write + TLC exhaustive bounded check + crash/restart replay on the real Mirror over truncatable recording stores",
}


def run(ctx):
    q = ctx.quick()
    plans = [
        {"world": "focus_valsets", "cover": True, "steps": 6 if q else 7, "avoid": True, "crash": True},
        {"world": "focus_chain", "cover": True, "edge": True, "steps": 6 if q else 7, "avoid": True, "crash": True},
        {"world": "happy", "sim": 4 if q else 25, "steps": 8 if q else 11, "avoid": True, "crash": True, "cap": 260 if q else 4000, "seeds": 1 if q else 3},
        {"world": "replay", "sim": 3 if q else 20, "steps": 7 if q else 9, "avoid": True, "crash": True, "cap": 200 if q else 3000, "seeds": 1 if q else 2},
    ]
    if not q:
        plans.append({"world": "valsets", "sim": 20, "steps": 9, "avoid": True, "crash": True, "cap": 3000, "seeds": 2})
        plans.append({"world": "adversarial", "sim": 10, "steps": 8, "avoid": True, "crash": True, "cap": 2000, "seeds": 1})
    design = [("Mirror_c10.cfg", {"MaxSteps": 4 if q else 5, "AllowCrash": "TRUE"}, "C10_RestartOK (action property), C04_Chain across crashes")]
    cov, mismatches, inconcl = mirrorcheck.collect(ctx, {"C10"}, plans, design_cfgs=design)
    # the state machine half of a restart: StateMachine.tla with crashes after every macro step (edge cover + simulation),
    # replayed on the real state machine: it resumes at the position its stores record and not behind it
    import smcheck
    sm_plans = [{"cover": True, "universe": "Small", "steps": 4 if q else 5, "crash": True, "rich": True, "cap": 5000 if q else 40000},
                {"universe": "Small", "rich": False, "sim": 10 if q else 80, "steps": 9 if q else 11, "crash": True, "cap": 200 if q else 3000, "seeds": 1 if q else 2}]
    scov, smis, sinc = smcheck.collect(ctx, {"C10"}, sm_plans, [])
    cov["state_machine_restart"] = scov
    cov["behaviours_replayed_on_real_code"] += scov["behaviours_replayed_on_real_code"]
    cov["evaluations"] += scov["evaluations"]
    # the whole engine (mirror + state machine + consensus manager) restarted on the same stores: three real tmengine
    # engines driven by the C03 cluster harness (checks/c03.py, notes/C03.md); after finalizing height k node n is stopped
    # (cancel, Wait) and started again with tmengine.New on the same stores.  On the real engines: the restarted node's
    # state machine must be running again (it waits in a timed step of the height it was in), its positions must not be
    # behind what they were, and the cluster must go on finalizing the same chain.
    import c03
    cl = c03.Cluster(ctx)
    cl.build()
    ebehs = []
    for k in (0, 1, 2, 3) if q else (0, 1, 2, 3, 4, 5):
        for n in (1, 2, 3):
            steps = ([{"op": "sync", "h": k}] if k > 0 else []) + [{"op": "restart", "n": n}, {"op": "sync", "h": k + 2}]
            ebehs.append({"class": "c10", "powers": [1, 1, 1, 1], "maxH": k + 3, "maxR": 1, "propose": True, "steps": steps, "_k": k, "_n": n})
    os.environ["VERIF_OBS"] = "1"
    try:
        erecs, edeaths = cl.replay(ebehs, "c10", procs=4)
    finally:
        os.environ.pop("VERIF_OBS", None)
    byrun = {}
    for r in erecs:
        if "run" in r:
            byrun.setdefault(r["run"], []).append(r)
    # the recorded traces: after "restart n" the consensus strategy of node n must be entered again (EnterRound is the first
    # thing a state machine does when it starts in a live round) or the node must ask its driver to finalize (catch-up)
    tev = {}
    for tp in cl.traces:
        for e in vlib.read_ndjson(tp):
            if "run" in e:
                tev.setdefault(e["run"], []).append(e)
    ok_runs, restarts_seen = 0, 0
    for run, evs in sorted(tev.items()):
        b = ebehs[run] if run < len(ebehs) else None
        if b is None:
            continue
        evs.sort(key=lambda e: e.get("g", 0))
        for idx, e in enumerate(evs):
            if e.get("ev") != "restart":
                continue
            restarts_seen += 1
            n = e.get("n")
            alive = any(x.get("n") == n and x.get("ev") in ("enter", "finalize") for x in evs[idx + 1:])
            if not alive:
                ctx.violation("EngineRestartResumesStateMachine", "tmengine.New", "height-%d" % (b["_k"] + 1),
                              "node %d was stopped after finalizing height %d and started again with tmengine.New on the same stores: for the rest of the run (%d recorded events) its state machine neither entered a round on the consensus strategy nor asked the driver to finalize -- the engine came back without a working state machine"
                              % (n, b["_k"], len(evs) - idx - 1),
                              replay_obj={"cluster_behaviour": {k: v for k, v in b.items() if not k.startswith("_")}})
    for run, rs in sorted(byrun.items()):
        b = ebehs[run] if run < len(ebehs) else None
        if b is None:
            continue
        obs = [r for r in rs if r.get("kind") == "obs"]
        before = None
        for o in obs:
            if o.get("op") == "restart" and before is not None:
                node, was = o["nodes"][b["_n"] - 1], before["nodes"][b["_n"] - 1]
                if (node.get("mh"), node.get("mr")) < (was.get("mh"), was.get("mr")) or len(node.get("chain") or []) < len(was.get("chain") or []):
                    ctx.violation("NotBehindDurable", "tmengine.New", "engine",
                                  "after the restart node %d is at %s/%s with %d committed headers; before it was at %s/%s with %d"
                                  % (b["_n"], node.get("mh"), node.get("mr"), len(node.get("chain") or []), was.get("mh"), was.get("mr"), len(was.get("chain") or [])),
                                  replay_obj={"cluster_behaviour": {k: v for k, v in b.items() if not k.startswith("_")}})
            before = o
        fin = [r for r in rs if r.get("kind") == "run"]
        if fin and fin[0].get("status") == "ok":
            ok_runs += 1
            chains = list((fin[0].get("fin") or {}).values())
            if chains and any(c != chains[0] for c in chains):
                ctx.violation("SameChainAfterRestart", "cluster", "engine", "after a restart the nodes finalized different chains: %s" % json.dumps(fin[0].get("fin")),
                              replay_obj={"cluster_behaviour": {k: v for k, v in b.items() if not k.startswith("_")}})
    ctx.log("engine restarts: %d schedules, %d restarts observed, %d schedules ran to the end, %d child deaths" % (len(ebehs), restarts_seen, ok_runs, len(edeaths)))
    if restarts_seen < len(ebehs) // 2:
        raise vlib.Inconclusive("engine restart stage observed only %d restarts of %d" % (restarts_seen, len(ebehs)))
    cov["engine_restart"] = {"schedules": len(ebehs), "restarts_observed": restarts_seen, "schedules_completed": ok_runs,
                             "rule": "three real tmengine engines (C03 cluster harness); node n stopped after height k and started again with tmengine.New on the same stores"}
    rc = ctx.finish("model_checking", extra_cov=cov)
    return mirrorcheck.conclude(rc, mismatches + smis, inconcl + sinc)
