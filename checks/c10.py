"""C10 -- restart on the same stores resumes without loss or regression (mirror side)."""
import vlib, mirrorcheck

META = {
    "level": "model_checking",
    "text": "Every store write of Mirror.tla is a separate crash point: a step may die after any prefix of its writes, and Restart is NewKernel's initialisation from the store variables; TLC checks that restart never fails (C10_RestartOK) and the chain/position invariants of C04 across crashes. The same crash points are replayed on a real Mirror: the recording stores are truncated to the first k writes of the interrupted step, a new Mirror is started on them, and the harness checks on the real objects that it starts, that positions are not behind what was durable, that every vote and proposed header persisted for the resumed rounds is present again (and, by C05's oracle, still verifies), and it continues with the rest of the behaviour. The state machine half of a restart is replayed too (StateMachine.tla with a crash after every macro step, edge cover + simulation): predicate ResumesAtDurablePosition; at every crash point of the mirror the durable committed chain must cover the durably recorded position (DurableChainCoversPosition).",
    "note": "Mirror/stores only; the state machine's restart (action store, finalization store) is exercised by C02. 'Same result as the crash-free run' is checked through state equality with the spec (whose crash-free and crashed runs are both explored), not by a twin execution. Bounded as C01.",
    "technique": "TLA+ spec (Mirror.tla) with a crash point after every store write + TLC exhaustive bounded check + crash/restart replay on the real Mirror over truncatable recording stores",
}


def run(ctx):
    q = ctx.quick()
    plans = [
        {"world": "focus_valsets", "cover": True, "steps": 6 if q else 7, "avoid": True, "crash": True},
        {"world": "happy", "sim": 4 if q else 25, "steps": 8 if q else 11, "avoid": True, "crash": True, "cap": 260 if q else 4000, "seeds": 1 if q else 3},
        {"world": "replay", "sim": 3 if q else 20, "steps": 7 if q else 9, "avoid": True, "crash": True, "cap": 200 if q else 3000, "seeds": 1 if q else 2},
    ]
    if not q:
        plans.append({"world": "valsets", "sim": 20, "steps": 9, "avoid": True, "crash": True, "cap": 3000, "seeds": 2})
        plans.append({"world": "adversarial", "sim": 10, "steps": 8, "avoid": True, "crash": True, "cap": 2000, "seeds": 1})
    design = [("Mirror_c10.cfg", {"MaxSteps": 4 if q else 5, "AllowCrash": "TRUE"}, "C10_RestartOK (action property), C04_Chain across crashes")]
    cov, mismatches, inconcl = mirrorcheck.collect(ctx, {"C10"}, plans, design_cfgs=design)
    # the state machine half of a restart: StateMachine.tla with crashes after every macro step (edge cover + simulation),
    # replayed on the real state machine: it resumes at the position its stores record and not behind it
    import smcheck
    sm_plans = [{"cover": True, "universe": "Small", "steps": 4 if q else 5, "crash": True, "rich": True, "cap": 5000 if q else 40000},
                {"universe": "Small", "rich": False, "sim": 10 if q else 80, "steps": 9 if q else 11, "crash": True, "cap": 200 if q else 3000, "seeds": 1 if q else 2}]
    scov, smis, sinc = smcheck.collect(ctx, {"C10"}, sm_plans, [])
    cov["state_machine_restart"] = scov
    cov["behaviours_replayed_on_real_code"] += scov["behaviours_replayed_on_real_code"]
    cov["evaluations"] += scov["evaluations"]
    rc = ctx.finish("model_checking", extra_cov=cov)
    return mirrorcheck.conclude(rc, mismatches + smis, inconcl + sinc)
