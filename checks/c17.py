"""C17 -- gossip broadcasts everything the node knows and nothing else.
Chatty.tla models the mirror side that produces NetworkViewUpdates (EngineProducible) and the
ChattyStrategy kernel; TLC checks Sound / Complete exhaustively over all behaviours with a bounded
number of mirror events, exports behaviours (exhaustive small bound + simulation at larger constants)
that are replayed on the real tmgossip.ChattyStrategy with a recording ConsensusBroadcaster and real
fixtures; what the real strategy sent is validated step by step by ChattyTrace.tla."""
import json, os
import vlib

META = {
    "level": "model_checking",
    "text": "TLC checks Sound (nothing offered that was not in a received view) and Complete (every proposed header and vote signature of every received Committing/Voting/NextRound view and every precommit of a NilVotedRound view has been offered at each quiescent point) on Chatty.tla: the mirror's view management generates exactly the update sequences the engine can hand over (3 weighted validators, 2 block ids + nil, heights 1..2, rounds 0..1, equivocation by one validator), exhaustively for all behaviours with a bounded number of mirror events and any number of deliveries; the exported behaviours (all with <=3 deliveries, plus simulated ones with 5 validators / 3 ids / 12 deliveries) are replayed on the real ChattyStrategy with real ed25519 fixtures and a recording broadcaster, quiescence judged by channel rendezvous (no timing); predicates are evaluated on the real broadcasts and the real traces are validated against the spec kernel by ChattyTrace.tla.",
    "note": "Known deviation (known_findings.d/C17.json): the rebroadcast decision compares the count of the union of signers, so a vote by a validator that already has a vote for another target in that view (equivocation) is not offered until another validator's vote arrives. Assumptions: the first update never carries NilVotedRound (the code ignores it there); for NilVotedRound only the precommits are demanded (as the property says); update sequences are restricted to what tmi's gossipViewManager/kState can emit (see notes/C17.md).",
    "technique": "TLA+ spec (environment = mirror view manager, system = strategy kernel) + TLC exhaustive/simulation + behaviour replay on the real strategy + trace validation",
    "design_ref": "DESIGN.md section 5, C17",
}

PKG = "tm/tmgossip"
MPKG = "tm/tmengine/internal/tmmirror"
VALS3 = ["v1", "v2", "v3"]
VALS5 = ["v1", "v2", "v3", "v4", "v5"]


def _overlay(ctx):
    """Only this check's own harness files (other checks keep files in the same directories)."""
    H = vlib.HARNESS
    return ctx.harness_overlay(extra={
        PKG + "/zz_verif_c17_test.go": os.path.join(H, PKG, "zz_verif_c17_test.go"),
        MPKG + "/zz_verif_c17_e2e_test.go": os.path.join(H, MPKG, "zz_verif_c17_e2e_test.go")})


def _run_e2e(ctx, ov):
    """Real Mirror wired to the real ChattyStrategy (TestVerifC17E2E)."""
    e2e_out = ctx.path("e2e-%d.ndjson" % len(os.listdir(ctx.scratch)))
    rc, o = ctx.go_test(MPKG, "^TestVerifC17E2E$", env={"VERIF_OUT": e2e_out}, overlay=ov, timeout=600)
    e2e = [r for r in vlib.read_ndjson(e2e_out) if r.get("kind") == "e2e"]
    if rc != 0 or not e2e:
        raise vlib.Inconclusive("C17 end-to-end witness (real Mirror + real ChattyStrategy) did not run rc=%s\n%s" % (rc, o[-3000:]))
    return e2e[0]


def _e2e_violations(ctx, e2e):
    for name, vote in (("first_vote", "a validator's first prevote"), ("equivocating_vote", "a second prevote of the same validator for another block (equivocation)"),
                       ("third_vote", "another validator's prevote")):
        if e2e[name + "_in_update"] and not e2e[name + "_offered"]:
            ctx.violation("Complete", "Voting:same-hr", "vote:equivocation" if name == "equivocating_vote" else "pv",
                          "end-to-end: the real Mirror accepted %s and handed the grown Voting view to the real ChattyStrategy, which never offered the signature to the broadcaster (quiescence by barrier update)" % vote,
                          replay_obj={"e2e": e2e})
    if e2e.get("nil_voted_round_in_update") and e2e.get("nil_precommits_offered", 0) < 3:
        ctx.violation("Complete", "NilVotedRound", "pc",
                      "end-to-end: the real Mirror nil-committed round (1,0) and handed NilVotedRound to the real ChattyStrategy, which offered only %d of its 3 nil precommits to the broadcaster" % e2e.get("nil_precommits_offered", 0),
                      replay_obj={"e2e": e2e})


def _write_behs(path, behs):
    with open(path, "w") as f:
        for b in behs:
            f.write(json.dumps(b) + "\n")


def _run_harness(ctx, binary, behs, tag, trace_every, settle_ms=30000):
    """Run the harness binary over behs.  A process crash is attributed to the last started behaviour
    (reported by the caller), which is then skipped.  Returns (records, trace_path, crashes)."""
    tin = ctx.path("%s-in.ndjson" % tag)
    _write_behs(tin, behs)
    skip, crashes = [], []
    for attempt in range(5):
        out, trace = ctx.path("%s-out-%d.ndjson" % (tag, attempt)), ctx.path("%s-trace-%d.ndjson" % (tag, attempt))
        for p in (out, trace):
            if os.path.exists(p):
                os.remove(p)
        env = {"VERIF_IN": tin, "VERIF_OUT": out, "VERIF_TRACE": trace, "VERIF_SEED": str(ctx.seed),
               "VERIF_TRACE_EVERY": str(trace_every), "VERIF_SETTLE_MS": str(settle_ms),
               "VERIF_SKIP": ",".join(str(i) for i in skip),
               # after a crash: one worker, so that the crash is attributed to exactly one behaviour
               "VERIF_WORKERS": "8" if attempt == 0 else "1"}
        rc, o = ctx.go_test(PKG, "^TestVerifC17$", env=env, binary=binary, timeout=1500)
        recs = vlib.read_ndjson(out)
        if rc == 0 and any(r.get("kind") == "summary" for r in recs):
            return recs, trace, crashes
        started = [r["id"] for r in recs if r.get("kind") == "start"]
        done = set(r["id"] for r in recs if r.get("kind") in ("done", "stall"))
        pending = [i for i in started if i not in done]
        if not pending:
            raise vlib.Inconclusive("C17 harness failed without an attributable behaviour rc=%s\n%s" % (rc, o[-3000:]))
        if attempt == 0:
            continue                      # parallel run crashed: repeat sequentially to attribute it
        crashes.append({"id": pending[-1], "output": o[-2500:]})
        skip.append(pending[-1])
    raise vlib.Inconclusive("C17 harness keeps crashing: %s" % json.dumps(crashes)[:3000])


def run(ctx):
    quick = ctx.quick()

    # ---------------------------------------------------------------- replay of a stored counterexample
    if ctx.replay:
        rp = json.load(open(ctx.replay))
        ov = _overlay(ctx)
        if "e2e" in rp["replay"]:
            e2e = _run_e2e(ctx, ov)
            ctx.log("end-to-end (real Mirror -> real ChattyStrategy): %s" % json.dumps(e2e))
            _e2e_violations(ctx, e2e)
            return ctx.finish("model_checking", extra_cov={"evaluations": 1, "distinct_nontrivial": 1, "rule": "end-to-end witness re-run", "exhaustive": False})
        beh = rp["replay"].get("behaviour", rp["replay"])
        beh["id"] = 0
        binary = ctx.path("c17.test")
        ctx.go_test(PKG, "", overlay=ov, compile_only=True, binary=binary)
        recs, _, crashes = _run_harness(ctx, binary, [beh], "replay", 1)
        for r in recs:
            if r.get("kind") in ("violation", "mismatch", "stall", "flaky", "summary"):
                ctx.log(json.dumps({k: v for k, v in r.items() if k != "behaviour"}))
        vio = [r for r in recs if r.get("kind") == "violation"]
        for r in vio:
            ctx.violation(r["pred"], r["site"], r["class"], "replayed: %s missing/unsound %s" % (r["pred"], r["items"]), replay_obj={"behaviour": beh})
        for c in crashes:
            ctx.violation("Complete", "kernel", "strategy-panic", "replayed: strategy crashed\n" + c["output"], replay_obj={"behaviour": beh})
        return ctx.finish("model_checking", extra_cov={"evaluations": 1, "distinct_nontrivial": 1, "rule": "replay of one stored behaviour", "exhaustive": False})

    # ---------------------------------------------------------------- 0. environment assumption on the real mirror
    # Does the real Mirror accept an equivocating vote and hand it to the real ChattyStrategy?  If not,
    # the environment must not produce equivocation (Byz = {}).
    ov = _overlay(ctx)
    e2e = _run_e2e(ctx, ov)
    ctx.log("end-to-end (real Mirror -> real ChattyStrategy): %s" % json.dumps(e2e))
    if not (e2e["first_vote_in_update"] and e2e["third_vote_in_update"]):
        raise vlib.Inconclusive("end-to-end witness: the mirror did not forward plain votes: %s" % json.dumps(e2e))
    if not (e2e.get("nil_voted_round_in_update") and e2e.get("nil_voted_round_update_has_voting_1_1_and_nextround_1_2")):
        raise vlib.Inconclusive("end-to-end witness: the real mirror's nil-round update does not have the shape Chatty.tla's environment assumes: %s" % json.dumps(e2e))
    equiv = e2e["equivocating_vote_result"] == "Accepted" and e2e["equivocating_vote_in_update"]
    byz = {} if equiv else {"Byz": "{}"}
    if not equiv:
        ctx.log("the mirror does not hand equivocating votes to the strategy: environment restricted to Byz = {}")
    ctx.sample({"end_to_end_real_mirror_and_strategy": e2e})

    # ---------------------------------------------------------------- 1+2. TLC: design check, behaviour export
    # the runs are independent processes: started together (each with a share of the cores)
    from concurrent.futures import ThreadPoolExecutor
    ev = 3 if quick else 4
    jobs = {}
    with ThreadPoolExecutor(max_workers=5) as pool:
        jobs["mc"] = pool.submit(ctx.tlc, "ChattyMC", "Chatty_mc.cfg", timeout=2400, workers=6, defines=dict(byz, MaxEvents=ev))
        # quick: one block id + nil in the replayed exhaustive set (two ids: TLC run above, simulation, thorough tier)
        jobs["emit"] = pool.submit(ctx.tlc, "ChattyMC", "Chatty_emitq.cfg" if quick else "Chatty_emit.cfg", timeout=2400, workers=6,
                                   defines=dict(byz, MaxUpdates=3, MaxGap=2, MaxEvents=3) if quick
                                   else dict(byz, MaxUpdates=4, MaxGap=3, MaxEvents=3))   # = every behaviour with <=3 events
        # the same export from the restart initial states (a Committing view exists from the first update on): reaches
        # updates that carry a Committing view together with a NilVotedRound within the event bound
        jobs["emitrst"] = pool.submit(ctx.tlc, "ChattyMC", "Chatty_emitrst.cfg", timeout=2400, workers=4,
                                      defines=dict(byz, Kinds='{"pc"}') if quick else (byz or None))
        jobs["sim"] = pool.submit(ctx.tlc, "ChattyMC", "Chatty_sim.cfg", timeout=900 if quick else 2400, workers=4,
                                  simulate="num=%d" % (80 if quick else 600), depth=80, extra=["-seed", str(ctx.seed)], defines=byz or None)
        if not quick:
            jobs["rst"] = pool.submit(ctx.tlc, "ChattyMC", "Chatty_mc.cfg", timeout=2400, workers=4,
                                      defines=dict(byz, MaxEvents=ev - 1, Restart="TRUE"))
            if equiv:
                jobs["dev"] = pool.submit(ctx.tlc, "ChattyMC", "Chatty_mcdev.cfg", timeout=600, workers=2, defines={"MaxEvents": 2},
                                          allow_violation=True)
    r_asis = jobs["mc"].result()
    ctx.log("TLC <=%d mirror events, any number of deliveries: %d distinct states, %d generated, %.0fs (as-is: Sound, CompleteModuloKnown; proposed fix: SoundF, CompleteF; EnvOK hold)"
            % (ev, r_asis["distinct"], r_asis["states"], r_asis["wall"]))
    r_rst = jobs["rst"].result() if "rst" in jobs else None
    if r_rst:
        ctx.log("TLC incl. restart initial states, <=%d events: %d distinct states, %.0fs" % (ev - 1, r_rst["distinct"], r_rst["wall"]))
    design_cex = None
    if "dev" in jobs:
        design_cex = bool(jobs["dev"].result()["violated"])
        ctx.log("TLC as-is strategy against the full Complete: %s" % ("counterexample (the named deviation) found, as expected for the count heuristic"
                                                                      if design_cex else "no counterexample"))
    r_emit = jobs["emit"].result()
    keys = {}
    for h in ctx.tlc_emitted(r_emit):
        keys.setdefault(json.dumps(h, sort_keys=True), h)
    n_fresh = len(keys)
    r_emitrst = jobs["emitrst"].result()
    for h in ctx.tlc_emitted(r_emitrst):
        keys.setdefault(json.dumps(h, sort_keys=True), h)
    ctx.log("export from restart initial states: %d further behaviours, TLC %d states %.0fs" % (len(keys) - n_fresh, r_emitrst["distinct"], r_emitrst["wall"]))
    behs = [{"id": i + 1, "src": "emit", "vals": VALS3, "steps": keys[k]} for i, k in enumerate(sorted(keys))]
    n_emit = len(behs)
    cap = 60000 if quick else 400000     # quick: seeded sample of the exhaustive set
    if n_emit > cap:                       # keep the run bounded: deterministic thinning by seed
        import random
        behs = random.Random(ctx.seed).sample(behs, cap)
    ctx.log("exported %d distinct behaviours (exhaustive for the emit bounds; %d replayed), TLC %d states %.0fs"
            % (n_emit, len(behs), r_emit["distinct"], r_emit["wall"]))
    r_sim = jobs["sim"].result()
    if r_sim["violated"]:
        raise vlib.Inconclusive("simulation found an invariant violation in the design (not replayed):\n" + "\n".join(r_sim["lines"][-40:]))
    skeys = {}
    for h in ctx.tlc_emitted(r_sim):
        k = json.dumps(h, sort_keys=True)
        if k not in keys:
            skeys.setdefault(k, h)
    base = 1000000
    behs += [{"id": base + i + 1, "src": "sim", "vals": VALS5, "steps": skeys[k]} for i, k in enumerate(sorted(skeys))]
    nsim = len(skeys)
    ctx.log("simulation (5 validators, 3 ids, 12 deliveries): %d behaviours, %d states checked" % (nsim, r_sim["states"]))
    if n_emit < 1000 or nsim < 20:
        raise vlib.Inconclusive("too few behaviours exported: emit=%d sim=%d" % (n_emit, nsim))

    # ---------------------------------------------------------------- 3. real strategy
    binary = ctx.path("c17.test")
    ctx.go_test(PKG, "", overlay=ov, compile_only=True, binary=binary)
    emit_b = [b for b in behs if b["src"] == "emit"]
    sim_b = [b for b in behs if b["src"] == "sim"]
    every = max(1, len(emit_b) // (1000 if quick else 10000))      # simulated behaviours are always traced
    recs, trace1, crash1 = _run_harness(ctx, binary, behs, "replay", every)
    crash2 = []
    byid = {b["id"]: b for b in behs}
    summ = [r for r in recs if r.get("kind") == "summary"]
    tot = {k: sum(s.get(k, 0) for s in summ) for k in ("behaviours", "steps", "real_steps", "match0", "match1", "mismatches",
                                                       "violations", "violating_behaviours", "flaky", "stalls", "traced", "trace_events", "distinct")}
    classes = sorted(set(c for s in summ for c in s.get("classes", [])))
    ctx.log("harness: %s" % json.dumps(tot))

    for c in crash1 + crash2:
        ctx.violation("Complete", "kernel", "strategy-panic",
                      "the strategy goroutine crashed on an engine-producible update sequence (nothing is broadcast afterwards)\n" + c["output"],
                      replay_obj={"behaviour": byid.get(c["id"])})
    vio = [r for r in recs if r.get("kind") == "violation"]
    for r in vio:
        what = ("%s fails on the real ChattyStrategy at quiescence after real step %d of behaviour %d (%s): %s %s"
                % (r["pred"], r["step"], r["id"], r["src"],
                   "never offered to the broadcaster:" if r["pred"] == "Complete" else "offered but not contained in any received view:",
                   ", ".join(r["items"][:8])))
        ctx.violation(r["pred"], r["site"], r["class"], what, replay_obj={"behaviour": r.get("behaviour")})
    _e2e_violations(ctx, e2e)            # after the replayed ones, so that --replay files carry a behaviour
    if tot["flaky"]:
        raise vlib.Inconclusive("%d behaviours gave non-reproducible predicate failures (not reported)" % tot["flaky"])
    if tot["stalls"]:
        st = [r for r in recs if r.get("kind") == "stall"][:3]
        if not ctx.violations:
            raise vlib.Inconclusive("strategy stalled on %d behaviours: %s" % (tot["stalls"], json.dumps(st)[:2000]))

    # vacuity of the binding
    need = ["equivocation-only-change"] if equiv else []
    have_ptr = {p: any((p + "true") in c for c in classes) for p in ("C", "V", "N", "NVR")}
    if tot["behaviours"] < 1000 or tot["steps"] < 3000 or not all(have_ptr.values()) or any(n not in classes for n in need):
        raise vlib.Inconclusive("harness coverage too thin: %s classes=%s" % (json.dumps(tot), classes))

    # which design does the code follow?
    variant = None
    if tot["match0"] == tot["steps"]:
        variant = "as-is"
    elif tot["match1"] == tot["steps"]:
        variant = "fixed"
    ctx.log("code conforms step-by-step to spec variant: %s (match as-is %d, match fixed %d of %d steps)"
            % (variant, tot["match0"], tot["match1"], tot["steps"]))

    # ---------------------------------------------------------------- 4. trace validation (code -> spec)
    tv = 0
    trace_all = ctx.path("trace-all.ndjson")
    with open(trace_all, "w") as f:
        if os.path.exists(trace1):
            f.write(open(trace1).read())
    n_events = sum(1 for _ in open(trace_all))
    if variant is not None:
        cfg = "Chatty_trace.cfg" if variant == "as-is" else "Chatty_tracefix.cfg"
        rt = ctx.tlc("ChattyTrace", cfg, workers=1, timeout=1500, copy={trace_all: "trace.ndjson"}, allow_violation=True, heap="8g")
        if rt["violated"] or not rt["ok"]:
            if not ctx.violations:
                raise vlib.Inconclusive("ChattyTrace rejected the real trace although the harness saw no predicate failure:\n" + "\n".join(rt["lines"][-30:]))
        else:
            tv = tot["traced"]
            ctx.traces_validated = tv
            ctx.log("ChattyTrace (%s): %d real traces, %d events accepted" % (variant, tv, n_events))
    elif not ctx.violations:
        mm = [r for r in recs if r.get("kind") == "mismatch"][:3]
        raise vlib.Inconclusive("the real strategy diverges from both spec variants without a predicate failure: %s" % json.dumps(mm)[:3000])

    # samples
    for b in (emit_b[:1] + sim_b[:1]):
        ctx.sample({"replayed_behaviour": {"id": b["id"], "src": b["src"], "updates": len(b["steps"]),
                                           "first_update_expected_broadcasts": b["steps"][0]["exp0"]}})
    for r in vlib.read_ndjson(trace_all)[1:3]:
        ctx.sample({"real_trace_event_validated": r})
    ctx.assumptions += [
        "EngineProducible: update sequences are those generated by Chatty.tla's environment (mirror kState/gossipViewManager: views of one (h,r) only grow, an update carries exactly the views changed since the last send, first update has Voting and NextRound, NilVotedRound = clone of Voting at AdvanceVotingRound); under-approximated where the mirror's reaction depends on C06 power summing",
        "A3: the first update never carries NilVotedRound (the strategy ignores it there); needs the strategy's first receive to be delayed by a whole nil round",
        "for NilVotedRound only precommits are required to be offered (property text); its other contents count for Sound only",
        "ed25519 signatures identify (kind,height,round,target,signer): a broadcast signature is matched byte-for-byte against the fixture's",
    ]
    cov = {
        "states": ctx.tlc_states, "transitions": ctx.tlc_transitions,
        "tlc_asis_and_fix_distinct": r_asis["distinct"], "tlc_restart_distinct": r_rst["distinct"] if r_rst else None,
        "environment_equivocation_confirmed_on_real_mirror": equiv,
        "tlc_event_bound": ev, "design_counterexample_to_full_Complete": design_cex,
        "behaviours_exported_exhaustive": n_emit, "behaviours_simulated": nsim, "behaviours_replayed": tot["behaviours"],
        "updates_replayed": tot["steps"], "traces_validated_against_impl": tv, "trace_events": n_events,
        "code_variant": variant, "update_classes_seen": classes,
        "evaluations": tot["steps"], "distinct_nontrivial": tot["distinct"],
        "rule": "one evaluation = Sound and Complete evaluated on the real broadcasts at the quiescent point after one real NetworkViewUpdate; distinct_nontrivial = distinct (update, real broadcast list) pairs counted in a set by the harness",
        "exhaustive": True, "replay_exhaustive": n_emit == len(emit_b),
        "exhaustive_scope": "all engine-producible behaviours of the 3-validator/2-id/2-height/2-round universe with <= %d mirror events (TLC) and all with %s (replayed on the code)" % (ev, "<=3 deliveries, <=3 events, <=2 events between deliveries, one block id + nil" if quick else "<=3 events, any number of deliveries, two block ids + nil"),
    }
    return ctx.finish("model_checking", extra_cov=cov)
