"""C04 -- a node's committed chain is immutable, gap-free and hash-linked; position monotone."""
import vlib, mirrorcheck

META = {
    "level": "model_checking",
    "text": "TLC checks on Mirror.tla that the committed-header store is never overwritten (action property), has no gaps, is hash-linked, that voting = committing + 1 and that the stored and in-memory voting position never moves backwards, over bounded histories with late/duplicate/conflicting certificates, replayed headers with wrong predecessors and a crash after every individual store write followed by restart; the generated behaviours (crash points included) are replayed on a real Mirror over recording stores and the same predicates are evaluated on the real stores and views after every step (every SaveCommittedHeader call is logged, so an overwrite is seen even if reverted). Generation additionally: exhaustive state cover of the focused rounds world and the concurrent-caller driver (MirrorConcMC.tla: two Handle*Proofs calls parked between their two phases in every interleaving, a caller giving up while the kernel works on its request) replayed with the verifGate hook; the repository's own tests run under the invariant monitor (position monotone, voting = committing+1).",
    "note": "World focus_chain (two-edge cover: every reachable (state, event, event) triple): a header of the NEXT height arriving while the node still votes on the height before it (commit backfilled from its previous-commit proof, then the handler starts over), extending the committed block or naming another predecessor. Bounded as C01; crash = stores truncated to the first k writes of the step and a new Mirror started on them. Trusted: TLC, harness oracle, tmmemstore.",
    "technique": "TLA+ spec (Mirror.tla) + TLC exhaustive bounded check incl. crash points + replay on the real Mirror with real-state predicate evaluation",
}


def run(ctx):
    q = ctx.quick()
    plans = [
        {"world": "focus_conc", "conc": True, "steps": 6 if q else 7, "cap": None if q else 80000},
        {"world": "focus_rounds", "cover": True, "steps": 5 if q else 7, "avoid": True, "crash": False},
        {"world": "focus_chain", "cover": True, "edge": 2, "steps": 4 if q else 5, "avoid": True, "crash": False},
        {"world": "replay", "sim": 4 if q else 25, "steps": 7 if q else 9, "avoid": True, "crash": True, "cap": 260 if q else 3000, "seeds": 1 if q else 3},
        {"world": "happy", "sim": 3 if q else 20, "steps": 7 if q else 10, "avoid": True, "crash": True, "cap": 200 if q else 3000, "seeds": 1 if q else 3},
    ]
    design = [("Mirror_c04.cfg", {"MaxSteps": 4 if q else 5, "AllowCrash": "TRUE"}, "C04_Chain, C04_Immutable, C04_Monotone with crash after every store write")]
    return mirrorcheck.run(ctx, {"C04"}, plans, design_cfgs=design, suite="mirror")
