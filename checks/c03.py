"""C03 -- correct nodes never finalize different blocks at the same height, and finalize heights contiguously.

spec/Network.tla: three correct engines (mirror + state machine + lock-respecting strategy, in the shape of
kernel.go / statemachine.go) and one Byzantine validator over a message soup; TLC checks Agreement and
Contiguous exhaustively at small bounds and simulates beyond.  Binding: an in-process cluster of REAL
tmengine.New engines (harness/tm/tmengine/zz_verif_c03_test.go) replays TLC behaviours step-locked (state
compared with the spec after every step), replays the counterexamples of deliberately weakened variants of
the model (attack schedules), and runs seeded adversarial schedules; Agreement / Contiguous are evaluated on
the real drivers' FinalizeBlockRequests and committed header stores after every step, and the global-order
trace is validated by spec/NetworkTrace.tla."""
import concurrent.futures, hashlib, json, os, random, re, shutil, time
import vlib

META = {
    "level": "model_checking",
    "text": "Network.tla models three correct gordian engines (mirror views, round/height shifts, state machine steps, timers, finalization, catch-up, restart on the stores; strategy = lock on a >2/3 prevote quorum, prevote the lock) and a Byzantine validator that may sign anything, over a soup with arbitrary delay, reordering, duplication and loss; TLC checks Agreement, Contiguous and the helper invariants exhaustively for height 1 (rounds 0..1) with symmetry over the correct validators, and simulates two heights and a heavy-validator power vector. TLC behaviours (simulation, every design counterexample, and the counterexamples of weakened variants of the model: lower commit thresholds, precommits counted for another block, forged votes) are replayed step-locked on an in-process cluster of real tmengine.New engines with real ed25519 keys, harness gossip/timer/driver/strategy and a Byzantine injector, the abstract state of every node is compared with the spec after each step; seeded adversarial schedules (equivocation, starvation, timeouts, partitions, restarts) run on the same cluster. Agreement and Contiguous are evaluated after every step on the real FinalizeBlockRequests and committed header stores, and the global-order trace is validated by NetworkTrace.tla (every finalize explained by a >2/3 precommit certificate the node knew).",
    "note": "N=4, Byzantine = validator 4 (power 1), power vectors (1,1,1,1) and (2,1,1,1). Exhaustive bounds: height 1, rounds 0..1, values {A,B}; deliveries are explored as evidence batches (a reduction: deliveries that change only the mirror's message set commute with everything and are postponed), restarts as-is (an engine restarted below height 3 does not get its state machine back). Engine panics (C09's business) abort a cluster run and are counted, never reported here. Trusted: TLC, the harness' quiescence test (a premature step is still a legal schedule of the real system), ed25519.",
    "technique": "TLA+ spec (Network.tla) + TLC exhaustive bounded check and simulation + step-locked replay of TLC behaviours and weakened-model counterexamples on a cluster of real engines + seeded adversarial cluster schedules + trace validation (NetworkTrace.tla)",
    "design_ref": "DESIGN.md section 5, C03",
}

PKG = "tm/tmengine"
VN = {"v1": 1, "v2": 2, "v3": 3, "v4": 4}
BASE = {"V1": "v1", "V2": "v2", "V3": "v3", "V4": "v4", "P1": 1, "P2": 1, "P3": 1, "P4": 1, "MaxH": 1, "MaxR": 1,
        "RestartResumes": "FALSE", "MaxRestarts": 0, "ByzKinds": '{"prop", "pv", "pc"}', "ByzNil": "TRUE", "ByzOne": "FALSE",
        "WeakMirror": 0, "WeakSM": 0, "AnyTarget": "FALSE", "Forge": "FALSE", "MaxLen": 0, "EmitAll": "FALSE"}


def write_cfg(ctx, name, consts, invariants, view=True, symmetry=None):
    c = dict(BASE)
    c.update(consts)
    lines = ["CONSTANTS"] + ["  %s = %s" % kv for kv in c.items()] + ["INIT Init", "NEXT Next"]
    if view:
        lines.append("VIEW View")
    if symmetry:
        lines.append("SYMMETRY " + symmetry)
    lines += ["CHECK_DEADLOCK FALSE", "INVARIANTS " + " ".join(invariants)]
    p = ctx.path("cfg", name)
    open(p, "w").write("\n".join(lines) + "\n")
    return p


def powers_of(consts):
    c = dict(BASE)
    c.update(consts)
    return [int(c["P1"]), int(c["P2"]), int(c["P3"]), int(c["P4"])]


def sym_of(consts):
    p = powers_of(consts)
    return "Sym3" if p[0] == p[1] == p[2] else ("Sym2" if p[1] == p[2] else None)


# ---------------------------------------------------------------- behaviours

def conv_obs(o, maxh):
    return {"mh": o["mh"], "mr": o["mr"], "chain": list(o["chain"]), "sh": o["sh"], "sr": o["sr"],
            "fin": ["%d:%s" % (i + 1, v) for i, v in enumerate(o["fin"])],
            "timer": "*" if (o["sh"] > maxh or o.get("beyond")) else o["timer"], "lockV": o["lockV"], "lockR": o["lockR"],
            "acts": sorted("%s/%d/%d/%s" % (a["k"], a["h"], a["r"], a["v"]) for a in o["acts"])}


def conv_beh(b, consts, cls=None):
    c = dict(BASE)
    c.update(consts)
    maxh, maxr = int(c["MaxH"]), int(c["MaxR"])
    steps = []
    for st in b["steps"]:
        s = {"op": st["op"], "n": VN[st["n"]]}
        if st["op"] == "deliver":
            s["ms"] = [{"k": m["k"], "h": m["h"], "r": m["r"], "v": m["v"], "s": VN[m["s"]]} for m in st["ms"]]
        if st.get("exp"):
            s["exp"] = [conv_obs(st["exp"][k], maxh) for k in ("v1", "v2", "v3")]
        steps.append(s)
    return {"class": cls or b["class"], "powers": powers_of(consts), "maxH": maxh, "maxR": maxr, "steps": steps}


def beh_key(b):
    return json.dumps([(s["op"], s["n"], s.get("ms")) for s in b["steps"]], sort_keys=True)


def violates(b):
    """does the last expected state of a (weakened-model) behaviour break Agreement?"""
    if not b["steps"] or not b["steps"][-1].get("exp"):
        return False
    e = b["steps"][-1]["exp"]
    for h in range(4):
        vals = set()
        for o in e:
            for seq in (o["chain"], [f.split(":", 1)[1] for f in o["fin"]]):
                if len(seq) > h:
                    vals.add(seq[h])
        if len(vals) > 1:
            return True
    return False


def emitted(ctx, res, consts, cls=None):
    out, seen = [], set()
    for b in ctx.tlc_emitted(res):
        cb = conv_beh(b, consts, cls)
        k = beh_key(cb)
        if k not in seen:
            seen.add(k)
            out.append(cb)
    return out


# ---------------------------------------------------------------- attack schedules exported earlier

ATTACKS = os.path.join(vlib.SPEC, "Network_attacks.ndjson")
WEAK = [("mirror commits below 2/3", {"WeakMirror": 1}), ("state machine finalizes below 2/3", {"WeakSM": 1}),
        ("the power of all precommits taken for the power of the most voted block", {"AnyTarget": "TRUE"}),
        ("votes accepted without a valid signature", {"Forge": "TRUE", "ByzOne": "FALSE"}),
        ("commit threshold one vote", {"WeakMirror": 2, "WeakSM": 2}),
        ("mirror and state machine commit below 2/3", {"WeakMirror": 1, "WeakSM": 1})]


def spec_sha():
    h = hashlib.sha1()
    for f in ("Network.tla", "NetworkMC.tla"):
        h.update(open(os.path.join(vlib.SPEC, f), "rb").read())
    return h.hexdigest()


def load_attacks(ctx):
    """counterexamples of the weakened model variants exported by `VERIF_C03_REGEN=1 bin/check C03` (breadth-first
    searches that do not fit the quick tier); ignored when the spec has changed since."""
    if not os.path.exists(ATTACKS):
        return []
    lines = open(ATTACKS).read().splitlines()
    head = json.loads(lines[0])
    if head.get("spec_sha") != spec_sha() or head.get("restart_resumes") != BASE["RestartResumes"]:
        ctx.log("stored attack schedules are for another version of the spec: not used")
        return []
    return [json.loads(l) for l in lines[1:]]


def regen_attacks(ctx):
    """exports, for every weakened variant, the shortest counterexamples TLC finds breadth-first within a time bound"""
    import subprocess
    out = []
    for i, (name, w) in enumerate(WEAK):
        consts = dict({"MaxH": 1, "MaxR": 1, "ByzNil": "FALSE", "ByzOne": "TRUE"}, **w)
        cfg = write_cfg(ctx, "regen-%d.cfg" % i, consts, ["EmitCex"], symmetry=sym_of(consts))
        wd = os.path.dirname(ctx.path("regen-%d" % i, "x"))
        for f in os.listdir(vlib.SPEC):
            if f.endswith(".tla"):
                shutil.copy(os.path.join(vlib.SPEC, f), wd)
        shutil.copy(cfg, wd)
        cmd = ["timeout", "420", "java", "-XX:+UseParallelGC", "-Xss64m", "-DTLA-Library=/opt/veriftools/tlapm/lib/tlapm/stdlib",
               "-cp", "/opt/veriftools/tla/tla2tools.jar:/opt/veriftools/tla/CommunityModules-deps.jar", "tlc2.TLC",
               "-metadir", os.path.join(wd, "meta"), "-workers", "16", "-config", os.path.basename(cfg), "NetworkMC.tla"]
        p = subprocess.run(cmd, cwd=wd, stdout=subprocess.PIPE, stderr=subprocess.STDOUT, text=True)
        res = {"lines": p.stdout.splitlines()}
        behs = emitted(ctx, res, consts, "attack")
        for b in behs:
            b["variant"] = name
            b["forge"] = w.get("Forge") == "TRUE"
        behs.sort(key=lambda b: len(b["steps"]))
        ctx.log("regen: %s: %d counterexamples (rc=%s), keeping %d" % (name, len(behs), p.returncode, min(len(behs), 12)))
        out += behs[:12]
    with open(ATTACKS, "w") as f:
        f.write(json.dumps({"spec_sha": spec_sha(), "restart_resumes": BASE["RestartResumes"], "n": len(out)}) + "\n")
        for b in out:
            f.write(json.dumps(b) + "\n")
    return out


# ---------------------------------------------------------------- cluster child processes

class Cluster:
    def __init__(self, ctx):
        self.ctx = ctx
        self.dir = os.path.dirname(ctx.path("cluster", "x"))
        self.binary = os.path.join(self.dir, "c03.test")
        self.records, self.deaths, self.traces = [], [], []
        self.summary = {"runs": 0, "distinct_states": 0, "ops": {}}
        self.nfile = 0

    def build(self):
        ov = self.ctx.harness_overlay(PKG, PKG + "/internal/tmstate", only=("zz_verif_c03", "zz_verif_sm_access"))
        self.ctx.go_test(PKG, "", overlay=ov, compile_only=True, binary=self.binary, timeout=900)

    def _child(self, env, tag):
        """one child process; returns (records, trace path, death or None, next index)"""
        self.nfile += 1
        out = os.path.join(self.dir, "out-%s-%d.ndjson" % (tag, self.nfile))
        trace = os.path.join(self.dir, "trace-%s-%d.ndjson" % (tag, self.nfile))
        prog = os.path.join(self.dir, "prog-%s-%d.txt" % (tag, self.nfile))
        e = {"VERIF_OUT": out, "VERIF_TRACE": trace, "VERIF_PROGRESS": prog}
        e.update(env)
        rc, o = self.ctx.go_test(PKG, "^TestVerifC03Cluster$", binary=self.binary, env=e, timeout=1500)
        recs = vlib.read_ndjson(out)
        death = None
        if not any(r.get("kind") == "summary" for r in recs):
            last = ""
            try:
                last = open(prog).read().strip().splitlines()[-1]
            except (OSError, IndexError):
                pass
            msg = ""
            for ln in o.splitlines():
                if ln.startswith("panic:") or "fatal error" in ln:
                    msg = ln[:300]
                    break
            death = {"last": last, "panic": msg or ("exit status %s" % rc), "tail": o[-1200:]}
        return recs, trace, death

    def run_span(self, env, lo, hi, tag):
        """runs [lo, hi) in child processes, restarting after a death behind the run that died"""
        recs_all, traces, deaths = [], [], []
        start = lo
        while start < hi:
            e = dict(env)
            e.update({"VERIF_FROM": str(start), "VERIF_TO": str(hi)})
            recs, trace, death = self._child(e, tag)
            recs_all += recs
            traces.append(trace)
            if death is None:
                break
            m = re.match(r"(?:run|step) (\d+)", death["last"])
            if not m:
                if not recs:
                    raise vlib.Inconclusive("cluster child died before any run (%s):\n%s" % (death["panic"], death["tail"]))
                died = max([r["run"] for r in recs if "run" in r] + [start])
            else:
                died = int(m.group(1))
            death["run"] = died
            deaths.append(death)
            # the trace of a run that died is incomplete: cut it
            start = max(died, start) + 1
        return recs_all, traces, deaths

    def run_parallel(self, env, n, tag, procs):
        spans, per = [], max(1, (n + procs - 1) // procs)
        for lo in range(0, n, per):
            spans.append((lo, min(n, lo + per)))
        with concurrent.futures.ThreadPoolExecutor(max_workers=procs) as ex:
            futs = [ex.submit(self.run_span, env, lo, hi, "%s%d" % (tag, i)) for i, (lo, hi) in enumerate(spans)]
            res = [f.result() for f in futs]
        recs = [r for x in res for r in x[0]]
        traces = [t for x in res for t in x[1]]
        deaths = [d for x in res for d in x[2]]
        self.records += recs
        self.deaths += deaths
        self.traces += traces
        for r in recs:
            if r.get("kind") == "summary":
                self.summary["runs"] += r.get("runs", 0)
                self.summary["distinct_states"] += r.get("distinct_states", 0)
                for k, v in r.get("ops", {}).items():
                    self.summary["ops"][k] = self.summary["ops"].get(k, 0) + v
        return recs, deaths

    def replay(self, behs, tag, procs=8):
        if not behs:
            return [], []
        self.nfile += 1
        inp = os.path.join(self.dir, "beh-%s-%d.ndjson" % (tag, self.nfile))
        with open(inp, "w") as f:
            for b in behs:
                f.write(json.dumps(b) + "\n")
        return self.run_parallel({"VERIF_MODE": "replay", "VERIF_IN": inp, "VERIF_TRACE_RUNS": "40"}, len(behs), tag, procs)

    def random(self, seed, runs, steps, maxh, tag, procs=8):
        return self.run_parallel({"VERIF_MODE": "random", "VERIF_SEED": str(seed), "VERIF_RUNS": str(runs), "VERIF_STEPS": str(steps),
                                  "VERIF_MAXH": str(maxh), "VERIF_TRACE_RUNS": "12"}, runs, tag, procs)


def viol_class(sched):
    ops = [s.get("op") for s in sched]
    byz = {}
    equiv = False
    for s in sched:
        for m in (s.get("ms") or ([s["m"]] if s.get("m") else [])):
            if m.get("s") == 4:
                k = (m["k"], m["h"], m["r"])
                byz.setdefault(k, set()).add(m["v"])
                if len(byz[k]) > 1:
                    equiv = True
    return ("restart" if "restart" in ops else "no-restart") + "/" + ("byz-equivocation" if equiv else "no-equivocation")


def run(ctx):
    q = ctx.quick()
    rnd = random.Random(ctx.seed)
    cl = Cluster(ctx)
    cl.build()
    ctx.log("cluster harness built")

    # ---- 0. does a restarted engine get its state machine back at height 1?  (as-is: no)  The model follows the code.
    def probe_beh(resumes):
        timer = "Proposal" if resumes else "none"
        idle = {"mh": 1, "mr": 0, "chain": [], "sh": 1, "sr": 0, "fin": [], "timer": "Proposal", "lockV": "none", "lockR": -1, "acts": []}
        return {"class": "probe", "powers": [1, 1, 1, 1], "maxH": 1, "maxR": 1,
                "steps": [{"op": "restart", "n": 1, "exp": [dict(idle, timer=timer), idle, idle]}]}
    recs, deaths = cl.replay([probe_beh(True)], "probe", procs=1)
    resumes = not any(r.get("kind") == "mismatch" for r in recs) and not deaths
    BASE["RestartResumes"] = "TRUE" if resumes else "FALSE"
    ctx.log("probe: a restarted engine %s its state machine at height 1" % ("resumes" if resumes else "does not resume (as-is)"))
    cl.records, cl.deaths, cl.summary = [], [], {"runs": 0, "distinct_states": 0, "ops": {}}

    if os.environ.get("VERIF_C03_REGEN"):
        n = len(regen_attacks(ctx))
        ctx.log("%d attack schedules written to %s" % (n, ATTACKS))
    stored = load_attacks(ctx)

    # ---- 1-3. TLC: exhaustive design checks; behaviours for replay (simulation of the design); attack schedules
    #           (= counterexamples of deliberately weakened variants of the model).  All jobs run concurrently.
    INV = ["Agreement", "Contiguous", "TypeOK", "OneVotePerRound", "PrecommitBacked", "CommitImpliesCert"]
    one = {"ByzNil": "FALSE", "ByzOne": "TRUE"}
    if q:
        designs = [("H1 R0, every Byzantine message, powers 1,1,1,1", {"MaxR": 0}, 600),
                   ("H1 R0, every Byzantine message, powers 2,1,1,1", {"MaxR": 0, "P1": 2}, 600),
                   ("H1 R0, one restart, Byzantine proposals and precommits", dict(one, MaxR=0, MaxRestarts=1, ByzKinds='{"prop", "pc"}'), 600)]
    else:
        designs = [("H1 R0, every Byzantine message, powers 1,1,1,1", {"MaxR": 0}, 900),
                   ("H1 R0, every Byzantine message, powers 2,1,1,1", {"MaxR": 0, "P1": 2}, 900),
                   ("H1 R0, one restart, one Byzantine vote per kind and round shown to a node", dict(one, MaxR=0, MaxRestarts=1), 1800),
                   ("H1 R0..1, one Byzantine vote per kind and round shown to a node, no Byzantine nil votes", dict(one, MaxR=1), 2700)]
    sims = [({"MaxH": 1, "MaxR": 1, "MaxRestarts": 1, "MaxLen": 18, "EmitAll": "TRUE"}, 20, 30 if q else 150),
            ({"MaxH": 2, "MaxR": 1, "MaxLen": 30, "EmitAll": "TRUE"}, 34, 30 if q else 200),
            ({"MaxH": 2, "MaxR": 1, "P1": 2, "MaxRestarts": 1, "MaxLen": 24, "EmitAll": "TRUE"}, 28, 20 if q else 120)]
    weak = WEAK[:5]
    nd = len(designs)

    def design(i):
        name, consts, tmo = designs[i]
        cfg = write_cfg(ctx, "design-%d.cfg" % i, consts, ["EmitCex"] + INV, symmetry=sym_of(consts))
        t0 = time.time()
        res = ctx.tlc("NetworkMC", os.path.basename(cfg), copy={cfg: os.path.basename(cfg)}, timeout=tmo, allow_violation=True,
                      workers=4 if q else 7)
        return ("design", name, consts, res, time.time() - t0)

    def simulate(i):
        consts, depth, num = sims[i]
        cfg = write_cfg(ctx, "sim-%d.cfg" % i, consts, ["Emit"], view=False)
        res = ctx.tlc("NetworkMC", os.path.basename(cfg), copy={cfg: os.path.basename(cfg)}, simulate="num=%d" % num, depth=depth,
                      extra=["-seed", str(ctx.seed * 100 + i)], workers=1, timeout=900)
        return ("sim", emitted(ctx, res, consts))

    def attack_bfs(i):
        # the shortest counterexample (breadth first, bounded in time: none within the bound is fine)
        name, w = weak[i]
        consts = dict({"MaxH": 1, "MaxR": 1, "ByzNil": "FALSE", "ByzOne": "TRUE"}, **w)
        cfg = write_cfg(ctx, "weak-%d.cfg" % i, consts, ["EmitCex", "Agreement", "Contiguous"], symmetry=sym_of(consts))
        try:
            res = ctx.tlc("NetworkMC", os.path.basename(cfg), copy={cfg: os.path.basename(cfg)}, timeout=50 if q else 400, allow_violation=True, workers=2)
            got = emitted(ctx, res, consts, "attack")[:4]
            for b in got:
                b["forge"] = w.get("Forge") == "TRUE"
            return ("attack", name, got)
        except vlib.Inconclusive:
            return ("attack", name, [])

    def attack_sim(i):
        name, w = weak[i]
        consts = dict({"MaxH": 1, "MaxR": 1, "ByzNil": "FALSE", "MaxLen": 24, "EmitAll": "TRUE"}, **w)
        cfg = write_cfg(ctx, "weaksim-%d.cfg" % i, consts, ["Emit"], view=False)
        res = ctx.tlc("NetworkMC", os.path.basename(cfg), copy={cfg: os.path.basename(cfg)}, simulate="num=%d" % (30 if q else 300), depth=26,
                      extra=["-seed", str(ctx.seed * 100 + 50 + i)], workers=1, timeout=900)
        more = [b for b in emitted(ctx, res, consts, "attack") if violates(b)]
        for b in more:
            b["forge"] = w.get("Forge") == "TRUE"
        random.Random(ctx.seed + i).shuffle(more)
        return ("attack", name, more[: (6 if q else 60)])

    jobs = [(design, i) for i in range(nd)] + [(simulate, i) for i in range(len(sims))]
    jobs += [(attack_sim, i) for i in range(len(weak))] + [(attack_bfs, i) for i in range(len(weak))]
    design_cov, cex_behs, sim_behs, attack_behs, weak_n = [], [], [], [], {name: 0 for name, _ in weak}
    with concurrent.futures.ThreadPoolExecutor(max_workers=9 if q else 8) as ex:
        futs = [ex.submit(fn, i) for fn, i in jobs]
        for f in futs:
            r = f.result()
            if r[0] == "design":
                _, name, consts, res, wall = r
                cex = None
                if res["violated"]:
                    m = re.search(r"Error: Invariant (\w+) is violated", res["out"])
                    cex = m.group(1) if m else "?"
                    cex_behs += emitted(ctx, res, consts, "cex")
                design_cov.append({"config": name, "distinct_states": res.get("distinct", 0), "generated": res.get("states", 0),
                                   "wall_s": round(wall, 1), "design_counterexample": cex})
                ctx.log("TLC %s: %d distinct / %d generated states in %.0fs%s" % (name, res.get("distinct", 0), res.get("states", 0), wall,
                                                                                  (", counterexample for " + cex) if cex else ""))
            elif r[0] == "sim":
                behs = r[1]
                behs.sort(key=lambda b: -len(b["steps"]))
                head = behs[: (60 if q else 600)]
                rnd.shuffle(head)
                sim_behs += head[: (40 if q else 400)]
            else:
                weak_n[r[1]] += len(r[2])
                attack_behs += r[2]
    have = {beh_key(b) for b in attack_behs}
    for b in stored:
        if beh_key(b) not in have:
            attack_behs.append(b)
            weak_n[b.get("variant", "?")] = weak_n.get(b.get("variant", "?"), 0) + 1
    weak_cov = [{"variant": k, "counterexample_schedules": v} for k, v in weak_n.items()]
    if len(sim_behs) < 20:
        raise vlib.Inconclusive("TLC simulation produced only %d behaviours" % len(sim_behs))
    ctx.log("behaviours: %d simulated, %d design counterexamples, %d attack schedules from weakened variants" % (len(sim_behs), len(cex_behs), len(attack_behs)))

    # ---- 4. replay on the real engines
    recs_sim, deaths_sim = cl.replay(sim_behs + cex_behs, "sim")
    recs_att, deaths_att = cl.replay(attack_behs, "att")
    # ---- 5. seeded adversarial schedules
    seeds = [ctx.seed] if q else [ctx.seed, ctx.seed + 1000, ctx.seed + 2000, ctx.seed + 3000]
    per = 70 if q else 500
    for i, sd in enumerate(seeds):
        cl.random(sd, per, 170, 2 if i % 2 == 0 else 3, "rnd%d" % i)
    ctx.log("cluster: %d runs executed, %d aborted by an engine panic" % (cl.summary["runs"] + len(cl.deaths), len(cl.deaths)))

    # ---- 6. verdicts from the real engines
    runs = [r for r in cl.records if r.get("kind") == "run"]
    mism = [r for r in cl.records if r.get("kind") == "mismatch"]
    incon = [r for r in cl.records if r.get("kind") == "inconclusive"]
    for r in cl.records:
        if r.get("kind") == "violation":
            site = "committed-header-store" if "committed header store" in r["what"] and "finalize request" not in r["what"] else "FinalizeBlockRequest"
            ctx.violation(r["pred"], site, viol_class(r.get("schedule", [])),
                          "real engines: %s (schedule class %s, powers %s)" % (r["what"], r.get("class"), r.get("powers")),
                          replay_obj={"powers": r.get("powers"), "class": r.get("class"), "steps": r.get("schedule")})
    # a design counterexample has to reproduce on the real engines to count
    unrepro = [r for r in runs if r.get("class") == "cex" and r.get("status") != "violation"]

    # ---- 7. code -> spec: trace validation
    tv_events, tv_runs = 0, 0
    budget = 12000 if q else 60000
    tpath = ctx.path("trace-all.ndjson")
    dead_runs = {(os.path.basename(t)) for t in []}
    with open(tpath, "w") as f:
        for t in cl.traces:
            if not os.path.exists(t) or tv_events > budget:
                continue
            lines = open(t).read().splitlines()
            # drop the (incomplete) tail of a run that died
            evs = []
            for ln in lines:
                try:
                    evs.append(json.loads(ln))
                except json.JSONDecodeError:
                    break
            died = {d["run"] for d in cl.deaths}
            cur = []
            for e in evs + [{"ev": "reset", "_end": True}]:
                if e["ev"] == "reset":
                    if cur and not (cur[0].get("run") in died and len(cl.deaths) > 0):
                        for x in cur:
                            f.write(json.dumps(x) + "\n")
                        tv_events += len(cur)
                        tv_runs += 1
                    cur = [] if e.get("_end") else [e]
                elif cur:
                    cur.append(e)
    if tv_events == 0:
        raise vlib.Inconclusive("no trace events recorded")
    try:
        rt = ctx.tlc("NetworkTrace", "Network_trace.cfg", workers=1, timeout=1500, copy={tpath: "trace.ndjson"}, allow_violation=True)
    except vlib.Inconclusive as e:
        if "TraceDone" not in str(e):
            raise
        rt = {"violated": False, "out": str(e), "lines": str(e).splitlines()}
    trace_ok = not rt["violated"] and "No error has been found" in rt["out"]
    if rt["violated"]:
        m = re.search(r"Error: Invariant (\w+) is violated", rt["out"])
        if m:
            ctx.violation(m.group(1), "FinalizeBlockRequest", "trace", "the recorded trace of the real engines violates %s (NetworkTrace.tla)" % m.group(1),
                          replay_obj={"tlc_tail": rt["lines"][-25:]})
    unexplained = None
    if not trace_ok and not rt["violated"]:
        dm = re.search(r"The depth of the complete state graph search is (\d+)", rt["out"])
        unexplained = int(dm.group(1)) if dm else -1
    else:
        ctx.traces_validated += tv_runs

    # ---- 8. evidence
    status = {}
    for r in runs:
        status[r.get("status")] = status.get(r.get("status"), 0) + 1
    classes = {}
    for r in runs:
        classes[r.get("class")] = classes.get(r.get("class"), 0) + 1
    heights = sum(1 for r in runs if any(len(v) >= 2 for v in r.get("fin", {}).values()))
    finals = sum(1 for r in runs if any(len(v) >= 1 for v in r.get("fin", {}).values()))
    sim_mism = [m for m in mism if m.get("class") in ("sim", "cex")]
    for b in sim_behs[:2]:
        ctx.sample({"tlc_behaviour_replayed_on_real_engines": [dict(op=s["op"], n=s["n"], ms=s.get("ms")) for s in b["steps"]]})
    for r in [x for x in runs if x.get("class") not in ("sim", "attack", "cex", "probe")][:2]:
        ctx.sample({"seeded_cluster_run": r})
    deaths_by = {}
    for d in cl.deaths:
        k = re.sub(r"\d+", "#", d["panic"])[:160]
        deaths_by[k] = deaths_by.get(k, 0) + 1
    n_exec = len(runs) + len(cl.deaths)
    cov = {
        "design_checks": design_cov, "weakened_variants": weak_cov,
        "restart_semantics_probed": "resumes" if resumes else "as-is: no state machine after a restart below height 3",
        "cluster_runs_executed": n_exec, "cluster_runs_aborted_by_engine_panic": len(cl.deaths), "abort_reasons": deaths_by,
        "cluster_runs_by_class": classes, "cluster_run_status": status,
        "runs_with_a_finalized_height": finals, "runs_with_two_finalized_heights": heights,
        "tlc_behaviours_replayed": len(sim_behs) + len(cex_behs), "attack_schedules_replayed": len(attack_behs),
        "spec_vs_code_divergences": len(sim_mism), "cluster_steps": sum(cl.summary["ops"].values()), "ops": cl.summary["ops"],
        "trace_events_validated": tv_events if trace_ok else 0,
        "evaluations": sum(cl.summary["ops"].values()), "distinct_nontrivial": cl.summary["distinct_states"],
        "rule": "evaluations = schedule steps executed on clusters of three real engines, Agreement and Contiguous evaluated on the real FinalizeBlockRequests and committed header stores after each; distinct_nontrivial = distinct per-node abstract states (mirror position, chain, state machine position, finalizations, timer, lock, recorded votes) observed on the real engines, counted in a set per child process and summed",
        "exhaustive": False,
    }
    if sim_mism:
        cov["first_divergences"] = [{k: m.get(k) for k in ("class", "step", "op", "n", "node", "diff", "schedule")} for m in sim_mism[:3]]
        json.dump(sim_mism, open(os.path.join(ctx.outdir, "divergences.json"), "w"), indent=1)
    ctx.assumptions += ["the harness' consensus strategy is the lock-respecting strategy the property assumes; its lock survives restarts (kept by the application)",
                        "the driver reports the state machine's own round in FinalizeBlockResponse (echoing the committed round kills the state machine in catch-up: C09)",
                        "evidence-batch reduction of deliveries in Network.tla (commutativity argument in the module header), cross-checked by seeded single-message schedules on the real engines"]
    rc = ctx.finish("model_checking", extra_cov=cov)

    # ---- 9. inconclusive conditions (never a violation)
    if rc == 0:
        ops = cl.summary["ops"]
        if unrepro:
            raise vlib.Inconclusive("TLC reports a design counterexample that does not reproduce on the real engines (modelling error): %s" % json.dumps(unrepro[:1]))
        if unexplained is not None:
            raise vlib.Inconclusive("NetworkTrace.tla cannot explain event %d of the recorded trace (no predicate fails)" % unexplained)
        if len(cl.deaths) * 3 > n_exec:
            raise vlib.Inconclusive("%d of %d cluster runs were aborted by engine panics: %s" % (len(cl.deaths), n_exec, json.dumps(deaths_by)))
        if len(incon) * 5 > n_exec:
            raise vlib.Inconclusive("%d of %d cluster runs did not settle" % (len(incon), n_exec))
        if len(sim_mism) * 10 > max(1, len(sim_behs)):
            raise vlib.Inconclusive("%d of %d replayed TLC behaviours diverge from the real engines: the binding is not demonstrated; first: %s"
                                    % (len(sim_mism), len(sim_behs), json.dumps(cov["first_divergences"][:1])))
        for need in ("deliver", "timeout", "restart", "inject", "duplicate"):
            if ops.get(need, 0) == 0:
                raise vlib.Inconclusive("vacuous: no %s step was executed on the cluster" % need)
        if finals < (10 if q else 100) or heights < (3 if q else 30):
            raise vlib.Inconclusive("vacuous: only %d runs finalized a height and %d two heights" % (finals, heights))
    return rc
