"""World for the StateMachine model: validator sets G (4 x power 1) and G2 (4 x power 2) alternating; at every height the blocks A, B
(acceptable) and M1 (PrevAppStateHash the state machine must reject); A<h> extends A<h-1>."""
from tlagen import S, module


def fin_set(h):
    """the validator set the driver returns when it finalizes height h (it applies from h+2 on)"""
    return "G2" if h % 2 == 1 else "G"


def vs_at(h):
    """the validator set the chain prescribes for height h"""
    return "G" if h <= 2 else fin_set(h - 2)


def sm_world(max_h=5):
    # the application changes the vote powers at every height (same keys, all powers doubled / halved, so that the
    # thresholds stay "3 of 4 validators" as StateMachine.tla assumes): finalizing h returns fin_set(h)
    w = {"valsets": {"G": {"keys": [1, 2, 3, 4], "pow": [1, 1, 1, 1]}, "G2": {"keys": [1, 2, 3, 4], "pow": [2, 2, 2, 2]}},
         "genesis": "G", "hdr": {}}
    for h in range(1, max_h + 1):
        prev = "gen" if h == 1 else "A%d" % (h - 1)
        pcp = {} if h == 1 else {"A%d" % (h - 1): [{"pos": 1, "cls": "ok"}, {"pos": 2, "cls": "ok"}, {"pos": 3, "cls": "ok"}]}
        for b in ("A", "B", "M1"):
            d = {"h": h, "prev": prev, "vs": vs_at(h), "nvs": vs_at(h + 1), "pcpR": 0, "pcpPkh": "none" if h == 1 else vs_at(h - 1),
                 "pcp": pcp, "data": "%s%d" % (b, h)}
            if b == "M1":
                d["app"] = "some_other_app_state"
            w["hdr"]["%s%d" % (b, h)] = d
    return w


def to_sets(v):
    if isinstance(v, dict):
        # ToJson renders an empty TLA+ function as []: these keys hold functions, not sets
        return {k: ({} if (k in ('pv', 'pc') and x == []) else to_sets(x)) for k, x in v.items()}
    if isinstance(v, list):
        return S([to_sets(x) for x in v])
    return v


def guide_value(steps):
    """stored behaviour -> TLA+ Guide (lists inside args/resps are sets, except resps itself)."""
    g = []
    for s in steps:
        args = s["args"]
        g.append({"op": s["op"], "args": to_sets(args) if isinstance(args, (dict, list)) else args,
                  "resps": [to_sets(r) for r in s.get("resps", [])], "crash": bool(s.get("crash", False))})
    return g
