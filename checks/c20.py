"""C20 -- peers relay a consensus message only if the local handler accepted it.
Relay.tla (A-B-C line, libp2p validator slot with unregister/register window and startup window, DaisyChain
nil pass-through as named as-is deviations) checked by TLC; behaviours and the feedback table exported and
replayed on (a) exchangeFeedbackToLibp2p / the validator functions, (b) three real libp2p hosts on loopback,
(c) the real DaisyChainNetwork; recorded executions validated by RelayTrace.tla."""
import itertools, json, os, random, re, subprocess, threading
from concurrent.futures import ThreadPoolExecutor
import vlib

META = {
    "level": "model_checking",
    "text": "Relay.tla models the A-B-C line for both transports the way the code does it (libp2p: validator captured at push time, run later, SetConsensusHandler = unregister then register, subscription before the first validator; DaisyChain: sequential loop, atomic swap, nil handler passes through). TLC checks exhaustively that the design without the three named deviations satisfies RelayedOnlyIfAccepted / NoHandlerNeverRelays for every message class (kind x decodability x feedback incl. unspecified, reject-and-disconnect and out-of-range) and every interleaving of publish / deliver / validate / swap steps, and that with the as-is deviations every unaccepted relay is one of them. The TLC-exported feedback table (all 256 values) is compared with exchangeFeedbackToLibp2p; every (slot, class) pair is run through the real validator functions; the exported behaviours are replayed on three real libp2p hosts on loopback (gaters keep A and C apart; a control run proves A->B->C relays) and on the real DaisyChainNetwork, with startup-window and handler-swap stress phases; every recorded execution is validated by RelayTrace.tla (each arrival at C must be explained by an Accepted verdict of B).",
    "note": "Trace validation goes past a verdict given by a handler B cannot have had installed (RelayTrace.tla STALE VERDICT) so that the arrival it causes is reached and reported. libp2p itself is the environment (trusted: it forwards a message iff every registered validator accepts, and forwards unvalidated when none is registered -- the control and the window runs observe exactly that). Absence of a relay is judged after a bounded wait. Without the verifGate hook the swap window is reached by a stress loop, not deterministically.",
    "technique": "TLA+ spec + TLC exhaustive (small) + behaviour/table replay and trace validation against the real libp2p and in-memory transports",
    "design_ref": "DESIGN.md section 5, C20",
}

ASIS = '{"SwapWindow", "StartupWindow", "NilPassThrough"}'
ASIS_NOSTART = '{"SwapWindow", "NilPassThrough"}'
ALLK = '{"ph", "prevote", "precommit"}'
ALLF = '{0, 1, 2, 3, 4, 5, 255}'
LP_DECS = '{"ok", "two", "empty", "undecodable"}'
LP_SWAPS = '{"script", "rejectAll", "acceptAll", "ignoreAllH", "nil"}'
DY_SWAPS = '{"script", "rejectAll", "acceptAll", "ignoreAllH", "nil", "disconnect"}'
CLASS_DEV = {("libp2p", "swap-window"): "SwapWindow", ("libp2p", "startup-window"): "StartupWindow",
             ("daisychain", "no-handler"): "NilPassThrough"}


def _dedupe(behs):
    seen = {}
    for b in behs:
        seen.setdefault(json.dumps(b, sort_keys=True), b)
    return [seen[k] for k in sorted(seen)]   # TLC prints in worker order: sort for a seed-stable sample


def run(ctx):
    quick = ctx.quick()
    rnd = random.Random(ctx.seed)
    walls = []
    _tlc = ctx.tlc

    def timed_tlc(module, cfg, **kw):
        kw.setdefault("heap", "2g" if quick else "6g")   # a small heap starts much faster on a loaded box
        r = _tlc(module, cfg, **kw)
        walls.append((module, cfg, kw.get("simulate"), round(r["wall"], 1)))
        return r
    ctx.tlc = timed_tlc

    # TLC runs are independent of each other: run them on a small thread pool (JVM start dominates the
    # small ones).  ctx.tlc derives its scratch dir name from the number of entries in the scratch dir, which is
    # not unique under concurrency: give every tlc dir a unique suffix.  State counts are summed here, not by
    # ctx (not thread safe).
    pool = ThreadPoolExecutor(max_workers=4)
    tw = 4 if quick else 8
    states = {"distinct": 0, "generated": 0}
    lock = threading.Lock()
    _path, uniq = ctx.path, itertools.count()

    def unique_path(*p):
        with lock:
            if p and p[0].startswith("tlc-"):
                p = ("%s-u%d" % (p[0], next(uniq)),) + tuple(p[1:])
            return _path(*p)
    ctx.path = unique_path

    def submit(module, cfg, count=True, **kw):
        def job():
            r = ctx.tlc(module, cfg, workers=tw, **kw)
            if count and not kw.get("simulate"):
                with lock:
                    states["distinct"] += r.get("distinct", 0)
                    states["generated"] += r.get("states", 0)
            return r
        return pool.submit(job)

    # ------------------------------------------------------------------ 1. mapping table and behaviours (needed by the Go part)
    f_map = submit("RelayMap", "Relay_map.cfg", timeout=300)
    # class sweep, one message, every class, every interleaving with one swap
    f_e1 = submit("Relay", "Relay_emit.cfg", timeout=900,
                  defines={"Transport": '"libp2p"', "Decs": LP_DECS, "SwapHandlers": '{"script", "nil"}', "Dev": ASIS_NOSTART})
    f_e2 = submit("Relay", "Relay_emit.cfg", timeout=900,
                  defines={"Transport": '"daisy"', "Decs": '{"ok"}', "SwapHandlers": '{"script", "nil", "disconnect"}', "Dev": ASIS_NOSTART})
    # timing family: two messages, two swaps, all handlers -- simulated, seeded
    nsim = 400 if quick else 4000
    simdefs = {"Msgs": '{"m1", "m2"}', "Kinds": '{"prevote", "precommit"}', "Fbs": "{1, 2, 3}", "MaxSwaps": 2, "MaxLen": 24, "Dev": ASIS_NOSTART}
    f_s1 = submit("Relay", "Relay_emit.cfg", timeout=600, simulate="num=%d" % nsim, depth=30, extra=["-seed", str(ctx.seed)],
                  defines=dict(simdefs, Transport='"libp2p"', Decs='{"ok", "undecodable"}', SwapHandlers=LP_SWAPS))
    f_s2 = submit("Relay", "Relay_emit.cfg", timeout=600, simulate="num=%d" % nsim, depth=30, extra=["-seed", str(ctx.seed)],
                  defines=dict(simdefs, Transport='"daisy"', Decs='{"ok"}', SwapHandlers=DY_SWAPS))

    # ------------------------------------------------------------------ 2. TLC exhaustive (joined before the verdict, runs while the Go part runs)
    small = {"Kinds": '{"prevote"}', "Fbs": "{1, 2, 5}", "Msgs": '{"m1", "m2"}'}
    big = {"Kinds": ALLK, "Fbs": ALLF, "Msgs": '{"m1", "m2"}'}
    mid = {"Kinds": '{"ph", "prevote"}', "Fbs": "{0, 1, 2, 3, 5}", "Msgs": '{"m1", "m2"}'}
    base_lp = dict(small if quick else big, Transport='"libp2p"', Decs='{"ok", "undecodable"}' if quick else LP_DECS, SwapHandlers=LP_SWAPS)
    base_dy = dict(mid if quick else big, Transport='"daisy"', Decs='{"ok"}', SwapHandlers=DY_SWAPS)
    mc_jobs = [
        # the design the property asks for (no deviation): strict invariants
        ("libp2p design (Dev={})", submit("Relay", "Relay_strict.cfg", timeout=1500, defines=dict(base_lp, Dev="{}"))),
        ("daisy design (Dev={})", submit("Relay", "Relay_strict.cfg", timeout=1500, defines=dict(base_dy, Dev="{}"))),
        # the code as it is: every unaccepted relay is one of the named deviations
        ("libp2p as-is", submit("Relay", "Relay_mc.cfg", timeout=1500, defines=dict(base_lp, Dev=ASIS))),
        ("daisy as-is", submit("Relay", "Relay_mc.cfg", timeout=1500, defines=dict(base_dy, Dev=ASIS))),
    ]
    # ... and (thorough) the as-is model does violate the strict property: the spec has not lost the defects
    cex_jobs = []
    for tr, base in (() if quick else (("libp2p", base_lp), ("daisy", base_dy))):
        cex_jobs.append((tr, submit("Relay", "Relay_strict.cfg", count=False, timeout=900, allow_violation=True,
                                    defines=dict(base, Dev=ASIS, Msgs='{"m1"}', MaxSwaps=1))))
    tlc_runs, asis_cex = [], {}

    def join_mc():
        for name, f in mc_jobs:
            r = f.result()
            tlc_runs.append({"config": name, "distinct": r.get("distinct"), "generated": r.get("states"), "wall_s": round(r["wall"], 1)})
            ctx.log("TLC %s: %s distinct / %s generated in %.0fs" % (name, r.get("distinct"), r.get("states"), r["wall"]))
        for tr, f in cex_jobs:
            asis_cex[tr] = bool(f.result()["violated"])
        if asis_cex:
            ctx.log("as-is model violates RelayedOnlyIfAccepted in TLC: %s (such counterexamples are what the Go part replays)" % asis_cex)

    table = ctx.tlc_emitted(f_map.result())
    if len(table) != 256:
        raise vlib.Inconclusive("RelayMap exported %d rows, want 256" % len(table))
    sweep_lp, sweep_dy = _dedupe(ctx.tlc_emitted(f_e1.result())), _dedupe(ctx.tlc_emitted(f_e2.result()))
    sim_lp, sim_dy = _dedupe(ctx.tlc_emitted(f_s1.result())), _dedupe(ctx.tlc_emitted(f_s2.result()))
    ctx.log("behaviours: libp2p sweep %d + sim %d, daisy sweep %d + sim %d" % (len(sweep_lp), len(sim_lp), len(sweep_dy), len(sim_dy)))
    if len(sweep_lp) < 100 or len(sweep_dy) < 50 or len(sim_lp) < 20 or len(sim_dy) < 20:
        raise vlib.Inconclusive("behaviour export too small")
    rnd.shuffle(sim_lp)
    rnd.shuffle(sim_dy)
    sim_lp = sim_lp[:150 if quick else 3000]
    sim_dy = sim_dy[:300 if quick else 3000]
    behs = sweep_lp + sim_lp + sweep_dy + sim_dy
    for i, b in enumerate(behs):
        b["idx"] = i
    if ctx.replay:
        rp = json.load(open(ctx.replay)).get("replay", {})
        if isinstance(rp, dict) and rp.get("behaviour"):
            behs = [rp["behaviour"]]
    fin, fmap = ctx.path("behaviours.ndjson"), ctx.path("map.ndjson")
    with open(fin, "w") as f:
        for b in behs:
            f.write(json.dumps(b) + "\n")
    with open(fmap, "w") as f:
        for r in table:
            f.write(json.dumps(r) + "\n")
    byidx = {b["idx"]: b for b in behs}

    # ------------------------------------------------------------------ 4. Go harnesses on /repo's working tree
    gate = subprocess.run("grep -qs 'verifGate' %s/tm/tmp2p/tmlibp2p/*.go" % vlib.REPO, shell=True).returncode == 0
    tags = "verif,verifgate" if gate else "verif"
    ov = ctx.harness_overlay("tm/tmp2p/tmlibp2p", "tm/tmp2p/tmp2ptest")
    recs, summ = [], {}
    traces = []

    def go(pkg, test, names, extra_env, timeout):
        out, trace = ctx.path(names[0] + "-out.ndjson"), ctx.path(names[0] + "-trace.ndjson")
        env = {"VERIF_IN": fin, "VERIF_MAP": fmap, "VERIF_OUT": out, "VERIF_TRACE": trace, "VERIF_SEED": str(ctx.seed)}
        env.update(extra_env)
        rc, o = ctx.go_test(pkg, "^%s$" % test, env=env, overlay=ov, timeout=timeout, tags=tags)
        rs = vlib.read_ndjson(out)
        errs = [r for r in rs if r.get("kind") in ("error", "panic") or "_bad" in r]
        for name in names:
            s = [r for r in rs if r.get("kind") == "summary" and r.get("level") == name]
            if rc != 0 or not s or errs:
                raise vlib.Inconclusive("C20 harness %s failed rc=%s errs=%s\n%s" % (test, rc, errs[:3], o[-3000:]))
            summ[name] = s[0]
            ctx.log("%s: %s" % (name, json.dumps({k: v for k, v in s[0].items() if k not in ("kind", "ops")})))
        recs.extend(rs)
        if os.path.exists(trace):
            traces.append(trace)

    go("tm/tmp2p/tmlibp2p", "TestVerifC20(Map|Net)", ["map", "net"],
       {"VERIF_STARTUP_REPS": "14" if quick else "60", "VERIF_STRESS_MS": "1500" if quick else "40000",
        "VERIF_STRESS_TRACED": "300" if quick else "2500", "VERIF_MAX_BEH": "100000"}, 1800)
    go("tm/tmp2p/tmp2ptest", "TestVerifC20Daisy", ["daisy"],
       {"VERIF_STRESS_MS": "800" if quick else "20000", "VERIF_STRESS_TRACED": "300" if quick else "2500",
        "VERIF_MAX_BEH": "100000"}, 1800)

    # ------------------------------------------------------------------ 5. classify
    devs_seen = set()
    for r in recs:
        if r.get("kind") != "violation":
            continue
        site, cl = r.get("site"), r.get("class")
        ro = dict(r)
        if r.get("beh", -1) in byidx and r.get("phase") == "replay":
            ro["behaviour"] = byidx[r["beh"]]
        if r.get("predicate") == "FeedbackMapping" and site == "exchangeFeedbackToLibp2p":
            what = "FeedbackMapping: exchangeFeedbackToLibp2p(%s) returned %s (spec: %s); only Accepted(1) may map to accept and out-of-range values must map to ignore" % (r.get("f"), r.get("got"), r.get("want"))
        elif r.get("predicate") == "FeedbackMapping":
            what = "FeedbackMapping: DaisyChainConnection relayed a message to C although B's handler returned feedback %s (%s)" % (r.get("f"), cl)
        elif site == "libp2p-validator":
            what = "RelayedOnlyIfAccepted: the real topic validator for slot %s returned accept (= pubsub forwards) for message class %s without an Accepted verdict of the handler (%s)" % (r.get("h"), json.dumps(r.get("cls")), cl)
        else:
            what = "RelayedOnlyIfAccepted on the real %s line A-B-C: a message of class %s published by A arrived at C although no handler of B returned Accepted for it (%s; phase %s, B slot %s, B verdicts %s)" % (
                site, json.dumps(r.get("cls")), cl, r.get("phase"), r.get("slot"), json.dumps(r.get("verdicts")))
        before = len(ctx.violations)
        ctx.violation(r.get("predicate"), site, cl, what, replay_obj=ro)
        if len(ctx.violations) == before and (site, cl) in CLASS_DEV:
            devs_seen.add(CLASS_DEV[(site, cl)])
    mism = [r for r in recs if r.get("kind") == "mismatch"]

    # vacuity / topology
    net, dy, mp = summ["net"], summ["daisy"], summ["map"]
    problems = []
    if net.get("control_ok") != 4 or dy.get("control_ok") != 3:
        problems.append("control relay A->B->C not observed (net %s/4, daisy %s/3): scenario vacuous" % (net.get("control_ok"), dy.get("control_ok")))
    if net.get("ac_connected_start") or net.get("ac_connected_end") or net.get("peers_a") != 1 or net.get("peers_c") != 1:
        problems.append("libp2p topology is not a line: %s" % {k: net.get(k) for k in ("ac_connected_start", "ac_connected_end", "peers_a", "peers_c")})
    if mp.get("map_distinct") != 256 or mp.get("validator_pairs", 0) < 30 or dy.get("map_rows") != 256:
        problems.append("mapping level did not run fully: %s / daisy map rows %s" % (mp, dy.get("map_rows")))
    if not ctx.replay:
        if net.get("replayed", 0) < 100 or dy.get("replayed", 0) < 100:
            problems.append("too few behaviours replayed: net %s daisy %s" % (net.get("replayed"), dy.get("replayed")))
        nops, dops = net.get("ops", {}), dy.get("ops", {})
        for op in ("deliver", "validate", "unregister", "register"):
            if not nops.get(op):
                problems.append("libp2p op %s never executed" % op)
        for op in ("sethandler", "validate"):
            if not dops.get(op):
                problems.append("daisy op %s never executed" % op)
        if not dy.get("ops", {}).get("disconnect"):
            problems.append("daisy op disconnect never executed")
        if net.get("b_verdicts", 0) < 100 or dy.get("b_verdicts", 0) < 100 or net.get("arrived_accepted", 0) < 20 or dy.get("arrived_accepted", 0) < 20:
            problems.append("too few verdicts / accepted relays observed")
        if net.get("stress_swaps", 0) < 50 or net.get("stress_published", 0) < 50 or dy.get("stress_swaps", 0) < 50:
            problems.append("stress phase did not run")
    if gate and not net.get("gate"):
        problems.append("verifGate present in the package but the gate harness was not compiled in")

    join_mc()
    pool.shutdown(wait=True)

    # ------------------------------------------------------------------ 6. code -> spec: trace validation
    tv = 0
    nevents = 0
    if not ctx.violations:
        tall = ctx.path("trace-all.ndjson")
        events = []
        with open(tall, "w") as f:
            for t in traces:
                for ln in open(t):
                    if ln.strip():
                        f.write(ln)
                        events.append(json.loads(ln))
        nevents = len(events)
        if nevents < 500 and not ctx.replay:
            problems.append("trace too short: %d events" % nevents)
        dev = "{" + ", ".join('"%s"' % d for d in sorted(devs_seen)) + "}"
        rt = ctx.tlc("RelayTrace", "Relay_trace.cfg", workers=1, timeout=1500, copy={tall: "trace.ndjson"},
                     defines={"Dev": dev}, allow_violation=True, allow_rejected=True, heap="4g")
        stuck = [ln for ln in rt["lines"] if "STUCK" in ln]
        if rt["ok"] and not stuck:
            tv = len([e for e in events if e.get("ev") == "reset"])
            ctx.traces_validated = tv
            ctx.log("RelayTrace accepted %d events in %d blocks with Dev=%s" % (nevents, tv, dev))
        else:
            k = None
            if stuck:
                m = re.search(r"STUCK (\d+)", stuck[0])
                k = int(m.group(1)) - 1 if m else None
            ev = events[k] if k is not None and 0 <= k < len(events) else None
            if rt["violated"] and not stuck or (ev and ev.get("ev") == "arrive"):
                ctx.violation("RelayedOnlyIfAccepted", "trace-%s" % (ev or {}).get("tr", "?"), "unexplained-arrival",
                              "RelayTrace.tla (Dev=%s) cannot explain an arrival at C recorded from the real code: %s" % (dev, json.dumps(ev)),
                              replay_obj={"event": ev, "tlc_tail": rt["lines"][-25:]})
            else:
                raise vlib.Inconclusive("RelayTrace rejected the recorded trace at event %s (%s), not an arrival:\n%s" % (k, json.dumps(ev), "\n".join(rt["lines"][-25:])))

    if mism and not ctx.violations:
        raise vlib.Inconclusive("spec and code disagree on a detail no predicate names (%d mismatches), e.g. %s" % (len(mism), json.dumps(mism[:3])))
    if problems and not ctx.violations:
        raise vlib.Inconclusive("; ".join(problems))

    # ------------------------------------------------------------------ 7. evidence
    ctx.log("TLC wall per run: %s" % walls)
    for b in (sweep_lp[:1] + sim_lp[:1] + sweep_dy[:1]):
        ctx.sample({"tlc_behaviour_replayed": b})
    for t in traces:
        tl = vlib.read_ndjson(t)
        for r in tl[-2:]:
            ctx.sample({"go_event_validated_by_spec": r})
    ctx.assumptions += [
        "go-libp2p-pubsub forwards a message iff all validators captured at push time accept, and forwards without validation when no topic validator is registered (observed: control relay and window relays)",
        "A and C are kept apart by connection gaters that admit only B; checked via Connectedness and peer counts at start and end",
        "absence of a relay is judged after a bounded wait (B's pubsub tracer reports the validation outcome; C is re-inspected after a final grace period)",
        "the swap window is reached %s" % ("deterministically through the verifGate hook" if gate else "only by the stress loop (no hook in /repo): hits are likely, not guaranteed"),
    ]
    evaluations = mp["map_rows"] + mp["validator_pairs"] + dy["map_rows"] + net["messages"] + dy["messages"]
    cov = {
        "states": states["distinct"] + (nevents + 1 if tv else 0), "transitions": states["generated"] + (nevents + 1 if tv else 0),
        "tlc_runs": tlc_runs, "asis_model_violates_strict_property": asis_cex,
        "behaviours_replayed": {"libp2p": net.get("replayed"), "daisy": dy.get("replayed"), "libp2p_needing_gate_skipped": net.get("needs_gate")},
        "evaluations": evaluations,
        "distinct_nontrivial": mp["map_distinct"] + mp["validator_pairs"] + net.get("distinct", 0) + dy.get("distinct", 0),
        "rule": "evaluations = feedback values + (slot,class) validator calls + messages published on the real transports, each judged by RelayedOnlyIfAccepted/FeedbackMapping; distinct_nontrivial = distinct feedback values + distinct (slot,class) pairs + distinct (slot,class,result) triples observed on the real transports (counted in sets by the harnesses)",
        "exhaustive": True,
        "exhaustive_scope": "TLC configs listed in tlc_runs; the real-code replay is exhaustive for the one-message class sweep and sampled (seeded simulation + stress) for two-message timings",
        "net": {k: net.get(k) for k in ("messages", "arrived", "arrived_accepted", "b_verdicts", "violations", "arrived_per_phase", "stress_published", "stress_swaps", "startup_published", "missed_relay", "unresolved", "gate", "gate_not_reached")},
        "daisy": {k: dy.get(k) for k in ("messages", "arrived", "arrived_accepted", "b_verdicts", "violations", "arrived_per_phase", "stress_published", "stress_swaps", "missed_relay", "unresolved")},
        "trace_events_validated": nevents if tv else 0, "trace_dev": sorted(devs_seen),
    }
    return ctx.finish("model_checking", extra_cov=cov)
