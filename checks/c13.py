"""C13 -- signature proofs merge as verified set union and round-trip.
SigProof.tla models a proof of either shipped scheme as the set of tree nodes holding a signature (simple
scheme = leaf row only, BLS = sigtree with pairwise aggregation and derived bits), offered signatures as
abstract [key-id class, corruption] entries, Merge / MergeSparse / AddSignature / Clone / AsSparse-rebuild /
Finalize+ValidateFinalizedProof (combinatorial index encode/decode modelled) as actions; the named rules are
action properties checked by TLC on every transition of every reachable state.  Behaviours are replayed on
gcrypto.SimpleCommonMessageSignatureProof (ed25519) and gblsminsig.SignatureProof (BLS) with real keys and
signatures, on tsi.CommitProofFinalizer, and seeded random behaviours over up to 9 keys are validated by
SigProofTrace.tla."""
import json, os, random, re, threading, time
from concurrent.futures import ThreadPoolExecutor
import vlib

META = {
    "level": "model_checking",
    "text": "TLC checks, on every transition from every reachable proof state (all key-set sizes 1..4, thorough 1..5 and BLS 6, both schemes, Clone product for <=3 keys), that AddSignature/Merge/MergeSparse give exactly the union of the prior signers and the offered signers whose signatures verify (entries range over key ids of length 0/1/3, out of range, every tree node incl. aggregated and padding ids, signatures by another key / over another message / bit-flipped / undecodable, wrong pub-key hash, untrusted full proofs with forged entries), are monotone and idempotent, report AllValid/Increased/StrictSuperset as the interface defines them, that Clone is independent, that AsSparse-rebuild keeps signer set and key ids, and that the finalized key ids (combinatorial number system, reduced key space per rest block, all main/rest assignments incl. double signers) decode back to the per-block signer sets; the encode/decode pair is checked to be a bijection for n<=9.  Every (state, operation) edge for <=4 keys is replayed on the real ed25519 and BLS proof types with real keys/signatures (signer bitsets of both objects, sparse key ids, flags, errors, panics, validated finalized proofs and the finalized key-id bytes compared after each step), every Finalize case also through tsi.CommitProofFinalizer validated the way the mirror does, and seeded random behaviours with 1..9 keys (BLS 3,5,6,7,9 non powers of two) are executed with the rules evaluated on the real objects and then validated step by step by SigProofTrace.tla.",
    "note": "The model's notion of 'verifies' is instantiated by concrete corruption classes, not by arbitrary byte strings; signature uniqueness/unforgeability of ed25519 and BLS is assumed. WasStrictSuperset is checked through named per-operation variants (Merge: empty-vs-empty counts and AllValid required; MergeSparse: verified part compared). Untrusted full proofs for Merge are built by a white-box test helper because the exported API cannot hold unverified signatures.",
    "technique": "TLA+ spec (SigProof.tla) + TLC exhaustive with action properties + behaviour replay on both real proof implementations and the state machine's finalizer + trace validation (SigProofTrace.tla) of seeded random executions",
    "design_ref": "DESIGN.md section 5, C13",
}

ALL_OPS = {"add", "sparse", "merge", "clone", "rebuild", "fin"}
PKG_S, PKG_B = "gcrypto", "gcrypto/gblsminsig"
PKG_T = "tm/tmengine/internal/tmstate/internal/tsi"


def _set(xs):
    return "{" + ", ".join(str(x) for x in xs) + "}"


def _sch(xs):
    return "{" + ", ".join('"%s"' % x for x in xs) + "}"


def run(ctx):
    quick = ctx.quick()
    lock = threading.Lock()

    # ------------------------------------------------------------------ 1. TLC (design + export), in parallel
    full = '{"ok", "othersigner", "othermsg", "bitflip", "garbage"}'
    red = '{"ok", "othermsg", "garbage"}'
    mc = [  # name, cfg, defines
        ("mc-k123", "SigProof_mc.cfg", {"Ks": _set([1, 2, 3]), "Schemes": _sch(["simple", "bls"]), "EntCorrs": full}),
        ("mc-k4-simple", "SigProof_mc.cfg", {"Ks": _set([4]), "Schemes": _sch(["simple"]), "EntCorrs": full, "Mode": '"mc"'}),
        ("mc-k4-bls", "SigProof_mc.cfg", {"Ks": _set([4]), "Schemes": _sch(["bls"]), "Mode": '"mc"'}),
        ("clone", "SigProof_clone.cfg", {"Ks": _set([1, 2, 3]), "EntCorrs": red if quick else full}),
        ("asis", "SigProof_asis.cfg", {}),
        ("emit", "SigProof_emit.cfg", {"Ks": _set([1, 2, 3, 4]), "MaxRest": 1 if quick else 2}),
    ]
    if not quick:
        mc += [
            ("mc-k5-simple", "SigProof_mc.cfg", {"Ks": _set([5]), "Schemes": _sch(["simple"]), "Mode": '"mc"'}),
            ("mc-k5-bls", "SigProof_mc.cfg", {"Ks": _set([5]), "Schemes": _sch(["bls"]), "Mode": '"mc"'}),
            ("mc-k6-bls", "SigProof_mc.cfg", {"Ks": _set([6]), "Schemes": _sch(["bls"]), "MaxEnt": 1, "MaxRest": 1, "Mode": '"mc"'}),
            ("clone-k4", "SigProof_clone.cfg", {"Ks": _set([4])}),
            ("emit-k5-bls", "SigProof_emit.cfg", {"Ks": _set([5]), "Schemes": _sch(["bls"]), "EntCorrs": red, "MaxRest": 1}),
        ]
    # Knobs for mutation experiments only (the TLC design checks and the export do not depend on /repo):
    #   VERIF_C13_SKIP_MC=1   skip the exhaustive design runs
    #   VERIF_C13_BEH=<file>  reuse an exported behaviours file (ndjson) instead of re-exporting
    skip_mc = bool(os.environ.get("VERIF_C13_SKIP_MC"))
    beh_cache = os.environ.get("VERIF_C13_BEH")
    if skip_mc:
        mc = [j for j in mc if j[0].startswith("emit")]
    if beh_cache and os.path.exists(beh_cache):
        mc = [j for j in mc if not j[0].startswith("emit")]
    results = {}

    def tlc_job(i, name, cfg, defines):
        time.sleep(0.7 * i)  # ctx.tlc names its scratch dir by directory count: keep starts apart
        t = time.time()
        r = ctx.tlc("SigProof", cfg, workers=4, timeout=900 if quick else 3000, defines=defines or None,
                    allow_violation=(name == "asis"), heap="3g")
        r["wall"] = time.time() - t
        return name, r

    # overlay only this check's own harness files (other checks keep files in the same package directories)
    mapping = {}
    for pkg in (PKG_S, PKG_B, "gcrypto/zzverifc13", PKG_T, "internal/verifcommon"):
        d = os.path.join(vlib.HARNESS, pkg)
        for fn in sorted(os.listdir(d)):
            if fn.endswith(".go") and (fn.startswith("zz_verif_c13_") or pkg == "internal/verifcommon"):
                mapping[os.path.join(pkg, fn)] = os.path.join(d, fn)
    ov = ctx.overlay(mapping)
    bins = {"simple": (PKG_S, "^TestVerifC13Simple$"), "bls": (PKG_B, "^TestVerifC13BLS$"), "tsi": (PKG_T, "^TestVerifC13Finalizer$")}
    paths = {}

    def build(name):
        pkg, _ = bins[name]
        b = ctx.path("bin", name + ".test")
        ctx.go_test(pkg, "", overlay=ov, compile_only=True, binary=b, timeout=900)
        return name, b

    with ThreadPoolExecutor(max_workers=(6 if quick else 8) + 3) as ex:
        bfuts = [ex.submit(build, n) for n in bins]      # Go test binaries are built while TLC runs
        futs = [ex.submit(tlc_job, i, *j) for i, j in enumerate(mc)]
        for f in futs:
            name, r = f.result()  # Inconclusive propagates
            results[name] = r
        for f in bfuts:
            name, b = f.result()
            paths[name] = b
    for name, r in results.items():
        ctx.log("TLC %-13s %9d transitions %7d distinct states  %.0fs" % (name, r.get("states", 0), r.get("distinct", 0), r["wall"]))
    if "asis" in results and (not results["asis"]["violated"] or "NoPanic" not in results["asis"]["out"]):
        raise vlib.Inconclusive("SigProof_asis.cfg: the as-is model (named deviations on) did not produce the NoPanic counterexample")
    mc_states = sum(r.get("distinct", 0) for n, r in results.items() if n.startswith("mc") or n.startswith("clone"))
    mc_trans = sum(r.get("states", 0) for n, r in results.items() if n.startswith("mc") or n.startswith("clone"))

    # behaviours to replay
    rng = random.Random(ctx.seed)
    behs = []
    if beh_cache and os.path.exists(beh_cache):
        behs = vlib.read_ndjson(beh_cache)
    for name in ("emit", "emit-k5-bls"):
        if name in results:
            b = ctx.tlc_emitted(results[name])
            if name == "emit-k5-bls" and len(b) > 60000:
                b = rng.sample(b, 60000)
            behs += b
    if ctx.replay:
        rp = json.load(open(ctx.replay))
        behs = [rp["replay"]["behaviour"]] if "replay" in rp else [rp["behaviour"]]
    n_bls = sum(1 for b in behs if b[0]["sch"] == "bls")
    if quick and n_bls > 16000 and not ctx.replay:
        keep = 16000.0 / n_bls
        behs = [b for b in behs if b[0]["sch"] != "bls" or b[0]["k"] < 4 or rng.random() < keep]
    if len(behs) < (1 if ctx.replay else 5000):
        raise vlib.Inconclusive("behaviour export produced only %d behaviours" % len(behs))
    tin = ctx.path("behaviours.ndjson")
    with open(tin, "w") as f:
        for b in behs:
            f.write(json.dumps(b) + "\n")
    if beh_cache and not os.path.exists(beh_cache):
        with open(beh_cache, "w") as f:
            for b in behs:
                f.write(json.dumps(b) + "\n")
    ctx.log("behaviours to replay: %d (bls %d)" % (len(behs), sum(1 for b in behs if b[0]["sch"] == "bls")))

    # ------------------------------------------------------------------ 2. Go harnesses on /repo's working tree
    nrand = {"simple": 600 if quick else 8000, "bls": 300 if quick else 3000}
    outs, traces = {}, {}

    def runbin(name):
        pkg, pat = bins[name]
        out, tr = ctx.path("out-%s.ndjson" % name), ctx.path("trace-%s.ndjson" % name)
        env = {"VERIF_IN": tin, "VERIF_OUT": out, "VERIF_TRACE": tr, "VERIF_SEED": str(ctx.seed),
               "VERIF_WORKERS": str(min(vlib.NCPU, 16)), "VERIF_RANDOM": str(0 if ctx.replay else nrand.get(name, 0)),
               "VERIF_RANDOM_OPS": "8", "VERIF_RANDOM_KS": "1,2,3,4,5,6,7,8,9,3,5,6,7",
               "VERIF_TRACE_EVERY": str(1 if ctx.replay else (40 if quick else 15))}
        rc, o = ctx.go_test(pkg, pat, env=env, binary=paths[name], timeout=1500 if quick else 5000)
        return name, rc, o, out, tr

    with ThreadPoolExecutor(max_workers=3) as ex:
        runs = list(ex.map(runbin, list(bins)))
    summ, recs = {}, []
    for name, rc, o, out, tr in runs:
        rs = vlib.read_ndjson(out)
        s = [r for r in rs if r.get("kind") == "summary"]
        if rc != 0 or not s:
            raise vlib.Inconclusive("C13 harness %s failed rc=%s\n%s" % (name, rc, o[-3000:]))
        summ[name] = s[0]
        recs += [r for r in rs if r.get("kind") != "summary"]
        traces[name] = tr
        ctx.log("harness %-6s %s" % (name, json.dumps({k: v for k, v in s[0].items() if k != "kind"}, sort_keys=True)))

    # vacuity
    if not ctx.replay:
        for name in ("simple", "bls"):
            s = summ[name]
            if s["behaviours"] < 1000 or s["random"] < 100 or not ALL_OPS <= set(k for k, v in s["ops"].items() if v > 0):
                raise vlib.Inconclusive("harness %s did not exercise everything: %s" % (name, s))
        if summ["tsi"]["finalized"] < 100 or summ["tsi"]["schemes"] != ["bls", "simple"]:
            raise vlib.Inconclusive("tsi harness did not exercise both schemes: %s" % summ["tsi"])

    unexplained = []
    for r in recs:
        if r.get("kind") == "probe":
            ctx.log("probe %s: 3-byte key id accepted by MergeSparse = %s (spec variant l3)" % (r.get("scheme"), r.get("len3_accepted")))
        elif r.get("kind") == "violation":
            ctx.violation(r["predicate"], r["site"], r["class"], "[%s] %s" % (r.get("scheme"), r["what"]),
                          replay_obj={"behaviour": r.get("behaviour"), "step": r.get("step"), "real": r.get("real")})
        else:
            unexplained.append(r)

    # ------------------------------------------------------------------ 3. code -> spec: trace validation
    events, chunks = 0, []
    for name in ("simple", "bls"):
        lines = [ln for ln in open(traces[name]) if ln.strip()]
        events += len(lines)
        cur, groups = [], []
        for ln in lines:
            if ln.startswith('{"ev":"reset"') or '"ev":"reset"' in ln[:40]:
                if cur:
                    groups.append(cur)
                cur = []
            cur.append(ln)
        if cur:
            groups.append(cur)
        nchunk = 6 if name == "bls" else 4
        per = max(1, (len(groups) + nchunk - 1) // nchunk)
        for i in range(0, len(groups), per):
            p = ctx.path("tracechunks", "%s-%d.ndjson" % (name, i // per))
            with open(p, "w") as f:
                for g in groups[i:i + per]:
                    f.writelines(g)
            chunks.append((name, p, sum(len(g) for g in groups[i:i + per])))

    def validate(i, name, p, n):
        time.sleep(0.7 * i)
        r = ctx.tlc("SigProofTrace", "SigProof_trace.cfg", workers=1, timeout=1500 if quick else 5000,
                    copy={p: "trace.ndjson"}, allow_violation=True, heap="2g")
        return name, p, n, r

    tv_ok, tv_events = 0, 0
    with ThreadPoolExecutor(max_workers=10) as ex:
        futs = [ex.submit(validate, i, *c) for i, c in enumerate(chunks)]
        for f in futs:
            name, p, n, r = f.result()
            if r["violated"]:
                out = r["out"]
                m = re.findall(r"/\\ bad = (\{[^\n]*\})", out)
                ml = re.findall(r"/\\ l = (\d+)", out)
                bad = re.findall(r'"([^"]+)"', m[-1]) if m else ["?"]
                li = int(ml[-1]) - 1 if ml else 0
                lines = open(p).read().splitlines()
                ev = json.loads(lines[li - 1]) if 0 < li <= len(lines) else {}
                # the behaviour the event belongs to
                j = li - 1
                while j > 0 and '"ev":"reset"' not in lines[j][:40]:
                    j -= 1
                excerpt = [json.loads(x) for x in lines[j:li]]
                for b in bad:
                    if b.startswith("SpecDetail") or b == "?":
                        unexplained.append({"kind": "trace-unexplained", "what": b, "scheme": name, "event": ev})
                    else:
                        ctx.violation(b, "trace:" + name + ":" + str(ev.get("ev")), "trace:" + str(ev.get("ev")),
                                      "[%s] event recorded from the real proof breaks rule %s in SigProofTrace.tla: %s" % (name, b, json.dumps(ev)),
                                      replay_obj={"trace": excerpt})
            elif not r["ok"]:
                raise vlib.Inconclusive("trace validation failed on %s\n%s" % (p, "\n".join(r["lines"][-30:])))
            else:
                tv_ok += 1
                tv_events += n
    ctx.traces_validated = tv_ok
    ctx.log("trace validation: %d/%d chunks accepted, %d events" % (tv_ok, len(chunks), tv_events))

    if unexplained and not ctx.violations:
        raise vlib.Inconclusive("%d step(s) where spec and code disagree on a detail the property does not name (fix the spec), first: %s"
                                % (len(unexplained), json.dumps(unexplained[0])[:3000]))

    # ------------------------------------------------------------------ evidence
    for b in behs[:2]:
        ctx.sample({"spec_behaviour_replayed": b})
    for name in ("simple", "bls"):
        try:
            ln = open(traces[name]).read().splitlines()
            ctx.sample({"go_events_validated_by_spec_" + name: [json.loads(x) for x in ln[-3:]]})
        except Exception:
            pass
    ctx.assumptions += [
        "ed25519 and BLS signatures are unique per (key, message) and unforgeable; 'does not verify' is instantiated by: signature of another key, signature over another message, bit-flipped signature, undecodable bytes",
        "key ids are instantiated per class (length 0/1/3, first out-of-range index and 0xffff-ish, every tree node id incl. aggregated and padding nodes), not as arbitrary byte strings",
        "TLC 1.8.0 and the Go toolchain are sound; blst is the BLS implementation under gblsminsig and is trusted",
    ]
    steps = sum(summ[n]["steps"] for n in ("simple", "bls")) + summ["tsi"]["finalized"]
    cov = {
        "states": mc_states, "transitions": mc_trans,
        "tlc_runs": {n: {"transitions": r.get("states", 0), "distinct": r.get("distinct", 0), "wall_s": round(r["wall"], 1)} for n, r in results.items()},
        "behaviours_replayed": {n: summ[n]["behaviours"] for n in ("simple", "bls")},
        "random_behaviours": {n: summ[n]["random"] for n in ("simple", "bls")},
        "finalizer_cases": summ["tsi"]["finalized"],
        "trace_events_validated": tv_events,
        "evaluations": steps,
        "distinct_nontrivial": sum(summ[n]["distinct_states"] for n in ("simple", "bls")),
        "rule": "evaluations = operations executed on real proof objects (replayed + random + finalizer cases), each compared with the spec's expected observable and with the named rules; distinct_nontrivial = distinct (scheme, key count, signer sets and sparse key ids of both proof objects) states reached on the real code, counted in a set by the harness",
        "exhaustive": not (skip_mc or ctx.replay),
        "exhaustive_scope": "TLC: all reachable states x full operation alphabet for the key counts listed in tlc_runs; replay: every exported (state, operation) edge (quick tier: BLS 4-key edges sampled)",
    }
    return ctx.finish("model_checking", extra_cov=cov)
