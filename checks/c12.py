"""C12 -- exactly one step timer, armed iff waiting, and re-arming never fails."""
import importlib, os
import vlib, smcheck, mirrorcheck

META = {
    "level": "model_checking",
    "text": "(a) Timer discipline: StateMachine.tla carries the outstanding step timer as a variable; TLC checks that a timer is armed exactly in the timed steps (awaiting proposal, prevote delay, precommit delay, commit wait) and that it is the timer of that step, over every order of events, and exports counterexample witnesses; behaviours are replayed on a real tmstate.StateMachine with a recording RoundTimer, which flags a timer started while another is outstanding and compares the outstanding timer with the step after every event. (b) Production timer: RoundTimer.tla models StandardRoundTimer's background goroutine (two selects, Go's random choice among ready cases) against a caller doing start / cancel / observe / cancel-then-start; TLC exhausts the interleavings, and the schedules are forced on the real goroutine through the verifRTGate hooks in child processes (see checks/c12_timer.py). Generation for the state machine part: edge cover + simulation; the repository's own tests run under an invariant monitor (ArmedIffTimed at every trace point). A round timer goroutine that is blocked for good is reported from goroutine-stack evidence (NoLostStart/timer-goroutine-wedged).",
    "note": "Catch-up (no live round view) counts as an untimed state. The production-timer replay repeats each gated schedule 64 times because Go's select picks among ready cases at random.",
    "technique": "TLA+ specs (StateMachine.tla timer variable; RoundTimer.tla) + TLC exhaustive check + replay on the real state machine with a recording timer and gated schedules on the real StandardRoundTimer",
}


def run(ctx):
    q = ctx.quick()
    design = [{"steps": 5 if q else 6, "universe": "Small", "crash": False, "invariants": ["C12_ArmedIffTimed", "C12_TimerMatchesStep"], "witnesses": 40 if q else 400}]
    plans = [{"cover": True, "universe": "Small", "steps": 5 if q else 6},
             {"cover": True, "universe": "Two", "steps": 5 if q else 6, "visit": ["PrevoteDelay", "PrecommitDelay"], "workers": 8, "cap": 8000 if q else 60000},
             {"universe": "", "rich": True, "sim": 6 if q else 60, "steps": 9 if q else 12, "cap": 250 if q else 5000, "seeds": 1 if q else 3},
             {"universe": "Small", "rich": False, "sim": 10 if q else 60, "steps": 10 if q else 12, "cap": 150 if q else 3000, "seeds": 1 if q else 2}]
    cov, mismatches, inconcl = smcheck.collect(ctx, {"C12"}, plans, design)
    if os.path.exists(os.path.join(vlib.VERIF, "checks", "c12_timer.py")):
        c12_timer = importlib.import_module("c12_timer")
        cov["standard_round_timer"] = c12_timer.collect(ctx) or {}
    # code -> spec direction: the repository's own tests run under the invariant monitor
    import suitemon
    cov.update(suitemon.run_suite(ctx, {"C12"}, kind="sm"))
    rc = ctx.finish("model_checking", extra_cov=cov)
    return mirrorcheck.conclude(rc, mismatches, inconcl)
