"""C08 -- the round state machine follows the Tendermint round rules, forwards only."""
import vlib, smcheck, mirrorcheck

META = {
    "level": "model_checking",
    "text": "StateMachine.tla is the sequential reference model of statemachine.go (one operator per Go function; consensus-manager hand-off, timers, finalization, catch-up, jump-ahead); TLC explores every order of round-entrance responses, monotone view growth, timer expiries, strategy answers, finalization responses, height-committed signals and block-data arrivals. Every generated behaviour is replayed on a real tmstate.StateMachine; after each event the projected round lifecycle (height, round, step, timer, channel states, finalization flags, view version) and the multiset of outputs (strategy calls, timer starts/cancels, round entrances, finalize requests, store writes, signatures, emitted actions) must equal the model's, and the named rules are evaluated on the real outputs: finalize only on >2/3 precommits for the block in the current round view or on a supplied committed header, entered (height, round) pairs strictly increase, calls and votes refer to the current round. A divergence from the reference model is reported as a violation of this property (it is a refinement claim). A round may be left while the strategy is still inside a call made for it: EnterRound waits behind it and the LATE ANSWER goes to the channel of the round that was left (StateMachineMC.tla LateAnswer; the harness lets the strategy return right after the entrance response) -- it must have no effect in the new round. A second stage replays the model with Participating = FALSE on a state machine without a signer (a follower). Generation: witnesses, simulation and edge cover (every reachable (state, event) pair of the Small universe, with and without crashes); design level also checks C08_StepForward, C08_PosForward, C08_FinalizeNeedsQuorum, C08_FinStepHasElapsed; the repository's own tests run under an invariant monitor evaluating PosForward/StepForward/FinStepHasElapsed inside the state machine goroutine.",
    "note": "The strategy is played by the harness with blocking calls, so requests that would block behind a busy strategy are excluded from generation (the 100 ms timed sends that panic are C09's). Vote targets are the strategy's by construction of the harness. Bounded: N=4, heights 1..3, rounds 0..2.",
    "technique": "TLA+ reference model (StateMachine.tla) + TLC bounded exploration + step-by-step refinement replay on the real state machine",
}


def run(ctx):
    q = ctx.quick()
    design = [{"steps": 5 if q else 6, "universe": "Small", "crash": False, "invariants": ["C08_Forward", "C08_FinalizeNeedsQuorum", "C08_FinStepHasElapsed"],
               "properties": ["C08_StepForward", "C08_PosForward"], "witnesses": 40 if q else 400},
              {"steps": 4 if q else 5, "universe": "Two", "crash": True, "rich": True, "invariants": ["C08_Forward", "C08_FinalizeNeedsQuorum", "C08_FinStepHasElapsed"],
               "properties": ["C08_StepForward", "C08_PosForward"]}]
    plans = [{"cover": True, "universe": "Small", "steps": 5 if q else 6},
             {"cover": True, "universe": "Two", "steps": 5 if q else 6, "visit": ["PrevoteDelay", "PrecommitDelay"], "workers": 8, "cap": 8000 if q else 60000},
             {"cover": True, "universe": "Small", "steps": 4 if q else 5, "rich": True, "crash": True, "cap": 3000 if q else 20000},
             {"universe": "", "rich": True, "sim": 8 if q else 60, "steps": 9 if q else 12, "cap": 300 if q else 5000, "seeds": 1 if q else 3},
             {"universe": "Two", "rich": False, "sim": 10 if q else 80, "steps": 10 if q else 12, "cap": 250 if q else 4000, "seeds": 1 if q else 3},
             {"universe": "Small", "rich": False, "sim": 10 if q else 60, "steps": 10 if q else 12, "cap": 150 if q else 3000, "seeds": 1 if q else 2}]
    cov, mismatches, inconcl = smcheck.collect(ctx, {"C08"}, plans, design)
    for m in mismatches:
        ctx.violation("Refinement", m["op"], "divergence", "the real state machine diverges from spec/StateMachine.tla: %s" % "; ".join(m["diff"] or []),
                      replay_obj={"steps": m["steps"]})
    # a state machine that does NOT vote (no signer): the same reference model with Participating = FALSE; it still consults
    # the strategy and follows the round rules, signs nothing, and a late strategy answer is not consumed
    if not ctx.replay:
        fplans = [{"cover": True, "universe": "Small", "steps": 4 if q else 5},
                  {"universe": "Small", "rich": False, "sim": 8 if q else 40, "steps": 9 if q else 11, "cap": 150 if q else 2000, "seeds": 1}]
        fcov, fmis, finc = smcheck.collect(ctx, {"C08"}, fplans, [], me=0)
        for m in fmis:
            ctx.violation("Refinement", m["op"], "divergence:follower", "a state machine without a signer diverges from spec/StateMachine.tla: %s" % "; ".join(m["diff"] or []),
                          replay_obj={"me": 0, "steps": m["steps"]})
        inconcl = inconcl + finc
        cov["follower_state_machine"] = {k: fcov[k] for k in ("behaviours_replayed_on_real_code", "steps_replayed", "distinct_abstract_states_reached_on_real_code", "spec_vs_code_divergences")}
        cov["behaviours_replayed_on_real_code"] += fcov["behaviours_replayed_on_real_code"]
        cov["evaluations"] += fcov["evaluations"]
    # code -> spec direction: the repository's own tests run under the invariant monitor
    import suitemon
    cov.update(suitemon.run_suite(ctx, {"C08"}, kind="sm"))
    rc = ctx.finish("model_checking", extra_cov=cov)
    return mirrorcheck.conclude(rc, [], inconcl, refinement=True)
