--------------------------- MODULE ThresholdsMC ---------------------------
(* TLC instance of Thresholds: exhaustive check of the characterisation for *)
(* n in 1..NMax, export of the table (spec -> code replay), and validation  *)
(* of triples recorded from the Go functions (code -> spec).                *)
EXTENDS Thresholds, Sequences, Json, TLC
CONSTANT NMax, TraceFile

MajN(n) == Maj(n \div 3, n % 3)
MinN(n) == Min(n \div 3, n % 3)

LeastMaj(n) == CHOOSE m \in 0..(n+1) : 3*m > 2*n /\ \A k \in 0..(m-1) : ~(3*k > 2*n)
LeastMin(n) == CHOOSE m \in 0..(n+1) : 3*m >= n /\ \A k \in 0..(m-1) : ~(3*k >= n)

VARIABLE n
Init == n \in 1..NMax          \* one initial state per n: checked in parallel
Next == FALSE /\ UNCHANGED n
\* arithmetic form of "smallest m" (3m is strictly monotone in m)
ExactArith == /\ 3*MajN(n) > 2*n /\ 3*(MajN(n)-1) <= 2*n
              /\ 3*MinN(n) >= n /\ 3*(MinN(n)-1) < n
              /\ MajN(n) <= n /\ MinN(n) <= MajN(n)
\* literal form: search for the least m
Exact == MajN(n) = LeastMaj(n) /\ MinN(n) = LeastMin(n)
Overlap == \A a \in MajN(n)..n, b \in MajN(n)..n : a + b - n >= MinN(n)
Harmless == \A s \in 0..(MinN(n)-1) : s < MajN(n) /\ n - s >= MajN(n)
Emit == PrintT("BEH " \o ToJson([n |-> n, maj |-> MajN(n), min |-> MinN(n)]))
=============================================================================
