\* behaviour export by simulation: one BEH line per behaviour of MaxLen steps
CONSTANTS
  Configs <- C_sim
  TOrder <- TO3
  DoubleCount = FALSE
  MaxLen = 14
INIT Init
NEXT Next
INVARIANTS EmitBeh
CONSTRAINT HistBound
CHECK_DEADLOCK FALSE
