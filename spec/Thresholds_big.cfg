CONSTANTS
  NMax = 200000
  TraceFile = "none"
INIT Init
NEXT Next
INVARIANTS ExactArith
CHECK_DEADLOCK FALSE
