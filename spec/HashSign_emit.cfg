CONSTANTS
  SigsBound = FALSE
  MaxDist = 1
  MaxSigs = 1
  BlockKeys = {"nil", "A", "B"}
  EmitPairs = TRUE
INIT HSInit
NEXT HSNext
INVARIANTS TypeOK SignDistinct KindSeparated EmitPair EmitPerm EmitOrder EmitSign
CHECK_DEADLOCK FALSE
