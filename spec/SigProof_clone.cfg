\* exhaustive with Clone (two proof objects): full corruption alphabet, one entry per sparse proof
CONSTANTS
  Ks = {1, 2, 3}
  Schemes = {"simple", "bls"}
  MaxOps = 99
  MaxEnt = 1
  MaxRest = 0
  EntCorrs = {"ok", "othersigner", "othermsg", "bitflip", "garbage"}
  FinCorrOn = FALSE
  CloneOn = TRUE
  AsIs = {}
  Mode = "mc"
INIT Init
NEXT Next
VIEW View
INVARIANTS TypeOK NoPanic
PROPERTIES PUnion PMonotone PNoBit PIdem PFlags PClone PSparseRT PFinRT PNoPanic
CHECK_DEADLOCK FALSE
