------------------------------- MODULE Mirror -------------------------------
(***************************************************************************)
(* The mirror of gordian (tm/tmengine/internal/tmmirror): the kernel        *)
(* (tmi/kernel.go, kstate.go, view managers) together with the caller side  *)
(* of Mirror.Handle* (mirror.go), and the four stores it writes.            *)
(*                                                                          *)
(* Written in the shape of the implementation: every operator below is the  *)
(* transcription of one Go function (named in brackets), as a function from *)
(* a state record to a state record, so that the two-phase protocol of      *)
(* mirror.go (lookup in the kernel, merge in the caller, add in the kernel) *)
(* can be composed either atomically (sequential drivers) or as separate    *)
(* steps (MirrorConc).  The spec models what the code DOES, including the   *)
(* behaviour that the listed properties forbid: those places are marked     *)
(* DEVIATION and are the counterexamples TLC reports for C01/C05/C06/...    *)
(*                                                                          *)
(* Abstract domains                                                         *)
(*   validator set ids     DOMAIN ValsetDef ; ValsetDef[v].keys / .pow      *)
(*   header labels         DOMAIN HDR ; HDR[l] = [h, prev, vs, nvs, pcp..]  *)
(*   vote targets          header labels, "nil" (empty hash), "X" (unknown) *)
(*   signature entry       [pos, cls]: pos = 1-based index into the set's   *)
(*                         key list (0 = out of range, -1 = key id shorter  *)
(*                         than 2 bytes, -3 = 3-byte key id); cls = "ok"    *)
(*                         iff the bytes are a real signature by that key   *)
(*                         over exactly (kind, h, r, target).               *)
(***************************************************************************)
EXTENDS Integers, Sequences, FiniteSets, TLC

CONSTANTS ValsetDef, GenesisVS, HDR, Rank, InitH

VARIABLES ks,    \* kernel memory (kState) or DownKS after a crash
          st,    \* the four stores
          pan,   \* "" or the reason of a panic (process death)
          out,   \* observable outputs of the last step (result codes, channel sends)
          hist   \* history of API-level steps (exported for replay; hidden by VIEW)

vars == <<ks, st, pan, out, hist>>

NULL == "null"
NoJump == [h |-> 0, r |-> 0]
NoOut == [none |-> TRUE]
NoVRV == [h |-> 0, r |-> 0, ver |-> 0]
NoNHR == <<0, 0, 0, 0>>
EmptyFn == [x \in {} |-> {}]
Labels == DOMAIN HDR

-----------------------------------------------------------------------------
(* ---- validator sets, thresholds (tmconsensus/math.go) ------------------ *)

KnownVS(v) == v \in DOMAIN ValsetDef           \* "none" (zero view) and unknown hashes have no keys
Keys(v)   == IF KnownVS(v) THEN ValsetDef[v].keys ELSE <<>>
NPos(v)   == IF KnownVS(v) THEN Len(ValsetDef[v].keys) ELSE 0
Pow(v, i) == ValsetDef[v].pow[i]

RECURSIVE SumPow(_, _)
SumPow(v, S) == IF S = {} THEN 0       \* positions beyond the set are ignored, as `int(i) < len(vals)` does
                ELSE LET i == CHOOSE x \in S : TRUE
                     IN (IF i >= 1 /\ i <= NPos(v) THEN Pow(v, i) ELSE 0) + SumPow(v, S \ {i})
TotalPow(v) == SumPow(v, 1..NPos(v))

Maj(n) == IF n % 3 < 2 THEN 2 * (n \div 3) + 1 ELSE 2 * (n \div 3) + 2
Min(n) == IF n % 3 = 0 THEN n \div 3 ELSE (n \div 3) + 1

-----------------------------------------------------------------------------
(* ---- vote summary as coded (tmconsensus/votesummary.go) ----------------- *)

\* rank of a hash in byte order; "" (nil) is smaller than everything
RankOf(t) == IF t = "nil" THEN 0 ELSE IF t \in DOMAIN Rank THEN Rank[t] ELSE 1000

BlockPow(v, proofs, t) == IF t \in DOMAIN proofs THEN SumPow(v, proofs[t]) ELSE 0

RECURSIVE SumBlocks(_, _, _)
SumBlocks(v, proofs, D) == IF D = {} THEN 0
     ELSE LET t == CHOOSE x \in D : TRUE IN BlockPow(v, proofs, t) + SumBlocks(v, proofs, D \ {t})

\* every validator counts once toward the total, however many targets it signed
SignersOf(proofs) == UNION {proofs[t] : t \in DOMAIN proofs}
TotalRecount(v, proofs) == SumPow(v, SignersOf(proofs))
TotalAsCoded(v, proofs) == TotalRecount(v, proofs)      \* [SetPrevotePowers / SetPrecommitPowers: distinctPower]
\* the per-block sum the code used before the fix (kept to state C06 as an invariant)
TotalPerBlock(v, proofs) == SumBlocks(v, proofs, DOMAIN proofs)

\* MostVoted*Hash: maximal power, ties to the lexicographically smaller hash; the loop
\* starts from maxHash = "", maxPow = 0, so a block with power 0 never displaces "".
MostVoted(v, proofs) ==
  LET D == DOMAIN proofs
      mx == IF D = {} THEN 0
            ELSE BlockPow(v, proofs, CHOOSE t \in D : \A u \in D : BlockPow(v, proofs, t) >= BlockPow(v, proofs, u))
      C == {t \in D : BlockPow(v, proofs, t) = mx}
  IN IF mx = 0 THEN "nil"
     ELSE CHOOSE t \in C : \A u \in C : RankOf(t) <= RankOf(u)

-----------------------------------------------------------------------------
(* ---- views (tmconsensus/roundview.go, tmi/kstate.go) -------------------- *)

EmptyPCP == [r |-> 0, pkh |-> "none", proofs |-> EmptyFn]

ZeroView == [h |-> 0, r |-> 0, vs |-> "none", pcp |-> EmptyPCP, phs |-> {},
             pv |-> EmptyFn, pc |-> EmptyFn, pvVer |-> EmptyFn, pcVer |-> EmptyFn, ver |-> 0]

FreshView(h, r, v, pcp) == [ZeroView EXCEPT !.h = h, !.r = r, !.vs = v, !.pcp = pcp]

Ver(f, t) == IF t \in DOMAIN f THEN f[t] ELSE 0

HasPH(view, l) == \E p \in view.phs : p.hdr = l

\* [kState.FindView]
FindView(k, h, r) ==
  IF h = k.V.h THEN
       IF r = k.V.r THEN [slot |-> "V", status |-> "Found"]
       ELSE IF r = k.V.r + 1 THEN [slot |-> "N", status |-> "Found"]
       ELSE IF r < k.V.r THEN [slot |-> "none", status |-> "Orphaned"]
       ELSE [slot |-> "none", status |-> "Future"]
  ELSE IF h = k.C.h /\ r = k.C.r THEN [slot |-> "C", status |-> "Found"]
  ELSE IF h = k.C.h /\ r < k.C.r THEN [slot |-> "none", status |-> "BeforeCommitting"]
  ELSE IF h = k.C.h THEN [slot |-> "none", status |-> "WrongCommit"]
  ELSE IF h < k.C.h THEN [slot |-> "none", status |-> "BeforeCommitting"]
  ELSE IF h > k.V.h THEN [slot |-> "none", status |-> "Future"]
  ELSE [slot |-> "none", status |-> "PANIC"]      \* "TODO: unhandled attempt to find view"

GetView(k, slot) == CASE slot = "V" -> k.V [] slot = "N" -> k.N [] slot = "C" -> k.C
SetViewSlot(k, slot, v) == CASE slot = "V" -> [k EXCEPT !.V = v]
                             [] slot = "N" -> [k EXCEPT !.N = v]
                             [] slot = "C" -> [k EXCEPT !.C = v]

-----------------------------------------------------------------------------
(* ---- state machine view manager / gossip view manager ------------------- *)

ZeroSMM == [reH |-> 0, reR |-> 0, pub |-> 0, actions |-> FALSE, lastSent |-> 0,
            jump |-> NoJump, outH |-> 0, outR |-> 0, outVer |-> 0, hc |-> "none"]
ZeroGVM == [sentC |-> <<0, 0, 0>>, sentV |-> <<0, 0, 0>>, sentN |-> <<0, 0, 0>>, nilVoted |-> ZeroView]

HRV(view) == <<view.h, view.r, view.ver>>

\* [kState.MarkCommittingViewUpdated / MarkVotingViewUpdated / MarkNextRoundViewUpdated]
MarkC(k) ==
  LET c == [k.C EXCEPT !.ver = @ + 1]
      m == k.smm
      m2 == IF m.reH = c.h /\ m.reR = c.r
               THEN [m EXCEPT !.outH = c.h, !.outR = c.r, !.outVer = c.ver]
            ELSE IF m.reH < c.h \/ (m.reH = c.h /\ m.reR < c.r)
               THEN [m EXCEPT !.jump = [h |-> c.h, r |-> c.r]]
            ELSE m
  IN [k EXCEPT !.C = c, !.smm = m2]

MarkV(k) ==
  LET v == [k.V EXCEPT !.ver = @ + 1]
      m == k.smm
      m2 == IF m.reH = v.h /\ m.reR = v.r
               THEN [m EXCEPT !.outH = v.h, !.outR = v.r, !.outVer = v.ver] ELSE m
  IN [k EXCEPT !.V = v, !.smm = m2]

\* a state machine that entered the round after the voting round on its own is told about changes of that view too
MarkN(k) ==
  LET v == [k.N EXCEPT !.ver = @ + 1]
      m == k.smm
      m2 == IF m.reH = v.h /\ m.reR = v.r
               THEN [m EXCEPT !.outH = v.h, !.outR = v.r, !.outVer = v.ver] ELSE m
  IN [k EXCEPT !.N = v, !.smm = m2]

Mark(k, slot) == CASE slot = "V" -> MarkV(k) [] slot = "N" -> MarkN(k) [] slot = "C" -> MarkC(k)

\* [stateMachineViewManager.Output]: what the kernel offers on StateMachineRoundViewOut
SMOutput(k) ==
  LET m == k.smm IN
  IF m.outH = m.reH /\ m.outR = m.reR /\ m.reH > 0
     /\ (m.outVer > m.lastSent \/ (m.jump # NoJump /\ m.lastSent > 0))
  THEN [vrv |-> IF m.outVer > m.lastSent THEN [h |-> m.outH, r |-> m.outR, ver |-> m.outVer] ELSE NoVRV,
        jump |-> m.jump,
        sentVersion |-> IF m.outVer > m.lastSent THEN m.outVer ELSE m.lastSent]
  ELSE IF m.jump # NoJump /\ m.jump.h = m.reH /\ m.jump.r > m.reR
  THEN [vrv |-> NoVRV, jump |-> m.jump, sentVersion |-> m.lastSent]
  ELSE NoOut

\* [gossipViewManager.Output]: which pointers of the NetworkViewUpdate are set
GossipOutput(k) ==
  LET g == k.gvm
      c == g.sentC # HRV(k.C)
      v == g.sentV # HRV(k.V)
      n == g.sentN # HRV(k.N)
  IN IF c \/ v \/ n \/ g.nilVoted # ZeroView \/ k.sessPending
     THEN [C |-> c, V |-> v, N |-> n, nilVoted |-> g.nilVoted # ZeroView] ELSE NoOut

-----------------------------------------------------------------------------
(* ---- stores --------------------------------------------------------------*)

EmptyRound == [phs |-> {}, pv |-> EmptyFn, pc |-> EmptyFn, pvKH |-> "none", pcKH |-> "none"]
RoundOf(s, h, r) == IF <<h, r>> \in DOMAIN s.round THEN s.round[<<h, r>>] ELSE EmptyRound
RoundKnown(s, h, r) == <<h, r>> \in DOMAIN s.round
PutRound(s, h, r, rec) == [s EXCEPT !.round = (<<h, r>> :> rec) @@ @]

InitStores == [nhr |-> NoNHR, round |-> [x \in {} |-> EmptyRound], replayed |-> [x \in {} |-> {}],
               hdr |-> [x \in {} |-> NULL],
               \* key sets the validator store already holds (written by the state machine after earlier set changes)
               vals |-> {v \in DOMAIN ValsetDef : ValsetDef[v].stored}]
ReplayedAt(s, h) == IF h \in DOMAIN s.replayed THEN s.replayed[h] ELSE {}

\* every store write appends the post-write store state to wlog: a crash may fall after any of them
W(x, s2) == [x EXCEPT !.st = s2, !.wlog = Append(@, s2)]

-----------------------------------------------------------------------------
(* A "step context" x = [k, st, wlog, pan, fetch, res] threads through the   *)
(* operators below: kernel memory, stores, the write log of this step, panic *)
(* reason, fetch requests emitted, result for the caller.                    *)

Ctx0(k, s) == [k |-> k, st |-> s, wlog |-> <<>>, pan |-> "", fetch |-> {}, res |-> NULL]
Panic(x, why) == IF x.pan = "" THEN [x EXCEPT !.pan = why] ELSE x
OKx(x) == x.pan = ""

\* [Kernel.updateObservers]
UpdateObservers(x) ==
  W(x, [x.st EXCEPT !.nhr = <<x.k.V.h, x.k.V.r, x.k.C.h, x.k.C.r>>])

\* [kState.incrementVotingRound]
IncrementVotingRound(k) ==
  LET k1 == MarkV([k EXCEPT !.V = k.N, !.N = k.V])
      n  == [ZeroView EXCEPT !.h = k1.N.h, !.vs = k1.N.vs, !.pcp = k1.N.pcp, !.r = k1.V.r + 1]
  IN MarkN([k1 EXCEPT !.N = n])

\* [kState.AdvanceVotingRound + Kernel.advanceVotingRound]
AdvanceVotingRound(x) ==
  LET k0 == x.k
      k1 == IncrementVotingRound([k0 EXCEPT !.gvm.nilVoted = k0.V, !.sessPending = TRUE])
  IN UpdateObservers([x EXCEPT !.k = k1])

\* [kState.JumpVotingRound + Kernel.jumpVotingRound]
JumpVotingRound(x) ==
  LET k1 == IncrementVotingRound(x.k)
      m  == k1.smm
      k2 == IF m.reH = k1.V.h /\ m.reR = k1.V.r - 1
              THEN [k1 EXCEPT !.smm.jump = [h |-> k1.V.h, r |-> k1.V.r]] ELSE k1
  IN UpdateObservers([x EXCEPT !.k = k2])

\* [kState.ShiftVotingToCommitting + saveCurrentCommittingHeader + updateObservers]
CommitHeader(x, l) ==
  LET k0 == x.k
      closeHC == k0.smm.reH = k0.C.h /\ k0.smm.hc = "open"
      \* after a restart the voting and next-round views share one PrevCommitProof.Proofs map
      \* (NewKernel assigns the same value to both); NextRound.Reset() at the first commit clears it,
      \* which empties the new committing view's previous-commit proof (as-is behaviour)
      cview == IF k0.aliasPCP THEN [k0.V EXCEPT !.pcp.proofs = EmptyFn] ELSE k0.V
      k1 == MarkC([k0 EXCEPT !.C = cview, !.sessPending = TRUE, !.aliasPCP = FALSE])
      newH == k0.V.h + 1
      nvs == HDR[l].nvs
      pcp == [r |-> k1.C.r, pkh |-> k1.C.vs, proofs |-> k1.C.pc]
      k2 == MarkV([k1 EXCEPT !.V = FreshView(newH, 0, nvs, pcp)])
      k3 == MarkN([k2 EXCEPT !.N = FreshView(newH, 1, nvs, pcp)])
      k4 == [k3 EXCEPT !.ch = l, !.smm.hc = IF closeHC THEN "closed" ELSE @]
      x1 == [x EXCEPT !.k = k4]
      \* the proof saved with the header is the new voting view's PrevCommitProof
      x2 == W(x1, [x1.st EXCEPT !.hdr = (k0.V.h :> [hdr |-> l, r |-> pcp.r, pkh |-> pcp.pkh, proofs |-> pcp.proofs]) @@ @])
  IN UpdateObservers(x2)

\* [Kernel.checkMissingPHs]: fetch requests for hashes with >= minority power and no header
CheckMissingPHs(x, proofs) ==
  LET k == x.k
      missing == {t \in DOMAIN proofs : t # "nil" /\ ~HasPH(k.V, t) /\ t \notin k.inflight}
      need == {t \in missing : BlockPow(k.V.vs, proofs, t) >= Min(TotalPow(k.V.vs))}
  IN [x EXCEPT !.k.inflight = @ \cup need, !.fetch = @ \cup {<<k.V.h, t>> : t \in need}]

\* [Kernel.checkVotingPrecommitViewShift]
CheckVotingPrecommitViewShift(x) ==
  LET k == x.k
      v == k.V
      avail == TotalPow(v.vs)
      most == MostVoted(v.vs, v.pc)
      hp == BlockPow(v.vs, v.pc, most)
  IN IF hp < Maj(avail)
       THEN IF TotalAsCoded(v.vs, v.pc) = avail THEN AdvanceVotingRound(x) ELSE x
     ELSE IF most = "nil" THEN AdvanceVotingRound(x)
     ELSE IF ~HasPH(v, most) THEN x                 \* stuck until the header is fetched
     ELSE CommitHeader(x, most)

\* [Kernel.checkNextRoundPrecommitViewShift]
CheckNextRoundPrecommitViewShift(x) ==
  LET n == x.k.N
      avail == TotalPow(n.vs)
  IN IF TotalAsCoded(n.vs, n.pc) < Min(avail) THEN x
     ELSE LET x1 == JumpVotingRound(x)
              mx == BlockPow(n.vs, n.pc, MostVoted(n.vs, n.pc))
              x2 == IF mx >= Min(avail) THEN CheckMissingPHs(x1, x1.k.V.pc) ELSE x1
          IN IF mx >= Maj(avail) THEN CheckVotingPrecommitViewShift(x2) ELSE x2

\* [Kernel.checkPrevoteViewShift]
CheckPrevoteViewShift(x) ==
  LET n == x.k.N
      avail == TotalPow(n.vs)
  IN IF TotalAsCoded(n.vs, n.pv) < Min(avail) THEN x
     ELSE LET x1 == JumpVotingRound(x)
          IN IF BlockPow(n.vs, n.pv, MostVoted(n.vs, n.pv)) >= Min(avail)
               THEN CheckMissingPHs(x1, x1.k.V.pv) ELSE x1

-----------------------------------------------------------------------------
(* ---- votes: caller side [Mirror.HandlePrevoteProofs / handlePrecommitProofs]
        and kernel side [Kernel.addPrevote / addPrecommit] ------------------ *)

ProofsOf(view, kind) == IF kind = "prevote" THEN view.pv ELSE view.pc
VersOf(view, kind)   == IF kind = "prevote" THEN view.pvVer ELSE view.pcVer

\* [Mirror.getSignaturesToAdd]: per target, the entries whose key id is valid and not yet present
SigsToAdd(view, kind, msg) ==
  LET cur == ProofsOf(view, kind)
      n == NPos(view.vs)
      F(t) == {e \in msg.proofs[t] : e.pos >= 1 /\ e.pos <= n /\ (t \in DOMAIN cur => e.pos \notin cur[t])}
  IN [t \in {u \in DOMAIN msg.proofs : F(u) # {}} |-> F(t)]

\* [MergeSparse in the caller]: only entries that verify set a bit
Merged(view, kind, toAdd) ==
  LET cur == ProofsOf(view, kind)
  IN [t \in DOMAIN toAdd |->
        (IF t \in DOMAIN cur THEN cur[t] ELSE {}) \cup {e.pos : e \in {f \in toAdd[t] : f.cls = "ok"}}]

\* [Kernel.addPrevote / addPrecommit] with updates upd (target -> new signer set) and the
\* per-target versions the caller saw (prevVers)
AddVote(x, kind, h, r, upd, prevVers) ==
  LET k == x.k
      fv == FindView(k, h, r)
  IN IF fv.status = "PANIC" THEN Panic([x EXCEPT !.res = "none"], "TODO: unhandled attempt to find view")
     ELSE IF fv.status \in {"BeforeCommitting", "Orphaned", "WrongCommit"} THEN [x EXCEPT !.res = "OutOfDate"]
     ELSE IF fv.status = "Future" THEN Panic(x, "TODO: handle unexpected view status")
     ELSE
      LET view == GetView(k, fv.slot)
          cur == ProofsOf(view, kind)
          vers == VersOf(view, kind)
          okT == {t \in DOMAIN upd : Ver(prevVers, t) = Ver(vers, t)}
          newProofs == [t \in DOMAIN cur \cup okT |-> IF t \in okT THEN upd[t] ELSE cur[t]]
          newVers == [t \in DOMAIN vers \cup okT |-> IF t \in okT THEN Ver(vers, t) + 1 ELSE vers[t]]
          view2 == IF kind = "prevote" THEN [view EXCEPT !.pv = newProofs, !.pvVer = newVers]
                                       ELSE [view EXCEPT !.pc = newProofs, !.pcVer = newVers]
          anyAdded == okT # {}
          res == IF okT = DOMAIN upd THEN "Accepted" ELSE "Conflict"
          k1 == IF anyAdded THEN Mark(SetViewSlot(k, fv.slot, view2), fv.slot) ELSE k
          rec == RoundOf(x.st, h, r)
          rec2 == IF kind = "prevote" THEN [rec EXCEPT !.pv = newProofs, !.pvKH = view.vs]
                                      ELSE [rec EXCEPT !.pc = newProofs, !.pcKH = view.vs]
          x1 == IF anyAdded THEN W([x EXCEPT !.k = k1], PutRound(x.st, h, r, rec2)) ELSE x
          x2 == CheckMissingPHs([x1 EXCEPT !.res = res], newProofs)
      IN IF res # "Accepted" THEN x2
         ELSE IF kind = "prevote" THEN (IF fv.slot = "N" THEN CheckPrevoteViewShift(x2) ELSE x2)
         ELSE CASE fv.slot = "V" -> CheckVotingPrecommitViewShift(x2)
                [] fv.slot = "N" -> CheckNextRoundPrecommitViewShift(x2)
                [] fv.slot = "C" -> x2

\* future rounds/heights [Mirror.handleFuture*Proofs + Kernel.addFuture*]
\* (the unrepaired kernel panicked here: "TODO: handle addFuture* when the view has changed from future"; repaired,
\*  see known_findings.json -> fixed)
AddFutureRace(x, status) == IF status = "Found" THEN [x EXCEPT !.res = "Conflict"]      \* the caller looks up again
                            ELSE [x EXCEPT !.res = "RoundTooOld"]                       \* AddVoteOutOfDate

\* futVS: the voting height's key set when the kernel's lookup answer carried it (a future ROUND of the voting height
\* at the time of the lookup), "none" otherwise (a future height: keys by the hash the message names, from the store)
FutureKeysKnown(x, msg, futVS) == futVS # "none" \/ msg.pkh \in x.st.vals

\* AddFutureRace: what the kernel answers when the round stopped being a future round between the caller's lookup and its
\* add request (another caller's votes moved the voting round or committed the height in between)
HandleFutureVote(x, kind, msg, futVS) ==
  LET v == IF futVS # "none" THEN futVS ELSE msg.pkh   \* key set used to verify
  IN IF ~FutureKeysKnown(x, msg, futVS) THEN [x EXCEPT !.res = "FutureUnverified"]
     ELSE
      LET n == NPos(v)
          rec == RoundOf(x.st, msg.h, msg.r)
          cur == IF kind = "prevote" THEN rec.pv ELSE rec.pc
          allEntries == UNION {msg.proofs[t] : t \in DOMAIN msg.proofs}
          \* MergeSparse treats a key id that is not two bytes, or out of range, as an invalid signature
          P(e) == e.pos
          \* the signatures are made by the set the message names (an unknown hash: the genesis set) and are
          \* verified under the keys of v: a foreign set's signature is invalid unless the key at that position coincides
          signSet == IF KnownVS(msg.pkh) THEN msg.pkh ELSE GenesisVS
          bad == \E e \in allEntries : e.cls # "ok" \/ e.pos < 1 \/ e.pos > n
                                      \/ (e.pos >= 1 /\ e.pos <= n /\ (e.pos > NPos(signSet) \/ Keys(signSet)[e.pos] # Keys(v)[e.pos]))
          merged == [t \in DOMAIN cur \cup DOMAIN msg.proofs |->
                       (IF t \in DOMAIN cur THEN cur[t] ELSE {})
                       \cup (IF t \in DOMAIN msg.proofs THEN {P(e) : e \in msg.proofs[t]} ELSE {})]
          increased == \E t \in DOMAIN merged : t \notin DOMAIN cur \/ merged[t] # cur[t]
          \* votes already stored for this round under another key set: signatures of two sets cannot share one proof
          storedKH == IF kind = "prevote" THEN rec.pvKH ELSE rec.pcKH
      IN IF storedKH # "none" /\ storedKH # msg.pkh THEN [x EXCEPT !.res = "BadPubKeyHash"]
         ELSE IF bad THEN [x EXCEPT !.res = "BadSignature"]
         ELSE IF ~increased THEN [x EXCEPT !.res = "NoNewSignatures"]
         ELSE \* [Kernel.addFuture*]: the kernel looks the round up again before it touches the store
              LET again == FindView(x.k, msg.h, msg.r).status IN
              IF again # "Future" THEN AddFutureRace(x, again)
              ELSE LET rec2 == IF kind = "prevote" THEN [rec EXCEPT !.pv = merged, !.pvKH = msg.pkh]
                                                   ELSE [rec EXCEPT !.pc = merged, !.pcKH = msg.pkh]
                   IN W([x EXCEPT !.res = "FutureVerified"], PutRound(x.st, msg.h, msg.r, rec2))

\* The two phases of Handle{Prevote,Precommit}Proofs.  Phase 1 [ViewLookupRequest]: the kernel copies the view the
\* message belongs to (Snap).  Phase 2, on the caller's goroutine and then in the kernel [AddPrevote/PrecommitRequest]:
\* the signatures to add are computed from that COPY and handed to the kernel together with the per-target versions
\* the copy had; the kernel applies only the targets whose version is unchanged (Conflict otherwise: the caller
\* looks up again and retries).  Another caller may run between the two phases (MirrorConcMC.tla).
Snap(k, msg) ==
  LET fv == FindView(k, msg.h, msg.r)
  IN [status |-> fv.status, view |-> IF fv.status = "Found" THEN GetView(k, fv.slot) ELSE ZeroView,
      futVS |-> IF fv.status = "Future" /\ msg.h = k.V.h THEN k.V.vs ELSE "none"]

HandleVoteSnap(x, kind, msg, snap) ==
  IF snap.status = "PANIC" THEN Panic(x, "TODO: unhandled attempt to find view")
  ELSE IF snap.status = "Future" THEN HandleFutureVote(x, kind, msg, snap.futVS)
  ELSE IF snap.status # "Found" THEN [x EXCEPT !.res = "RoundTooOld"]
  ELSE
      LET view == snap.view
      IN IF msg.pkh # view.vs THEN [x EXCEPT !.res = "BadPubKeyHash"]
         ELSE LET toAdd == SigsToAdd(view, kind, msg)
              IN IF DOMAIN toAdd = {} THEN [x EXCEPT !.res = "NoNewSignatures"]
                 ELSE \* only targets whose proof gained a signature are handed to the kernel
                      LET mg == Merged(view, kind, toAdd)
                          cur == ProofsOf(view, kind)
                          incT == {t \in DOMAIN mg : mg[t] # (IF t \in DOMAIN cur THEN cur[t] ELSE {})}
                          upd == [t \in incT |-> mg[t]]
                          allValid == \A t \in DOMAIN toAdd : \A e \in toAdd[t] : e.cls = "ok"
                      IN IF incT = {} THEN [x EXCEPT !.res = IF allValid THEN "NoNewSignatures" ELSE "BadSignature"]
                         ELSE \* the round may have been left between the two phases: AddVoteOutOfDate is reported as RoundTooOld
                              LET y == AddVote(x, kind, msg.h, msg.r, upd, VersOf(view, kind))
                              IN IF y.pan = "" /\ y.res = "OutOfDate" THEN [y EXCEPT !.res = "RoundTooOld"] ELSE y

\* one complete Handle{Prevote,Precommit}Proofs call with no concurrent caller
HandleVote(x, kind, msg) ==
  IF DOMAIN msg.proofs = {} THEN [x EXCEPT !.res = "Empty"]
  ELSE HandleVoteSnap(x, kind, msg, Snap(x.k, msg))

-----------------------------------------------------------------------------
(* ---- proposed headers [Mirror.HandleProposedHeader, Kernel.sendPHCheckResponse,
        setPHCheckStatus, addProposedHeader] -------------------------------- *)

\* a PH message: [hdr, r, prop (global key index, 0 = missing pub key), sig ("ok"|"bad"), hashOK]
PHKey(m) == [hdr |-> m.hdr, prop |-> m.prop]

\* [Kernel.sendPHCheckResponse]
PHCheck(k, m) ==
  LET h == HDR[m.hdr].h IN
  IF h < k.C.h THEN [status |-> "RoundTooOld"]
  ELSE IF h = k.C.h THEN
        IF m.r < k.C.r THEN [status |-> "RoundTooOld"]
        ELSE IF m.r = k.C.r THEN [status |-> "Check", slot |-> "C"]
        ELSE [status |-> "RoundTooOld"]
  ELSE IF h = k.V.h THEN
        IF m.r < k.V.r THEN [status |-> "RoundTooOld"]
        ELSE IF m.r = k.V.r THEN [status |-> "Check", slot |-> "V"]
        ELSE IF m.r = k.V.r + 1 THEN [status |-> "Check", slot |-> "N"]
        ELSE [status |-> "RoundTooFarInFuture"]
  ELSE IF h = k.V.h + 1 THEN [status |-> "NextHeight"]
  ELSE [status |-> "RoundTooFarInFuture"]

PosOfKey(v, key) == IF \E i \in 1..NPos(v) : Keys(v)[i] = key
                    THEN CHOOSE i \in 1..NPos(v) : Keys(v)[i] = key ELSE 0

\* [ValidateFinalizedProof + vote count in HandleProposedHeader] for the header's PrevCommitProof
\* against the committing header's validator set pv.  Returns a result code or "ok".
PCPCheck(l, pv) ==
  LET H == HDR[l]
      pcp == H.pcp
      n == NPos(pv)
      allE == UNION {pcp[t] : t \in DOMAIN pcp}
      P(e) == e.pos
      signers(t) == {P(e) : e \in pcp[t]}
      main == IF H.prev \in DOMAIN pcp THEN signers(H.prev) ELSE {}
      dbl == \E t \in DOMAIN pcp, u \in DOMAIN pcp : t # u /\ signers(t) \cap signers(u) # {}
  IN IF FALSE THEN "PANIC"
     \* ValidateFinalizedProof returns (nil, false) for an invalid signature and the caller tests
     \* allSigsUnique first, so an invalid signature is reported as a double signature
     ELSE IF \E e \in allE : e.cls # "ok" \/ e.pos < 1 \/ e.pos > n THEN "BadPrevCommitProofDoubleSigned"
     ELSE IF dbl THEN "BadPrevCommitProofDoubleSigned"
     ELSE IF SumPow(pv, main) < Maj(TotalPow(pv)) THEN "BadPrevCommitVoteCount"
     ELSE "ok"

\* [Kernel.addProposedHeader]
AddPH(x, m) ==
  LET k0 == [x.k EXCEPT !.inflight = @ \ {m.hdr}]
      fv == FindView(k0, HDR[m.hdr].h, m.r)
  IN IF fv.status = "PANIC" THEN Panic(x, "TODO: unhandled attempt to find view")
     ELSE IF fv.status # "Found" THEN [x EXCEPT !.k = k0]
     ELSE
      LET view == GetView(k0, fv.slot)
      IN IF PHKey(m) \in view.phs THEN [x EXCEPT !.k = k0]
         ELSE
          LET view2 == [view EXCEPT !.phs = @ \cup {PHKey(m)}]
              rec == RoundOf(x.st, view.h, view.r)
              x1 == W([x EXCEPT !.k = Mark(SetViewSlot(k0, fv.slot, view2), fv.slot)],
                      PutRound(x.st, view.h, view.r, [rec EXCEPT !.phs = @ \cup {PHKey(m)}]))
          IN IF fv.slot = "C" THEN x1
             ELSE
              \* backfill the header's PrevCommitProof into the committing view
              LET pcp == HDR[m.hdr].pcp
                  c == x1.k.C
                  short == FALSE
                  P(e) == e.pos
                  \* the header's signatures are for (h-1, pcpR): they verify in the committing view only if
                  \* it is that round and that key set; unseen targets get a fresh proof, kept if it gained a signature
                  applies == HDR[m.hdr].pcpPkh = c.vs /\ HDR[m.hdr].pcpR = c.r
                  add(t) == IF t \in DOMAIN pcp /\ applies
                              THEN {P(e) : e \in {f \in pcp[t] : f.cls = "ok" /\ P(f) >= 1 /\ P(f) <= NPos(c.vs)}}
                              ELSE {}
                  newT == {t \in DOMAIN pcp : t \notin DOMAIN c.pc /\ add(t) # {}}
                  newpc == [t \in DOMAIN c.pc \cup newT |-> (IF t \in DOMAIN c.pc THEN c.pc[t] ELSE {}) \cup add(t)]
                  grew == newpc # c.pc
                  x2 == IF short THEN Panic(x1, "index out of range in MergeSparse (key id shorter than 2 bytes)")
                        ELSE IF ~grew THEN x1
                        ELSE LET rc == RoundOf(x1.st, HDR[m.hdr].h - 1, HDR[m.hdr].pcpR)
                                 x1b == [x1 EXCEPT !.k.C.pc = newpc]
                             IN [W(x1b, PutRound(x1b.st, HDR[m.hdr].h - 1, HDR[m.hdr].pcpR, [rc EXCEPT !.pc = newpc, !.pcKH = c.vs]))
                                   EXCEPT !.k = MarkC(x1b.k)]
              IN IF ~OKx(x2) THEN x2
                 ELSE IF fv.slot = "V" /\ m.hdr \in DOMAIN x2.k.V.pc THEN CheckVotingPrecommitViewShift(x2)
                 ELSE x2

\* one complete HandleProposedHeader call (the addPHRequests hand-off included)
RECURSIVE HandlePH(_, _, _)
\* The two phases of HandleProposedHeader.  Phase 1 [PHCheckRequest]: the kernel classifies the header against its views
\* and answers with what the caller needs (already stored?, proposer key, previous validator set and block hash): PHSnap.
\* Phase 2: hash, signature and previous-commit-proof validation on the caller's goroutine against that ANSWER, then a
\* fire-and-forget add request that the kernel applies to whatever its views are by then (AddPH looks the view up again).
PHSnap(k, m) ==
  LET chk == PHCheck(k, m)
  IN [chk |-> chk, view |-> IF chk.status = "Check" THEN GetView(k, chk.slot) ELSE ZeroView, ch |-> k.ch]

HandlePHFrom(x, m, snap) ==
  LET chk == snap.chk
      H == HDR[m.hdr]
      view == snap.view
      have == PHKey(m) \in view.phs
      pos == PosOfKey(view.vs, m.prop)
      isInit == H.h = InitH
      prevVS == IF isInit THEN "none" ELSE IF chk.slot = "C" THEN "none" ELSE HDR[snap.ch].vs
  IN IF have THEN [x EXCEPT !.res = "AlreadyStored"]
     ELSE IF pos = 0 THEN [x EXCEPT !.res = "SignerUnrecognized"]
     ELSE IF ~m.hashOK THEN [x EXCEPT !.res = "BadBlockHash"]
     ELSE IF m.sig # "ok" THEN [x EXCEPT !.res = "BadSignature"]
     ELSE IF H.pcpPkh # prevVS THEN [x EXCEPT !.res = "BadPrevCommitProofPubKeyHash"]
     \* the header must extend the committing header (checkResp.PrevBlockHash)
     ELSE IF ~isInit /\ H.prev # (IF chk.slot = "C" THEN HDR[snap.ch].prev ELSE snap.ch) THEN [x EXCEPT !.res = "BadPrevCommitVoteCount"]
     ELSE LET pc == IF isInit THEN "ok" ELSE PCPCheck(m.hdr, prevVS)
          IN IF pc = "PANIC" THEN Panic(x, "index out of range in MergeSparse (key id shorter than 2 bytes)")
             ELSE IF pc # "ok" THEN [x EXCEPT !.res = pc]
             ELSE [AddPH(x, m) EXCEPT !.res = "Accepted"]

HandlePH(x, m, fuel) ==
  IF m.prop = 0 THEN [x EXCEPT !.res = "MissingProposerPubKey"]
  ELSE
  LET snap == PHSnap(x.k, m)
      chk == snap.chk
      H == HDR[m.hdr]
  IN IF chk.status = "PANIC" THEN Panic(x, "TODO: handle proposed block with round beyond committing/voting round")
     ELSE IF chk.status = "RoundTooOld" THEN [x EXCEPT !.res = "RoundTooOld"]
     ELSE IF chk.status = "RoundTooFarInFuture" THEN [x EXCEPT !.res = "RoundTooFarInFuture"]
     ELSE IF chk.status = "NextHeight" /\ fuel = 0 THEN [x EXCEPT !.res = "RoundTooFarInFuture"]   \* backfilled once already
     ELSE IF chk.status = "NextHeight" THEN
        \* [backfillCommitForNextHeightPE] then goto RESTART
        LET pmsg == [h |-> H.h - 1, r |-> H.pcpR, pkh |-> H.pcpPkh, proofs |-> H.pcp]
            x1 == HandleVote(x, "precommit", pmsg)
        IN IF ~OKx(x1) THEN x1
           ELSE HandlePH([x1 EXCEPT !.res = NULL], m, 0)
     ELSE HandlePHFrom(x, m, snap)

-----------------------------------------------------------------------------
(* ---- replayed headers [Kernel.handleReplayedHeader] ---------------------- *)

RECURSIVE JumpTo(_, _)
JumpTo(x, r) == IF x.k.V.r < r THEN JumpTo(JumpVotingRound(x), r) ELSE x

\* a replay message: [hdr, hashOK, r, proofs (target -> entries)]
HandleReplay(x, m) ==
  LET H == HDR[m.hdr]
      k == x.k
  IN IF H.h # k.V.h THEN [x EXCEPT !.res = "OutOfSync"]
     ELSE IF m.r < k.V.r THEN Panic(x, "TODO: handle replay for earlier round")
     ELSE
      LET x1 == JumpTo(x, m.r)                                    \* one jump per round until the replayed round
          v == x1.k.V
          hv == v.vs                                              \* keys and powers of the voting view's set
          n == NPos(hv)
          allE == UNION {m.proofs[t] : t \in DOMAIN m.proofs}
          P(e) == e.pos
          \* an existing proof of the voting view is reused when there is one (its key set is the view's)
          tmp == [t \in DOMAIN m.proofs |->
                    (IF t \in DOMAIN v.pc THEN v.pc[t] ELSE {})
                    \cup {P(e) : e \in {f \in m.proofs[t] : f.cls = "ok" /\ P(f) >= 1 /\ P(f) <= n}}]
          bad == \E e \in allE : e.cls # "ok" \/ e.pos < 1 \/ e.pos > n
          \* signatures made for round m.r do not verify against an existing proof of another round
          misround == v.r # m.r /\ \E t \in DOMAIN m.proofs : t \in DOMAIN v.pc /\ m.proofs[t] # {}
      IN IF H.vs # v.vs THEN [x1 EXCEPT !.res = "Validation"]    \* header's set must be the expected one
         ELSE IF H.h > InitH /\ H.prev # x1.k.ch THEN [x1 EXCEPT !.res = "Validation"]   \* must extend the committing header
         ELSE IF ~m.hashOK THEN [x1 EXCEPT !.res = "Validation"]
         ELSE IF bad \/ misround THEN [x1 EXCEPT !.res = "Validation"]
         ELSE
          LET addPH == ~HasPH(v, m.hdr)
              storedElsewhere == \E hr \in DOMAIN x1.st.round : hr[1] = H.h /\ \E p \in x1.st.round[hr].phs : p.hdr = m.hdr
              mine == IF m.hdr \in DOMAIN tmp THEN tmp[m.hdr] ELSE {}
              powHdr == SumPow(hv, mine)                            \* powers by index over the header's set
          IN IF m.hdr \notin DOMAIN tmp THEN [x1 EXCEPT !.res = "Validation"]
             ELSE IF powHdr < Maj(TotalPow(v.vs)) THEN [x1 EXCEPT !.res = "Validation"]
             ELSE
              \* only an accepted replay puts its header into the voting view and the round store
              LET x2 == IF addPH /\ storedElsewhere
                          THEN Panic(x1, "TODO: handle internal error from handling replayed block")  \* SaveRoundReplayedHeader: OverwriteError
                        ELSE IF addPH
                          THEN \* SaveRoundReplayedHeader keys by height only
                               W([x1 EXCEPT !.k.V.phs = @ \cup {[hdr |-> m.hdr, prop |-> 0]}],
                                 [x1.st EXCEPT !.replayed = (H.h :> (ReplayedAt(x1.st, H.h) \cup {m.hdr})) @@ @])
                          ELSE x1
              IN IF ~OKx(x2) THEN x2
                 ELSE
                  LET newpc == [t \in DOMAIN v.pc \cup DOMAIN tmp |-> IF t \in DOMAIN tmp THEN tmp[t] ELSE v.pc[t]]
                      x3 == [x2 EXCEPT !.k.V.pc = newpc]
                      rec == RoundOf(x3.st, H.h, m.r)
                      x4 == W(x3, PutRound(x3.st, H.h, m.r, [rec EXCEPT !.pc = newpc, !.pcKH = v.vs]))
                  IN [CheckVotingPrecommitViewShift(x4) EXCEPT !.res = "nil"]

-----------------------------------------------------------------------------
(* ---- state machine link [handleStateMachineRoundEntrance / Action] ------- *)

SMEnter(x, h, r, pub) ==
  LET k0 == [x.k EXCEPT !.smm = [ZeroSMM EXCEPT !.reH = h, !.reR = r, !.pub = pub, !.actions = pub # 0, !.hc = "open",
                                                 !.outH = x.k.smm.outH, !.outR = x.k.smm.outR, !.outVer = x.k.smm.outVer]]
      fv == FindView(k0, h, r)
  IN IF fv.status = "Found"
       THEN LET view == GetView(k0, fv.slot)
            IN [x EXCEPT !.k = [k0 EXCEPT !.smm.lastSent = view.ver], !.res = <<"VRV", view.h, view.r, view.ver>>]
     ELSE IF fv.status \in {"BeforeCommitting", "WrongCommit"}
       THEN IF h \in DOMAIN x.st.hdr THEN [x EXCEPT !.k = k0, !.res = <<"CH", x.st.hdr[h].hdr>>]
            ELSE Panic([x EXCEPT !.k = k0], "failed to load block from block store for state machine")
     ELSE Panic([x EXCEPT !.k = k0], "TODO: handle view not found when responding to state machine round update")

\* the state machine's own vote, signed with key pub for (kind, smm.reH, smm.reR, target)
SMVote(x, kind, target) ==
  LET k == x.k
      fv == FindView(k, k.smm.reH, k.smm.reR)
  IN IF fv.status = "PANIC" THEN Panic(x, "TODO: unhandled attempt to find view")
     ELSE IF fv.status # "Found" \/ fv.slot \notin {"V", "C"} THEN x
     ELSE LET view == GetView(k, fv.slot)
              cur == ProofsOf(view, kind)
              \* AddSignature fails if the key is not in the view's validator set
              pos == PosOfKey(view.vs, k.smm.pub)
          IN IF pos = 0 THEN x
             ELSE AddVote(x, kind, view.h, view.r,
                          (target :> ((IF target \in DOMAIN cur THEN cur[target] ELSE {}) \cup {pos})),
                          VersOf(view, kind))

-----------------------------------------------------------------------------
(* ---- outputs to the two consumers --------------------------------------- *)

SendSM(k) == [k EXCEPT !.smm.lastSent = SMOutput(k).sentVersion, !.smm.jump = NoJump]
SendGossip(k) ==
  LET o == GossipOutput(k)
  IN [k EXCEPT !.gvm.sentC = IF o.C THEN HRV(k.C) ELSE @,
               !.gvm.sentV = IF o.V THEN HRV(k.V) ELSE @,
               !.gvm.sentN = IF o.N THEN HRV(k.N) ELSE @,
               !.gvm.nilVoted = ZeroView, !.sessPending = FALSE]

-----------------------------------------------------------------------------
(* ---- start / restart [NewKernel, loadInitial*View] ----------------------- *)

DownKS == [down |-> TRUE]

\* loadInitialView: signatures from the round store are re-verified; an empty or non-verifying
\* stored list panics in toFullProofMap
LoadRound(s, h, r, v) ==
  LET rec0 == RoundOf(s, h, r)
      \* votes stored under another key set than the one this height turned out to have are not loaded
      rec == [rec0 EXCEPT !.pv = IF rec0.pvKH \in {"none", v} THEN @ ELSE EmptyFn,
                          !.pc = IF rec0.pcKH \in {"none", v} THEN @ ELSE EmptyFn]
      bad == \E t \in DOMAIN rec.pv : rec.pv[t] = {} \/ ~(rec.pv[t] \subseteq 1..NPos(v))
      bad2 == \E t \in DOMAIN rec.pc : rec.pc[t] = {} \/ ~(rec.pc[t] \subseteq 1..NPos(v))
  IN [phs |-> rec.phs \cup {[hdr |-> l, prop |-> 0] : l \in {x \in ReplayedAt(s, h) : x \in DOMAIN rec.pc}},
      pv |-> rec.pv, pc |-> rec.pc, bad |-> bad \/ bad2]

Boot(s0) ==
  LET s1 == IF s0.nhr = NoNHR THEN [s0 EXCEPT !.nhr = <<InitH, 0, 0, 0>>] ELSE s0
      nhr == s1.nhr
      vh == nhr[1]  vr == nhr[2]  chh == nhr[3]  cr == nhr[4]
      x0 == Ctx0(NULL, s0)
      xw == IF s0.nhr = NoNHR THEN W(x0, s1) ELSE x0
      haveC == chh >= InitH
      cvs == IF chh = InitH THEN GenesisVS
             ELSE IF (chh - 1) \in DOMAIN s1.hdr THEN HDR[s1.hdr[chh - 1].hdr].nvs ELSE "PANIC"
      cl == IF haveC /\ cvs # "PANIC" THEN LoadRound(s1, chh, cr, cvs) ELSE [phs |-> {}, pv |-> EmptyFn, pc |-> EmptyFn, bad |-> FALSE]
      cmost == IF haveC /\ cvs # "PANIC" /\ ~cl.bad /\ DOMAIN cl.pc # {}
                 THEN LET mx == CHOOSE t \in DOMAIN cl.pc : \A u \in DOMAIN cl.pc : SumPow(cvs, cl.pc[t]) >= SumPow(cvs, cl.pc[u]) IN mx
                 ELSE "none"
      \* the committing header is the one on record in the committed header store; only if it is missing, the most voted
      \* block of the stored precommits, provided its proposed header is stored too
      chdr == IF haveC /\ chh \in DOMAIN s1.hdr THEN s1.hdr[chh].hdr
              ELSE IF cmost # "none" /\ cmost \in Labels /\ (\E p \in cl.phs : p.hdr = cmost) THEN cmost ELSE "none"
      cpcp == IF haveC /\ chh > InitH /\ (chh - 1) \in DOMAIN s1.hdr
                THEN [r |-> s1.hdr[chh - 1].r, pkh |-> s1.hdr[chh - 1].pkh, proofs |-> s1.hdr[chh - 1].proofs] ELSE EmptyPCP
      \* the voting height uses the next validators of the committing header, as CommitHeader does while running
      vvs == IF vh = InitH THEN GenesisVS
             ELSE IF chdr # "none" THEN HDR[chdr].nvs ELSE "none"
      cpc == RoundOf(s1, chh, cr).pc
      vpcp == IF RoundKnown(s1, chh, cr) THEN [r |-> cr, pkh |-> RoundOf(s1, chh, cr).pcKH, proofs |-> cpc]
              ELSE EmptyPCP
  IN IF haveC /\ cvs = "PANIC" THEN Panic(xw, "restart: committed header for previous height missing")
     ELSE IF haveC /\ cl.bad THEN Panic(xw, "restart: stored signature list does not rebuild (toFullProofMap)")
     ELSE IF haveC /\ DOMAIN cl.pc = {} THEN Panic(xw, "BUG: loading commit view from disk without any precommits")
     ELSE IF haveC /\ chh > InitH /\ (chh - 1) \notin DOMAIN s1.hdr THEN Panic(xw, "restart: committed header for previous height missing")
     ELSE IF haveC /\ chdr = "none" THEN Panic(xw, "BUG: failed to determine committing block")
     ELSE IF vvs = "none" \/ NPos(vvs) = 0 THEN Panic(xw, "BUG: no validators available when loading initial Voting View")
     ELSE
      LET vl == LoadRound(s1, vh, vr, vvs)
          nl == LoadRound(s1, vh, vr + 1, vvs)
      IN IF vl.bad \/ nl.bad THEN Panic(xw, "restart: stored signature list does not rebuild (toFullProofMap)")
         ELSE
          LET C == IF haveC THEN [FreshView(chh, cr, cvs, cpcp) EXCEPT !.phs = cl.phs, !.pv = cl.pv, !.pc = cl.pc, !.ver = 1] ELSE [ZeroView EXCEPT !.h = chh, !.r = cr]
              V == [FreshView(vh, vr, vvs, vpcp) EXCEPT !.phs = vl.phs, !.pv = vl.pv, !.pc = vl.pc, !.ver = 1]
              N == [FreshView(vh, vr + 1, vvs, vpcp) EXCEPT !.phs = nl.phs, !.pv = nl.pv, !.pc = nl.pc, !.ver = 1]
              \* loadInitialCommittingView marks the committing view updated: the (not yet entered) state
              \* machine is behind it, so a jump-ahead to the committing round is recorded
              k == [C |-> C, V |-> V, N |-> N, ch |-> IF haveC THEN chdr ELSE "none", inflight |-> {},
                    smm |-> IF haveC THEN [ZeroSMM EXCEPT !.jump = [h |-> chh, r |-> cr]] ELSE ZeroSMM,
                    gvm |-> ZeroGVM, sessPending |-> TRUE, aliasPCP |-> TRUE]
              xs == [xw EXCEPT !.k = k, !.st.vals = @ \cup {vvs} \cup (IF haveC THEN {cvs} ELSE {})]
          IN UpdateObservers(xs)

=============================================================================
