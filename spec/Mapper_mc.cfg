CONSTANTS
  Unmapped <- UnmappedNone
INIT Init
NEXT Next
INVARIANTS MapperTotal ObsConforms ObsOutOfRange Covered Emit
CHECK_DEADLOCK FALSE
