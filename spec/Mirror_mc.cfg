CONSTANTS
  ValsetDef <- W_Valsets
  GenesisVS <- W_Genesis
  HDR <- W_HDR
  Rank <- W_Rank
  InitH = 1
  MaxSteps = 5
  AllowCrash = FALSE
  AvoidPanics = FALSE
  EmitAll = FALSE
INIT Init
NEXT Next
VIEW View
CHECK_DEADLOCK FALSE
INVARIANTS C04_Chain C07_ViewVS
PROPERTIES C04_Immutable C04_Monotone
