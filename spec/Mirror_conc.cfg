\* design check of the concurrent-caller driver: the state invariants of the sequential driver hold in every interleaving
CONSTANTS
  ValsetDef <- W_Valsets
  GenesisVS <- W_Genesis
  HDR <- W_HDR
  Rank <- W_Rank
  InitH = 1
  Guide <- W_Guide
  MaxSteps = 6
  AllowCrash = FALSE
  AvoidPanics = TRUE
  EmitAll = FALSE
INIT CInit
NEXT CNext
VIEW CView
CHECK_DEADLOCK FALSE
INVARIANTS C01_CommitHasCert C04_Chain C06_Recount C07_ViewVS
