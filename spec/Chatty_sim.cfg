\* simulation beyond the exhaustive bounds: 5 equal validators, 3 block ids, 3 heights, 3 rounds,
\* long behaviours; invariants checked on every state, behaviours exported at MaxUpdates deliveries
CONSTANTS
  v1 = v1
  v2 = v2
  v3 = v3
  v4 = v4
  v5 = v5
  A = A
  B = B
  C = C
  NilT = NilT
  Val = {v1, v2, v3, v4, v5}
  Byz = {v1}
  Heavy = {}
  HeavyPow = 1
  MaxSigs = 2
  HashSeq <- HS3
  MaxH = 3
  MaxR = 2
  Kinds = {"pv", "pc"}
  Fixed = FALSE
  Restart = TRUE
  MaxUpdates = 12
  MaxGap = 3
  MaxEvents = 0
INIT Init
NEXT Next
INVARIANTS Sound CompleteModuloKnown SoundF CompleteF EnvOK Emit
CHECK_DEADLOCK FALSE
