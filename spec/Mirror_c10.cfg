CONSTANTS
  ValsetDef <- W_Valsets
  GenesisVS <- W_Genesis
  HDR <- W_HDR
  Rank <- W_Rank
  InitH = 1
  Guide <- W_Guide
  MaxSteps = 4
  AllowCrash = TRUE
  AvoidPanics = FALSE
  EmitAll = FALSE
INIT Init
NEXT Next
VIEW View
CHECK_DEADLOCK FALSE
INVARIANTS C04_Chain
PROPERTIES C10_RestartOK
