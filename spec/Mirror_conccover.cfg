\* edge cover export of the concurrent-caller driver
CONSTANTS
  ValsetDef <- W_Valsets
  GenesisVS <- W_Genesis
  HDR <- W_HDR
  Rank <- W_Rank
  InitH = 1
  Guide <- W_Guide
  MaxSteps = 6
  AllowCrash = FALSE
  AvoidPanics = TRUE
  EmitAll = TRUE
INIT CInit
NEXT CNext
VIEW CEdgeView
CHECK_DEADLOCK FALSE
INVARIANTS CEmitEvery
