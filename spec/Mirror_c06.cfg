CONSTANTS
  ValsetDef <- W_Valsets
  GenesisVS <- W_Genesis
  HDR <- W_HDR
  Rank <- W_Rank
  InitH = 1
  Guide <- W_Guide
  MaxSteps = 4
  AllowCrash = FALSE
  AvoidPanics = TRUE
  EmitAll = FALSE
INIT Init
NEXT Next
VIEW View
CHECK_DEADLOCK FALSE
INVARIANTS C06_Recount
