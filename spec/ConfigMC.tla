------------------------------ MODULE ConfigMC ------------------------------
(* TLC instance of Config: instead of the unbounded "any option, any value, any number of *)
(* times" of Config!Next, the option sequences are enumerated family by family.  A family *)
(* is a sequence of slots [i, mode] walked left to right:                                 *)
(*   mode "free" : the option is skipped or applied with its valid value (all subsets)    *)
(*   mode "base" : applied with its valid value; or skipped (budget `miss`); or applied   *)
(*                 with one of its other values (budget `extra`)                          *)
(*   mode "off"  : skipped; or applied with any of its values (budget `extra`)            *)
(* so a family with n free slots yields all 2^n subsets in canonical order, and the       *)
(* budgets yield every single (double) invalid value combined with every single missing   *)
(* option.  Orders that matter (an erroring option followed by / preceded by valid ones,  *)
(* the same option given twice) are families whose slot sequence visits the options twice *)
(* or in reverse.  After the last slot: Construct.                                        *)
EXTENDS Config, Json

CONSTANT Tier          \* "quick" | "thorough"

Idx(o) == CHOOSE i \in 1..NOpts : Opts[i] = o
IdxSet(S) == { Idx(o) : o \in S }

AllI      == 1..NOpts
EngReqI   == IdxSet({ "Genesis", "FinalizationStore", "MirrorStore", "RoundStore", "StateMachineStore",
                      "ValidatorStore", "HashScheme", "SignatureScheme", "CommonMessageSignatureProofScheme",
                      "GossipStrategy", "ConsensusStrategy", "BlockFinalizationChannel", "InternalRoundTimer",
                      "Watchdog" })
EngCondI  == IdxSet({ "CommittedHeaderStore", "InitChainChannel" })
SignI     == IdxSet({ "Signer", "ActionStore" })
MirReqI   == IdxSet({ "Genesis", "CommittedHeaderStore", "MirrorStore", "RoundStore", "ValidatorStore",
                      "HashScheme", "SignatureScheme", "CommonMessageSignatureProofScheme", "Watchdog" })
MirOptI   == IdxSet({ "LagStateChannel", "ReplayedHeaderRequestChannel", "AssertEnv", "MetricsChannel",
                      "GossipStrategy", "InitChainChannel", "ConsensusStrategy", "Signer" })

(* slots over the canonical order: mode by membership; a slot is the integer 3*i + mode with  *)
(* mode 0 = free, 1 = base, 2 = off.  `\o << >>` makes TLC build a concrete tuple.             *)
Slots(free, base) == [ i \in AllI |-> 3 * i + (IF i \in free THEN 0 ELSE IF i \in base THEN 1 ELSE 2) ] \o << >>
Rev(s) == [ k \in 1..Len(s) |-> s[Len(s) + 1 - k] ] \o << >>
AllOff == Slots({}, {})

Fam(name, c, w, slots, extra, miss) == [ name |-> name, c |-> c, w |-> w, slots |-> slots, extra |-> extra, miss |-> miss ]

EngComplete == EngReqI \cup EngCondI

FamiliesCommon == {
  (* complete engine, all subsets of everything optional *)
  Fam("E2-subsets-optional", "engine", "fresh", Slots(AllI \ EngReqI, EngReqI), 0, 0),
  (* restart on initialized stores: InitChainChannel becomes optional *)
  Fam("E2i-initialized", "engine", "init", Slots(EngCondI \cup SignI, EngReqI), 0, 0),
  (* everything given; one option with another value, one option missing *)
  Fam("E3-single-bad-single-missing", "engine", "fresh", Slots({}, AllI), 1, 1),
  (* reverse order *)
  Fam("E6-reversed", "engine", "fresh", Rev(Slots({}, AllI)), 1, 1),
  (* standalone mirror *)
  Fam("M1-subsets-required", "mirror", "fresh", Slots(MirReqI, {}), 0, 0),
  Fam("M2-subsets-optional", "mirror", "fresh", Slots(MirOptI, MirReqI), 0, 0),
  Fam("M5-reversed", "mirror", "fresh", Rev(Slots({}, MirReqI)), 1, 1)
}

(* Orders that matter.  "extra-first": up to `extra` options applied first (any value), then  *)
(* everything valid -- an erroring option followed by valid ones, and an option given twice.   *)
(* "extra-last": everything valid, then options applied again with any value.                  *)
(* `off` = the slots of the extra pass.                                                         *)
OrderFamilies(tag, off, extra, miss) == {
  Fam("E4-extra-first" \o tag, "engine", "fresh", off \o Slots({}, EngComplete), extra, miss),
  Fam("E5-extra-last" \o tag, "engine", "fresh", Slots({}, EngComplete) \o off, extra, miss),
  Fam("M4-extra-first" \o tag, "mirror", "fresh", off \o Slots({}, MirReqI), extra, miss),
  Fam("M6-extra-last" \o tag, "mirror", "fresh", Slots({}, MirReqI) \o off, extra, miss)
}
(* the options whose functions can refuse a value, plus a few that cannot *)
PickyI    == IdxSet({ "LagStateChannel", "MetricsChannel", "TimeoutStrategy", "Genesis", "MirrorStore", "ConsensusStrategy" })
OffOnly(S) == SelectSeq(AllOff, LAMBDA x : (x \div 3) \in S)

FamiliesQuick == FamiliesCommon
  \cup { Fam("E1-subsets-required", "engine", "fresh", Slots(EngReqI, {}), 0, 0),
         Fam("M3-extra-missing/1+1", "mirror", "fresh", Slots({}, MirReqI), 1, 1),
         Fam("M3-extra-missing/2+0", "mirror", "fresh", Slots({}, MirReqI), 2, 0) }
  \cup OrderFamilies("/picky2+0", OffOnly(PickyI), 2, 0)
  \cup OrderFamilies("/any1+1", AllOff, 1, 1)

FamiliesThorough == FamiliesCommon
  \cup { Fam("E1-subsets-required", "engine", "fresh", Slots(EngReqI \cup EngCondI \cup SignI, {}), 0, 0),
         Fam("E2it-initialized-optional", "engine", "init", Slots(AllI \ EngReqI, EngReqI), 0, 0),
         Fam("E7-reversed-extra", "engine", "fresh", Rev(Slots({}, EngComplete)) \o AllOff, 2, 1),
         Fam("M1t-subsets", "mirror", "fresh", Slots(MirReqI \cup MirOptI, {}), 0, 0),
         Fam("M3-extra-missing/2+1", "mirror", "fresh", Slots({}, MirReqI), 2, 1) }
  \cup OrderFamilies("/any2+1", AllOff, 2, 1)

Families == IF Tier = "quick" THEN FamiliesQuick ELSE FamiliesThorough

-----------------------------------------------------------------------------
VARIABLES fname,  \* family name (for the export only)
          todo,   \* slots still to be visited
          extra, miss
mcvars == <<st, hist, fname, todo, extra, miss>>

MCInit == \E f \in Families :
          /\ fname = f.name
          /\ st = S0(f.c, f.w)
          /\ hist = << >>
          /\ todo = f.slots
          /\ extra = f.extra
          /\ miss = f.miss

(* invalid genesis values are only meaningful when the chain is not initialized yet *)
ValsIn(w, o) == IF w = "init" /\ o = "Genesis" THEN {"ok", "nil"} ELSE Vals(o)

Skip == UNCHANGED <<st, hist>>

Slot == /\ st.out.kind = "none"
        /\ todo # << >>
        /\ todo' = Tail(todo)
        /\ UNCHANGED fname
        /\ LET i    == Head(todo) \div 3
               mode == Head(todo) % 3
               o    == Opts[i]
           IN \/ mode = 0 /\ (Skip \/ ApplyOpt(i, "ok")) /\ UNCHANGED <<extra, miss>>
              \/ mode = 1 /\ ApplyOpt(i, "ok") /\ UNCHANGED <<extra, miss>>
              \/ mode = 1 /\ miss > 0 /\ Skip /\ miss' = miss - 1 /\ UNCHANGED extra
              \/ mode = 1 /\ extra > 0 /\ extra' = extra - 1 /\ UNCHANGED miss
                   /\ \E v \in ValsIn(st.w, o) \ {"ok"} : ApplyOpt(i, v)
              \/ mode = 2 /\ Skip /\ UNCHANGED <<extra, miss>>
              \/ mode = 2 /\ extra > 0 /\ extra' = extra - 1 /\ UNCHANGED miss
                   /\ \E v \in ValsIn(st.w, o) : ApplyOpt(i, v)

End == /\ todo = << >>
       /\ Construct
       /\ UNCHANGED <<fname, todo, extra, miss>>

MCNext == Slot \/ End

-----------------------------------------------------------------------------
(* Export: one line per terminal state; options as indices into Opts, h as HCode values.   *)
EncSet(S) == { Idx(o) : o \in S }

(* r: requirement if WithTimeoutStrategy refuses nil (the design), r0: if it accepts nil;    *)
(* the harness picks the one that matches what the real option function does.               *)
EmitP(r) ==
  LET as == Run(st.c, st.w, hist, DevAsIs)
      r0 == Req(st.c, st.w, hist, FALSE)
  IN PrintT("BEH " \o ToJson([ f |-> fname, c |-> st.c, w |-> st.w, h |-> hist,
                                e |-> IF IsComplete(r) THEN "instance" ELSE "error", m |-> EncSet(r.all), n |-> EncSet(r.any),
                                e0 |-> IF IsComplete(r0) THEN "instance" ELSE "error", m0 |-> EncSet(r0.all), n0 |-> EncSet(r0.any),
                                k |-> st.out.kind, km |-> EncSet(st.out.men),
                                ak |-> as.kind, am |-> EncSet(as.men), aw |-> as.why ]))

(* All predicates, with the requirement evaluated once per terminal state. *)
PropsAndEmit == Done => LET r == Req(st.c, st.w, hist, TSR)
                        IN NoPanic /\ ErrorListsP(r) /\ InstanceP(r) /\ CompleteP(r) /\ EmitP(r)
Props        == Done => LET r == Req(st.c, st.w, hist, TSR)
                        IN NoPanic /\ ErrorListsP(r) /\ InstanceP(r) /\ CompleteP(r)
=============================================================================
