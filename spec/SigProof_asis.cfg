\* the shipped code as it is (all named deviations on): TLC must find the NoPanic counterexample
CONSTANTS
  Ks = {3}
  Schemes = {"simple", "bls"}
  MaxOps = 99
  MaxEnt = 1
  MaxRest = 1
  EntCorrs = {"ok", "othermsg", "garbage"}
  FinCorrOn = TRUE
  CloneOn = FALSE
  AsIs = {"simple-short-keyid", "bls-undecodable-sig", "bls-finalize-double", "bls-validate-decode", "bls-sparse-strict-todo"}
  Mode = "mc"
INIT Init
NEXT Next
VIEW View
INVARIANTS NoPanic
CHECK_DEADLOCK FALSE
