CONSTANTS
  Dev = {}
INIT TInit
NEXT TNext
INVARIANTS TraceRelayedOnlyIfAccepted TraceRelayedOnlyIfAcceptedOrDev
POSTCONDITION TraceDone
CHECK_DEADLOCK FALSE
