------------------------------- MODULE TxBuf -------------------------------
(* Transaction buffer of gdriver/gtxbuf (property C19), in the shape of     *)
(* workingstate.go: BaseState, curState, isUpdated, Txs and the three        *)
(* request handlers the kernel goroutine serialises (CheckAddTx, Buffered,   *)
(* Rebase) plus Initialize.                                                  *)
(*                                                                          *)
(* State / transaction semantics are an arbitrary finite table               *)
(*   apply \in [State -> [Tx -> State \cup {Invalid}]]                       *)
(* The table is rigid: chosen once in Init from the CONSTANT set Tables and  *)
(* never changed, i.e. every property is checked for every table in Tables   *)
(* (one TLC run instead of one run per table).                               *)
(*                                                                          *)
(* Named deviation (known finding C19): Rebase prunes the invalidated        *)
(* transactions BY VALUE through the user deleter, so a duplicate of an      *)
(* invalidated value that did apply is removed from Txs while curState       *)
(* keeps its effect.  ByValueInvalidation = TRUE models the code as it is,   *)
(* FALSE the intended design (positional pruning).                           *)
EXTENDS Integers, Sequences, FiniteSets, TLC, Json

CONSTANTS NS, NT,              \* |State|, |Tx|
          Tables,              \* set of apply tables explored
          MaxPending,          \* state constraint for the exhaustive configs
          MaxHist,             \* behaviour length for the emit configs
          KeepHist,            \* TRUE: carry the exported history
          ByValueInvalidation  \* TRUE: as-is code, FALSE: design

Invalid == 0
State == 1..NS
Tx == 1..NT
AllTables == [State -> [Tx -> State \cup {Invalid}]]

VARIABLES apply,     \* the semantics table (rigid)
          inited,    \* Initialize has been called
          base,      \* workingState.BaseState
          cur,       \* workingState.curState (0 = Go zero value, never read then)
          updated,   \* workingState.isUpdated
          pending,   \* workingState.Txs
          deviated,  \* history: the named deviation has happened
          last,      \* the latest operation with its observable result
          hist,      \* exported behaviour (only if KeepHist)
          bad        \* names of the step predicates (below) that failed on some step so far

vars == <<apply, inited, base, cur, updated, pending, deviated, last, hist, bad>>
view == <<apply, inited, base, cur, updated, pending, deviated, bad>>

Ap(s, t) == apply[s][t]
Range(f) == {f[i] : i \in DOMAIN f}

\* the state CheckAddTx applies the next transaction to
Eff == IF updated THEN cur ELSE base

RECURSIVE Fold(_, _)
Fold(s, seq) == IF s = Invalid THEN Invalid
                ELSE IF seq = <<>> THEN s
                ELSE Fold(Ap(s, Head(seq)), Tail(seq))

\* the re-apply loop of workingState.Rebase
RECURSIVE Loop(_, _, _, _)
Loop(seq, st, kept, inv) ==
  IF seq = <<>> THEN [st |-> st, kept |-> kept, inv |-> inv]
  ELSE CHOOSE out \in { IF r = Invalid THEN Loop(Tail(seq), st, kept, Append(inv, Head(seq)))
                                        ELSE Loop(Tail(seq), r, Append(kept, Head(seq)), inv)
                         : r \in {Ap(st, Head(seq))} } : TRUE

\* (TLC re-evaluates LET definitions at every use inside actions; values that are used more
\*  than once are therefore bound eagerly with  \E x \in {e}  /  CHOOSE over a singleton.)
RebaseOut(p1, lp) ==
  [cur |-> lp.st, updated |-> lp.kept # <<>>,
   pending |-> IF ByValueInvalidation
               THEN SelectSeq(p1, LAMBDA t : t \notin Range(lp.inv)) \* DeleteFunc(Txs, deleter(invalidated))
               ELSE lp.kept,
   inv |-> lp.inv, kept |-> lp.kept]

\* workingState.Rebase(newBase, applied) on pending list P; A = set of applied values
RebaseRes(P, nb, A) ==
  IF P = <<>>
  THEN [cur |-> nb, updated |-> FALSE, pending |-> <<>>, inv |-> <<>>, kept |-> <<>>]
  ELSE CHOOSE r \in UNION { { RebaseOut(p1, lp) : lp \in {Loop(p1, nb, <<>>, <<>>)} } :
                            p1 \in {SelectSeq(P, LAMBDA t : t \notin A)} } : TRUE \* p1 = DeleteFunc(Txs, deleter(applied))

Ev(op, a, ap, ok, inv, kept, buf, eff) ==
  [op |-> op, a |-> a, ap |-> ap, ok |-> ok, inv |-> inv, kept |-> kept, buf |-> buf, eff |-> eff]

Record(e) == /\ last' = e
             /\ hist' = IF KeepHist THEN Append(hist, e) ELSE hist

-----------------------------------------------------------------------------
Init == /\ apply \in Tables
        /\ inited = FALSE /\ base = 0 /\ cur = 0 /\ updated = FALSE
        /\ pending = <<>> /\ deviated = FALSE
        /\ last = Ev("none", 0, {}, TRUE, <<>>, <<>>, <<>>, 0)
        /\ hist = <<>>
        /\ bad = {}

Initialize(s) ==
  /\ ~inited
  /\ inited' = TRUE /\ base' = s /\ cur' = 0 /\ updated' = FALSE /\ pending' = <<>>
  /\ Record(Ev("Initialize", s, {}, TRUE, <<>>, <<>>, <<>>, s))
  /\ UNCHANGED <<apply, deviated>>

AddTx(tx) ==
  /\ inited
  /\ \E r \in {Ap(Eff, tx)} :
       IF r = Invalid
       THEN /\ UNCHANGED <<cur, updated, pending>>
            /\ Record(Ev("AddTx", tx, {}, FALSE, <<>>, <<>>, pending, Eff))
       ELSE /\ cur' = r /\ updated' = TRUE /\ pending' = Append(pending, tx)
            /\ Record(Ev("AddTx", tx, {}, TRUE, <<>>, <<>>, Append(pending, tx), r))
  /\ UNCHANGED <<apply, inited, base, deviated>>

Buffered ==
  /\ inited
  /\ Record(Ev("Buffered", 0, {}, TRUE, <<>>, <<>>, pending, Eff))
  /\ UNCHANGED <<apply, inited, base, cur, updated, pending, deviated>>

Rebase(nb, A) ==
  /\ inited
  /\ \E r \in {RebaseRes(pending, nb, A)} :
       /\ base' = nb /\ cur' = r.cur /\ updated' = r.updated /\ pending' = r.pending
       /\ deviated' = (deviated \/ r.pending # r.kept)
       /\ Record(Ev("Rebase", nb, A, TRUE, r.inv, r.kept, r.pending,
                    IF r.updated THEN r.cur ELSE nb))
  /\ UNCHANGED <<apply, inited>>

\* Applied values that are not pending have no effect (by-value deletion), so the reported sets
\* explored are all sets of pending values plus one set that also holds foreign values.
AppliedSets == (SUBSET Range(pending)) \cup {Tx}

Op == \/ \E s \in State : Initialize(s)
      \/ \E tx \in Tx : AddTx(tx)
      \/ Buffered
      \/ \E nb \in State, A \in AppliedSets : Rebase(nb, A)

PendingBound == Len(pending) <= MaxPending

-----------------------------------------------------------------------------
(* The property.                                                            *)

TypeOK == /\ apply \in AllTables
          /\ base \in State \cup {0} /\ cur \in State \cup {0}
          /\ pending \in Seq(Tx) /\ updated \in BOOLEAN

\* the pending list applies in order to the base state, and the buffer's notion of
\* "state after the pending ones" is exactly that fold
PendingAppliesInOrder ==
  inited => /\ Fold(base, pending) # Invalid
            /\ Fold(base, pending) = Eff

\* a transaction is appended iff it applies to the state produced by the earlier pending ones
AppendOnlyIfAppliesStep ==
  last'.op = "AddTx" =>
     \E tx \in {last'.a}, s \in {Fold(base, pending)} :
        /\ s # Invalid
        /\ IF Ap(s, tx) # Invalid
           THEN pending' = Append(pending, tx) /\ last'.ok
           ELSE pending' = pending /\ ~last'.ok
        /\ base' = base

RECURSIVE SubFrom(_, _, _)
SubFrom(P, I, i) == IF i > Len(P) THEN <<>>
                    ELSE IF i \in I THEN <<P[i]>> \o SubFrom(P, I, i + 1)
                    ELSE SubFrom(P, I, i + 1)
SubSeqIdx(P, I) == SubFrom(P, I, 1)   \* the subsequence of P at the index set I

\* Declarative statement of "the pending transactions that were not reported applied and still
\* apply in order on the new base" (independent of the Loop computation of the action): the
\* unique index set I such that position i is in I iff P[i] was not reported applied and applies
\* to the state produced from nb by the kept positions before i.
ExactIdx(P, nb, A) ==
  CHOOSE I \in SUBSET (1..Len(P)) :
     \A i \in 1..Len(P) :
        \E pre \in {Fold(nb, SubSeqIdx(P, {j \in I : j < i}))} :
           i \in I <=> (P[i] \notin A /\ pre # Invalid /\ Ap(pre, P[i]) # Invalid)

\* The same index set computed left to right (linear instead of 2^Len(P)); used for the long
\* pending lists of recorded executions.  IdxAgree (checked on every Rebase step of the exhaustive
\* runs) states that it is the set characterised above.
RECURSIVE GreedyIdx(_, _, _, _, _)
GreedyIdx(P, A, i, st, I) ==
  IF i > Len(P) THEN I
  ELSE IF P[i] \notin A /\ Ap(st, P[i]) # Invalid
       THEN GreedyIdx(P, A, i + 1, Ap(st, P[i]), I \cup {i})
       ELSE GreedyIdx(P, A, i + 1, st, I)

IdxOf(P, nb, A) == IF Len(P) <= 5 THEN ExactIdx(P, nb, A) ELSE GreedyIdx(P, A, 1, nb, {})

ExactKept(P, I) == SubSeqIdx(P, I)
ExactRest(P, A, I) == SubSeqIdx(P, {i \in (1..Len(P)) \ I : P[i] \notin A})

\* the four facts about one Rebase step, for a given exact index set I
RebaseFacts(I) ==
  [keeps |-> base' = last'.a /\ pending' = ExactKept(pending, I),
   rest  |-> last'.inv = ExactRest(pending, last'.ap, I),
   kept  |-> last'.kept = ExactKept(pending, I)]

IdxAgreeStep ==
  (last'.op = "Rebase" /\ Len(pending) <= 5) =>
      ExactIdx(pending, last'.a, last'.ap) = GreedyIdx(pending, last'.ap, 1, last'.a, {})

RebaseKeepsExactlyStep ==
  last'.op = "Rebase" => RebaseFacts(IdxOf(pending, last'.a, last'.ap)).keeps

RebaseReturnsRestAsInvalidatedStep ==
  last'.op = "Rebase" => RebaseFacts(IdxOf(pending, last'.a, last'.ap)).rest

\* (last'.kept is the positional result of the loop; it equals pending' unless the named deviation happens)
KeptIsExactStep ==
  last'.op = "Rebase" => RebaseFacts(IdxOf(pending, last'.a, last'.ap)).kept
KeptIsExact == [][KeptIsExactStep]_vars

BufferedReadsPendingStep ==
  last'.op = "Buffered" => last'.buf = pending /\ pending' = pending /\ base' = base

\* pure forms (the design, ByValueInvalidation = FALSE)
AppendOnlyIfApplies == [][AppendOnlyIfAppliesStep]_vars
RebaseKeepsExactly == [][RebaseKeepsExactlyStep]_vars
RebaseReturnsRestAsInvalidated == [][RebaseReturnsRestAsInvalidatedStep]_vars
BufferedReadsPending == [][BufferedReadsPendingStep]_vars

\* guarded forms (the code as it is): the property holds unless the named deviation happened
PendingAppliesInOrderG == deviated \/ PendingAppliesInOrder
AppendOnlyIfAppliesG == [][deviated \/ AppendOnlyIfAppliesStep]_vars
RebaseKeepsExactlyG == [][deviated' \/ RebaseKeepsExactlyStep]_vars
RebaseReturnsRestAsInvalidatedG == [][deviated \/ RebaseReturnsRestAsInvalidatedStep]_vars

DeviatedOnlyAsIs == deviated => ByValueInvalidation

\* the deviation is exactly "an invalidated value has a duplicate that still applied"
DeviationIsDuplicateOnlyStep ==
  (last'.op = "Rebase" /\ last'.buf # last'.kept) => Range(last'.inv) \cap Range(last'.kept) # {}
DeviationIsDuplicateOnly == [][DeviationIsDuplicateOnlyStep]_vars

-----------------------------------------------------------------------------
(* The step predicates are evaluated on EVERY transition inside Next (bad'   *)
(* collects the names of those that fail), so that they are checked as plain *)
(* invariants although `last' is hidden by the VIEW.  The [][..]_vars forms   *)
(* above state the same thing for TLC's PROPERTIES (TxBuf_props.cfg).         *)
StepViolations ==
  CASE last'.op = "AddTx" ->
         IF deviated \/ AppendOnlyIfAppliesStep THEN {} ELSE {"AppendOnlyIfApplies"}
    [] last'.op = "Buffered" ->
         IF BufferedReadsPendingStep THEN {} ELSE {"BufferedReadsPending"}
    [] last'.op = "Rebase" ->
         CHOOSE v \in { (IF deviated' \/ f.keeps THEN {} ELSE {"RebaseKeepsExactly"}) \cup
                        (IF deviated \/ f.rest THEN {} ELSE {"RebaseReturnsRestAsInvalidated"}) \cup
                        (IF deviated \/ f.kept THEN {} ELSE {"KeptIsExact"}) \cup
                        (IF DeviationIsDuplicateOnlyStep THEN {} ELSE {"DeviationIsDuplicateOnly"}) \cup
                        (IF IdxAgreeStep THEN {} ELSE {"IdxAgree"})
                        : f \in {RebaseFacts(IdxOf(pending, last'.a, last'.ap))} } : TRUE
    [] OTHER -> {}

Next == Op /\ bad' = bad \cup StepViolations
Spec == Init /\ [][Next]_vars
StepPredicatesHold == bad = {}

\* behaviours exported to the replay: MaxHist operations each
NextEmit == Len(hist) < MaxHist /\ Op /\ UNCHANGED bad

\* export (compact: one tuple per operation)
EvT(e) == <<e.op, e.a, e.ap, e.ok, e.inv, e.kept, e.buf, e.eff>>
Emit == (Len(hist) = MaxHist) =>
           PrintT("BEH " \o ToJson(<<apply, [i \in DOMAIN hist |-> EvT(hist[i])]>>))
=============================================================================
