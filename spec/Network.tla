------------------------------ MODULE Network ------------------------------
(***************************************************************************)
(* C03 -- a network of gordian engines: three correct validators (1..3),   *)
(* each one a mirror (tmi/kernel.go) plus a state machine                  *)
(* (tmstate/statemachine.go) plus the lock-respecting consensus strategy   *)
(* the property assumes, and one Byzantine validator (4) that may sign     *)
(* anything.  Written in the shape of the implementation: a node is the    *)
(* record                                                                  *)
(*   K      what its mirror holds (proposals / votes it accepted, i.e. the *)
(*          voting view, the next-round view and what became of them)      *)
(*   mr, chain, cr   voting round, committed chain (committed header       *)
(*          store), round of the last commit; voting height = Len(chain)+1 *)
(*   sh, sr, step, pvd, pcd, finCur, finReq   the round lifecycle (rlc)    *)
(*   lockV, lockR    the strategy's lock (kept by the application)         *)
(*   acts   the action store, fin the FinalizeBlockRequests its driver got *)
(* and one operator per Go function.  One step of the network hands one    *)
(* message of the soup to one node (any order, any number of times, or     *)
(* never), fires one armed timer, or restarts one node on its stores; the  *)
(* node's reaction (kernel -> state machine -> strategy -> own vote back   *)
(* into the kernel -> gossip) runs to quiescence inside the step, which is *)
(* how the conformance harness drives the real engines.                    *)
(*                                                                         *)
(* Soup: every message a correct node's mirror accepted from its own state *)
(* machine (`sent`), plus EVERY message the Byzantine validator can sign   *)
(* (ByzMsgs): it may send anything at any time, so all of it is available  *)
(* from the start and "never delivered" covers the rest.                   *)
(*                                                                         *)
(* As-is behaviour that is modelled because replays would hit it:          *)
(*  - a state machine one round ahead of its mirror gets no view updates   *)
(*    and its votes are dropped by its own mirror [handleStateMachineAction]*)
(*  - the mirror commits on a > 2/3 precommit certificate whatever the     *)
(*    state machine's step is                                              *)
(*  - after a restart the state machine asks the strategy again and signs  *)
(*    again; the action store refuses the second record and the state      *)
(*    machine stops before the vote is released [initializeRLC TODO]       *)
(*  - the panics reachable from honest schedules are `pan` states; the     *)
(*    model checker does not go through them (AvoidPanics)                 *)
(*                                                                         *)
(* WeakMirror / WeakSM / AnyTarget / Forge are attack-generation knobs     *)
(* (all 0 / FALSE in the design): they weaken the model the way a faulty   *)
(* engine would be weak, so that TLC's counterexamples are the schedules   *)
(* that would break such an engine.                                        *)
(***************************************************************************)
EXTENDS Integers, Sequences, FiniteSets, TLC

CONSTANTS V1, V2, V3, V4,  \* validators (model values); V4 is Byzantine
          P1, P2, P3, P4,  \* their voting powers
          MaxH, MaxR,
          MaxRestarts,
          RestartResumes, \* FALSE = as-is: an engine restarted at heights 1 and 2 does not get its state machine back
          ByzKinds,       \* subset of {"prop", "pv", "pc"} the Byzantine validator uses
          ByzNil,         \* whether it also votes nil
          ByzOne,         \* bound: a node is shown at most one of its votes per kind and round (it still equivocates across nodes)
          WeakMirror,     \* mirror commits at Maj - WeakMirror
          WeakSM,         \* state machine finalizes at Maj - WeakSM
          AnyTarget,      \* mirror counts precommits for any block toward the most voted one
          Forge           \* Byzantine validator can produce votes in the name of correct validators

Val == {V1, V2, V3, V4}
Byz == {V4}
Corr == {V1, V2, V3}
Values == {"A", "B"}
Nil == "nil"
Targets == Values \cup {Nil}

PowOf(S) == (IF V1 \in S THEN P1 ELSE 0) + (IF V2 \in S THEN P2 ELSE 0)
          + (IF V3 \in S THEN P3 ELSE 0) + (IF V4 \in S THEN P4 ELSE 0)
Total == PowOf(Val)
\* [tmconsensus.ByzantineMajority / ByzantineMinority]
Maj == IF Total % 3 < 2 THEN 2 * (Total \div 3) + 1 ELSE 2 * (Total \div 3) + 2
Min == IF Total % 3 = 0 THEN Total \div 3 ELSE (Total \div 3) + 1

-----------------------------------------------------------------------------
(* ---- messages ----------------------------------------------------------- *)

Msg(k, h, r, v, s) == [k |-> k, h |-> h, r |-> r, v |-> v, s |-> s]

ByzSigners == IF Forge THEN Val ELSE Byz
ByzTargets == IF ByzNil THEN Targets ELSE Values
ByzMsgs == {Msg(k, h, r, v, s) : k \in ByzKinds \cap {"pv", "pc"}, h \in 1..MaxH, r \in 0..MaxR, v \in ByzTargets, s \in ByzSigners}
           \cup {Msg("prop", h, r, v, V4) : h \in (IF "prop" \in ByzKinds THEN 1..MaxH ELSE {}), r \in 0..MaxR, v \in Values}

VARIABLES node,      \* [Corr -> node record]
          sent,      \* messages of correct validators in the soup that some node may still accept
          restarts,
          gsent,     \* history: every message of a correct validator that reached the soup
          gacts,     \* history: every action store record
          hist

vars == <<node, sent, restarts, gsent, gacts, hist>>

-----------------------------------------------------------------------------
(* ---- views -------------------------------------------------------------- *)

MH(s) == Len(s.chain) + 1
ViewOf(s, h, r) == {m \in s.K : m.h = h /\ m.r = r}

SignersT(V, k, t) == {m.s : m \in {x \in V : x.k = k /\ x.v = t}}
PowT(V, k, t) == PowOf(SignersT(V, k, t))
TotalK(V, k) == PowOf({m.s : m \in {x \in V : x.k = k}})      \* every validator once [SetPrevotePowers]
MaxT(V, k) == CHOOSE t \in Targets : \A u \in Targets : PowT(V, k, t) >= PowT(V, k, u)
MaxPow(V, k) == PowT(V, k, MaxT(V, k))
PHs(V) == {m.v : m \in {x \in V : x.k = "prop"}}
\* the smallest data id [harness strategy: pick]
MinVal(S) == IF "A" \in S THEN "A" ELSE "B"

\* what the mirror compares with the commit threshold (AnyTarget: a faulty mirror that takes the power of all
\* precommits of the round for the power of the most voted target)
CommitPow(V) == IF AnyTarget THEN TotalK(V, "pc") ELSE MaxPow(V, "pc")
CommitT(V) == IF AnyTarget
                THEN (IF \A t \in Values : PowT(V, "pc", Nil) >= PowT(V, "pc", t) THEN Nil
                      ELSE IF PowT(V, "pc", "A") >= PowT(V, "pc", "B") THEN "A" ELSE "B")
              ELSE MaxT(V, "pc")

\* which of the mirror's views the state machine's round is [kState.FindView]
Mode(s) ==
  IF s.sh = MH(s) THEN (IF s.sr = s.mr THEN "V" ELSE IF s.sr = s.mr + 1 THEN "N" ELSE IF s.sr < s.mr THEN "O" ELSE "F")
  ELSE IF s.sh = MH(s) - 1 THEN (IF s.sr = s.cr THEN "C" ELSE "W")
  ELSE IF s.sh < MH(s) - 1 THEN "B" ELSE "F"

\* the round view the state machine holds: the live view, or the last version of a view the mirror
\* moved away from; one round ahead of the mirror it only has the (sub-threshold) entrance snapshot
SMView(s) == ViewOf(s, s.sh, s.sr)

Panic(s, why) == IF s.pan = "" THEN [s EXCEPT !.pan = why] ELSE s
OK(s) == s.pan = "" /\ ~s.stopped

-----------------------------------------------------------------------------
(* ---- strategy (harness: lock on precommit, prevote the lock) ------------ *)

\* [ConsiderProposedBlocks / ChooseProposedBlock]
PrevoteChoice(s, phs) == IF s.lockV # "none" THEN s.lockV ELSE IF phs # {} THEN MinVal(phs) ELSE Nil

\* [DecidePrecommit]: a value with a prevote quorum in this round, which is then locked
QuorumVals(V) == {t \in Values : 3 * PowT(V, "pv", t) > 2 * Total}
Decide(s, V) ==
  IF QuorumVals(V) = {} THEN [s |-> s, t |-> Nil]
  ELSE LET t == CHOOSE x \in QuorumVals(V) : TRUE IN
       IF s.lockV = "none" \/ s.lockV = t \/ s.lockR < s.sr
         THEN [s |-> [s EXCEPT !.lockV = t, !.lockR = s.sr], t |-> t]
         ELSE [s |-> s, t |-> s.lockV]

-----------------------------------------------------------------------------
(* ---- mirror kernel ------------------------------------------------------ *)

\* [checkVotingPrecommitViewShift]; returns the node with ev = "commit" | "advance" | "none"
VotingShift(s) ==
  LET V == ViewOf(s, MH(s), s.mr)
      t == CommitT(V)
      hp == CommitPow(V)
  IN IF hp < Maj - WeakMirror
       THEN IF TotalK(V, "pc") = Total THEN [s EXCEPT !.mr = @ + 1, !.ev = "advance"] ELSE s
     ELSE IF t = Nil THEN [s EXCEPT !.mr = @ + 1, !.ev = "advance"]
     ELSE IF t \notin PHs(V) THEN s                          \* stuck until the header arrives
     ELSE [s EXCEPT !.chain = Append(@, t), !.cr = s.mr, !.mr = 0, !.ev = "commit"]

\* [addPrevote / addPrecommit / addProposedHeader + the view shift checks] for a message of the voting
\* or the next-round view; sets ev (what the state machine manager is told) and vis (state machine's
\* own view changed)
MirrorAdd(s, m) ==
  LET inV == m.h = MH(s) /\ m.r = s.mr
      inN == m.h = MH(s) /\ m.r = s.mr + 1
      s1 == [s EXCEPT !.K = @ \cup {m}, !.ev = "none",
                      !.vis = (m.h = s.sh /\ m.r = s.sr /\ inV)]
      N1 == ViewOf(s1, MH(s), s.mr + 1)
  IN IF inV THEN
          (IF m.k = "pc" THEN VotingShift(s1)
           ELSE IF m.k = "prop" /\ (\E x \in s1.K : x.h = m.h /\ x.r = m.r /\ x.k = "pc" /\ x.v = m.v) THEN VotingShift(s1)
           ELSE s1)
     ELSE IF inN THEN
          (IF m.k = "pv" /\ TotalK(N1, "pv") >= Min THEN [s1 EXCEPT !.mr = @ + 1, !.ev = "jump"]
           ELSE IF m.k = "pc" /\ TotalK(N1, "pc") >= Min THEN
                  LET s2 == [s1 EXCEPT !.mr = @ + 1, !.ev = "jump"]
                  IN IF MaxPow(N1, "pc") >= Maj THEN
                          LET s3 == VotingShift(s2) IN IF s3.ev = "none" THEN [s3 EXCEPT !.ev = "jump"] ELSE s3
                     ELSE s2
           ELSE s1)
     ELSE s1

Relevant(s, m) == m.h = MH(s) /\ m.r \in {s.mr, s.mr + 1}

-----------------------------------------------------------------------------
(* ---- state machine ------------------------------------------------------ *)

\* the state machine's own vote on its way out: signed, recorded, then handed to the mirror, which
\* files it only under the voting or the committing view [handleStateMachineAction]
\* returns the node; vis says whether the state machine's view changed through it
Record(s, kind, t) ==
  LET a == [k |-> kind, h |-> s.sh, r |-> s.sr]
      m == Msg(kind, s.sh, s.sr, t, s.me)
  IN IF \E x \in s.acts : x.k = kind /\ x.h = s.sh /\ x.r = s.sr
       THEN [s EXCEPT !.stopped = TRUE, !.resigned = TRUE]       \* signed again; DoubleActionError; nothing released
     ELSE LET s1 == [s EXCEPT !.acts = @ \cup {[k |-> kind, h |-> s.sh, r |-> s.sr, v |-> t]}]
          IN CASE Mode(s1) = "V" -> LET s2 == [s1 EXCEPT !.K = @ \cup {m}, !.out = @ \cup {m}, !.vis = TRUE, !.ev = "none"]
                                    IN IF kind = "pc" THEN VotingShift(s2) ELSE s2
               [] Mode(s1) = "C" -> [s1 EXCEPT !.out = @ \cup {m}, !.vis = FALSE, !.ev = "none"]
               [] OTHER -> [s1 EXCEPT !.vis = FALSE, !.ev = "none"]                         \* dropped

RecordPrevote(s, t) ==
  LET s1 == Record(s, "pv", t) IN
  IF ~OK(s1) THEN s1 ELSE [s1 EXCEPT !.pvd = TRUE, !.step = IF @ = "AP" THEN "APV" ELSE @]

RecordPrecommit(s, t) ==
  IF s.pcd THEN [s EXCEPT !.vis = FALSE, !.ev = "none"]
  ELSE LET s1 == Record(s, "pc", t) IN IF ~OK(s1) THEN s1 ELSE [s1 EXCEPT !.pcd = TRUE]

DoDecide(s, V) == LET d == Decide(s, V) IN RecordPrecommit(d.s, d.t)

\* [beginCommit]: finalize request when the header is there; the driver answers at once and the
\* finalization is stored [handleFinalization]
FinalizeReq(s, t) ==
  IF Len(s.fin) >= s.sh /\ s.fin[s.sh] # t THEN Panic([s EXCEPT !.fin = Append(@, t)], "second finalization differs")
  ELSE [s EXCEPT !.fin = IF Len(@) >= s.sh THEN @ ELSE Append(@, t), !.finReq = TRUE, !.finCur = TRUE]

BeginCommit(s, V) ==
  LET t == MaxT(V, "pc")
      s1 == [s EXCEPT !.step = "CW", !.vis = FALSE, !.ev = "none"]
  IN IF t \in PHs(V) THEN FinalizeReq(s1, t) ELSE s1

\* a request that needs an entrance: resolved by Enter below
\* (sth, str: what the state machine store holds; written when a round or height is entered by advancing,
\* not by the start-up adjustment past a stored finalization)
NeedRound(s) == [s EXCEPT !.sr = @ + 1, !.sth = s.sh, !.str = s.sr + 1, !.step = "ENTER", !.pvd = FALSE, !.pcd = FALSE, !.finReq = FALSE, !.finCur = FALSE,
                          !.vis = FALSE, !.ev = "none"]
NeedHeight(s) == [s EXCEPT !.sh = @ + 1, !.sr = 0, !.sth = s.sh + 1, !.str = 0, !.step = "ENTER", !.pvd = FALSE, !.pcd = FALSE, !.finReq = FALSE,
                           !.finCur = FALSE, !.vis = FALSE, !.ev = "none"]

SMMaj == Maj - WeakSM

\* one view update handled by the state machine [handleViewUpdate and the per-step handlers]
HandleView(s) ==
  LET V == SMView(s)
      pcT == TotalK(V, "pc")  pcM == MaxPow(V, "pc")
      pvT == TotalK(V, "pv")  pvM == MaxPow(V, "pv")
      s0 == [s EXCEPT !.vis = FALSE, !.ev = "none"]
      commitOrAdvance == IF MaxT(V, "pc") = Nil THEN NeedRound(s0) ELSE BeginCommit(s0, V)
  IN CASE s.step = "AP" ->
            IF pcT >= SMMaj THEN (IF pcM >= SMMaj THEN commitOrAdvance ELSE DoDecide([s0 EXCEPT !.step = "PCD"], V))
            ELSE IF pcT >= Min THEN DoDecide([s0 EXCEPT !.step = "APC"], V)
            ELSE IF pvT >= Maj THEN
                   (IF pvM >= Maj
                      THEN \* Choose, then the precommit that is due after the prevote
                           LET s1 == IF s0.pvd THEN s0 ELSE RecordPrevote([s0 EXCEPT !.step = "APC"], PrevoteChoice(s0, PHs(V)))
                           IN IF ~OK(s1) THEN s1 ELSE [s1 EXCEPT !.step = "APC", !.due = ~s0.pvd]
                      ELSE LET s1 == [s0 EXCEPT !.step = "PVD"]
                           IN IF PHs(V) # {} /\ ~s1.pvd THEN [RecordPrevote(s1, PrevoteChoice(s1, PHs(V))) EXCEPT !.step = "PVD"] ELSE s1)
            ELSE IF PHs(V) # {} /\ ~s0.pvd THEN RecordPrevote(s0, PrevoteChoice(s0, PHs(V)))
            ELSE s0
       [] s.step \in {"APV", "PVD"} ->
            IF pcT >= SMMaj THEN (IF pcM >= SMMaj THEN commitOrAdvance ELSE DoDecide([s0 EXCEPT !.step = "PCD"], V))
            ELSE IF pvT >= Maj THEN (IF pvM >= Maj THEN DoDecide([s0 EXCEPT !.step = "APC"], V)
                                     ELSE [s0 EXCEPT !.step = "PVD"])
            ELSE s0
       [] s.step \in {"APC", "PCD"} ->
            IF pcT >= SMMaj THEN (IF pcM >= SMMaj THEN commitOrAdvance
                                  ELSE IF pcT = Total THEN NeedRound(s0)
                                  ELSE [s0 EXCEPT !.step = "PCD"])
            ELSE s0
       [] s.step \in {"CW", "AF"} ->
            IF ~s.finReq /\ MaxT(V, "pc") \in PHs(V) /\ MaxT(V, "pc") # Nil
              THEN LET s1 == FinalizeReq(s0, MaxT(V, "pc")) IN IF s.step = "AF" /\ OK(s1) THEN NeedHeight(s1) ELSE s1
            ELSE s0
       [] OTHER -> s0

\* [beginRoundLive] on the view handed over at the round entrance
BeginRound(s) ==
  LET V == SMView(s)
      pcT == TotalK(V, "pc")  pcM == MaxPow(V, "pc")
      pvT == TotalK(V, "pv")  pvM == MaxPow(V, "pv")
      s0 == [s EXCEPT !.vis = FALSE, !.ev = "none"]
  IN IF pcT >= Maj THEN (IF pcM >= Maj THEN (IF MaxT(V, "pc") = Nil THEN NeedRound(s0) ELSE BeginCommit(s0, V))
                         ELSE Panic(s0, "BUG: unhandled initial step PrecommitDelay"))
     ELSE IF pcT >= Min THEN DoDecide([s0 EXCEPT !.step = "APC"], V)
     ELSE IF pvT >= Maj THEN (IF pvM >= Maj THEN DoDecide([s0 EXCEPT !.step = "APC"], V)
                              ELSE Panic(s0, "BUG: unhandled initial step PrevoteDelay"))
     ELSE LET s1 == [s0 EXCEPT !.step = "AP"]
          IN IF PHs(V) # {} THEN RecordPrevote(s1, PrevoteChoice(s1, PHs(V))) ELSE s1

\* [advance / sendInitialActionSet]: the round entrance is answered by the kernel
\* [handleStateMachineRoundEntrance]; a committed header puts the state machine in catch-up: the
\* driver finalizes the stored block and the height advances
RECURSIVE Enter(_, _)
Enter(s, fuel) ==
  IF ~OK(s) \/ s.step # "ENTER" THEN s
  ELSE IF fuel = 0 THEN Panic(s, "entrance loop")
  ELSE LET md == Mode(s) IN
       CASE md \in {"V", "N", "C"} ->
              LET s1 == [s EXCEPT !.lockV = IF s.lockH # s.sh THEN "none" ELSE @,
                                  !.lockR = IF s.lockH # s.sh THEN -1 ELSE @, !.lockH = s.sh]
              IN Enter(BeginRound(s1), fuel - 1)
         [] md \in {"W", "B"} ->
              LET s1 == FinalizeReq(s, s.chain[s.sh]) IN
              IF ~OK(s1) THEN s1 ELSE Enter(NeedHeight(s1), fuel - 1)
         [] md = "O" -> Panic(s, "TODO: handle view not found (status=Orphaned)")
         [] OTHER -> Panic(s, "TODO: handle view not found (status=Future)")

\* the state machine drains what the kernel has for it: a changed view of its round (vis), then the
\* jump-ahead / commit signals (ev); every own vote that changes its view makes another round
RECURSIVE Drain(_, _)
Drain(s, fuel) ==
  IF ~OK(s) THEN s
  ELSE IF fuel = 0 THEN Panic(s, "drain loop")
  ELSE IF s.step = "ENTER" THEN Drain(Enter(s, 4), fuel - 1)
  ELSE IF s.due THEN
         \* [recordPrevote: PrecommitDueAfterPrevote]
         Drain(DoDecide([s EXCEPT !.due = FALSE], SMView(s)), fuel - 1)
  ELSE IF s.vis THEN
         LET ev0 == s.ev
             s1 == HandleView(s)
             \* a signal raised before this view update is still pending unless the handler raised its own
         IN Drain(IF OK(s1) /\ s1.ev = "none" /\ s1.step # "ENTER" THEN [s1 EXCEPT !.ev = ev0] ELSE s1, fuel - 1)
  ELSE IF s.ev = "jump" THEN
         \* [JumpVotingRound]: told only when it was on the round the mirror left
         LET s0 == [s EXCEPT !.ev = "none"] IN
         IF s.sh = MH(s) /\ s.sr = s.mr - 1 THEN Drain(NeedRound(s0), fuel - 1)
         ELSE IF s.sh = MH(s) /\ s.sr = s.mr THEN Drain([s0 EXCEPT !.vis = TRUE], fuel - 1)    \* the mirror caught up with it
         ELSE s0
  ELSE IF s.ev = "advance" THEN
         \* [AdvanceVotingRound]: no signal; a state machine that was ahead is in step with the mirror again
         LET s0 == [s EXCEPT !.ev = "none"] IN
         IF s.sh = MH(s) /\ s.sr = s.mr THEN Drain([s0 EXCEPT !.vis = TRUE], fuel - 1) ELSE s0
  ELSE IF s.ev = "commit" THEN
         \* [ShiftVotingToCommitting / MarkCommittingViewUpdated]
         LET s0 == [s EXCEPT !.ev = "none"]
             ch == MH(s) - 1
         IN IF s.sh = ch /\ s.sr = s.cr THEN Drain([s0 EXCEPT !.vis = TRUE], fuel - 1)
            ELSE IF s.sh = ch /\ s.sr < s.cr THEN Drain(NeedRound(s0), fuel - 1)                  \* jump ahead to the committing round
            ELSE IF s.sh = ch THEN s0                                                             \* ahead of the commit round: told nothing
            ELSE IF s.sh = ch - 1 /\ s.step = "CW" /\ s.finCur THEN Drain(NeedHeight(s0), fuel - 1)  \* height committed signal
            ELSE IF s.sh < ch THEN Panic(s0, "BUG: attempted to jump ahead to another height / expected to be on step commit wait")
            ELSE s0
  ELSE s

Settle(s) == Drain(s, 12)

-----------------------------------------------------------------------------
(* ---- timers [handleTimerElapsed] ---------------------------------------- *)

\* (a state machine that stopped on a refused record leaves the timer it had armed behind; nobody listens to it)
TimerOf(s) == IF s.pan # "" \/ s.sh > MaxH THEN "none"
              ELSE CASE s.step = "AP" -> "Proposal" [] s.step = "PVD" -> "PrevoteDelay"
                     [] s.step = "PCD" -> "PrecommitDelay" [] s.step = "CW" -> "CommitWait" [] OTHER -> "none"

Elapse(s) ==
  LET s0 == [s EXCEPT !.vis = FALSE, !.ev = "none"]
      \* one round ahead of the mirror the state machine holds the entrance snapshot, whose headers it
      \* has already answered for
      phs == IF Mode(s) = "N" THEN {} ELSE PHs(SMView(s))
  IN CASE s.step = "AP" -> RecordPrevote([s0 EXCEPT !.step = "APV"], PrevoteChoice(s0, phs))
       [] s.step = "PVD" -> DoDecide([s0 EXCEPT !.step = "APC"], IF Mode(s) = "N" THEN {} ELSE SMView(s))
       [] s.step = "PCD" -> NeedRound(s0)
       [] s.step = "CW" -> IF s.finCur THEN NeedHeight(s0) ELSE [s0 EXCEPT !.step = "AF"]

-----------------------------------------------------------------------------
(* ---- restart on the same stores [NewKernel + initializeRLC] ------------- *)

\* As-is: tmengine.New passes the state machine a zero Genesis when the chain is already initialized
\* [maybeInitializeChain], so its initial height is 0 and sendInitialActionSet fails on the finalization
\* lookups for heights h-2 / h-3 below height 3: the state machine goroutine ends, the mirror runs on.
Reboot(s) ==
  LET done == Len(s.fin) >= s.sh          \* a finalization is stored for the height in the state machine store
      bootH == IF done THEN s.sh + 1 ELSE s.sh
      s0 == IF ~RestartResumes /\ bootH <= 2
            THEN [s EXCEPT !.stopped = TRUE, !.step = "DEAD", !.vis = FALSE, !.ev = "none", !.due = FALSE]
            ELSE [s EXCEPT !.stopped = FALSE, !.pvd = FALSE, !.pcd = FALSE, !.finReq = FALSE, !.finCur = FALSE, !.due = FALSE,
                      !.vis = FALSE, !.ev = "none", !.step = "ENTER",
                      !.sh = IF done THEN @ + 1 ELSE @, !.sr = IF done THEN 0 ELSE @]
  IN s0

-----------------------------------------------------------------------------
(* ---- the network -------------------------------------------------------- *)

InitNode(i) == [me |-> i, K |-> {}, mr |-> 0, chain |-> <<>>, cr |-> 0,
                sh |-> 1, sr |-> 0, sth |-> 1, str |-> 0, step |-> "AP", pvd |-> FALSE, pcd |-> FALSE, finCur |-> FALSE, finReq |-> FALSE, due |-> FALSE,
                lockV |-> "none", lockR |-> -1, lockH |-> 1,
                acts |-> {}, fin |-> <<>>, stopped |-> FALSE, resigned |-> FALSE, pan |-> "",
                out |-> {}, vis |-> FALSE, ev |-> "none"]

Obs(s, A) == [mh |-> MH(s), mr |-> s.mr, chain |-> s.chain, sh |-> s.sth, sr |-> s.str, fin |-> s.fin,
              timer |-> TimerOf(s), lockV |-> s.lockV, lockR |-> s.lockR, acts |-> A, beyond |-> s.sh > MaxH]

\* Reduction: what can no longer influence anything is dropped from the state (the mirror never looks at
\* a round it left [FindView: Orphaned], the state machine only at the view of the round it is in)
SMNeedsView(s) == s.step \in {"AP", "APV", "PVD", "APC", "PCD"} \/ (s.step \in {"CW", "AF"} /\ ~s.finReq)
\* prevotes are looked at only until the precommit decision of the round has been asked for (a restart
\* re-derives the step from the whole view, so nothing is dropped while restarts remain)
PastPrevotes(s, m, left) == m.k = "pv" /\ (left = 0 \/ ~RestartResumes) /\ m.h = s.sh /\ m.r = s.sr /\ s.step \in {"APC", "PCD", "CW", "AF"}
Alive(s, m, left) ==
   /\ ~PastPrevotes(s, m, left)
   /\ \/ (m.h = MH(s) /\ m.r \in {s.mr, s.mr + 1} /\ MH(s) <= MaxH)
      \/ (m.h = s.sh /\ m.r = s.sr /\ SMNeedsView(s) /\ s.sh <= MaxH
          /\ (~s.stopped \/ (RestartResumes /\ left > 0)))      \* a stopped state machine comes back only by a restart
Prune(s, left) == [s EXCEPT !.K = {m \in @ : Alive(s, m, left)},
                      !.acts = {a \in @ : a.h = s.sh /\ a.r = s.sr /\ s.sh <= MaxH},
                      !.lockV = IF s.sh > MaxH THEN "none" ELSE @, !.lockR = IF s.sh > MaxH THEN -1 ELSE @,
                      !.lockH = IF s.sh > MaxH THEN s.sh ELSE @,
                      !.out = {}, !.vis = FALSE, !.ev = "none"]
StillWanted(nd, m) == \E i \in Corr : m.s # i /\ MH(nd[i]) <= MaxH /\
                         (m.h > MH(nd[i]) \/ (m.h = MH(nd[i]) /\ m.r >= nd[i].mr))

Bounded(s) == s.mr <= MaxR /\ s.sr <= MaxR /\ MH(s) <= MaxH + 1 /\ s.sh <= MaxH + 1

\* the step is taken only if the node comes out of it alive (the panics are C09's business) and within bounds
Finish(n, s2, rec) ==
  /\ s2.pan = ""
  /\ Bounded(s2)
  /\ node' = [node EXCEPT ![n] = Prune(s2, MaxRestarts - restarts')]
  /\ sent' = {m \in sent \cup s2.out : StillWanted(node', m)}
  /\ gsent' = gsent \cup s2.out
  /\ gacts' = [gacts EXCEPT ![n] = @ \cup s2.acts]
  /\ hist' = Append(hist, [rec EXCEPT !.exp = [i \in Corr |-> Obs(node'[i], gacts'[i])]])

Soup == sent \cup ByzMsgs

\* ---- deliveries ----------------------------------------------------------
\* Reduction (evidence batches).  A delivery that changes nothing but K commutes with everything else and
\* can be postponed until it matters, so the network hands a node a small BATCH of messages -- votes of one
\* kind and round, optionally with a header, or a single header -- in which every message moves one of the
\* quantities the code compares with a threshold, and only if the node's control state (everything but K)
\* changes.  The batch is fed one message at a time with the node run to quiescence after each, exactly as
\* the harness does, so a batch is nothing but a schedule of single deliveries.
\* ByzOne (a bound, not a reduction): at most one Byzantine vote per kind and round is shown to a node.
OnePerSet(s, S) == ByzOne => \A m \in S : (m.s \in Byz /\ m.k # "prop") =>
                      ~\E x \in (s.K \cup S) \ {m} : x.s = m.s /\ x.k = m.k /\ x.h = m.h /\ x.r = m.r

Deliverable(s, n) == {m \in Soup : m \notin s.K /\ m.s # n /\ Relevant(s, m)}
SmallSets(X) == {S \in SUBSET X : Cardinality(S) \in 1..3}

\* Batches of votes of kind k for round r (d = 0: the voting round, 1: the round after it) that carry some
\* quantity the code compares [handle*ViewUpdate, checkVotingPrecommitViewShift, check*ViewShift of the next
\* round] across its threshold, every message of the batch being needed for that.
VoteCands(s, D, k, r, d) ==
  LET cur == {m \in s.K : m.k = k /\ m.h = MH(s) /\ m.r = r}
      avail == {m \in D : m.k = k /\ m.r = r}
      sigT(t) == {m.s : m \in {x \in cur : x.v = t}}
      sigAll == {m.s : m \in cur}
      newT(Q, t) == {m.s : m \in {x \in Q : x.v = t}}
      newAll(Q) == {m.s : m \in Q}
      LvT == IF d = 1 THEN (IF k = "pc" THEN {Maj} ELSE {}) ELSE IF k = "pv" THEN {Maj} ELSE {Maj, Maj - WeakMirror, Maj - WeakSM}
      LvA == IF d = 1 THEN {Min} ELSE IF k = "pv" THEN {Maj} ELSE {Min, Maj, Maj - WeakSM, Total}
      okT(Q) == \E t \in Targets, L \in LvT :
                   /\ \A q \in Q : q.v = t
                   /\ PowOf(sigT(t)) < L /\ PowOf(sigT(t) \cup newT(Q, t)) >= L
                   /\ \A q \in Q : PowOf(sigT(t) \cup newT(Q \ {q}, t)) < L
      okA(Q) == \E L \in LvA :
                   /\ PowOf(sigAll) < L /\ PowOf(sigAll \cup newAll(Q)) >= L
                   /\ \A q \in Q : PowOf(sigAll \cup newAll(Q \ {q})) < L
      okN(Q) == /\ AnyTarget /\ k = "pc" /\ d = 0
                /\ PowOf(sigAll) < Maj - WeakMirror /\ PowOf(sigAll \cup newAll(Q)) >= Maj - WeakMirror
                /\ \A q \in Q : PowOf(sigAll \cup newAll(Q \ {q})) < Maj - WeakMirror
  IN {Q \in SmallSets(avail) : okT(Q) \/ okA(Q) \/ okN(Q)}

Cands(s, n) ==
  LET D == Deliverable(s, n)
      props == {m \in D : m.k = "prop" /\ m.v \notin PHs(ViewOf(s, m.h, m.r))}
      votes == UNION {VoteCands(s, D, k, s.mr + d, d) : k \in {"pv", "pc"}, d \in {0, 1}}
      \* precommits for a block together with its header (neither may do anything alone)
      withHdr == {Q \cup {p} : Q \in {X \in VoteCands(s, D, "pc", s.mr, 0) : \A q \in X : q.v # Nil},
                               p \in {x \in props : x.r = s.mr}}
  IN {S \in {{p} : p \in props} \cup votes \cup {W \in withHdr : \A q \in W : q.k = "prop" \/ \A p \in W : p.k # "prop" \/ p.v = q.v \/ AnyTarget}
        : OnePerSet(s, S)}

Ctl(s) == <<s.mr, s.chain, s.cr, s.sh, s.sr, s.sth, s.str, s.step, s.pvd, s.pcd, s.finCur, s.finReq, s.lockV, s.lockR, s.acts, s.fin, s.stopped>>

RECURSIVE Feed(_, _, _)
Feed(s, S, order) ==
  IF S = {} \/ s.pan # "" THEN [s |-> s, order |-> order]
  ELSE LET m == CHOOSE x \in S : (x.k = "prop" \/ \A y \in S : y.k # "prop")       \* the header first
           s1 == IF Relevant(s, m) /\ MH(s) <= MaxH THEN Settle(MirrorAdd(s, m)) ELSE s
       IN Feed(s1, S \ {m}, Append(order, m))

Deliver(n, S) ==
  /\ MH(node[n]) <= MaxH
  /\ UNCHANGED restarts
  /\ LET f == Feed(node[n], S, <<>>) IN
       /\ Ctl(f.s) # Ctl(node[n])
       /\ Finish(n, f.s, [op |-> "deliver", n |-> n, ms |-> f.order, exp |-> <<>>])

Timeout(n) ==
  /\ TimerOf(node[n]) # "none"
  /\ ~node[n].stopped
  /\ ~(node[n].step = "CW" /\ node[n].sh = MaxH /\ node[n].finCur)     \* bound: nothing is explored beyond MaxH
  /\ UNCHANGED restarts
  /\ Finish(n, Settle(Elapse(node[n])), [op |-> "timeout", n |-> n, ms |-> <<>>, exp |-> <<>>])

Restart(n) ==
  /\ restarts < MaxRestarts
  /\ restarts' = restarts + 1
  /\ Finish(n, Settle(Reboot(node[n])), [op |-> "restart", n |-> n, ms |-> <<>>, exp |-> <<>>])

Init == /\ node = [i \in Corr |-> InitNode(i)]
        /\ sent = {}
        /\ restarts = 0
        /\ gsent = {}
        /\ gacts = [i \in Corr |-> {}]
        /\ hist = <<>>

GSoup == gsent \cup ByzMsgs

-----------------------------------------------------------------------------
(* ---- properties --------------------------------------------------------- *)

\* C03: no two correct nodes finalize (or commit) different blocks at one height
Agreement ==
  \A i, j \in Corr :
     /\ \A h \in 1..Len(node[i].fin) : h <= Len(node[j].fin) => node[i].fin[h] = node[j].fin[h]
     /\ \A h \in 1..Len(node[i].chain) : h <= Len(node[j].chain) => node[i].chain[h] = node[j].chain[h]
     /\ \A h \in 1..Len(node[i].fin) : h <= Len(node[j].chain) => node[i].fin[h] = node[j].chain[h]

\* C03: each node finalizes heights 1, 2, 3, ... in order (fin[h] is the block of height h by
\* construction; what can go wrong is finalizing ahead of or apart from the node's own committed chain)
Contiguous ==
  \A i \in Corr : /\ Len(node[i].fin) <= Len(node[i].chain)
                  /\ \A h \in 1..Len(node[i].fin) : node[i].fin[h] = node[i].chain[h]
                  /\ node[i].sh <= Len(node[i].fin) + 1

\* helper invariants (the classic argument)
\* a correct validator's votes on the wire: one per kind and round
OneVotePerRound == \A m1, m2 \in gsent : (m1.k = m2.k /\ m1.h = m2.h /\ m1.r = m2.r /\ m1.s = m2.s) => m1 = m2
\* a correct precommit for a value is backed by a prevote quorum in the same round
PrecommitBacked == \A m \in gsent : (m.k = "pc" /\ m.v # Nil) =>
                      3 * PowOf({x.s : x \in {y \in GSoup : y.k = "pv" /\ y.h = m.h /\ y.r = m.r /\ y.v = m.v}}) > 2 * Total
\* once a value has a precommit quorum containing correct validators, > 1/3 of the power is locked on it
CommitImpliesCert == \A i \in Corr : \A h \in 1..Len(node[i].chain) :
                        \E r \in 0..MaxR : PowOf({x.s : x \in {y \in GSoup : y.k = "pc" /\ y.h = h /\ y.r = r /\ y.v = node[i].chain[h]}}) >= Maj

TypeOK == /\ \A i \in Corr : node[i].pan = "" /\ node[i].step # "ENTER"
          /\ gsent \subseteq {Msg(k, h, r, v, s) : k \in {"pv", "pc"}, h \in 1..(MaxH + 1), r \in 0..(MaxR + 1), v \in Targets, s \in Corr}

=============================================================================
