------------------------------ MODULE HashSign ------------------------------
(* C15 -- block hash binds every header field; sign bytes are domain        *)
(* separated.                                                               *)
(*                                                                          *)
(* Anchors: tm/tmconsensus/tmconsensustest/simplehashscheme.go (Block),     *)
(* simplesignaturescheme.go, tm/tmconsensus/header.go.                      *)
(*                                                                          *)
(* The module describes the abstract SHAPE space of headers / sign targets  *)
(* and the canonical serialization the shipped schemes feed to BLAKE2b /    *)
(* to the signer, as a sequence of labelled fields in the order the real    *)
(* code writes them.  TLC enumerates the space, checks at design level that *)
(* the serialization is injective on it (modulo the stored Hash field and   *)
(* ordering, which the abstract value does not even have), and exports the  *)
(* enumerated cases; the Go harness evaluates the same predicates on the    *)
(* REAL hashes / sign bytes.  BLAKE2b collision freedom is assumed.         *)
(*                                                                          *)
(* All scalar values are strings so that edit records are homogeneous.      *)
EXTENDS Integers, Sequences, FiniteSets, TLC, Json

CONSTANTS
  SigsBound,   \* TRUE: design (commit-proof signatures are part of the hash input).
               \* FALSE: AS-IS DEVIATION "PcpSigsNotHashed": SimpleHashScheme.Block indexes
               \* h.PrevCommitProof.Proofs with the HEX-formatted block key, the lookup always
               \* misses, so every entry is serialized as "<hexkey> => ()".
  MaxDist,     \* Hamming radius (in fields) around a base header that is explored
  MaxSigs,     \* max signatures per commit-proof entry
  BlockKeys,   \* subset of {"nil","A","B"}: block keys of commit-proof entries ("nil" = "")
  EmitPairs    \* TRUE: additionally generate one terminal state per single-field edit (export)

Bytes2  == {"a", "b"}
Ann     == {"nil", "empty", "x", "y"}     \* nil / empty-non-nil / two non-empty values
KeyIds  == {"k1", "k2"}
SigVals == {"s1", "s2"}
SigEntries == [k : KeyIds, s : SigVals]
SigSets == {S \in SUBSET SigEntries : Cardinality(S) <= MaxSigs}
ProofMaps == UNION {[ks -> SigSets] : ks \in SUBSET BlockKeys}

ScalarFields == {"Hash", "PrevBlockHash", "Height", "pcpRound", "pcpPKH", "vsPKH", "vsVPH",
                 "nvsPKH", "nvsVPH", "DataID", "PrevAppStateHash", "annUser", "annDriver"}
AllFields == ScalarFields \cup {"pcp"}

Dom(f) == CASE f = "Height" -> {"1", "2"}
            [] f = "pcpRound" -> {"0", "1"}
            [] f \in {"annUser", "annDriver"} -> Ann
            [] OTHER -> Bytes2

-----------------------------------------------------------------------------
(* Canonical serialization: what SimpleHashScheme.Block writes to the hasher *)
(* in that order.  hr: record with the scalar fields; ps: the commit proof   *)
(* as a set of <<blockkey, set of <<keyid, sig>> >> (the code sorts block    *)
(* keys and "keyid:sig" strings, i.e. both levels are sets).                 *)
PcpSer(ps, sb) == {<<e[1], IF sb THEN e[2] ELSE {}>> : e \in ps}

HdrSer(hr, ps, sb) ==
  << <<"PrevBlockHash", hr.PrevBlockHash>>,
     <<"Height", hr.Height>>,
     <<"PrevCommitProof.Round", hr.pcpRound>>,
     <<"PrevCommitProof.PubKeyHash", hr.pcpPKH>>,
     <<"ValidatorSet", hr.vsPKH, hr.vsVPH>>,
     <<"NextValidatorSet", hr.nvsPKH, hr.nvsVPH>>,
     <<"DataID", hr.DataID>>,
     <<"PrevAppStateHash", hr.PrevAppStateHash>> >>
  \o (IF hr.annUser = "nil" THEN << >> ELSE << <<"UserAnnotation", hr.annUser>> >>)
  \o (IF hr.annDriver = "nil" THEN << >> ELSE << <<"DriverAnnotation", hr.annDriver>> >>)
\* The commit-proof signatures line sits between PubKeyHash and ValidatorSet in the real text;
\* it is kept as a separate component because its value type differs (TLC compares tuples
\* component-wise and all components of HdrSer are string tuples).
FullSer(hr, ps, sb) == <<HdrSer(hr, ps, sb), PcpSer(ps, sb)>>

\* Order in which the real scheme writes the fields (exported: the harness derives
\* boundary-shift "framing" cases for adjacent byte fields from it).
SerOrder == <<"PrevBlockHash", "Height", "pcpRound", "pcpPKH", "pcp", "vsPKH", "vsVPH",
              "nvsPKH", "nvsVPH", "DataID", "PrevAppStateHash", "annUser", "annDriver">>

PcpSet(p) == {<<k, {<<x.k, x.s>> : x \in p[k]}>> : k \in DOMAIN p}
Ser(h, sb) == FullSer(h, PcpSet(h.pcp), sb)

-----------------------------------------------------------------------------
EmptyMap == [k \in {} |-> {}]
Base(b) ==
  IF b = 1
  THEN [Hash |-> "a", PrevBlockHash |-> "a", Height |-> "1", pcpRound |-> "0", pcpPKH |-> "a",
        vsPKH |-> "a", vsVPH |-> "a", nvsPKH |-> "a", nvsVPH |-> "a", DataID |-> "a",
        PrevAppStateHash |-> "a", annUser |-> "nil", annDriver |-> "nil", pcp |-> EmptyMap]
  ELSE [Hash |-> "b", PrevBlockHash |-> "b", Height |-> "2", pcpRound |-> "1", pcpPKH |-> "b",
        vsPKH |-> "b", vsVPH |-> "b", nvsPKH |-> "b", nvsVPH |-> "b", DataID |-> "b",
        PrevAppStateHash |-> "b", annUser |-> "x", annDriver |-> "empty",
        pcp |-> [k \in BlockKeys |-> IF k = "nil" THEN {} ELSE {[k |-> "k1", s |-> "s1"]}]]

Restrict(p, ks) == [k \in ks |-> p[k]]
Other(S, v) == CHOOSE w \in S : w # v

\* Single-entry edits of a commit proof: the "entries" of the property statement.
ProofEdits(p) ==
  {[kind |-> "addkey", p2 |-> p @@ (k :> {})] : k \in BlockKeys \ DOMAIN p}
  \cup {[kind |-> "delkey", p2 |-> Restrict(p, DOMAIN p \ {k})] : k \in DOMAIN p}
  \cup {[kind |-> "rekey", p2 |-> Restrict(p, DOMAIN p \ {kk[1]}) @@ (kk[2] :> p[kk[1]])] :
           kk \in {x \in (DOMAIN p) \X (BlockKeys \ DOMAIN p) : TRUE}}
  \cup {[kind |-> "addsig", p2 |-> [p EXCEPT ![ke[1]] = @ \cup {ke[2]}]] :
           ke \in {x \in (DOMAIN p) \X SigEntries : x[2] \notin p[x[1]] /\ Cardinality(p[x[1]]) < MaxSigs}}
  \cup {[kind |-> "delsig", p2 |-> [p EXCEPT ![ke[1]] = @ \ {ke[2]}]] :
           ke \in {x \in (DOMAIN p) \X SigEntries : x[2] \in p[x[1]]}}
  \cup {[kind |-> "chgsig", p2 |-> [p EXCEPT ![ke[1]] = (@ \ {ke[2]}) \cup {[ke[2] EXCEPT !.s = Other(SigVals, @)]}]] :
           ke \in {x \in (DOMAIN p) \X SigEntries : x[2] \in p[x[1]] /\ [x[2] EXCEPT !.s = Other(SigVals, @)] \notin p[x[1]]}}
  \cup {[kind |-> "chgkeyid", p2 |-> [p EXCEPT ![ke[1]] = (@ \ {ke[2]}) \cup {[ke[2] EXCEPT !.k = Other(KeyIds, @)]}]] :
           ke \in {x \in (DOMAIN p) \X SigEntries : x[2] \in p[x[1]] /\ [x[2] EXCEPT !.k = Other(KeyIds, @)] \notin p[x[1]]}}

SigOnlyKinds == {"addsig", "delsig", "chgsig", "chgkeyid"}

Edits(h) ==
  UNION {{[field |-> f, kind |-> "set", h2 |-> [h EXCEPT ![f] = v]] : v \in Dom(f) \ {h[f]}} : f \in ScalarFields}
  \cup {[field |-> "pcp", kind |-> pe.kind, h2 |-> [h EXCEPT !.pcp = pe.p2]] : pe \in ProofEdits(h.pcp)}

Dist(h, g) == Cardinality({f \in AllFields : h[f] # g[f]})

\* All insertion orders of the block keys of a commit proof (permutation cases).
KeyOrders(p) == {s \in [1..Cardinality(DOMAIN p) -> DOMAIN p] : \A i, j \in DOMAIN s : i # j => s[i] # s[j]}

-----------------------------------------------------------------------------
VARIABLES b, h, e, item
vars == <<b, h, e, item>>

NoEdit(hh) == [field |-> "-", kind |-> "-", h2 |-> hh]
IsNode == e.field = "-"
NoItem == [t |-> "-", height |-> "-", round |-> "-", hash |-> "-", prev |-> "-", app |-> "-",
           data |-> "-", annUser |-> "-", annDriver |-> "-"]

HInit == /\ b \in {1, 2} /\ h = Base(b) /\ e = NoEdit(h) /\ item = NoItem
\* b = 0 is the root of the sign-item enumeration (same run, see SNext)
HSInit == /\ b \in {0, 1, 2} /\ h = Base(IF b = 0 THEN 1 ELSE b) /\ e = NoEdit(h) /\ item = NoItem

Move == /\ IsNode /\ b # 0
        /\ \E ed \in Edits(h) :
             /\ ed.h2 # h
             /\ Dist(ed.h2, Base(b)) <= MaxDist
             /\ h' = ed.h2 /\ e' = NoEdit(ed.h2)
        /\ UNCHANGED <<b, item>>

Pair == /\ EmitPairs /\ IsNode /\ b # 0
        /\ \E ed \in Edits(h) : ed.h2 # h /\ e' = ed
        /\ UNCHANGED <<b, h, item>>

HNext == Move \/ Pair

\* ---- properties (design level) ----
DiffFields(x, y) == {f \in AllFields : x[f] # y[f]}
SameKeys(x, y) == DOMAIN x.pcp = DOMAIN y.pcp
\* Expected equality of hashes for two headers, under serialization variant sb.
ExpEqual(x, y, sb) == Ser(x, sb) = Ser(y, sb)
\* What the property demands: equal iff nothing but the stored Hash field differs.
MustEqual(x, y) == DiffFields(x, y) \subseteq {"Hash"}
\* The as-is deviation, exactly: a pair collides although it must not iff it differs only in
\* Hash and/or in commit-proof SIGNATURES (same block keys).
KnownCollision(x, y, sb) == /\ ~sb /\ ~MustEqual(x, y)
                            /\ DiffFields(x, y) \subseteq {"Hash", "pcp"} /\ SameKeys(x, y)
\* Characterisation of serialization variant sb: TRUE = exactly the property; FALSE = property + deviation.
Binds(x, y, sb) == ExpEqual(x, y, sb) <=> (MustEqual(x, y) \/ KnownCollision(x, y, sb))

\* Action property: every single-field step changes the serialization unless it touched only Hash.
HashBinds == [][ (h' # h) => (Binds(h, h', TRUE) /\ Binds(h, h', FALSE)) ]_vars
\* The same on exported pair states, for both variants (TRUE is the design that must hold).
PairOK == ~IsNode => (Binds(h, e.h2, TRUE) /\ Binds(h, e.h2, FALSE))
\* Injectivity on ALL pairs (not only single edits) of the radius-1 ball, evaluated once.
Ball1 == IF b = 0 THEN {} ELSE {Base(b)} \cup {ed.h2 : ed \in Edits(Base(b))}
BallInjective == (IsNode /\ h = Base(b)) =>
                   \A x, y \in Ball1 : Binds(x, y, TRUE) /\ Binds(x, y, FALSE)
TypeOK == /\ h.pcp \in ProofMaps /\ \A f \in ScalarFields : h[f] \in Dom(f)

\* ---- export ----
PcpJson(p) == {[key |-> k, sigs |-> p[k]] : k \in DOMAIN p}
HJson(x) == [Hash |-> x.Hash, PrevBlockHash |-> x.PrevBlockHash, Height |-> x.Height, pcpRound |-> x.pcpRound,
             pcpPKH |-> x.pcpPKH, vsPKH |-> x.vsPKH, vsVPH |-> x.vsVPH, nvsPKH |-> x.nvsPKH, nvsVPH |-> x.nvsVPH,
             DataID |-> x.DataID, PrevAppStateHash |-> x.PrevAppStateHash, annUser |-> x.annUser,
             annDriver |-> x.annDriver, pcp |-> PcpJson(x.pcp)]
EmitPair == ~IsNode =>
   LET h2 == e.h2
       me == MustEqual(h, h2)
       ed == Ser(h, TRUE) = Ser(h2, TRUE)
       ea == Ser(h, FALSE) = Ser(h2, FALSE)
   IN  /\ Assert(ed <=> me, "design serialization does not bind the edited field")
       /\ Assert(ea <=> (me \/ KnownCollision(h, h2, FALSE)), "as-is serialization not characterised by the named deviation")
       /\ PrintT("BEH " \o ToJson([op |-> "pair", base |-> b, field |-> e.field, kind |-> e.kind,
                            h1 |-> HJson(h), h2 |-> HJson(h2), must_equal |-> me,
                            exp_equal_design |-> ed, exp_equal_asis |-> ea]))
\* permutation cases: every node with >= 2 block keys or a 2-signature entry, every key order
EmitPerm == (IsNode /\ (Cardinality(DOMAIN h.pcp) >= 2 \/ \E k \in DOMAIN h.pcp : Cardinality(h.pcp[k]) >= 2)) =>
   PrintT("BEH " \o ToJson([op |-> "perm", base |-> b, h1 |-> HJson(h), orders |-> KeyOrders(h.pcp)]))
EmitOrder == (IsNode /\ h = Base(b) /\ b = 1) => PrintT("BEH " \o ToJson([op |-> "serorder", order |-> SerOrder]))

-----------------------------------------------------------------------------
(* Sign bytes: SimpleSignatureScheme.  A vote target is (kind, height, round, hash|nil); a    *)
(* proposal is identified by the content the scheme signs (height, round, PrevBlockHash,     *)
(* PrevAppStateHash, DataID, proposal annotations).                                           *)
Votes == [t : {"prevote", "precommit"}, height : {"1", "2"}, round : {"0", "1"}, hash : {"nil", "A", "B"},
          prev : {"-"}, app : {"-"}, data : {"-"}, annUser : {"-"}, annDriver : {"-"}]
Proposals == [t : {"proposal"}, height : {"1", "2"}, round : {"0", "1"}, hash : {"-"},
              prev : Bytes2, app : Bytes2, data : Bytes2, annUser : Ann, annDriver : Ann]
SignItems == Votes \cup Proposals

SignSer(i) ==
  IF i.t = "proposal"
  THEN <<"PROPOSAL:", "Height=" \o i.height, "Round=" \o i.round, "PrevBlockHash=" \o i.prev,
         "PrevAppStateHash=" \o i.app, "DataID=" \o i.data>>
       \o (IF i.annUser = "nil" THEN << >> ELSE <<"UserAnnotation=" \o i.annUser>>)
       \o (IF i.annDriver = "nil" THEN << >> ELSE <<"DriverAnnotation=" \o i.annDriver>>)
  ELSE IF i.hash = "nil"
  THEN <<(IF i.t = "prevote" THEN "NIL PREVOTE:" ELSE "NIL PRECOMMIT:"), "Height=" \o i.height, "Round=" \o i.round>>
  ELSE <<(IF i.t = "prevote" THEN "PREVOTE:" ELSE "PRECOMMIT:"), "Height=" \o i.height, "Round=" \o i.round,
         "BlockHash=" \o i.hash>>

SInit == /\ item = NoItem /\ b = 0 /\ h = Base(1) /\ e = NoEdit(h)
SNext == /\ b = 0 /\ item = NoItem /\ item' \in SignItems /\ UNCHANGED <<b, h, e>>   \* one successor per item (parallel)
SignSers == [i \in SignItems |-> SignSer(i)]     \* constant: evaluated once
SignDistinct == (item # NoItem) => \A y \in SignItems : (y # item) => SignSers[y] # SignSers[item]
\* line-structure sanity of the model itself: the first line identifies the kind
KindSeparated == (item # NoItem) => \A y \in SignItems : (SignSers[y][1] = SignSers[item][1]) => (y.t = item.t /\ (y.hash = "nil") = (item.hash = "nil"))
EmitSign == (item # NoItem) => PrintT("BEH " \o ToJson([op |-> "sign", item |-> item]))
HSNext == HNext \/ SNext
=============================================================================
