----------------------------- MODULE RelayTrace -----------------------------
(* C20, code -> spec.  Re-reads the events the harnesses recorded on the real *)
(* libp2p line and on the real DaisyChainNetwork:                             *)
(*   reset(cur)            a new, independent block; cur = slot values B may  *)
(*                         have                                               *)
(*   swap_begin(hs) / swap_end(h)   call / return of SetConsensusHandler on B *)
(*                         (hs: every handler installed during the interval)  *)
(*   startup_begin / startup_end    NewConnection(B) ... first completed      *)
(*                         SetConsensusHandler                                *)
(*   gate_enter / gate_release      background parked after Unregister (hook) *)
(*   disconnect            DaisyChainConnection.Disconnect on B               *)
(*   publish(m, class)     A publishes m (logged before the send)             *)
(*   verdict(m, h, f)      B's handler h returned f for m (logged before the  *)
(*                         return)                                            *)
(*   arrive(m)             m observed at C                                    *)
(* The validator that B's pubsub captured for m is not observable; poss[m] is *)
(* the set of slot values B may have had between publish(m) and now.  A       *)
(* verdict step must be Outcome(...) of a handler in poss[m] with the logged  *)
(* feedback; an arrive step must be explained by an Accepted verdict, or --   *)
(* only for the deviations listed in Dev -- by a slot value in poss[m] that   *)
(* relays without calling a handler.  With Dev = {} every arrival needs an    *)
(* Accepted verdict: that is RelayedOnlyIfAccepted on the recorded execution. *)
EXTENDS RelayDefs, Sequences, FiniteSets, TLC, Json

CONSTANT Dev

Trace == ndJsonDeserialize("trace.ndjson")

VARIABLES l, tr, cur, pub, cl, poss, verdicted, acc, arr
tvars == <<l, tr, cur, pub, cl, poss, verdicted, acc, arr>>

ToSet(s) == {s[i] : i \in 1..Len(s)}
Mid(t) == IF t = "libp2p" /\ "SwapWindow" \in Dev THEN {"unreg"} ELSE {}
Open == pub \ (verdicted \cup arr)      \* messages whose fate at B is still undecided

TInit ==
  /\ l = 1 /\ tr = "-" /\ cur = {} /\ pub = {} /\ cl = <<>> /\ poss = <<>>
  /\ verdicted = {} /\ acc = {} /\ arr = {}

Widen(newcur) ==
  /\ cur' = newcur
  /\ poss' = [m \in DOMAIN poss |-> poss[m] \cup newcur]

\* class and possible validators are only needed while the fate of m at B is undecided
Forget(m) ==
  /\ cl' = [x \in DOMAIN cl \ {m} |-> cl[x]]
  /\ poss' = [x \in DOMAIN poss \ {m} |-> poss[x]]

Step(e) ==
  CASE e.ev = "reset" ->
         /\ tr' = e.tr /\ cur' = ToSet(e.cur)
         /\ pub' = {} /\ cl' = <<>> /\ poss' = <<>> /\ verdicted' = {} /\ acc' = {} /\ arr' = {}
    [] e.ev = "swap_begin" ->
         /\ Widen(cur \cup Mid(tr) \cup {Target(tr, h) : h \in ToSet(e.hs)})
         /\ UNCHANGED <<tr, pub, cl, verdicted, acc, arr>>
    [] e.ev = "swap_end" ->
         /\ cur' = {Target(tr, e.h)}
         /\ UNCHANGED <<tr, pub, cl, poss, verdicted, acc, arr>>
    [] e.ev = "startup_begin" ->
         /\ Widen({"ignoreAll"} \cup (IF "StartupWindow" \in Dev THEN {"none"} ELSE {}))
         /\ UNCHANGED <<tr, pub, cl, verdicted, acc, arr>>
    [] e.ev = "startup_end" ->
         /\ cur' = {"ignoreAll"}
         /\ UNCHANGED <<tr, pub, cl, poss, verdicted, acc, arr>>
    [] e.ev = "gate_enter" ->
         /\ Widen(IF "SwapWindow" \in Dev THEN {"unreg"} ELSE cur)
         /\ UNCHANGED <<tr, pub, cl, verdicted, acc, arr>>
    [] e.ev = "gate_release" ->
         UNCHANGED <<tr, cur, pub, cl, poss, verdicted, acc, arr>>
    [] e.ev = "disconnect" ->
         /\ tr = "daisy"
         /\ Widen(cur \cup {"nil"})
         /\ UNCHANGED <<tr, pub, cl, verdicted, acc, arr>>
    [] e.ev = "publish" ->
         /\ e.m \notin pub
         /\ pub' = pub \cup {e.m}
         /\ cl' = cl @@ (e.m :> [dec |-> e.dec, kind |-> e.kind, fb |-> e.fb])
         /\ poss' = poss @@ (e.m :> cur)
         /\ UNCHANGED <<tr, cur, verdicted, acc, arr>>
    [] e.ev = "verdict" ->
         \* instance of Relay!Validate / Relay!DaisyHandle with captured validator e.h
         /\ e.m \in pub \ verdicted
         /\ IF e.h \in poss[e.m] \cap HandlerKinds
            THEN LET o == Outcome(tr, Dev, e.h, cl[e.m]) IN
                   /\ o.called /\ o.f = e.f
                   /\ acc' = IF o.relay THEN acc \cup {e.m} ELSE acc
            \* STALE VERDICT: m was judged by a handler B cannot have had installed between publish(m) and now (a
            \* validator left behind by an earlier SetConsensusHandler).  The step is taken so that the rest of the trace
            \* is still checked; whatever that handler answered, nothing entitles B to relay m: an arrival of m is then
            \* unexplained (the trace is rejected AT THE ARRIVAL, which is what the check reports as a violation)
            ELSE acc' = acc
         /\ verdicted' = verdicted \cup {e.m}
         /\ Forget(e.m)
         /\ UNCHANGED <<tr, cur, pub, arr>>
    [] e.ev = "arrive" ->
         \* instance of Relay!ArriveC: m must have been relayed by B
         /\ e.m \in pub
         /\ IF e.m \in acc \cup arr   \* arr: second observation (pubsub tracer, then handler) of an explained arrival
            THEN TRUE
            ELSE /\ e.m \notin verdicted /\ e.m \in DOMAIN poss
                 /\ \E v \in poss[e.m] : LET o == Outcome(tr, Dev, v, cl[e.m]) IN o.relay /\ ~o.called
         /\ arr' = arr \cup {e.m}
         /\ Forget(e.m)
         /\ UNCHANGED <<tr, cur, pub, verdicted, acc>>

TNext == /\ l <= Len(Trace)
         /\ Step(Trace[l])
         /\ l' = l + 1

\* the property on the recorded execution (strict form; meaningful when Dev = {})
TraceRelayedOnlyIfAccepted == (Dev = {}) => arr \subseteq acc
\* as-is form: whatever arrived without an Accepted verdict is one of the listed deviations
TraceRelayedOnlyIfAcceptedOrDev == (arr \subseteq acc) \/ Dev # {}

TraceDone ==
  IF TLCGet("stats").diameter - 1 = Len(Trace) THEN TRUE
  ELSE PrintT("STUCK " \o ToString(TLCGet("stats").diameter)) /\ FALSE
=============================================================================
