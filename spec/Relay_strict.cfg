CONSTANTS
  Transport = "libp2p"
  Msgs = {"m1", "m2"}
  Kinds = {"ph", "prevote", "precommit"}
  Fbs = {0, 1, 2, 3, 4, 5, 255}
  Decs = {"ok", "two", "empty", "undecodable"}
  SwapHandlers = {"script", "rejectAll", "acceptAll", "ignoreAllH", "nil"}
  MaxSwaps = 2
  Dev = {}
  MaxLen = 99
  Split = TRUE
INIT Init
NEXT Next
VIEW view
INVARIANTS TypeOK RelayedOnlyIfAccepted NoHandlerNeverRelays NotAcceptedNeverRelayedByHandler
CHECK_DEADLOCK FALSE
