------------------------------- MODULE Relay -------------------------------
(* C20 -- peers relay a consensus message only if the local handler accepted *)
(* it.  Line topology A - B - C.  A publishes, B is the node under test, C   *)
(* records what arrives.  Two transports:                                    *)
(*   "libp2p": tm/tmp2p/tmlibp2p/connection.go.  B's pubsub captures the     *)
(*      registered topic validator when the message is pushed (Deliver), the *)
(*      validator runs later in its own goroutine (Validate), and            *)
(*      SetConsensusHandler is UnregisterTopicValidator followed by          *)
(*      RegisterTopicValidator as two separate steps of Connection.background*)
(*      (deviation "SwapWindow"); NewConnection subscribes before background *)
(*      registers the ignoreMessage validator (deviation "StartupWindow").   *)
(*   "daisy": tm/tmp2p/tmp2ptest/daisychainnetwork.go.  B's loop is          *)
(*      sequential, SetConsensusHandler is atomic, a nil handler passes the  *)
(*      message through (deviation "NilPassThrough").                        *)
(* With Dev = {} the module is the design the property asks for (a validator *)
(* is always in place, swapped atomically; no handler = drop) and            *)
(* RelayedOnlyIfAccepted is an invariant.  With the as-is deviations TLC     *)
(* produces the counterexamples that the harness replays on the real code.   *)
EXTENDS RelayDefs, Sequences, FiniteSets, TLC, Json

CONSTANTS
  Transport,     \* "libp2p" | "daisy"
  Msgs,          \* message ids (strings)
  Kinds,         \* subset of {"ph", "prevote", "precommit"}
  Fbs,           \* feedback values the script handler may return
  Decs,          \* subset of {"ok", "two", "empty", "undecodable"} (daisy: {"ok"})
  SwapHandlers,  \* arguments of SetConsensusHandler: subset of HandlerKinds \cup {"nil"}
  MaxSwaps,
  Dev,           \* subset of {"SwapWindow", "StartupWindow", "NilPassThrough"}
  MaxLen,
  Split          \* TRUE: Publish and Deliver are separate steps; FALSE: merged (for export)

VARIABLES
  cls,      \* [Msgs -> class]   chosen initially
  slot,     \* B's validator slot / handler variable
  pend,     \* libp2p: handler being installed by the SetConsensusHandler in progress, or "-"
  st,       \* [Msgs -> {"new", "sent", "captured", "done"}]
  cap,      \* [Msgs -> slot value captured by Deliver, or "-"]
  verd,     \* [Msgs -> feedback B's handler returned, or NoCall]
  relayed,  \* messages B forwarded towards C
  atC,      \* messages that arrived at C
  why,      \* [Msgs -> reason the message was relayed] (ghost)
  nswaps,
  disc,     \* daisy: B has been disconnected
  hist

vars == <<cls, slot, pend, st, cap, verd, relayed, atC, why, nswaps, disc, hist>>
view == <<cls, slot, pend, st, cap, verd, relayed, atC, why, nswaps, disc>>

Classes ==
  [dec : {"ok"} \cap Decs, kind : Kinds, fb : Fbs]
    \cup [dec : {"two"} \cap Decs, kind : {"ph"} \cap Kinds, fb : Fbs]   \* PH and prevote both set: PH wins
    \cup [dec : {"empty", "undecodable"} \cap Decs, kind : {"raw"}, fb : {FbUnspecified}]

SlotValues == {"none", "ignoreAll", "unreg", "nil"} \cup HandlerKinds

Init ==
  /\ cls \in [Msgs -> Classes]
  /\ slot \in IF Transport = "daisy" THEN {"nil"}
              ELSE IF "StartupWindow" \in Dev THEN {"none", "ignoreAll"} ELSE {"ignoreAll"}
  /\ pend = "-"
  /\ st = [m \in Msgs |-> "new"]
  /\ cap = [m \in Msgs |-> "-"]
  /\ verd = [m \in Msgs |-> NoCall]
  /\ relayed = {} /\ atC = {}
  /\ why = [m \in Msgs |-> "-"]
  /\ nswaps = 0 /\ disc = FALSE
  /\ hist = << [op |-> "init", m |-> "-", h |-> slot] >>

Log(e) == hist' = Append(hist, e)
Busy == \E m \in Msgs : st[m] # "done"     \* swaps are only interesting while traffic is outstanding

---------------------------------------------------------------------------
(* libp2p: Connection.background *)

\* first statement of background(): RegisterTopicValidator(topicConsensus, ignoreMessage)
InitialRegister ==
  /\ Transport = "libp2p" /\ slot = "none"
  /\ slot' = "ignoreAll"
  /\ Log([op |-> "initreg", m |-> "-", h |-> "-"])
  /\ UNCHANGED <<cls, pend, st, cap, verd, relayed, atC, why, nswaps, disc>>

\* case req := <-c.setConsensusHandlerRequests: UnregisterTopicValidator ...
Unregister(h) ==
  /\ Transport = "libp2p" /\ "SwapWindow" \in Dev
  /\ slot \notin {"none", "unreg"} /\ nswaps < MaxSwaps /\ Busy
  /\ slot' = "unreg" /\ pend' = h /\ nswaps' = nswaps + 1
  /\ Log([op |-> "unregister", m |-> "-", h |-> h])
  /\ UNCHANGED <<cls, st, cap, verd, relayed, atC, why, disc>>

\* ... RegisterTopicValidator(ignoreMessage | libp2pConsensusMessageValidator(req.Handler)); close(req.Ready)
Register ==
  /\ Transport = "libp2p" /\ slot = "unreg"
  /\ slot' = Target(Transport, pend) /\ pend' = "-"
  /\ Log([op |-> "register", m |-> "-", h |-> pend])
  /\ UNCHANGED <<cls, st, cap, verd, relayed, atC, why, nswaps, disc>>

\* the design without the window (one permanent validator dispatching to a swappable handler;
\* such a validator picks the handler when it runs rather than when pubsub pushes the message, i.e.
\* somewhere between Deliver and Validate -- not distinguishable by the replay, covered by poss[m]
\* in RelayTrace), and DaisyChainConnection.background: `h = req.H`
SwapAtomic(h) ==
  /\ (Transport = "daisy" /\ ~disc) \/ (Transport = "libp2p" /\ "SwapWindow" \notin Dev /\ slot # "none")
  /\ nswaps < MaxSwaps /\ Busy
  /\ slot' = Target(Transport, h) /\ nswaps' = nswaps + 1
  /\ Log([op |-> "sethandler", m |-> "-", h |-> h])
  /\ UNCHANGED <<cls, pend, st, cap, verd, relayed, atC, why, disc>>

\* daisy: case <-disconnectReqCh: h = nil; disconnected = true
DisconnectB ==
  /\ Transport = "daisy" /\ ~disc /\ Busy /\ "disconnect" \in SwapHandlers
  /\ slot' = "nil" /\ disc' = TRUE
  /\ Log([op |-> "disconnect", m |-> "-", h |-> "-"])
  /\ UNCHANGED <<cls, pend, st, cap, verd, relayed, atC, why, nswaps>>

---------------------------------------------------------------------------
(* messages *)

Publish(m) ==
  /\ Split /\ st[m] = "new"
  /\ st' = [st EXCEPT ![m] = "sent"]
  /\ Log([op |-> "publish", m |-> m, h |-> "-"])
  /\ UNCHANGED <<cls, slot, pend, cap, verd, relayed, atC, why, nswaps, disc>>

\* libp2p: B's pubsub event loop pushes the message into the validation pipeline,
\* capturing the validators registered at that moment (validation.Push -> getValidators).
Deliver(m) ==
  /\ Transport = "libp2p"
  /\ st[m] = IF Split THEN "sent" ELSE "new"
  /\ st' = [st EXCEPT ![m] = "captured"]
  /\ cap' = [cap EXCEPT ![m] = slot]
  /\ Log([op |-> "deliver", m |-> m, h |-> slot])
  /\ UNCHANGED <<cls, slot, pend, verd, relayed, atC, why, nswaps, disc>>

Apply(m, v) ==
  LET o == Outcome(Transport, Dev, v, cls[m]) IN
  /\ verd' = [verd EXCEPT ![m] = o.f]
  /\ relayed' = IF o.relay THEN relayed \cup {m} ELSE relayed
  /\ why' = [why EXCEPT ![m] = o.why]
  /\ Log([op |-> "validate", m |-> m, h |-> v,
          exp |-> [called |-> o.called, f |-> o.f, res |-> o.res, relay |-> o.relay]])

\* libp2p: the captured validator runs (possibly after the slot has changed).
Validate(m) ==
  /\ Transport = "libp2p" /\ st[m] = "captured"
  /\ st' = [st EXCEPT ![m] = "done"]
  /\ Apply(m, cap[m])
  /\ UNCHANGED <<cls, slot, pend, cap, atC, nswaps, disc>>

\* daisy: `case msg := <-c.fromLeft` reads h and handles the message before the loop continues.
DaisyHandle(m) ==
  /\ Transport = "daisy"
  /\ st[m] = IF Split THEN "sent" ELSE "new"
  /\ st' = [st EXCEPT ![m] = "done"]
  /\ cap' = [cap EXCEPT ![m] = slot]
  /\ Apply(m, slot)
  /\ UNCHANGED <<cls, slot, pend, atC, nswaps, disc>>

ArriveC(m) ==
  /\ m \in relayed \ atC
  /\ atC' = atC \cup {m}
  /\ Log([op |-> "arrive", m |-> m, h |-> "-"])
  /\ UNCHANGED <<cls, slot, pend, st, cap, verd, relayed, why, nswaps, disc>>

Next ==
  \/ InitialRegister \/ Register \/ DisconnectB
  \/ \E h \in SwapHandlers \ {"disconnect"} : Unregister(h) \/ SwapAtomic(h)
  \/ \E m \in Msgs : Publish(m) \/ Deliver(m) \/ Validate(m) \/ DaisyHandle(m) \/ ArriveC(m)

Spec == Init /\ [][Next]_vars

---------------------------------------------------------------------------
(* properties *)

TypeOK ==
  /\ slot \in SlotValues /\ pend \in SwapHandlers \cup {"-"}
  /\ \A m \in Msgs : st[m] \in {"new", "sent", "captured", "done"} /\ verd[m] \in FbAll \cup {NoCall}
  /\ atC \subseteq relayed /\ relayed \subseteq Msgs
  /\ (slot = "unreg") <=> (pend # "-")

\* C's handler sees m only if B's handler returned Accepted for m.
RelayedOnlyIfAccepted == \A m \in relayed : verd[m] = FbAccepted

\* as-is: every relay that B's handler did not accept is one of the named deviations
RelayedOnlyIfAcceptedOrDev == \A m \in relayed : verd[m] = FbAccepted \/ why[m] \in Dev

\* rejected / ignored / undecodable / empty / unspecified / out-of-range are never relayed by a handler
NotAcceptedNeverRelayedByHandler ==
  \A m \in relayed : cap[m] \in HandlerKinds => (verd[m] = FbAccepted /\ cls[m].dec \in {"ok", "two"})

\* no handler installed (ignoreAll / nil) or being replaced (unreg) or not yet installed (none): never relayed
NoHandlerNeverRelays == \A m \in relayed : cap[m] \in HandlerKinds

\* exchange feedback -> pubsub result, and the daisy rule, for every uint8 value
FeedbackMapping ==
  \A f \in FbAll : /\ MappingOK(f, FeedbackToLibp2p(f))
                   /\ DaisyRelays(f) <=> (f = FbAccepted)

ASSUME FeedbackMapping

Terminal ==
  /\ \A m \in Msgs : st[m] = "done"
  /\ atC = relayed /\ slot \notin {"unreg", "none"}

Emit == (Terminal \/ Len(hist) >= MaxLen)
          => PrintT("BEH " \o ToJson([tr |-> Transport, cls |-> cls, hist |-> hist]))
=============================================================================
