--------------------------- MODULE RoundTimerTrace ---------------------------
(* C12 (b), code -> spec.  Re-reads the events recorded on the real          *)
(* StandardRoundTimer (harness zz_verif_c12rt_test.go) and searches for a     *)
(* behaviour of RoundTimer.tla that produces them:                            *)
(*   reset                 a new timer object (fresh background goroutine)    *)
(*   call/ret start k      getTimer call (logged before the call / after the  *)
(*                         return); long = started for one hour (cannot fire) *)
(*   call/ret cancel k     the returned cancel func; its effect (Cancel(k))   *)
(*                         takes place somewhere between call and ret         *)
(*   call/ret observe k    non-blocking look at Elapsed; ret carries `closed`;*)
(*                         the look takes place between call and ret          *)
(*   gate pt n             logged by the background goroutine itself when it  *)
(*                         arrives at verifRTGate(pt): it is at that select   *)
(*                         (n = number of the timer for "running") and has    *)
(*                         not executed it                                    *)
(*   died why              appended by the parent: the process was killed by  *)
(*                         the BUG panic / a double close                     *)
(* Steps of the background goroutine, the runtime timer firing and the        *)
(* linearisation points of cancel/observe are silent; a select step is only   *)
(* allowed after its gate event.  Accepted iff every event is consumed on     *)
(* some path (high-water mark, single worker).                                *)
EXTENDS RoundTimer

Trace == ndJsonDeserialize("trace.ndjson")

VARIABLES l, gateSeen, longT, pend
tvars == <<l, gateSeen, longT, pend>>

NoPend == [op |-> "-", k |-> 0, st |-> "none", res |-> FALSE]

Mark(n) == TLCSet(1, IF n > TLCGet(1) THEN n ELSE TLCGet(1))

TInit == Init /\ l = 1 /\ gateSeen = FALSE /\ longT = {} /\ pend = NoPend /\ TLCSet(1, 1)

ResetAll ==
  /\ bpc' = "idle" /\ cur' = 0 /\ srv' = 0 /\ armed' = 0 /\ tick' = 0 /\ got' = 0 /\ cancAtPick' = FALSE
  /\ cpc' = "ready" /\ started' = 0 /\ handed' = {} /\ cancelled' = {} /\ obs' = {} /\ gaveUp' = FALSE
  /\ closed' = [k \in Timers |-> 0] /\ lateElapse' = {} /\ wrongTick' = FALSE
  /\ panicked' = "none" /\ undisc' = FALSE /\ ctxDone' = FALSE /\ devUsed' = {}
  /\ hist' = <<>>
  /\ gateSeen' = FALSE /\ longT' = {} /\ pend' = NoPend

Event(e) ==
  CASE e.ev = "reset" -> ResetAll
    [] e.ev = "gate" ->
         /\ bpc = e.pt /\ ~gateSeen
         /\ (e.pt = "running" => cur = e.n)
         /\ gateSeen' = TRUE
         /\ UNCHANGED <<vars, longT, pend>>
    [] e.ev = "call" /\ e.op = "start" ->
         /\ pend.st = "none" /\ e.k = started + 1
         /\ StartCall
         /\ longT' = IF e.long THEN longT \cup {e.k} ELSE longT
         /\ UNCHANGED <<gateSeen, pend>>
    [] e.ev = "ret" /\ e.op = "start" ->
         /\ cpc = "ready" /\ e.k = started /\ e.k \in handed
         /\ UNCHANGED <<vars, gateSeen, longT, pend>>
    [] e.ev = "call" /\ e.op \in {"cancel", "observe"} ->
         /\ pend.st = "none" /\ e.k \in handed
         /\ pend' = [op |-> e.op, k |-> e.k, st |-> "called", res |-> FALSE]
         /\ UNCHANGED <<vars, gateSeen, longT>>
    [] e.ev = "ret" /\ e.op \in {"cancel", "observe"} ->
         /\ pend.st = "done" /\ pend.op = e.op /\ pend.k = e.k
         /\ (e.op = "observe" => pend.res = e.closed)
         /\ pend' = NoPend
         /\ UNCHANGED <<vars, gateSeen, longT>>
    [] e.ev = "died" ->
         /\ bpc = "panic" /\ panicked = e.why
         /\ UNCHANGED <<vars, gateSeen, longT, pend>>
    [] OTHER -> FALSE

Consume ==
  /\ l <= Len(Trace)
  /\ Event(Trace[l])
  /\ l' = l + 1
  /\ Mark(l + 1)

BgSilent ==
  /\ bpc \in {"idle", "running"} => gateSeen
  /\ BgNext
  /\ gateSeen' = FALSE
  /\ UNCHANGED <<l, longT, pend>>

FireSilent == armed \notin longT /\ Fire /\ UNCHANGED tvars

LinCancel ==
  /\ pend.st = "called" /\ pend.op = "cancel"
  /\ IF pend.k \in cancelled THEN UNCHANGED vars ELSE Cancel(pend.k)
  /\ pend' = [pend EXCEPT !.st = "done"]
  /\ UNCHANGED <<l, gateSeen, longT>>

LinObserve ==
  /\ pend.st = "called" /\ pend.op = "observe"
  /\ pend' = [pend EXCEPT !.st = "done", !.res = (closed[pend.k] > 0)]
  /\ obs' = IF closed[pend.k] > 0 THEN obs \cup {pend.k} ELSE obs
  /\ UNCHANGED <<bgvars, cpc, started, handed, cancelled, gaveUp, hvars, hist, l, gateSeen, longT>>

TNext == (l <= Len(Trace)) /\ (Consume \/ BgSilent \/ FireSilent \/ LinCancel \/ LinObserve)

\* observation-level statement of the predicates on the recorded run (informational: a repaired
\* design must explain the trace with Dev = {}, where these are invariants of RoundTimer)
TraceTypeOK == TypeOK /\ l \in 1..(Len(Trace) + 1)

TraceDone ==
  LET hw == TLCGet(1) IN
  IF hw = Len(Trace) + 1
    THEN PrintT("TRACE-ACCEPTED " \o ToString(Len(Trace)))
    ELSE PrintT("TRACE-REJECTED at event " \o ToString(hw) \o " of " \o ToString(Len(Trace)) \o ": " \o ToString(Trace[hw]))
=============================================================================
