CONSTANTS
  StoreSet = {"action", "round", "fin", "hdr", "mirror", "sm", "val"}
  Mode = "sim"
  Tier = "quick"
  EmitOn = TRUE
INIT Init
NEXT Next
INVARIANTS TypeOK Contract EmitAll
CHECK_DEADLOCK FALSE
