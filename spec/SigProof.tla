------------------------------ MODULE SigProof ------------------------------
(***************************************************************************)
(* C13 -- signature proofs merge as verified set union and round-trip.     *)
(*                                                                         *)
(* Design model of gcrypto.CommonMessageSignatureProof for the two shipped *)
(* schemes (anchors: gcrypto/simplecommonmessagesignatureproof.go,         *)
(* gcrypto/gblsminsig/signatureproof.go, signatureproofscheme.go,          *)
(* internal/sigtree/tree.go).                                              *)
(*                                                                         *)
(* A proof over keys 0..k-1 for ONE message is the set `h` of tree nodes   *)
(* that hold a (verified) signature.  The simple scheme is the degenerate  *)
(* tree that has only the leaf row; the BLS scheme is sigtree.Tree: leaf   *)
(* row padded to a power of two, pairwise aggregation rows above it in an  *)
(* array layout, a parent filled in as soon as both children (or a child   *)
(* and a padded neighbour) are present.  The signer set (SignatureBitSet)  *)
(* is derived: the union of the leaves covered by the nodes in h.          *)
(*                                                                         *)
(* Offered signatures are abstract entries [key id class, corruption]; an  *)
(* entry verifies iff its key id is well formed for the scheme, names a    *)
(* real (non padding) node, and the signature is the genuine (aggregated)  *)
(* signature of exactly that node's keys over the proof's message.         *)
(*                                                                         *)
(* Behaviour of the shipped code that the property forbids is modelled as  *)
(* NAMED DEVIATIONS (constant AsIs): the spec always computes the ideal    *)
(* outcome (exp) and, where the shipped code is known to differ, the name  *)
(* of the deviation and its observable (dev, aflags).                      *)
(***************************************************************************)
EXTENDS Integers, Sequences, FiniteSets, TLC, Json

CONSTANTS
  Ks,        \* set of key-set sizes explored
  Schemes,   \* subset of {"simple", "bls"}
  MaxOps,    \* bound on ops per behaviour (emit / simulate); ignored in mode "mc"
  MaxEnt,    \* max number of entries in a sparse proof offered to MergeSparse
  MaxRest,   \* max number of non-main blocks when finalizing (0..2)
  EntCorrs,  \* corruption classes used for 2-byte key-id entries
  FinCorrOn, \* BOOLEAN: corrupt finalized proofs too
  CloneOn,   \* BOOLEAN: Clone action enabled (squares the state space)
  AsIs,      \* named deviations of the shipped code that are switched on
  Mode       \* "mc" (hist = last record only, start empty) | "mccomb" | "emit" (full hist, start anywhere) | "trace"

VARIABLES k, sch, l3, h0, h1, has1, panicked, hist
vars == <<k, sch, l3, h0, h1, has1, panicked, hist>>
\* l3: named variant of the simple scheme -- a 3-byte key id is read as its first two bytes (shipped:
\* binary.BigEndian.Uint16 without a length check) or rejected like every other malformed id.  The property
\* does not name this detail; the harness probes which variant the code under test has.

MaxK == 9
AllSchemes == {"simple", "bls"}
Deviations == {"simple-short-keyid", "bls-undecodable-sig", "bls-finalize-double",
               "bls-validate-decode", "bls-sparse-strict-todo"}

-----------------------------------------------------------------------------
(* Tree geometry -- sigtree.New / AddSignature index arithmetic.           *)

RECURSIVE Pow2(_)
Pow2(n) == IF n = 0 THEN 1 ELSE 2 * Pow2(n - 1)

\* leavesWidth: nKeys if a power of two, else 1 << bits.Len16(nKeys)
Width(kk, s) == IF s = "simple" THEN kk
                ELSE CHOOSE w \in {1, 2, 4, 8, 16} : w >= kk /\ (w = 1 \/ w \div 2 < kk)
NNodesOf(kk, s) == IF s = "simple" THEN kk ELSE 2 * Width(kk, s) - 1

RECURSIVE LvlStart(_, _)
LvlStart(w, l) == IF l = 0 THEN 0 ELSE LvlStart(w, l - 1) + (w \div Pow2(l - 1))
NLevels(w) == CHOOSE L \in 1..6 : Pow2(L - 1) = w
LevelOf(w, n) == CHOOSE l \in 0..(NLevels(w) - 1) : LvlStart(w, l) <= n /\ n < LvlStart(w, l + 1)

\* (TLCEval: TLC would otherwise re-evaluate these lazily built tables at every use)
GeoOf(kk, s) ==
  LET w   == Width(kk, s)
      nn  == NNodesOf(kk, s)
      lvl == TLCEval([n \in 0..(nn - 1) |-> IF s = "simple" THEN 0 ELSE LevelOf(w, n)])
      off == TLCEval([n \in 0..(nn - 1) |-> n - LvlStart(w, lvl[n])])
  IN [ k      |-> kk,
       nn     |-> nn,
       \* leaves whose keys are aggregated into node n (empty: padding node, zero key)
       leaves |-> TLCEval([n \in 0..(nn - 1) |-> TLCEval({i \in 0..(kk - 1) : i \div Pow2(lvl[n]) = off[n]})]),
       \* parentIdx := layerStart + layerWidth + offset/2 ; none for the root / the simple scheme
       parent |-> TLCEval([n \in 0..(nn - 1) |->
                     IF s = "simple" \/ n = nn - 1 THEN -1
                     ELSE LvlStart(w, lvl[n] + 1) + (off[n] \div 2)]),
       \* neighbour: idx+1 if idx even else idx-1
       sib    |-> TLCEval([n \in 0..(nn - 1) |-> IF n % 2 = 0 THEN n + 1 ELSE n - 1]) ]

GEO == TLCEval([kk \in 1..MaxK |-> TLCEval([s \in AllSchemes |-> GeoOf(kk, s)])])

\* sigtree.Tree.AddSignature(idx, sig): store, then climb while the parent is
\* missing and the neighbour is present (or is a padding node).
RECURSIVE Cascade(_, _, _)
Cascade(g, h, n) ==
  LET hn == h \cup {n} IN
  IF g.parent[n] = -1 THEN hn
  ELSE LET par == g.parent[n]
           sb  == g.sib[n]
       IN IF par \in hn THEN hn
          ELSE IF g.leaves[sb] = {} \/ sb \in hn THEN Cascade(g, hn, par)
          ELSE hn

SetMin(S) == CHOOSE x \in S : \A y \in S : x <= y
RECURSIVE FoldAdd(_, _, _)
FoldAdd(g, h, S) == IF S = {} THEN h
                    ELSE LET n == SetMin(S) IN FoldAdd(g, Cascade(g, h, n), S \ {n})

\* SignatureBitSet
Bits(g, h) == UNION {g.leaves[n] : n \in h}

\* sigtree.walkFromRoot / SparseIndices: nodes with a signature and no ancestor with one
RECURSIVE HasAnc(_, _, _)
HasAnc(g, h, n) == LET p == g.parent[n] IN IF p = -1 THEN FALSE ELSE p \in h \/ HasAnc(g, h, p)
Tops(g, h) == {n \in h : ~HasAnc(g, h, n)}

RealNodes(g) == {n \in 0..(g.nn - 1) : g.leaves[n] # {}}
ClosedSets(g) == {h \in SUBSET RealNodes(g) : FoldAdd(g, {}, h) = h}

ProperSuperset(A, B) == B \subseteq A /\ A # B

-----------------------------------------------------------------------------
(* Offered entries.                                                        *)

Corrs == {"ok", "othersigner", "othermsg", "bitflip", "garbage"}
\*  ok          genuine signature of the named node's keys over the message
\*  othersigner genuine signature over the message, by a key other than the named one
\*  othermsg    signature of the named keys over another message
\*  bitflip     genuine signature with flipped bit(s), still a decodable signature
\*  garbage     bytes that do not decode as a signature (wrong length / not on curve)

\* key id classes of a sparse signature: "id" two bytes big endian = n; "len0"; "len1";
\* "len3" = two bytes of n followed by one more byte; "oor" = two bytes, first index out of range
SparseEntries(g) ==
       {[kc |-> "id", n |-> n, corr |-> c] : n \in 0..(g.nn - 1), c \in EntCorrs}
  \cup {[kc |-> "len3", n |-> n, corr |-> c] : n \in {0, g.nn - 1}, c \in {"ok", "bitflip"}}
  \cup {[kc |-> x, n |-> 0, corr |-> "ok"] : x \in {"len0", "len1", "oor"}}

\* the node the implementation derives from the key id (-1: rejected, -2: implementation indexes out of range)
Decoded(s, e) ==
  CASE e.kc = "id"   -> e.n
    [] e.kc = "oor"  -> -1
    [] e.kc = "len3" -> IF s = "simple" /\ l3 THEN e.n ELSE -1
    [] OTHER         -> IF s = "simple" THEN -2 ELSE -1     \* len0 / len1

\* RULE (scheme independent): an entry verifies
Verifies(g, s, e) ==
  LET d == Decoded(s, e) IN d >= 0 /\ g.leaves[d] # {} /\ e.corr = "ok"
EntryTarget(g, s, e) == g.leaves[Decoded(s, e)]

\* what the code does with one entry when the proof holds h:
\* "valid" | "invalid" | name of a deviation (the shipped code panics)
EntryOutcome(g, s, h, e) ==
  LET d == Decoded(s, e) IN
  IF d = -2 THEN "simple-short-keyid"
  ELSE IF d = -1 THEN "invalid"
  ELSE IF s = "bls" /\ d \in h
         THEN \* signature already held for that node: compared, not verified
              IF e.corr = "ok" THEN "valid"
              ELSE IF e.corr = "garbage" THEN "bls-undecodable-sig"
              ELSE "invalid"
  ELSE IF g.leaves[d] # {} /\ e.corr = "ok" THEN "valid" ELSE "invalid"

RECURSIVE SparseFold(_, _, _, _, _)
\* acc = [h, av, added, panic]
SparseFold(g, s, asis, es, acc) ==
  IF es = <<>> \/ acc.panic # "" THEN acc
  ELSE LET e == Head(es)
           o == EntryOutcome(g, s, acc.h, e)
       IN IF o = "valid"
            THEN SparseFold(g, s, asis, Tail(es),
                            [acc EXCEPT !.h = Cascade(g, @, Decoded(s, e)),
                                        !.added = @ \cup EntryTarget(g, s, e)])
          ELSE IF o = "invalid" \/ o \notin asis
            THEN SparseFold(g, s, asis, Tail(es), [acc EXCEPT !.av = FALSE])
          ELSE [acc EXCEPT !.panic = o, !.av = FALSE]

\* named variants of WasStrictSuperset (the interface comment: "Was the other proof a strict superset
\* of the current proof?"):
\*  Merge:       both-empty counts as strict superset (explicit in both implementations), and the flag
\*               is cleared when any signature was invalid
\*  MergeSparse: the verified part of the sparse proof is compared, AllValidSignatures is not required
\*               (what the compliance suite asserts)
StrictMerge(ob, pb, av)  == ((ob = {} /\ pb = {}) \/ ProperSuperset(ob, pb)) /\ av
StrictSparse(added, pb)  == ProperSuperset(added, pb)

\* MergeSparse(sp) with sp = [hashOK, es]; result [h, av, inc, ss, ass, panic]
ApplySparse(g, s, h, sp, asis) ==
  IF ~sp.hashOK THEN [h |-> h, av |-> FALSE, inc |-> FALSE, ss |-> FALSE, ass |-> FALSE, panic |-> ""]
  ELSE LET r  == SparseFold(g, s, asis, sp.es, [h |-> h, av |-> TRUE, added |-> {}, panic |-> ""])
           ss == StrictSparse(r.added, Bits(g, h))
       IN [h |-> r.h, av |-> r.av, inc |-> Bits(g, r.h) # Bits(g, h), ss |-> ss,
           \* gblsminsig.MergeSparse: "TODO: how to check WasStrictSuperset?" -- never reported
           ass |-> IF s = "bls" /\ "bls-sparse-strict-todo" \in asis THEN FALSE ELSE ss,
           panic |-> r.panic]

\* AddSignature(sig, key): a = [key (leaf index, -1 = not a candidate key), corr]
ApplyAdd(g, s, h, a) ==
  IF a.key >= 0 /\ a.corr = "ok" THEN [h |-> Cascade(g, h, a.key), err |-> FALSE]
  ELSE [h |-> h, err |-> TRUE]

\* Merge(other): other is an untrusted full proof over the same keys that claims signers O, of which the
\* signatures of B are bad (kind bk); match = "ok" | "msg" | "hash" (Matches fails)
OtherHave(g, o) == FoldAdd(g, {}, o.O)
OtherValidTops(g, o) == {t \in Tops(g, OtherHave(g, o)) : g.leaves[t] \cap o.B = {}}
ApplyMerge(g, s, h, o) ==
  IF o.match # "ok" THEN [h |-> h, av |-> FALSE, inc |-> FALSE, ss |-> FALSE]
  ELSE LET oh == OtherHave(g, o)
           vt == OtherValidTops(g, o)
           nh == FoldAdd(g, h, vt)
           av == vt = Tops(g, oh)
       IN [h |-> nh, av |-> av, inc |-> Bits(g, nh) # Bits(g, h),
           ss |-> StrictMerge(Bits(g, oh), Bits(g, h), av)]

-----------------------------------------------------------------------------
(* Finalized proofs: combinatorial number system (signatureproofscheme.go) *)

RECURSIVE Binom(_, _)
Binom(n, r) == IF r < 0 \/ r > n THEN 0
               ELSE IF r = 0 THEN 1
               ELSE (Binom(n, r - 1) * (n - r + 1)) \div r

RECURSIVE SortedSeq(_)
SortedSeq(S) == IF S = {} THEN <<>> ELSE LET m == SetMin(S) IN <<m>> \o SortedSeq(S \ {m})

\* calculateCombinationIndex(nKeys, bs, out): for the t-th present index q[t] (ascending) add
\* C(nKeys-j-1, m-t) for every skipped j between the previous present index and q[t]
RECURSIVE BinomSum(_, _, _, _)
BinomSum(n, r, lo, hi) == IF lo > hi THEN 0 ELSE Binom(n - lo - 1, r) + BinomSum(n, r, lo + 1, hi)
RECURSIVE CombTerms(_, _, _)
CombTerms(n, q, t) ==
  IF t > Len(q) THEN 0
  ELSE BinomSum(n, Len(q) - t, IF t = 1 THEN 0 ELSE q[t - 1] + 1, q[t] - 1) + CombTerms(n, q, t + 1)
CombIndex(n, S) == CombTerms(n, SortedSeq(S), 1)

\* decodeCombinationIndex(nKeys, k, combIndex, out): ok = FALSE where the shipped code panics
\* (k = 0, or binomialCoefficient called with k > n because the index is out of range)
RECURSIVE Dec(_, _, _, _, _)
Dec(n, curr, rp, rem, out) ==
  IF rp = 0 THEN [ok |-> TRUE, set |-> out]
  ELSE IF n - curr - 1 < rp - 1 THEN [ok |-> FALSE, set |-> out]
  ELSE LET c == Binom(n - curr - 1, rp - 1) IN
       IF rem >= c THEN Dec(n, curr + 1, rp, rem - c, out)
       ELSE Dec(n, curr + 1, rp - 1, rem, out \cup {curr})
DecodeComb(n, cnt, idx) == IF cnt = 0 THEN [ok |-> FALSE, set |-> {}] ELSE Dec(n, 0, cnt, idx, {})

\* the encode/decode pair is a bijection between k-subsets of 0..n-1 and 0..C(n,k)-1, and the first
\* index out of range is rejected (checked once, at start-up)
CombOK ==
  \A n \in 1..MaxK :
    /\ \A S \in SUBSET (0..(n - 1)) :
         S # {} => /\ CombIndex(n, S) < Binom(n, Cardinality(S))
                   /\ DecodeComb(n, Cardinality(S), CombIndex(n, S)) = [ok |-> TRUE, set |-> S]
    /\ \A c \in 1..n : ~DecodeComb(n, c, Binom(n, c)).ok
ASSUME Mode = "mccomb" => CombOK

\* sortRestForFinalizing: by signer count descending, then by message ascending (= position here)
RECURSIVE RestOrder(_, _)
RestOrder(R, todo) ==
  IF todo = {} THEN <<>>
  ELSE LET b == CHOOSE i \in todo : \A j \in todo :
                   \/ Cardinality(R[i]) > Cardinality(R[j])
                   \/ (Cardinality(R[i]) = Cardinality(R[j]) /\ i <= j)
       IN <<b>> \o RestOrder(R, todo \ {b})

\* position of x in the reduced key space (keys of 0..n-1 not in used), originalProjection.FindReducedIndex
ReducedIdx(used, x) == Cardinality({y \in 0..(x - 1) : y \notin used})

\* key ids written by gblsminsig Finalize: <<main, rest...>> in RestOrder, each [blk, cnt, idx]
\* (blk 0 = main, i = i-th rest); only defined without double signers
RECURSIVE BlsRestIds(_, _, _, _)
BlsRestIds(n, R, ord, used) ==
  IF ord = <<>> THEN <<>>
  ELSE LET i   == Head(ord)
           red == {ReducedIdx(used, x) : x \in R[i]}
       IN <<[blk |-> i, cnt |-> Cardinality(R[i]), idx |-> CombIndex(n - Cardinality(used), red)]>>
          \o BlsRestIds(n, R, Tail(ord), used \cup R[i])
BlsIds(n, M, R) ==
  <<[blk |-> 0, cnt |-> Cardinality(M), idx |-> CombIndex(n, M)]>>
  \o BlsRestIds(n, R, RestOrder(R, DOMAIN R), M)

\* ValidateFinalizedProof on those ids: decode main in the full key space, the rest (ordered by count
\* descending then message) in the reduced key space, project back
RECURSIVE BlsDecodeRest(_, _, _, _)
BlsDecodeRest(n, ids, used, acc) ==
  IF ids = <<>> THEN acc
  ELSE LET id  == Head(ids)
           nr  == n - Cardinality(used)
           d   == IF id.cnt > nr THEN [ok |-> FALSE, set |-> {}] ELSE DecodeComb(nr, id.cnt, id.idx)
           prj == SortedSeq((0..(n - 1)) \ used)
           os  == {prj[u + 1] : u \in d.set}
       IN IF ~d.ok THEN [acc EXCEPT !.ok = FALSE]
          ELSE BlsDecodeRest(n, Tail(ids), used \cup os, [acc EXCEPT !.sets = @ @@ (id.blk :> os)])
BlsDecodeAll(n, ids) ==
  LET m == DecodeComb(n, ids[1].cnt, ids[1].idx)
  IN IF ~m.ok THEN [ok |-> FALSE, sets |-> <<>>]
     ELSE BlsDecodeRest(n, Tail(ids), m.set, [ok |-> TRUE, sets |-> (0 :> m.set)])

Overlaps(M, R) == \/ \E i \in DOMAIN R : R[i] \cap M # {}
                  \/ \E i, j \in DOMAIN R : i # j /\ R[i] \cap R[j] # {}

\* corruptions of a finalized proof (arbitrary finalized input): [kind, cnt, idx]; cnt/idx = key id
\* override of the main BLS signature where the kind needs one
FinCorrs(s, n, M, R) ==
  LET none == {[kind |-> "none", cnt |-> 0, idx |-> 0]}
      cm   == Cardinality(M)
      im   == CombIndex(n, M)
      both == {[kind |-> x, cnt |-> 0, idx |-> 0] :
                 x \in {"main-sig-flip", "main-sig-othermsg", "keyid-len0", "keyid-len1"}
                       \cup (IF Len(R) > 0 THEN {"rest-sig-flip", "rest-keyid-len1"} ELSE {})}
      simp == {[kind |-> "keyid-oor", cnt |-> 0, idx |-> 0]}
      bls  == {[kind |-> "k-zero", cnt |-> 0, idx |-> 0],
               [kind |-> "k-big", cnt |-> n + 1, idx |-> 0],
               [kind |-> "comb-bound", cnt |-> cm, idx |-> Binom(n, cm)],
               [kind |-> "main-extra-sig", cnt |-> 0, idx |-> 0]}
              \cup (IF Binom(n, cm) > 1
                      THEN {[kind |-> "comb-next", cnt |-> cm, idx |-> (im + 1) % Binom(n, cm)]} ELSE {})
              \cup (IF Len(R) > 0 THEN {[kind |-> "rest-k-zero", cnt |-> 0, idx |-> 0]} ELSE {})
  IN IF ~FinCorrOn \/ Len(R) > 1 \/ Overlaps(M, R) THEN none   \* corruptions: at most one rest block, no double signer
     ELSE none \cup both \cup (IF s = "simple" THEN simp ELSE bls)

\* deviation of the shipped code on Finalize + ValidateFinalizedProof ("" = none)
FinDev(s, M, R, fc) ==
  IF s = "bls" /\ Overlaps(M, R) THEN "bls-finalize-double"     \* Finalize itself panics
  ELSE IF s = "bls" /\ fc.kind \in {"k-zero", "comb-bound", "rest-k-zero"} THEN "bls-validate-decode"
  ELSE IF s = "simple" /\ fc.kind \in {"keyid-len0", "keyid-len1", "rest-keyid-len1"} THEN "simple-short-keyid"
  ELSE ""

\* ideal result of Finalize(main, rest) then ValidateFinalizedProof(corrupt(fin)):
\*   nilmap: the proof is rejected (nil map, not unique); uniq; sets = per-block signer sets;
\*   exact: the map must contain every block (with double signers only required of the simple scheme)
ApplyFin(s, n, M, R, fc) ==
  IF fc.kind # "none" THEN [nilmap |-> TRUE, uniq |-> FALSE, sets |-> <<>>, exact |-> FALSE, ids |-> <<>>]
  ELSE [nilmap |-> FALSE, uniq |-> ~Overlaps(M, R), sets |-> <<M>> \o R,
        exact |-> s = "simple" \/ ~Overlaps(M, R),
        ids |-> IF s = "bls" /\ ~Overlaps(M, R) THEN BlsIds(n, M, R) ELSE <<>>]

-----------------------------------------------------------------------------
(* Behaviours                                                              *)

G == GEO[k][sch]
IsMC == Mode \in {"mc", "mccomb"}     \* "mccomb" additionally checks CombOK at start-up
Obs(a0, a1, ahas) == [b0 |-> Bits(G, a0), b1 |-> Bits(G, a1), t0 |-> Tops(G, a0), t1 |-> Tops(G, a1), has1 |-> ahas]

Init ==
  /\ k \in Ks /\ sch \in Schemes
  /\ l3 \in (IF sch = "simple" THEN BOOLEAN ELSE {FALSE})
  /\ h0 \in (IF IsMC THEN {{}} ELSE ClosedSets(GEO[k][sch]))
  /\ h1 = {} /\ has1 = FALSE /\ panicked = FALSE
  /\ hist = <<[op |-> "setup", k |-> k, sch |-> sch, l3 |-> l3, nodes |-> h0]>>

Step(rec, a0, a1, ahas, pan) ==
  /\ h0' = a0 /\ h1' = a1 /\ has1' = ahas /\ panicked' = pan
  /\ hist' = IF IsMC THEN <<rec>> ELSE Append(hist, rec)
  /\ UNCHANGED <<k, sch, l3>>

Slots == IF has1 THEN {0, 1} ELSE {0}
Cur(s) == IF s = 0 THEN h0 ELSE h1
Upd0(s, nh) == IF s = 0 THEN nh ELSE h0
Upd1(s, nh) == IF s = 0 THEN h1 ELSE nh

AddArgs == {[key |-> i, corr |-> c] : i \in 0..(k - 1), c \in Corrs \ {"garbage"}}
           \cup {[key |-> -1, corr |-> "ok"]}

AddSignature(s, a) ==
  LET r == ApplyAdd(G, sch, Cur(s), a)
      a0 == Upd0(s, r.h)  a1 == Upd1(s, r.h)
  IN Step([op |-> "add", slot |-> s, arg |-> a, err |-> r.err, dev |-> "", obs |-> Obs(a0, a1, has1)],
          a0, a1, has1, FALSE)

RECURSIVE SeqsUpTo(_, _)
SeqsUpTo(S, n) == IF n = 0 THEN {<<>>}
                  ELSE LET sm == SeqsUpTo(S, n - 1) IN sm \cup {Append(q, x) : q \in {z \in sm : Len(z) = n - 1}, x \in S}

SparseArgs == {[hashOK |-> TRUE, es |-> es] : es \in SeqsUpTo(SparseEntries(G), MaxEnt)}
              \cup {[hashOK |-> FALSE, es |-> <<e>>] : e \in {x \in SparseEntries(G) : x.kc \in {"id", "len1"} /\ x.corr = "ok"}}

MergeSparse(s, sp) ==
  LET ri == ApplySparse(G, sch, Cur(s), sp, {})       \* ideal
      ra == ApplySparse(G, sch, Cur(s), sp, AsIs)     \* shipped
      dev == IF ra.panic # "" THEN ra.panic
             ELSE IF ra.ass # ri.ss THEN "bls-sparse-strict-todo" ELSE ""
      a0 == Upd0(s, ri.h)  a1 == Upd1(s, ri.h)
  IN Step([op |-> "sparse", slot |-> s, arg |-> sp,
           flags |-> [av |-> ri.av, inc |-> ri.inc, ss |-> ri.ss],
           aflags |-> [av |-> ra.av, inc |-> ra.inc, ss |-> ra.ass],
           dev |-> dev, obs |-> Obs(a0, a1, has1)],
          a0, a1, has1, ra.panic # "")

MergeArgs ==
  LET subs == SUBSET (0..(k - 1)) IN
       {[O |-> O, B |-> {}, bk |-> "none", match |-> m] : O \in subs, m \in {"ok", "msg", "hash"}}
  \cup {[O |-> O, B |-> {b}, bk |-> c, match |-> "ok"] : O \in subs \ {{}}, b \in 0..(k - 1), c \in {"othersigner", "othermsg"}}

Merge(s, o) ==
  /\ o.B \subseteq o.O
  /\ LET r == ApplyMerge(G, sch, Cur(s), o)
         a0 == Upd0(s, r.h)  a1 == Upd1(s, r.h)
     IN Step([op |-> "merge", slot |-> s, arg |-> o,
              flags |-> [av |-> r.av, inc |-> r.inc, ss |-> r.ss],
              aflags |-> [av |-> r.av, inc |-> r.inc, ss |-> r.ss],
              dev |-> "", obs |-> Obs(a0, a1, has1)],
             a0, a1, has1, FALSE)

\* Clone(): slot 1 becomes an independent copy of slot 0
Clone ==
  Step([op |-> "clone", slot |-> 0, dev |-> "", obs |-> Obs(h0, h0, TRUE)], h0, h0, TRUE, FALSE)

\* AsSparse() then a new proof built from the sparse form replaces the slot
Rebuild(s) ==
  LET ids == Tops(G, Cur(s))
      nh  == FoldAdd(G, {}, ids)
      ss  == StrictSparse(Bits(G, nh), {})
      ass == IF sch = "bls" /\ "bls-sparse-strict-todo" \in AsIs THEN FALSE ELSE ss
      a0 == Upd0(s, nh)  a1 == Upd1(s, nh)
  IN Step([op |-> "rebuild", slot |-> s, ids |-> ids,
           flags |-> [av |-> TRUE, inc |-> ids # {}, ss |-> ss],
           aflags |-> [av |-> TRUE, inc |-> ids # {}, ss |-> ass],
           dev |-> IF ass # ss THEN "bls-sparse-strict-todo" ELSE "", obs |-> Obs(a0, a1, has1)],
          a0, a1, has1, FALSE)

RestArgs == LET ne == (SUBSET (0..(k - 1))) \ {{}} IN
            UNION {[1..m -> ne] : m \in 0..MaxRest}

\* Finalize(slot 0, fresh proofs with signer sets R[i] for other messages), corrupt, ValidateFinalizedProof
Finalize(R, fc) ==
  /\ Bits(G, h0) # {}
  /\ LET M   == Bits(G, h0)
         dev == IF FinDev(sch, M, R, fc) \in AsIs THEN FinDev(sch, M, R, fc) ELSE ""
     IN Step([op |-> "fin", slot |-> 0, main |-> M, rest |-> R, fc |-> fc,
              res |-> ApplyFin(sch, k, M, R, fc), dev |-> dev, obs |-> Obs(h0, h1, has1)],
             h0, h1, has1, dev # "")

Bounded == IsMC \/ Len(hist) <= MaxOps

Next ==
  /\ ~panicked /\ Bounded
  /\ \/ \E s \in Slots, a \in AddArgs : AddSignature(s, a)
     \/ \E s \in Slots, sp \in SparseArgs : MergeSparse(s, sp)
     \/ \E s \in Slots, o \in MergeArgs : Merge(s, o)
     \/ (CloneOn /\ Clone)
     \/ \E s \in Slots : Rebuild(s)
     \/ \E R \in RestArgs : \E fc \in FinCorrs(sch, k, Bits(G, h0), R) : Finalize(R, fc)

Spec == Init /\ [][Next]_vars

-----------------------------------------------------------------------------
(* The rules named by the property, as action properties over every step.  *)

Rec == hist'[Len(hist')]
Pre == IF Rec.slot = 0 THEN h0 ELSE h1
Post == IF Rec.slot = 0 THEN h0' ELSE h1'
IsMergeLike == Rec.op \in {"add", "sparse", "merge"}

\* the offered signers whose signatures verify (formulated on leaves, not on tree nodes)
OfferedVerified ==
  CASE Rec.op = "add"    -> IF Rec.arg.key >= 0 /\ Rec.arg.corr = "ok" THEN {Rec.arg.key} ELSE {}
    [] Rec.op = "sparse" -> IF Rec.arg.hashOK
                              THEN UNION {EntryTarget(G, sch, Rec.arg.es[i]) :
                                            i \in {j \in DOMAIN Rec.arg.es : Verifies(G, sch, Rec.arg.es[j])}}
                              ELSE {}
    [] Rec.op = "merge"  -> IF Rec.arg.match = "ok"
                              THEN UNION {G.leaves[t] : t \in OtherValidTops(G, Rec.arg)} ELSE {}
    [] OTHER -> {}

UnionOfVerified == IsMergeLike => Bits(G, Post) = Bits(G, Pre) \cup OfferedVerified
Monotone == Rec.op \in {"add", "sparse", "merge", "rebuild", "fin"} =>
              Bits(G, h0) \subseteq Bits(G, h0') /\ (has1 => Bits(G, h1) \subseteq Bits(G, h1'))
NoBitForNonVerifying == IsMergeLike => (Bits(G, Post) \ Bits(G, Pre)) \subseteq OfferedVerified
Idempotent ==
  /\ Rec.op = "sparse" => LET r == ApplySparse(G, sch, Post, Rec.arg, {})
                          IN Bits(G, r.h) = Bits(G, Post) /\ ~r.inc /\ r.av = Rec.flags.av
  /\ Rec.op = "merge"  => LET r == ApplyMerge(G, sch, Post, Rec.arg)
                          IN Bits(G, r.h) = Bits(G, Post) /\ ~r.inc /\ r.av = Rec.flags.av
  /\ Rec.op = "add"    => LET r == ApplyAdd(G, sch, Post, Rec.arg)
                          IN r.h = Post /\ r.err = Rec.err
\* flags exactly as the interface comments define them (WasStrictSuperset through the named variants)
FlagsMatch ==
  /\ Rec.op = "sparse" =>
       /\ Rec.flags.av = (Rec.arg.hashOK /\ \A i \in DOMAIN Rec.arg.es : Verifies(G, sch, Rec.arg.es[i]))
       /\ Rec.flags.inc = (Bits(G, Post) # Bits(G, Pre))
       /\ Rec.flags.ss = (Rec.arg.hashOK /\ StrictSparse(OfferedVerified, Bits(G, Pre)))
  /\ Rec.op = "merge" =>
       /\ Rec.flags.av = (Rec.arg.match = "ok" /\ Rec.arg.B = {})
       /\ Rec.flags.inc = (Bits(G, Post) # Bits(G, Pre))
       /\ Rec.flags.ss = (Rec.arg.match = "ok" /\ StrictMerge(Rec.arg.O, Bits(G, Pre), Rec.flags.av))
  /\ Rec.op = "add" => Rec.err = ~(Rec.arg.key >= 0 /\ Rec.arg.corr = "ok")
  /\ Rec.op = "rebuild" => Rec.flags = [av |-> TRUE, inc |-> Bits(G, Pre) # {}, ss |-> Bits(G, Pre) # {}]
CloneIndependent ==
  /\ Rec.op = "clone" => h0' = h0 /\ h1' = h0 /\ has1'
  /\ Rec.op # "clone" => /\ (Rec.slot = 0 => h1' = h1) /\ (Rec.slot = 1 => h0' = h0)
                         /\ has1' = has1
SparseRoundTrip == Rec.op = "rebuild" => Bits(G, Post) = Bits(G, Pre) /\ Tops(G, Post) = Tops(G, Pre)
FinalizeRoundTrip ==
  Rec.op = "fin" =>
    LET r == Rec.res IN
    /\ Rec.fc.kind # "none" => r.nilmap /\ ~r.uniq
    /\ Rec.fc.kind = "none" =>
         /\ ~r.nilmap /\ r.uniq = ~Overlaps(Rec.main, Rec.rest)
         /\ r.sets = <<Rec.main>> \o Rec.rest
         \* the BLS key ids decode back to exactly the per-block sets they were built from
         /\ r.ids # <<>> =>
              LET d == BlsDecodeAll(k, r.ids) IN
              /\ d.ok
              /\ d.sets[0] = Rec.main
              /\ \A i \in DOMAIN Rec.rest : d.sets[i] = Rec.rest[i]
NoPanicStep == ~panicked'

PUnion     == [][UnionOfVerified]_vars
PMonotone  == [][Monotone]_vars
PNoBit     == [][NoBitForNonVerifying]_vars
PIdem      == [][Idempotent]_vars
PFlags     == [][FlagsMatch]_vars
PClone     == [][CloneIndependent]_vars
PSparseRT  == [][SparseRoundTrip]_vars
PFinRT     == [][FinalizeRoundTrip]_vars
PNoPanic   == [][NoPanicStep]_vars

\* state invariants
TypeOK == /\ h0 \subseteq RealNodes(G) /\ FoldAdd(G, {}, h0) = h0
          /\ h1 \subseteq RealNodes(G) /\ FoldAdd(G, {}, h1) = h1
          /\ (~has1 => h1 = {})
NoPanic == ~panicked

View == <<k, sch, l3, h0, h1, has1, panicked>>

\* export: one line per maximal behaviour
Emit == (Len(hist) = MaxOps + 1 \/ panicked) => PrintT("BEH " \o ToJson(hist))
=============================================================================
