\* the code as it is against the PURE property: TLC is expected to find the named deviation
CONSTANTS
  NS = 2
  NT = 2
  Tables <- AllTables
  MaxPending = 3
  MaxHist = 0
  KeepHist = FALSE
  ByValueInvalidation = TRUE
SPECIFICATION Spec
VIEW view
CONSTRAINT PendingBound
INVARIANTS PendingAppliesInOrder
CHECK_DEADLOCK FALSE
