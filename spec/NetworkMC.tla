----------------------------- MODULE NetworkMC -----------------------------
(* TLC instance of Network: exhaustive check of Agreement / Contiguous and   *)
(* the helper invariants; export of behaviours (simulation, counterexamples  *)
(* of the design and of deliberately weakened variants) as schedules for the *)
(* real-engine cluster harness.                                              *)
EXTENDS Network, Json

CONSTANTS MaxLen,        \* bound on Len(hist) (0 = unbounded; VIEW hides hist)
          EmitAll        \* print every terminal behaviour

Sym3 == Permutations({V1, V2, V3})
Sym2 == Permutations({V2, V3})

View == <<node, sent, restarts>>

\* diagnostic only (unsound as a reduction): the state without the mirrors' message sets
ViewCtl == <<[i \in Corr |-> Ctl(node[i])], sent, restarts>>

Good == Agreement /\ Contiguous

Next == /\ Good                                   \* a violating state is terminal: its history is the witness
        /\ (MaxLen = 0 \/ Len(hist) < MaxLen)
        /\ \E n \in Corr : \/ \E S \in Cands(node[n], n) : Deliver(n, S)
                           \/ Timeout(n)
                           \/ Restart(n)

Spec == Init /\ [][Next]_vars

\* witnesses of violations (of the design, or of a weakened variant) for replay on the real engines
EmitCex == Good \/ PrintT("BEH " \o ToJson([class |-> "cex", steps |-> hist]))

Terminal == (MaxLen > 0 /\ Len(hist) = MaxLen) \/ ~Good \/ (\A i \in Corr : Len(node[i].fin) >= MaxH)
             \/ (Len(hist) > 0 /\ Len(hist) % 6 = 0)          \* prefixes too: a random walk may get stuck before MaxLen
Emit == (EmitAll /\ Terminal) => PrintT("BEH " \o ToJson([class |-> "sim", steps |-> hist]))

\* vacuity probes (expected to be violated: every interesting thing happens)
NoCommit == \A i \in Corr : Len(node[i].chain) = 0
NoRoundOne == \A i \in Corr : node[i].mr = 0
NoLock == \A i \in Corr : node[i].lockV = "none"
NoResign == \A i \in Corr : ~node[i].resigned
NoAhead == \A i \in Corr : Mode(node[i]) # "N"
=============================================================================
