\* exhaustive: every reachable proof state x every operation of the alphabet; the fixed design (AsIs = {})
\* must satisfy every named rule.  Ks / Schemes / MaxEnt are overridden per run by checks/c13.py.
CONSTANTS
  Ks = {1, 2, 3, 4}
  Schemes = {"simple", "bls"}
  MaxOps = 99
  MaxEnt = 2
  MaxRest = 2
  EntCorrs = {"ok", "othermsg", "garbage"}
  FinCorrOn = TRUE
  CloneOn = FALSE
  AsIs = {}
  Mode = "mccomb"
INIT Init
NEXT Next
VIEW View
INVARIANTS TypeOK NoPanic
PROPERTIES PUnion PMonotone PNoBit PIdem PFlags PClone PSparseRT PFinRT PNoPanic
CHECK_DEADLOCK FALSE
