\* exhaustive over a selection of apply tables over 3 states x 3 transactions (Tables substituted by checks/c19.py)
CONSTANTS
  NS = 3
  NT = 3
  Tables <- SampleTables
  MaxPending = 4
  MaxHist = 0
  KeepHist = FALSE
  ByValueInvalidation = FALSE
SPECIFICATION Spec
VIEW view
CONSTRAINT PendingBound
INVARIANTS TypeOK PendingAppliesInOrderG DeviatedOnlyAsIs StepPredicatesHold
CHECK_DEADLOCK FALSE
