---------------------------- MODULE TxBufTrace ----------------------------
(* code -> spec, sequential executions.  Re-reads the events the Go harness *)
(* logged while driving the real gtxbuf.Buffer / workingState (trace.ndjson)*)
(* and requires every step to be an instance of the named TxBuf action with *)
(* the logged arguments that ALSO produces the logged result.  Many traces  *)
(* are concatenated; a "reset" event starts a new one with its own table.   *)
(* Event: [ev, a, ap, ok, inv, buf, eff]  (eff = -1: not observable, API)   *)
EXTENDS TxBuf

Trace == ndJsonDeserialize("trace.ndjson")

VARIABLE l
tvars == <<vars, l>>

TInit == /\ l = 1
         /\ apply = <<>>
         /\ inited = FALSE /\ base = 0 /\ cur = 0 /\ updated = FALSE
         /\ pending = <<>> /\ deviated = FALSE
         /\ last = Ev("none", 0, {}, TRUE, <<>>, <<>>, <<>>, 0)
         /\ hist = <<>> /\ bad = {}

Reset(e) == /\ apply' = e.tbl
            /\ inited' = FALSE /\ base' = 0 /\ cur' = 0 /\ updated' = FALSE
            /\ pending' = <<>> /\ deviated' = FALSE
            /\ last' = Ev("none", 0, {}, TRUE, <<>>, <<>>, <<>>, 0)
            /\ UNCHANGED hist

EffMatches(e) == e.eff = -1 \/ e.eff = last'.eff

TStep(e) ==
  \/ e.ev = "reset" /\ Reset(e)
  \/ e.ev = "Initialize" /\ Initialize(e.a)
  \/ e.ev = "AddTx" /\ AddTx(e.a)
       /\ last'.ok = e.ok /\ pending' = e.buf /\ EffMatches(e)
  \/ e.ev = "Buffered" /\ Buffered
       /\ last'.buf = e.buf
  \/ e.ev = "Rebase" /\ Rebase(e.a, Range(e.ap))
       /\ last'.inv = e.inv /\ pending' = e.buf /\ EffMatches(e)

TNext == /\ l <= Len(Trace)
         /\ l' = l + 1
         /\ TStep(Trace[l])
         /\ bad' = bad \cup (IF Trace[l].ev = "reset" THEN {} ELSE StepViolations)

TraceDone == TLCGet("stats").diameter - 1 = Len(Trace)
=============================================================================
