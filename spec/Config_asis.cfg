CONSTANTS
  Tier = "quick"
  Dev <- DevAsIs
INIT MCInit
NEXT MCNext
INVARIANTS TypeOK NoPanic ErrorListsEveryRejectedOption InstanceOnlyIfComplete
CHECK_DEADLOCK FALSE
