---------------------------- MODULE StoresModel ----------------------------
(* Property C16.  Sequential reference model of the seven in-memory stores   *)
(* of tm/tmstore/tmmemstore, one pure function per interface method, written *)
(* in the shape of the Go code (anchor file / method named at each operator).*)
(*                                                                           *)
(* Everything is over small integer ids; the Go harness                      *)
(* (harness/tm/tmstore/tmmemstore/zz_verif_c16_test.go) owns the table that  *)
(* maps an id to a concrete value (real proposed headers, signatures, proofs, *)
(* validator sets built with tmconsensustest.Fixture).                       *)
(*                                                                           *)
(* An operation is a record [op |-> name, a |-> <<integer arguments>>].      *)
(* Applying it to a store state yields [st |-> new state,                    *)
(*                                      err |-> "" or the documented error,  *)
(*                                      v |-> <<integers: the observable>>]. *)
(* The module has no constants and no variables, so that both the sequential *)
(* specification (Stores.tla) and the linearizability checker                *)
(* (StoresLin.tla) evaluate exactly the same definitions.  Maps are partial  *)
(* functions that grow, as the Go maps do.                                   *)
EXTENDS Integers, Sequences, FiniteSets

EmptyF == [x \in {} |-> 0]
Get(f, k, d) == IF k \in DOMAIN f THEN f[k] ELSE d
Put(f, k, val) == [x \in (DOMAIN f) \cup {k} |-> IF x = k THEN val ELSE f[x]]
Res(s, e, val) == [st |-> s, err |-> e, v |-> val]

StoreNames == {"action", "round", "fin", "hdr", "mirror", "sm", "val"}

-----------------------------------------------------------------------------
(* ActionStore (actionstore.go).  st: <<h,r>> -> RoundActions.              *)
(* ph: 0 = no proposed header, else variant id; pk: 0 = nil PubKey;          *)
(* pvs/pcs: 0 = empty signature string, else signature id; pvt/pct: 0 = ""   *)
(* (nil vote or not set), 1 = a block hash.                                  *)
AZero == [ph |-> 0, pk |-> 0, pvt |-> 0, pvs |-> 0, pct |-> 0, pcs |-> 0]
AInit == EmptyF

\* SaveProposedHeaderAction: "ok && ra.ProposedHeader.Header.Height != 0" -> DoubleActionError
ASavePH(s, h, r, x) ==
  LET e == Get(s, <<h, r>>, AZero) IN
  IF e.ph # 0 THEN Res(s, "DoubleAction:proposed block", <<>>)
  ELSE Res(Put(s, <<h, r>>, [e EXCEPT !.ph = x]), "", <<>>)

\* SavePrevoteAction / SavePrecommitAction: already signed -> DoubleActionError, else
\* other key recorded -> PubKeyChangedError{Want, Got}, else record target, signature and key
ASaveVote(s, kind, h, r, pk, tgt, sig) ==
  LET e   == Get(s, <<h, r>>, AZero)
      cur == IF kind = "prevote" THEN e.pvs ELSE e.pcs IN
  IF cur # 0 THEN Res(s, "DoubleAction:" \o kind, <<>>)
  ELSE IF e.pk # 0 /\ e.pk # pk THEN Res(s, "PubKeyChanged:" \o kind, <<e.pk, pk>>)
  ELSE Res(Put(s, <<h, r>>,
               IF kind = "prevote" THEN [e EXCEPT !.pk = pk, !.pvt = tgt, !.pvs = sig]
                                   ELSE [e EXCEPT !.pk = pk, !.pct = tgt, !.pcs = sig]),
           "", <<>>)

\* LoadActions: RoundUnknownError{WantHeight, WantRound} iff nothing recorded for the round
ALoad(s, h, r) ==
  IF <<h, r>> \notin DOMAIN s THEN Res(s, "RoundUnknown", <<h, r>>)
  ELSE LET e == s[<<h, r>>] IN Res(s, "", <<h, r, e.ph, e.pk, e.pvt, e.pvs, e.pct, e.pcs>>)

AApply(s, o) ==
  CASE o.op = "SavePH"        -> ASavePH(s, o.a[1], o.a[2], o.a[3])
    [] o.op = "SavePrevote"   -> ASaveVote(s, "prevote", o.a[1], o.a[2], o.a[3], o.a[4], o.a[5])
    [] o.op = "SavePrecommit" -> ASaveVote(s, "precommit", o.a[1], o.a[2], o.a[3], o.a[4], o.a[5])
    [] o.op = "Load"          -> ALoad(s, o.a[1], o.a[2])

-----------------------------------------------------------------------------
(* FinalizationStore (finalizationstore.go).  st: h -> payload id            *)
(* (payload = round, block hash, validator set, app state hash).             *)
FInit == EmptyF
FSave(s, h, p) == IF h \in DOMAIN s THEN Res(s, "FinalizationOverwrite", <<h>>)
                  ELSE Res(Put(s, h, p), "", <<>>)
FLoad(s, h) == IF h \in DOMAIN s THEN Res(s, "", <<s[h]>>) ELSE Res(s, "HeightUnknown", <<h>>)
FApply(s, o) == CASE o.op = "Save" -> FSave(s, o.a[1], o.a[2])
                  [] o.op = "Load" -> FLoad(s, o.a[1])

-----------------------------------------------------------------------------
(* CommittedHeaderStore (committedheaderstore.go).  st: h -> payload id.     *)
(* SaveCommittedHeader assigns unconditionally (latest save wins).           *)
HInit == EmptyF
HSave(s, h, p) == Res(Put(s, h, p), "", <<>>)
HLoad(s, h) == IF h \in DOMAIN s THEN Res(s, "", <<s[h]>>) ELSE Res(s, "HeightUnknown", <<h>>)
HApply(s, o) == CASE o.op = "Save" -> HSave(s, o.a[1], o.a[2])
                  [] o.op = "Load" -> HLoad(s, o.a[1])

-----------------------------------------------------------------------------
(* MirrorStore (mirrorstore.go) and StateMachineStore (statemachinestore.go).*)
(* st: 0 = uninitialized, else the payload id of the last Set.  Every        *)
(* payload has a non-zero (voting) height; the Go code uses height 0 as the  *)
(* "uninitialized" marker, which the property does not name.                 *)
MInit == 0
MApply(s, o) == CASE o.op = "Set" -> Res(o.a[1], "", <<>>)
                  [] o.op = "Get" -> IF s = 0 THEN Res(s, "Uninitialized", <<>>) ELSE Res(s, "", <<s>>)

-----------------------------------------------------------------------------
(* ValidatorStore (validatorstore.go).  Key lists k and power lists w are    *)
(* ids; the hash of list k is hash id k (the Go side uses the real           *)
(* SimpleHashScheme and checks that the returned hash is the hash of the     *)
(* list and that a load returns a list hashing to the requested hash).       *)
(* Lists 1 and 2 have two entries (same entries, different order), list 3    *)
(* has three; hash id 4 is a hash that is never saved in that namespace.     *)
ListLen(x) == IF x = 3 THEN 3 ELSE 2
VInit == [keys |-> {}, pows |-> {}]
VSaveKeys(s, k) == IF k \in s.keys THEN Res(s, "PubKeysAlreadyExist", <<k>>)
                   ELSE Res([s EXCEPT !.keys = @ \cup {k}], "", <<k>>)
VSavePows(s, w) == IF w \in s.pows THEN Res(s, "VotePowersAlreadyExist", <<w>>)
                   ELSE Res([s EXCEPT !.pows = @ \cup {w}], "", <<w>>)
VLoadKeys(s, k) == IF k \in s.keys THEN Res(s, "", <<k>>) ELSE Res(s, "NoPubKeyHash", <<k>>)
VLoadPows(s, w) == IF w \in s.pows THEN Res(s, "", <<w>>) ELSE Res(s, "NoVotePowerHash", <<w>>)
\* LoadValidators: errors.Join of the two not-found errors, then the count mismatch
VLoadVals(s, k, w) ==
  IF k \notin s.keys /\ w \notin s.pows THEN Res(s, "NoPubKeyHash+NoVotePowerHash", <<k, w>>)
  ELSE IF k \notin s.keys THEN Res(s, "NoPubKeyHash", <<k>>)
  ELSE IF w \notin s.pows THEN Res(s, "NoVotePowerHash", <<w>>)
  ELSE IF ListLen(k) # ListLen(w) THEN Res(s, "PubKeyPowerCountMismatch", <<ListLen(k), ListLen(w)>>)
  ELSE Res(s, "", <<k, w>>)
VApply(s, o) ==
  CASE o.op = "SavePubKeys"    -> VSaveKeys(s, o.a[1])
    [] o.op = "SaveVotePowers" -> VSavePows(s, o.a[1])
    [] o.op = "LoadPubKeys"    -> VLoadKeys(s, o.a[1])
    [] o.op = "LoadVotePowers" -> VLoadPows(s, o.a[1])
    [] o.op = "LoadValidators" -> VLoadVals(s, o.a[1], o.a[2])

-----------------------------------------------------------------------------
(* RoundStore (roundstore.go).                                               *)
(* phs: <<h,r>> -> set of <<hd,pk>> (header id hd proposed by key pk);       *)
(* pv, pc: <<h,r>> -> proof id of the last Overwrite; rep: <<h,hd>> -> how    *)
(* often header hd was saved as a replayed header at h (the code appends).   *)
(* Proof id 1 has signatures for header 1 and nil, proof 2 for header 2,     *)
(* proof 3 for nil only.                                                     *)
HdrIds == {1, 2}
PkIds  == {1, 2}
ProofHas(p, hd) == (p = 1 /\ hd = 1) \/ (p = 2 /\ hd = 2)
RInit == [phs |-> EmptyF, pv |-> EmptyF, pc |-> EmptyF, rep |-> EmptyF]

\* SaveRoundProposedHeader: same hash by the same proposer in the round -> OverwriteError{pubkey}
RSavePH(s, h, r, hd, pk) ==
  LET cur == Get(s.phs, <<h, r>>, {}) IN
  IF <<hd, pk>> \in cur THEN Res(s, "Overwrite:pubkey", <<pk>>)
  ELSE Res([s EXCEPT !.phs = Put(@, <<h, r>>, cur \cup {<<hd, pk>>})], "", <<>>)

\* SaveRoundReplayedHeader: a proposed header with that hash in ANY round of the height
\* -> OverwriteError{hash}; else append
RSaveRep(s, h, hd) ==
  IF \E k \in DOMAIN s.phs : k[1] = h /\ \E e \in s.phs[k] : e[1] = hd
  THEN Res(s, "Overwrite:hash", <<hd>>)
  ELSE Res([s EXCEPT !.rep = Put(@, <<h, hd>>, Get(@, <<h, hd>>, 0) + 1)], "", <<>>)

ROverwrite(s, kind, h, r, p) ==
  IF kind = "prevote" THEN Res([s EXCEPT !.pv = Put(@, <<h, r>>, p)], "", <<>>)
                      ELSE Res([s EXCEPT !.pc = Put(@, <<h, r>>, p)], "", <<>>)

\* LoadRoundState: v = <<pv, pc, n(1,0), n(1,1), n(1,2), n(2,0), n(2,1), n(2,2)>> where n(hd,pk)
\* is how many returned proposed headers carry header hd and proposer pk (pk 0: bare replayed
\* header, included iff the round's precommit proof has an entry for its hash).
RCount(s, h, r, hd, pk) ==
  IF pk = 0
  THEN IF ProofHas(Get(s.pc, <<h, r>>, 0), hd) THEN Get(s.rep, <<h, hd>>, 0) ELSE 0
  ELSE IF <<hd, pk>> \in Get(s.phs, <<h, r>>, {}) THEN 1 ELSE 0
RLoad(s, h, r) ==
  IF <<h, r>> \notin DOMAIN s.phs /\ <<h, r>> \notin DOMAIN s.pv /\ <<h, r>> \notin DOMAIN s.pc
  THEN Res(s, "RoundUnknown", <<h, r>>)
  ELSE Res(s, "", <<Get(s.pv, <<h, r>>, 0), Get(s.pc, <<h, r>>, 0),
                    RCount(s, h, r, 1, 0), RCount(s, h, r, 1, 1), RCount(s, h, r, 1, 2),
                    RCount(s, h, r, 2, 0), RCount(s, h, r, 2, 1), RCount(s, h, r, 2, 2)>>)

RApply(s, o) ==
  CASE o.op = "SavePH"              -> RSavePH(s, o.a[1], o.a[2], o.a[3], o.a[4])
    [] o.op = "SaveReplayed"        -> RSaveRep(s, o.a[1], o.a[2])
    [] o.op = "OverwritePrevotes"   -> ROverwrite(s, "prevote", o.a[1], o.a[2], o.a[3])
    [] o.op = "OverwritePrecommits" -> ROverwrite(s, "precommit", o.a[1], o.a[2], o.a[3])
    [] o.op = "Load"                -> RLoad(s, o.a[1], o.a[2])

-----------------------------------------------------------------------------
InitOf(store) ==
  CASE store = "action" -> AInit [] store = "fin" -> FInit [] store = "hdr" -> HInit
    [] store = "mirror" -> MInit [] store = "sm" -> MInit  [] store = "val" -> VInit
    [] store = "round"  -> RInit

Apply(store, s, o) ==
  CASE store = "action" -> AApply(s, o) [] store = "fin" -> FApply(s, o) [] store = "hdr" -> HApply(s, o)
    [] store = "mirror" -> MApply(s, o) [] store = "sm" -> MApply(s, o)  [] store = "val" -> VApply(s, o)
    [] store = "round"  -> RApply(s, o)
=============================================================================
