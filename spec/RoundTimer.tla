----------------------------- MODULE RoundTimer -----------------------------
(* C12 (b): the production round timer, tm/tmengine/internal/tmstate/        *)
(* roundtimer.go.  One process for StandardRoundTimer.background (two-phase  *)
(* select loop) and one for its only caller, the state machine goroutine     *)
(* (getTimer = blocking send of the request, then blocking receive of the    *)
(* response; the returned cancel func closes a channel under sync.Once).     *)
(*                                                                           *)
(* A Go select is one step that is enabled when at least one case is ready   *)
(* and picks ANY ready case (the runtime picks uniformly at random); a       *)
(* goroutine blocked in a select is simply one that has not taken the step.  *)
(*                                                                           *)
(*   background pc   code                                                    *)
(*   "idle"          verifRTGate("idle"); first select  (ctx | start req)    *)
(*   "respond"       timer.Reset done, channels made, blocked in             *)
(*                   req.Resp <- response                                    *)
(*   "running"       verifRTGate("running"); second select                   *)
(*                   (ctx | timer.C | cancelTimer | start req)               *)
(*   "closing"       timer.C case chosen, close(timerElapsed) not yet done   *)
(*   "drain"         timer.Stop() returned false: select (timer.C | ctx)     *)
(*   "exit"/"panic"  returned / panicked                                     *)
(*                                                                           *)
(* Dev names the behaviour of the code AS IT IS that the property forbids:   *)
(*   "StartBeatsCancel"  running-select: a ready start request is taken      *)
(*                       without looking at cancelTimer -> BUG panic although *)
(*                       cancel() already returned                           *)
(*   "TickBeatsCancel"   running-select: a ready timer.C is taken without    *)
(*                       looking at cancelTimer -> timerElapsed closed after *)
(*                       cancel() returned                                   *)
(*   "CloseNotAtomic"    the decision to elapse and close(timerElapsed) are  *)
(*                       not atomic with respect to cancel()                 *)
(* Dev = {} is the repaired design (proposed_fixes/C12-roundtimer-*.diff):   *)
(* cancel() and the elapse decide under one mutex, and a start request that  *)
(* wins the select against a closed cancel channel is served, not refused.   *)
EXTENDS Integers, Sequences, FiniteSets, TLC, Json

CONSTANTS
  MaxTimers,    \* number of getTimer calls the caller may make
  Dev,          \* subset of AllDev
  GoTimer,      \* "sync": Go >= 1.23 timer channels (go.mod says go 1.25): Stop/Reset discard an
                \* unreceived tick and Stop reports it as stopped;  "legacy": Go < 1.23 semantics
  Disciplined,  \* TRUE: the caller asks for a new timer only after the previous one was cancelled
                \* (cancel returned) or observed elapsed -- the state machine's discipline (C12 a)
  WithCtx,      \* TRUE: the context may be cancelled at any time
  MaxLen        \* bound on the exported history

AllDev == {"StartBeatsCancel", "TickBeatsCancel", "CloseNotAtomic"}
AsIs == AllDev
ASSUME /\ Dev \subseteq AllDev /\ GoTimer \in {"sync", "legacy"}
       /\ Disciplined \in BOOLEAN /\ WithCtx \in BOOLEAN /\ MaxTimers \in 1..6

Timers == 1..MaxTimers

VARIABLES
  \* background goroutine
  bpc,        \* see above
  cur,        \* timer whose timerElapsed/cancelTimer the locals hold, 0 = nil
  srv,        \* number of start requests served so far
  armed,      \* 0, or k: the time.Timer was Reset for timer k and has not fired
  tick,       \* 0, or k: a value sent for timer k's Reset is waiting in timer.C
  got,        \* "closing": for which Reset the received tick was sent
  cancAtPick, \* "closing": was cancelTimer already closed when timer.C was chosen
  \* caller
  cpc,        \* "ready" | "sending" (blocked in startTimerRequests <- req) | "awaiting" (<-respCh)
  started,    \* number of getTimer calls made
  handed,     \* set of timers whose (Elapsed, Cancel) the caller holds
  cancelled,  \* set of timers whose cancel() has returned (cancel channel closed)
  obs,        \* set of timers the caller saw elapsed
  gaveUp,     \* the caller left getTimer through ctx.Done
  \* shared / history
  closed,     \* [Timers -> 0..2] number of close(timerElapsed) executed
  lateElapse, \* timers whose Elapsed was closed after their cancel() had returned
  wrongTick,  \* an Elapsed channel was closed by a tick that belongs to another Reset
  panicked,   \* "none" | "bug" (BUG: new timer requested ...) | "doubleclose"
  undisc,     \* the caller broke the discipline (only possible when ~Disciplined)
  ctxDone,
  devUsed,    \* deviations actually exercised
  hist

bgvars == <<bpc, cur, srv, armed, tick, got, cancAtPick>>
cvars  == <<cpc, started, handed, cancelled, obs, gaveUp>>
hvars  == <<closed, lateElapse, wrongTick, panicked, undisc, ctxDone, devUsed>>
vars   == <<bgvars, cvars, hvars, hist>>
view   == <<bgvars, cvars, hvars>>

Init ==
  /\ bpc = "idle" /\ cur = 0 /\ srv = 0 /\ armed = 0 /\ tick = 0 /\ got = 0 /\ cancAtPick = FALSE
  /\ cpc = "ready" /\ started = 0 /\ handed = {} /\ cancelled = {} /\ obs = {} /\ gaveUp = FALSE
  /\ closed = [k \in Timers |-> 0] /\ lateElapse = {} /\ wrongTick = FALSE
  /\ panicked = "none" /\ undisc = FALSE /\ ctxDone = FALSE /\ devUsed = {}
  /\ hist = <<>>

Log(e) == hist' = IF Len(hist) < MaxLen THEN Append(hist, e) ELSE hist
NoLog  == UNCHANGED hist

------------------------------------------------------------------------------
(* time.Timer *)
ResetTick == IF GoTimer = "sync" THEN 0 ELSE tick          \* Reset: what is left in timer.C
StopRet   == IF GoTimer = "sync" THEN armed # 0 \/ tick # 0 ELSE armed # 0
StopTick  == IF GoTimer = "sync" THEN 0 ELSE tick

Fire ==  \* the runtime sends on timer.C (buffer of one; a second value is dropped)
  /\ armed # 0
  /\ armed' = 0
  /\ tick' = IF tick = 0 THEN armed ELSE tick
  /\ UNCHANGED <<bpc, cur, srv, got, cancAtPick, cvars, hvars>> /\ NoLog

CtxCancel ==
  /\ WithCtx /\ ~ctxDone
  /\ ctxDone' = TRUE
  /\ UNCHANGED <<bgvars, cvars, closed, lateElapse, wrongTick, panicked, undisc, devUsed>>
  /\ Log([op |-> "ctx"])

------------------------------------------------------------------------------
(* caller *)
Outstanding == {k \in 1..started : k \notin cancelled /\ k \notin obs}

StartCall ==
  /\ cpc = "ready" /\ started < MaxTimers /\ ~gaveUp /\ panicked = "none"
  /\ started = Cardinality(handed)                \* the previous getTimer returned a timer
  /\ Disciplined => Outstanding = {}
  /\ undisc' = (undisc \/ Outstanding # {})
  /\ started' = started + 1
  /\ cpc' = "sending"
  /\ UNCHANGED <<bgvars, handed, cancelled, obs, gaveUp, closed, lateElapse, wrongTick, panicked,
                 ctxDone, devUsed>>
  /\ Log([op |-> "start", k |-> started + 1])

Cancel(k) ==   \* the returned cancel func: cancelOnce.Do(close(localCancel)); with Dev = {} it
               \* takes the timer's mutex, which the elapse step (one atomic step here) also holds
  /\ cpc = "ready" /\ k \in handed /\ k \notin cancelled
  /\ cancelled' = cancelled \cup {k}
  /\ UNCHANGED <<bgvars, cpc, started, handed, obs, gaveUp, hvars>>
  /\ Log([op |-> "cancel", k |-> k])

Observe(k) ==  \* the caller's select sees <-Elapsed
  /\ cpc = "ready" /\ k \in handed /\ k \notin obs /\ closed[k] > 0
  /\ obs' = obs \cup {k}
  /\ UNCHANGED <<bgvars, cpc, started, handed, cancelled, gaveUp, hvars>>
  /\ Log([op |-> "observe", k |-> k])

GiveUp ==      \* getTimer: case <-ctx.Done(): return nil, func() {}
  /\ ctxDone /\ cpc \in {"sending", "awaiting"}
  /\ cpc' = "ready" /\ gaveUp' = TRUE
  /\ UNCHANGED <<bgvars, started, handed, cancelled, obs, hvars>>
  /\ Log([op |-> "giveup"])

CallerNext == StartCall \/ GiveUp \/ \E k \in Timers : Cancel(k) \/ Observe(k)

------------------------------------------------------------------------------
(* background goroutine *)
Ready == (IF tick # 0 THEN {"tick"} ELSE {}) \cup (IF cur \in cancelled THEN {"cancel"} ELSE {})
         \cup (IF cpc = "sending" THEN {"start"} ELSE {}) \cup (IF ctxDone THEN {"ctx"} ELSE {})

\* timer.Reset(req.Dur); make both channels; then block in req.Resp <- ...
Serve(k) ==
  /\ armed' = k /\ tick' = ResetTick
  /\ cur' = k /\ srv' = k
  /\ bpc' = "respond" /\ cpc' = "awaiting"

IdleCtx ==
  /\ bpc = "idle" /\ ctxDone
  /\ bpc' = "exit"
  /\ UNCHANGED <<cur, srv, armed, tick, got, cancAtPick, cvars, hvars>> /\ NoLog

IdleRecv ==
  /\ bpc = "idle" /\ cpc = "sending"
  /\ Serve(srv + 1)
  /\ UNCHANGED <<got, cancAtPick, started, handed, cancelled, obs, gaveUp, hvars>>
  /\ Log([op |-> "serve", k |-> srv + 1, at |-> "idle"])

Respond ==   \* rendezvous on the unbuffered response channel
  /\ bpc = "respond" /\ cpc = "awaiting"
  /\ bpc' = "running" /\ cpc' = "ready"
  /\ handed' = handed \cup {cur}
  /\ UNCHANGED <<cur, srv, armed, tick, got, cancAtPick, started, cancelled, obs, gaveUp, hvars>>
  /\ NoLog

RunCtx ==
  /\ bpc = "running" /\ ctxDone
  /\ bpc' = "exit"
  /\ UNCHANGED <<cur, srv, armed, tick, got, cancAtPick, cvars, hvars>> /\ NoLog

LogPick(c) == Log([op |-> "pick", k |-> cur, ready |-> Ready, choice |-> c])

\* close(timerElapsed) for timer k by a tick sent for Reset g
CloseElapsed(k, g) ==
  /\ closed' = [closed EXCEPT ![k] = IF @ < 2 THEN @ + 1 ELSE 2]
  /\ lateElapse' = IF k \in cancelled THEN lateElapse \cup {k} ELSE lateElapse
  /\ wrongTick' = (wrongTick \/ g # k)
  /\ panicked' = IF closed[k] > 0 THEN "doubleclose" ELSE panicked

RunTick ==   \* case <-timer.C
  /\ bpc = "running" /\ tick # 0
  /\ tick' = 0
  /\ LogPick("tick")
  /\ IF "TickBeatsCancel" \notin Dev /\ cur \in cancelled
       THEN \* repaired: the cancellation wins, nothing is closed
            /\ bpc' = "idle" /\ cur' = 0
            /\ UNCHANGED <<srv, armed, got, cancAtPick, cvars, hvars>>
       ELSE IF "CloseNotAtomic" \in Dev
       THEN /\ bpc' = "closing" /\ got' = tick /\ cancAtPick' = (cur \in cancelled)
            /\ UNCHANGED <<cur, srv, armed, cvars, hvars>>
       ELSE /\ CloseElapsed(cur, tick)
            /\ devUsed' = IF cur \in cancelled THEN devUsed \cup {"TickBeatsCancel"} ELSE devUsed
            /\ bpc' = IF closed[cur] > 0 THEN "panic" ELSE "idle"
            /\ cur' = 0
            /\ UNCHANGED <<srv, armed, got, cancAtPick, cvars, undisc, ctxDone>>

Closing ==   \* close(timerElapsed); timerElapsed = nil; cancelTimer = nil
  /\ bpc = "closing"
  /\ CloseElapsed(cur, got)
  /\ devUsed' = IF cur \in cancelled
                  THEN devUsed \cup {IF cancAtPick THEN "TickBeatsCancel" ELSE "CloseNotAtomic"}
                  ELSE devUsed
  /\ bpc' = IF closed[cur] > 0 THEN "panic" ELSE "idle"
  /\ cur' = 0 /\ got' = 0 /\ cancAtPick' = FALSE
  /\ UNCHANGED <<srv, armed, tick, cvars, undisc, ctxDone>> /\ NoLog

RunCancel == \* case <-cancelTimer: if !timer.Stop() { select { case <-timer.C: case <-ctx.Done(): return } }
  /\ bpc = "running" /\ cur \in cancelled
  /\ LogPick("cancel")
  /\ armed' = 0 /\ tick' = StopTick
  /\ IF StopRet THEN bpc' = "idle" /\ cur' = 0 ELSE bpc' = "drain" /\ cur' = cur
  /\ UNCHANGED <<srv, got, cancAtPick, cvars, hvars>>

Drain ==
  /\ bpc = "drain"
  /\ \/ /\ tick # 0 /\ tick' = 0
        /\ IF cpc = "awaiting"      \* repaired design only: a request is pending (see RunStart)
             THEN /\ armed' = srv + 1 /\ cur' = srv + 1 /\ srv' = srv + 1 /\ bpc' = "respond"
             ELSE /\ bpc' = "idle" /\ cur' = 0 /\ UNCHANGED <<srv, armed>>
     \/ /\ ctxDone /\ bpc' = "exit" /\ UNCHANGED <<cur, srv, armed, tick>>
  /\ UNCHANGED <<got, cancAtPick, cvars, hvars>> /\ NoLog

RunStart ==  \* case req := <-t.startTimerRequests
  /\ bpc = "running" /\ cpc = "sending"
  /\ LogPick("start")
  /\ IF "StartBeatsCancel" \in Dev \/ cur \notin cancelled
       THEN \* panic(errors.New("BUG: new timer requested before previous timer elapsed or was cancelled"))
            /\ bpc' = "panic" /\ panicked' = "bug"
            /\ devUsed' = IF cur \in cancelled THEN devUsed \cup {"StartBeatsCancel"} ELSE devUsed
            /\ UNCHANGED <<cur, srv, armed, tick, got, cancAtPick, cvars, closed, lateElapse, wrongTick,
                           undisc, ctxDone>>
       ELSE \* repaired: the previous timer was cancelled; stop it and serve the request
            /\ IF StopRet
                 THEN /\ Serve(srv + 1) /\ UNCHANGED <<got, cancAtPick>>
                 ELSE /\ bpc' = "drain" /\ cpc' = "awaiting" /\ armed' = 0 /\ tick' = StopTick
                      /\ UNCHANGED <<cur, srv, got, cancAtPick>>
            /\ UNCHANGED <<started, handed, cancelled, obs, gaveUp, hvars>>

BgNext == IdleCtx \/ IdleRecv \/ Respond \/ RunCtx \/ RunTick \/ Closing \/ RunCancel \/ Drain \/ RunStart

Next == BgNext \/ CallerNext \/ Fire \/ CtxCancel

Spec == Init /\ [][Next]_vars /\ WF_vars(BgNext) /\ WF_vars(Fire)

------------------------------------------------------------------------------
TypeOK ==
  /\ bpc \in {"idle", "respond", "running", "closing", "drain", "exit", "panic"}
  /\ cur \in 0..MaxTimers /\ srv \in 0..MaxTimers /\ armed \in 0..MaxTimers /\ tick \in 0..MaxTimers
  /\ got \in 0..MaxTimers /\ cancAtPick \in BOOLEAN
  /\ cpc \in {"ready", "sending", "awaiting"} /\ started \in 0..MaxTimers
  /\ handed \subseteq Timers /\ cancelled \subseteq handed /\ obs \subseteq handed
  /\ closed \in [Timers -> 0..2] /\ lateElapse \subseteq Timers
  /\ panicked \in {"none", "bug", "doubleclose"} /\ devUsed \subseteq Dev

(* ---- the four predicates of C12 (b) ---- *)
\* after cancel() has returned for timer k, timer k's Elapsed channel is never closed
CancelledNeverElapses == lateElapse = {}
\* one Reset produces at most one close, of its own timer's channel
FiresAtMostOnce == /\ \A k \in Timers : closed[k] <= 1
                   /\ ~wrongTick /\ panicked # "doubleclose"
\* a disciplined caller never runs into the BUG panic
RestartAfterCancelSucceeds == panicked = "bug" => undisc
\* a getTimer call that waits (context alive, no panic) can always still be answered
BgCanMove == ENABLED BgNext \/ ENABLED Fire
NoLostStart == (cpc \in {"sending", "awaiting"} /\ ~ctxDone /\ panicked = "none") => BgCanMove
\* ... and (liveness, weak fairness of the goroutine and of the runtime timer) is answered
StartAnswered == (cpc = "sending") ~> (cpc = "ready" \/ panicked # "none")

(* ---- structure ---- *)
\* at most one timer is live inside the goroutine, and it is the last one served
OneTimer == /\ cur \in {0, srv} /\ (armed # 0 => armed = srv) /\ (bpc \in {"respond", "running", "closing"} => cur = srv /\ cur # 0)
            /\ (GoTimer = "sync" => (tick # 0 => tick = srv))
\* the drain branch is never needed with Go >= 1.23 timers (it would block until ctx.Done)
DrainUnreachable == GoTimer = "sync" => bpc # "drain"
\* every violation of the as-is design goes through a named deviation
ViaNamedDeviation ==
  /\ (lateElapse # {} => devUsed \cap {"TickBeatsCancel", "CloseNotAtomic"} # {})
  /\ (panicked = "bug" /\ ~undisc => "StartBeatsCancel" \in devUsed)
\* informational (outside C12): shutdown can strand the goroutine in the response send
NoStrandedRespond == ~(bpc = "respond" /\ cpc = "ready")

(* ---- export ---- *)
Terminal == ~ENABLED Next
Emit == (Terminal \/ Len(hist) >= MaxLen) => PrintT("BEH " \o ToJson([hist |-> hist, panicked |-> panicked, late |-> lateElapse]))
=============================================================================
