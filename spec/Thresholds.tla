---------------------------- MODULE Thresholds ----------------------------
(* Byzantine thresholds of tm/tmconsensus/math.go, transcribed in the shape   *)
(* of the code: quo, rem := n/3, n%3 followed by a case split on rem.         *)
(* Property C18.  The theorems are over unbounded Nat (checked by TLAPS);     *)
(* ThresholdsMC instantiates them for TLC and exports the table replayed      *)
(* against the Go functions.                                                  *)
EXTENDS Integers, TLAPS

Maj(q, r) == IF r < 2 THEN 2*q + 1 ELSE 2*q + 2   \* ByzantineMajority, n = 3q+r
Min(q, r) == IF r = 0 THEN q ELSE q + 1           \* ByzantineMinority, n = 3q+r

N(q, r) == 3*q + r

\* "smallest m with 3m > 2n", and m <= n (so 2*quo+2 cannot overflow when n fits)
THEOREM MajLeast ==
  \A q \in Nat, r \in 0..2 : N(q,r) > 0 =>
      /\ 3 * Maj(q,r) > 2 * N(q,r)
      /\ 3 * (Maj(q,r) - 1) <= 2 * N(q,r)
      /\ Maj(q,r) <= N(q,r)
      /\ Maj(q,r) >= 1
  BY DEF Maj, N

\* "smallest m with 3m >= n"
THEOREM MinLeast ==
  \A q \in Nat, r \in 0..2 : N(q,r) > 0 =>
      /\ 3 * Min(q,r) >= N(q,r)
      /\ 3 * (Min(q,r) - 1) < N(q,r)
      /\ Min(q,r) <= N(q,r)
      /\ Min(q,r) >= 1
  BY DEF Min, N

\* two sets of power a, b inside a total of n, each reaching the majority, overlap in
\* at least a + b - n >= the minority threshold
THEOREM QuorumOverlap ==
  \A q \in Nat, r \in 0..2, a \in Nat, b \in Nat :
      (N(q,r) > 0 /\ a >= Maj(q,r) /\ b >= Maj(q,r) /\ a <= N(q,r) /\ b <= N(q,r))
        => a + b - N(q,r) >= Min(q,r)
  BY DEF Maj, Min, N

\* a set s below the minority threshold cannot form a majority, and cannot block one:
\* the complement still reaches the majority threshold
THEOREM BelowMinorityIsHarmless ==
  \A q \in Nat, r \in 0..2, s \in Nat :
      (N(q,r) > 0 /\ s < Min(q,r)) =>
          /\ s < Maj(q,r)
          /\ N(q,r) - s >= Maj(q,r)
<1> SUFFICES ASSUME NEW q \in Nat, NEW r \in 0..2, NEW s \in Nat,
                    N(q,r) > 0, s < Min(q,r)
             PROVE  s < Maj(q,r) /\ N(q,r) - s >= Maj(q,r)
  OBVIOUS
<1>1. CASE r = 0 BY <1>1 DEF Maj, Min, N
<1>2. CASE r = 1 BY <1>2 DEF Maj, Min, N
<1>3. CASE r = 2 BY <1>3 DEF Maj, Min, N
<1> QED BY <1>1, <1>2, <1>3

\* the minority threshold never exceeds the majority threshold
THEOREM MinBelowMaj ==
  \A q \in Nat, r \in 0..2 : N(q,r) > 0 => Min(q,r) <= Maj(q,r)
  BY DEF Maj, Min, N
=============================================================================
