------------------------------- MODULE Config -------------------------------
(* C09, configuration clause: "Constructing an engine or a standalone mirror from any    *)
(* combination of its documented options yields either an instance that keeps running or  *)
(* a descriptive error that reports every rejected option, never a panic."                *)
(*                                                                                        *)
(* Anchors: tm/tmengine/opts.go (the With* option functions), tm/tmengine/engine.go       *)
(* (New, validateSettings, maybeInitializeChain), tm/tmengine/mirror.go (NewMirror,       *)
(* validateMirrorSettings), tmmirror/internal/tmi/kernel.go (NewKernel's first checks).   *)
(*                                                                                        *)
(* State = the configuration being built: one entry per field an option writes, the Go    *)
(* variable `err` of the option loop, and the outcome.  One action per option function    *)
(* application (ApplyOpt) in any order, any number of times, then Construct (the rest of  *)
(* the constructor: error check, validate*Settings, chain initialization, subsystem       *)
(* start).  The semantics is written as pure step operators (StepOpt / Finish) over a     *)
(* record so that the same text can be evaluated with two deviation records:              *)
(*   Dev = DevDesign : the design (what the property asks for; = the code with the        *)
(*                     proposed_fixes/C09-* applied)                                      *)
(*   Dev = DevAsIs   : what the unchanged tree does (named deviations, each confirmed on  *)
(*                     the real code by harness/tm/tmengine/zz_verif_c09cfg_test.go)      *)
(* The requirement (Rejected / StaticBad / Must) is stated over the history of applied    *)
(* options only, independently of the step operators.                                     *)
EXTENDS Integers, Sequences, FiniteSets, SequencesExt, TLC

CONSTANT Dev   \* record of BOOLEAN deviation flags, see DevDesign / DevAsIs

DevDesign == [ JoinOverwrites            |-> FALSE,   \* `err = errors.Join(opt(..))` in the option loop keeps only the LAST option's error
               MirrorNilSMConfig         |-> FALSE,   \* NewMirror hands a nil *StateMachineConfig to every option
               MirrorNilGenesisDeref     |-> FALSE,   \* NewMirror reads e.genesis.InitialHeight before any nil check
               EngineSkipsCHSCheck       |-> FALSE,   \* validateSettings does not require the committed header store
               MirrorSkipsWatchdogCheck  |-> FALSE,   \* validateMirrorSettings does not require the watchdog the kernel dereferences
               EmptyValSetPanics         |-> FALSE,   \* NewKernel: panic("BUG: initial validator set is empty")
               ZeroHeightPanics          |-> FALSE,   \* InitialHeight 0: InitialHeight-1 underflows, kernel panics loading the commit view
               NilTimeoutStrategyAccepted|-> FALSE ]  \* WithTimeoutStrategy(ctx, nil) wraps nil in a StandardRoundTimer; state machine dies arming it

DevAsIs == [ f \in DOMAIN DevDesign |-> TRUE ]

-----------------------------------------------------------------------------
(* The documented options (opts.go), names without the "With" prefix, in the canonical    *)
(* order used by the model-checking instance.                                             *)
Opts == << "Genesis", "CommittedHeaderStore", "FinalizationStore", "MirrorStore", "RoundStore",
           "StateMachineStore", "ValidatorStore", "HashScheme", "SignatureScheme",
           "CommonMessageSignatureProofScheme", "GossipStrategy", "ConsensusStrategy",
           "BlockFinalizationChannel", "InternalRoundTimer", "Watchdog", "InitChainChannel",
           "Signer", "ActionStore", "TimeoutStrategy", "BlockDataArrivalChannel",
           "LagStateChannel", "ProposedHeaderInterceptor", "ReplayedHeaderRequestChannel",
           "MetricsChannel", "AssertEnv" >>
NOpts  == Len(Opts)
OptSet == { Opts[i] : i \in 1..NOpts }

(* Value classes per option.  "nil" is the untyped nil of the parameter type.             *)
Vals(o) == CASE o = "Genesis"         -> {"ok", "nil", "zero", "novals", "h0"}
             [] o = "LagStateChannel" -> {"ok", "nil", "buffered"}
             [] o = "MetricsChannel"  -> {"ok", "nil", "nonempty"}
             [] o = "AssertEnv"       -> {"ok"}          \* gassert.Env is a value type in non-debug builds
             [] OTHER                 -> {"ok", "nil"}

(* Both timer options write the same field.                                               *)
FieldOf(o) == IF o \in {"InternalRoundTimer", "TimeoutStrategy"} THEN "RoundTimer" ELSE o
Fields     == { FieldOf(o) : o \in OptSet }

(* What ends up in the field: nil is indistinguishable from "never set".                  *)
Stored(o, v) == IF v = "nil" THEN "unset" ELSE v

(* Options whose closure writes through the *StateMachineConfig parameter (opts.go).      *)
TouchesSMC == { "ConsensusStrategy", "ActionStore", "FinalizationStore", "StateMachineStore",
                "SignatureScheme", "HashScheme", "CommonMessageSignatureProofScheme", "Signer",
                "BlockFinalizationChannel", "BlockDataArrivalChannel", "ProposedHeaderInterceptor",
                "InternalRoundTimer", "TimeoutStrategy", "Watchdog", "AssertEnv" }

(* The name validate*Settings uses when a field is missing ("use tmengine.With<Name>").   *)
NameOfField(f) == IF f = "RoundTimer" THEN "TimeoutStrategy" ELSE f

EngineRequired == { "HashScheme", "SignatureScheme", "CommonMessageSignatureProofScheme",
                    "GossipStrategy", "FinalizationStore", "MirrorStore", "RoundStore",
                    "StateMachineStore", "ValidatorStore", "Watchdog", "ConsensusStrategy",
                    "BlockFinalizationChannel", "RoundTimer" }
MirrorRequired == { "MirrorStore", "CommittedHeaderStore", "RoundStore", "ValidatorStore",
                    "HashScheme", "SignatureScheme", "CommonMessageSignatureProofScheme" }

-----------------------------------------------------------------------------
(* Requirement, over the history h of applied options.  An application of option Opts[i]  *)
(* with value class v is recorded as the integer 10*i + VCode(v) (compact states).          *)
ValNames == << "ok", "nil", "zero", "novals", "h0", "buffered", "nonempty" >>
VCode(v) == CHOOSE k \in 0..6 : ValNames[k + 1] = v
HCode(i, v) == 10 * i + VCode(v)
HO(x) == Opts[x \div 10]
HV(x) == ValNames[(x % 10) + 1]

(* The option functions that refuse a value.  The first two are written down in opts.go    *)
(* ("capacity of channel must be zero", "ch must be unbuffered").  Whether                  *)
(* WithTimeoutStrategy refuses nil is the implementation's choice (tsr); the property only  *)
(* says that an accepted nil must not end in a crash.                                       *)
OptRejects(o, v, tsr) == \/ o = "LagStateChannel" /\ v = "buffered"
                         \/ o = "MetricsChannel"  /\ v = "nonempty"
                         \/ o = "TimeoutStrategy" /\ v = "nil" /\ tsr

Rejected(h, tsr) == { HO(h[i]) : i \in { j \in DOMAIN h : OptRejects(HO(h[j]), HV(h[j]), tsr) } }

(* Final value of every field: the last accepted application wins.  An accepted nil        *)
(* timeout strategy leaves a round timer that cannot be armed ("nilstrat").                *)
FinalMap(h, tsr) ==
  FoldLeft(LAMBDA fm, x : IF OptRejects(HO(x), HV(x), tsr) THEN fm
                          ELSE [fm EXCEPT ![FieldOf(HO(x))] =
                                  IF HO(x) = "TimeoutStrategy" /\ HV(x) = "nil" THEN "nilstrat" ELSE Stored(HO(x), HV(x))],
           [f \in Fields |-> "unset"], h)

(* Options documented as required ("This option is required", opts.go) that are missing.   *)
MissingRequired(c, fin) ==
  IF c = "engine"
  THEN { NameOfField(f) : f \in { g \in EngineRequired \cup {"CommittedHeaderStore", "Genesis"} : fin[g] = "unset" } }
       \cup (IF fin["Signer"] # "unset" /\ fin["ActionStore"] = "unset" THEN {"ActionStore"} ELSE {})
  ELSE { f \in MirrorRequired \cup {"Genesis"} : fin[f] = "unset" }

(* Values with which no instance can keep running, wherever the implementation notices:    *)
(* a genesis without initial height or without validators (the application of the harness  *)
(* supplies none either), a round timer without strategy, a mirror kernel without the      *)
(* watchdog it registers with.                                                             *)
Unusable(c, w, fin) ==
  (IF fin["Genesis"] \in {"zero", "h0", "novals"} /\ w = "fresh" THEN {"Genesis"} ELSE {})
  \cup (IF c = "engine" /\ fin["RoundTimer"] = "nilstrat" THEN {"TimeoutStrategy"} ELSE {})
  \cup (IF c = "mirror" /\ fin["Watchdog"] = "unset" THEN {"Watchdog"} ELSE {})

(* What a returned error has to name.  The constructor works in stages -- option           *)
(* functions, settings validation, chain initialization (needs the stores), subsystem      *)
(* start -- and has to report EVERY offender of the stage at which it stops (all); the      *)
(* unusable values and a missing init-chain channel may be noticed at any later stage, so   *)
(* of those at least one has to be named (any) when nothing else is wrong.                  *)
(* all = any = {} iff the configuration is complete.                                        *)
Req(c, w, h, tsr) ==
  LET rej  == Rejected(h, tsr)
      fin  == FinalMap(h, tsr)
      miss == MissingRequired(c, fin)
  IN IF rej # {} THEN [all |-> rej, any |-> {}]
     ELSE IF miss # {} THEN [all |-> miss, any |-> {}]
     ELSE [all |-> {},
           any |-> Unusable(c, w, fin)
                   \cup (IF c = "engine" /\ w = "fresh" /\ fin["InitChainChannel"] = "unset"
                         THEN {"InitChainChannel"} ELSE {})]     \* chain not initialized and no way to ask the application
IsComplete(r) == r.all = {} /\ r.any = {}

-----------------------------------------------------------------------------
(* Implementation model: pure step operators, parameterised by the deviation record D.    *)

NoOut == [kind |-> "none", men |-> {}, why |-> ""]
S0(c, w) == [ c |-> c, w |-> w, fld |-> [f \in Fields |-> "unset"], err |-> {}, out |-> NoOut ]

Panic(why)  == [kind |-> "panic", men |-> {}, why |-> why]
Error(men)  == [kind |-> "error", men |-> men, why |-> ""]
Instance    == [kind |-> "instance", men |-> {}, why |-> ""]

(* One iteration of `for _, opt := range opts { err = errors.Join(.., opt(e, smc)) }`.     *)
StepOpt(s, o, v, D) ==
  IF s.out.kind # "none" THEN s
  ELSE IF s.c = "mirror" /\ D.MirrorNilSMConfig /\ o \in TouchesSMC
  THEN [s EXCEPT !.out = Panic("nil-smconfig:" \o o)]
  ELSE LET refuses == OptRejects(o, v, ~D.NilTimeoutStrategyAccepted)
           e       == IF refuses THEN {o} ELSE {}
           fv      == IF o = "TimeoutStrategy" /\ v = "nil" THEN "nilstrat" ELSE Stored(o, v)
       IN [s EXCEPT !.err = IF D.JoinOverwrites THEN e ELSE @ \cup e,
                    !.fld = IF refuses THEN @ ELSE [@ EXCEPT ![FieldOf(o)] = fv]]

Unset(s, F) == { f \in F : s.fld[f] = "unset" }

(* engine.go: New after the option loop.                                                  *)
FinishEngine(s, D) ==
  LET g       == s.fld["Genesis"]
      missing == { NameOfField(f) : f \in Unset(s, EngineRequired) }
                 \cup (IF s.fld["Signer"] # "unset" /\ s.fld["ActionStore"] = "unset" THEN {"ActionStore"} ELSE {})
                 \cup (IF g = "unset" THEN {"Genesis"} ELSE {})
                 \cup (IF ~D.EngineSkipsCHSCheck /\ s.fld["CommittedHeaderStore"] = "unset" THEN {"CommittedHeaderStore"} ELSE {})
                 \cup (IF ~D.ZeroHeightPanics /\ g \in {"zero", "h0"} THEN {"Genesis"} ELSE {})
  IN IF s.err # {} THEN Error(s.err)
     ELSE IF missing # {} THEN Error(missing)                               \* validateSettings
     ELSE IF s.w = "fresh" /\ s.fld["InitChainChannel"] = "unset" THEN Error({"InitChainChannel"})   \* maybeInitializeChain
     ELSE IF s.w = "fresh" /\ g \in {"zero", "novals"}
          THEN (IF D.EmptyValSetPanics THEN Panic("empty-validator-set") ELSE Error({"Genesis"}))
     ELSE IF s.w = "fresh" /\ g = "h0" THEN Panic("zero-initial-height")   \* only reachable with D.ZeroHeightPanics
     ELSE IF s.fld["RoundTimer"] = "nilstrat" THEN Panic("nil-timeout-strategy")   \* goroutine of the state machine
     ELSE IF s.fld["CommittedHeaderStore"] = "unset"
          THEN Panic("no-committed-header-store")   \* kernel goroutine, first commit: k.hStore.SaveCommittedHeader on nil (only with D.EngineSkipsCHSCheck)
     ELSE Instance

(* mirror.go: NewMirror after the option loop.                                            *)
FinishMirror(s, D) ==
  LET g       == s.fld["Genesis"]
      missing == Unset(s, MirrorRequired)
                 \cup (IF ~D.MirrorSkipsWatchdogCheck /\ s.fld["Watchdog"] = "unset" THEN {"Watchdog"} ELSE {})
                 \cup (IF ~D.MirrorNilGenesisDeref /\ g = "unset" THEN {"Genesis"} ELSE {})
                 \cup (IF ~D.ZeroHeightPanics /\ g \in {"zero", "h0"} THEN {"Genesis"} ELSE {})
                 \cup (IF ~D.EmptyValSetPanics /\ g \in {"zero", "novals"} THEN {"Genesis"} ELSE {})
  IN IF s.err # {} THEN Error(s.err)
     ELSE IF g = "unset" /\ D.MirrorNilGenesisDeref THEN Panic("nil-genesis")
     ELSE IF missing # {} THEN Error(missing)                               \* validateMirrorSettings
     ELSE IF g \in {"zero", "novals"} THEN Panic("empty-validator-set")
     ELSE IF g = "h0" THEN Panic("zero-initial-height")
     ELSE IF s.fld["Watchdog"] = "unset" THEN Panic("mirror-without-watchdog")   \* kernel goroutine: wd.Monitor on nil
     ELSE Instance

Finish(s, D) == IF s.out.kind # "none" THEN s
                ELSE [s EXCEPT !.out = IF s.c = "engine" THEN FinishEngine(s, D) ELSE FinishMirror(s, D)]

(* The whole constructor call on a given option sequence.                                 *)
Run(c, w, h, D) == Finish(FoldLeft(LAMBDA s, x : StepOpt(s, HO(x), HV(x), D), S0(c, w), h), D).out

-----------------------------------------------------------------------------
VARIABLES st,     \* the record above, evolving under Dev
          hist    \* options applied so far, as HCode(i, v)
vars == <<st, hist>>

Init == /\ st \in { S0(c, w) : c \in {"engine", "mirror"}, w \in {"fresh", "init"} }
        /\ hist = << >>

ApplyOpt(i, v) == /\ st.out.kind = "none"
                  /\ st' = StepOpt(st, Opts[i], v, Dev)
                  /\ hist' = Append(hist, HCode(i, v))

Construct == /\ st.out.kind = "none"
             /\ st' = Finish(st, Dev)
             /\ UNCHANGED hist

Next == \/ \E i \in 1..NOpts : \E v \in Vals(Opts[i]) : ApplyOpt(i, v)
        \/ Construct

Spec == Init /\ [][Next]_vars

Done == st.out.kind # "none"

-----------------------------------------------------------------------------
(* The property (the ...P forms take the requirement r = Req(..) as an argument so that a  *)
(* model-checking instance can evaluate it once per state).  TSR: does this                 *)
(* implementation's WithTimeoutStrategy refuse nil.                                          *)
TSR == ~Dev.NilTimeoutStrategyAccepted

NoPanic == st.out.kind # "panic"

ErrorListsP(r) == st.out.kind = "error" => /\ r.all \subseteq st.out.men
                                           /\ r.any # {} => r.any \cap st.out.men # {}
                                           /\ st.out.men # {}
InstanceP(r)   == st.out.kind = "instance" => IsComplete(r)
(* Not part of the property; keeps the model honest: a complete configuration is served.  *)
CompleteP(r)   == (Done /\ IsComplete(r)) => st.out.kind = "instance"

ErrorListsEveryRejectedOption == ErrorListsP(Req(st.c, st.w, hist, TSR))
InstanceOnlyIfComplete        == InstanceP(Req(st.c, st.w, hist, TSR))
CompleteGivesInstance         == CompleteP(Req(st.c, st.w, hist, TSR))

TypeOK == /\ st.c \in {"engine", "mirror"} /\ st.w \in {"fresh", "init"}
          /\ st.out.kind \in {"none", "instance", "error", "panic"}
          /\ st.err \subseteq OptSet /\ st.out.men \subseteq OptSet
=============================================================================
