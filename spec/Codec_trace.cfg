CONSTANTS
  RegistryChecksLength = FALSE
  MaxDist = 0
  CorrDist = 0
  DoEmit = FALSE
  Variants = {"Header", "ProposedHeader", "CommittedHeader", "PrevoteProof", "PrecommitProof", "CM.ProposedHeader", "CM.PrevoteProof", "CM.PrecommitProof"}
INIT TInit
NEXT TNext
POSTCONDITION TraceDone
CHECK_DEADLOCK FALSE
