----------------------------- MODULE RelayDefs -----------------------------
(* C20 -- definitions shared by Relay.tla, RelayMap.tla and RelayTrace.tla.  *)
(* Anchors: gexchange/feedback.go, tm/tmp2p/tmlibp2p/connection.go           *)
(* (exchangeFeedbackToLibp2p, libp2pConsensusMessageValidator, ignoreMessage *)
(* and the background loop), tm/tmp2p/tmp2ptest/daisychainnetwork.go         *)
(* (background, handleMessage).                                              *)
EXTENDS Integers

\* gexchange.Feedback (uint8)
FbUnspecified == 0
FbAccepted == 1
FbRejected == 2
FbIgnored == 3
FbRejectAndDisconnect == 4
FbAll == 0..255
NoCall == -1              \* "the handler was not invoked"

\* connection.go: exchangeFeedbackToLibp2p -- a switch with an ignore default.
FeedbackToLibp2p(f) ==
  CASE f = FbAccepted -> "accept"
    [] f = FbRejected -> "reject"
    [] f = FbIgnored  -> "ignore"
    [] OTHER          -> "ignore"

\* daisychainnetwork.go: handleMessage -- `!= FeedbackAccepted` returns without relaying.
DaisyRelays(f) == f = FbAccepted

\* The property's reading of the mapping (what FeedbackMapping requires of any implementation):
\* only Accepted is relayed; values that are not one of the defined constants are treated as ignore.
MappingOK(f, res) ==
  /\ (res = "accept") <=> (f = FbAccepted)
  /\ (f > FbRejectAndDisconnect) => res = "ignore"

\* B's handlers are scripted by the harness.
HandlerKinds == {"script", "rejectAll", "acceptAll", "ignoreAllH"}
\* A message class: how the payload decodes, which variant it carries, and the feedback the
\* "script" handler returns for it.
Verdict(h, c) ==
  CASE h = "script"     -> c.fb
    [] h = "rejectAll"  -> FbRejected
    [] h = "acceptAll"  -> FbAccepted
    [] h = "ignoreAllH" -> FbIgnored

\* Slot value that results from SetConsensusHandler(h).
\* libp2p: a nil handler registers the ignoreMessage validator; daisy: h is stored as is.
Target(tr, h) == IF tr = "libp2p" /\ h = "nil" THEN "ignoreAll" ELSE h

\* What B does with a message of class c when the validator slot value captured for it is v.
\*   libp2p slot values: "none"      no validator registered yet (NewConnection has subscribed,
\*                                   background has not yet registered ignoreMessage)
\*                       "ignoreAll" the ignoreMessage validator
\*                       "unreg"     between UnregisterTopicValidator and RegisterTopicValidator
\*                       h \in HandlerKinds  libp2pConsensusMessageValidator(h)
\*   daisy slot values:  "nil" | h \in HandlerKinds
\* dev: set of as-is deviations in force.
Outcome(tr, dev, v, c) ==
  IF tr = "libp2p" THEN
    CASE v \in {"none", "unreg"} ->
           \* pubsub finds no topic validator: the (signed) message passes straight to sendMsg
           [called |-> FALSE, f |-> NoCall, res |-> "novalidator", relay |-> TRUE,
            why |-> IF v = "none" THEN "StartupWindow" ELSE "SwapWindow"]
      [] v = "ignoreAll" ->
           [called |-> FALSE, f |-> NoCall, res |-> "ignore", relay |-> FALSE, why |-> "-"]
      [] OTHER ->
           IF c.dec = "undecodable" THEN
             [called |-> FALSE, f |-> NoCall, res |-> "ignore", relay |-> FALSE, why |-> "-"]
           ELSE IF c.dec = "empty" THEN   \* no variant set: "in this case reject it"
             [called |-> FALSE, f |-> NoCall, res |-> FeedbackToLibp2p(FbRejected),
              relay |-> FeedbackToLibp2p(FbRejected) = "accept", why |-> "-"]
           ELSE LET f == Verdict(v, c) IN
             [called |-> TRUE, f |-> f, res |-> FeedbackToLibp2p(f),
              relay |-> FeedbackToLibp2p(f) = "accept",
              why |-> IF FeedbackToLibp2p(f) = "accept" THEN "accepted" ELSE "-"]
  ELSE
    IF v = "nil" THEN
      \* "No handler. ... Pass the message through."
      [called |-> FALSE, f |-> NoCall, res |-> "passthrough",
       relay |-> "NilPassThrough" \in dev, why |-> IF "NilPassThrough" \in dev THEN "NilPassThrough" ELSE "-"]
    ELSE LET f == Verdict(v, c) IN
      [called |-> TRUE, f |-> f, res |-> IF DaisyRelays(f) THEN "accept" ELSE "drop",
       relay |-> DaisyRelays(f), why |-> IF DaisyRelays(f) THEN "accepted" ELSE "-"]
=============================================================================
