\* proposed-fix variant: full Complete
CONSTANTS
  Val = {}
  Byz = {}
  Heavy = {}
  HeavyPow = 1
  MaxSigs = 1
  HashSeq <- THS
  NilT = "NilT"
  MaxH = 0
  MaxR = 0
  Kinds = {}
  Fixed = TRUE
  Restart = FALSE
  MaxUpdates = 0
  MaxGap = 0
  MaxEvents = 0
INIT TInit
NEXT TNext
INVARIANTS Sound Complete
POSTCONDITION TraceDone
CHECK_DEADLOCK FALSE
