

CONSTANTS
  v1 = v1
  v2 = v2
  v3 = v3
  v4 = v4
  v5 = v5
  A = A
  B = B
  C = C
  NilT = NilT
  Val = {v1, v2, v3}
  Byz = {v1}
  Heavy = {v3}
  HeavyPow = 3
  MaxSigs = 1
  HashSeq <- HS2
  MaxH = 2
  MaxR = 1
  Kinds = {"pv", "pc"}
  Fixed = FALSE
  Restart = FALSE
  MaxUpdates = 0
  MaxGap = 0
  MaxEvents = 3
INIT Init
NEXT Next
VIEW mcview
INVARIANTS Complete
CHECK_DEADLOCK FALSE
