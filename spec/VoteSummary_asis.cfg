\* the tree as it is (deviation D1): ReportBad lists every state where a C06 invariant fails (BAD lines)
CONSTANTS
  Configs <- C_asis
  TOrder <- TO4
  DoubleCount = TRUE
  MaxLen = 0
INIT Init
NEXT Next
VIEW view
INVARIANTS TypeOK SumIsCoded AvailableIsSum BlockPowerIsSigners MostVotedIsOracle ReportBad EmitState
CHECK_DEADLOCK FALSE
