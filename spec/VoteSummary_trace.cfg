\* code -> spec: validate what the real Go functions returned (trace.ndjson) against VoteSummary
CONSTANTS
  Configs <- C_asis
  TOrder <- TO4
  DoubleCount = TRUE
  MaxLen = 0
INIT TInit
NEXT TNext
INVARIANTS Conforms ObsPredicates
POSTCONDITION TraceDone
CHECK_DEADLOCK FALSE
