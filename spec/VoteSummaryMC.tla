--------------------------- MODULE VoteSummaryMC ---------------------------
(* TLC parameter sets for VoteSummary (tuples and records cannot be written  *)
(* in a .cfg).  A configuration is [pow, kinds, entries]; a .cfg picks one   *)
(* of the named sets with `Configs <- ...`.                                   *)
EXTENDS VoteSummary

PV_n1 == {<<1>>, <<4>>}
PV_n2 == {<<1,1>>, <<1,2>>, <<2,3>>, <<1,3>>}
PV_n3 == {<<1,1,1>>, <<1,1,2>>, <<1,2,3>>, <<2,2,3>>, <<5,1,1>>}
\* equal powers, a heavy validator, a total that is not a multiple of 3
PV_n4 == {<<1,1,1,1>>, <<3,1,1,1>>, <<2,2,2,1>>}
PV_n4b == {<<7,1,1,1>>, <<1,2,3,4>>, <<5,3,2,1>>, <<3,3,3,1>>}

PV  == {"prevote"}
PC  == {"precommit"}
Single == {PV, PC}
Joint  == {AllKinds}
Cfg(P, K, E) == {[pow |-> p, kinds |-> k, entries |-> e] : p \in P, k \in K, e \in E}

TO3 == <<"nil", "A", "B">>
TO4 == <<"nil", "A", "B", "C">>

\* quick: every single-kind proof map for 4 validators (a total not divisible by 3, a heavy validator),
\* with signature-less entries for 3 validators; both kinds together for 2 validators
C_quick == Cfg({<<2,2,2,1>>}, {PC}, {FALSE}) \cup Cfg({<<3,1,1,1>>}, {PV}, {FALSE})
             \cup Cfg({<<1,1,2>>, <<2,2,3>>}, Single, {TRUE})
             \cup Cfg({<<2,3>>}, Joint, {FALSE})
\* as-is run (DoubleCount = TRUE): smallest spaces that contain the counterexamples
C_asis == Cfg({<<1,3>>}, Single, {FALSE}) \cup Cfg({<<1,1,2>>}, {PC}, {FALSE})   \* with TO4
\* thorough
C_single4 == Cfg(PV_n4 \cup PV_n4b, Single, {TRUE}) \cup Cfg(PV_n1 \cup PV_n2 \cup PV_n3, Single, {TRUE})
C_thoroughA == C_single4 \cup C_quick
C_joint   == Cfg(PV_n2, Joint, {TRUE}) \cup Cfg({<<1,1,2>>, <<2,2,3>>}, Joint, {FALSE})
C_four    == Cfg({<<1,1,1,1>>}, {PC}, {FALSE}) \cup Cfg(PV_n3, Single, {TRUE})   \* with TO4
\* simulation (behaviour export): both kinds, 4 validators
C_sim == Cfg(PV_n4 \cup PV_n4b, Joint, {TRUE})
=============================================================================
