------------------------------ MODULE MapperMC ------------------------------
(* TLC instance of Mapper.  One initial state per row, no transitions (like ThresholdsMC). *)
(* spec -> code: every spec row is exported (Emit) and must have been observed on the real *)
(* mappers with the same feedback (Covered).  code -> spec: every row recorded from the    *)
(* real mappers (mapper_obs.ndjson; including the out-of-range values 0 and N+1) must be   *)
(* the row the spec computes (ObsConforms), and MapperTotal is evaluated on it.            *)
EXTENDS Mapper

ObsSeq  == ndJsonDeserialize("mapper_obs.ndjson")
ObsRows == { [src |-> "obs", mapper |-> ObsSeq[i].mapper, method |-> ObsSeq[i].method, value |-> ObsSeq[i].value,
              name |-> ObsSeq[i].name, fb |-> ObsSeq[i].fb] : i \in DOMAIN ObsSeq }
ObsKeys == { <<o.mapper, o.method, o.value, o.fb>> : o \in ObsRows }

VARIABLE row
Init == row \in SpecRows \cup ObsRows
Next == FALSE /\ UNCHANGED row

MapperTotal == TotalRow(row)

(* `\/ PrintT(..)` lists every disagreement instead of stopping at the first one.          *)
ObsConforms == (row.src = "obs" /\ InRange(row)) =>
                 \/ (row.name = Results(row.method)[row.value] /\ row.fb = Map(row.mapper, row.method, row.name))
                 \/ PrintT("NONCONF " \o ToJson(row))
ObsOutOfRange == (row.src = "obs" /\ ~InRange(row)) =>
                 \/ row.fb = "PANIC"           \* unknown value: the default branch
                 \/ PrintT("NONCONF " \o ToJson(row))
Covered == row.src = "spec" =>
                 \/ <<row.mapper, row.method, row.value, row.fb>> \in ObsKeys
                 \/ PrintT("UNCOVERED " \o ToJson(row))
Emit == row.src = "spec" => PrintT("BEH " \o ToJson(row))
=============================================================================
