\* behaviour export (spec -> code replay); every behaviour of MaxHist operations, or up to the named deviation
CONSTANTS
  NS = 2
  NT = 2
  Tables <- AllTables
  MaxPending = 99
  MaxHist = 4
  KeepHist = TRUE
  ByValueInvalidation = TRUE
INIT Init
NEXT NextEmit
INVARIANTS Emit
CHECK_DEADLOCK FALSE
