CONSTANTS
  MaxTimers = 2
  Dev = {"StartBeatsCancel", "TickBeatsCancel", "CloseNotAtomic"}
  GoTimer = "sync"
  Disciplined = TRUE
  WithCtx = FALSE
  MaxLen = 99
INIT Init
NEXT Next
INVARIANTS Emit
CHECK_DEADLOCK FALSE
