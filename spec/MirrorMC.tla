------------------------------ MODULE MirrorMC ------------------------------
(* TLC instance of Mirror: sequential driver (one complete API call per      *)
(* step, any crash point inside it), bounded message universes generated     *)
(* into MirrorWorld.tla by /verif/checks/mirror_worlds.py, the property      *)
(* predicates of C01 C04 C05 C06 C07 C10 C11 as invariants/action            *)
(* properties, and the export of behaviours for replay on the real code.     *)
EXTENDS Mirror, MirrorWorld, Json

CONSTANTS MaxSteps,        \* bound on Len(hist)
          AllowCrash,      \* BOOLEAN: crash/restart actions enabled
          EmitAll,         \* BOOLEAN: print every maximal behaviour (emit configs only)
          AvoidPanics,     \* BOOLEAN: do not take steps that panic the process (deep exploration past known findings)
          Guide            \* <<>> or a sequence of [op, args, crashAt]: follow exactly this behaviour (replay of a stored case)

-----------------------------------------------------------------------------
Up == ks # DownKS /\ pan = ""

ProjProofs(p) == {[t |-> t, s |-> p[t]] : t \in DOMAIN p}
ProjPHs(P) == {[hdr |-> p.hdr, prop |-> p.prop] : p \in P}
ProjView(v) == [h |-> v.h, r |-> v.r, vs |-> v.vs, phs |-> ProjPHs(v.phs),
                pv |-> ProjProofs(v.pv), pc |-> ProjProofs(v.pc),
                pcpR |-> v.pcp.r, pcp |-> ProjProofs(v.pcp.proofs)]
ProjStores(s) == [nhr |-> [vh |-> s.nhr[1], vr |-> s.nhr[2], ch |-> s.nhr[3], cr |-> s.nhr[4]],
                  hdr |-> {[h |-> h, hdr |-> s.hdr[h].hdr, r |-> s.hdr[h].r, proofs |-> ProjProofs(s.hdr[h].proofs)] : h \in DOMAIN s.hdr},
                  round |-> {[h |-> hr[1], r |-> hr[2], phs |-> ProjPHs(s.round[hr].phs),
                              replayed |-> {l \in ReplayedAt(s, hr[1]) : l \in DOMAIN s.round[hr].pc},
                              pv |-> ProjProofs(s.round[hr].pv), pc |-> ProjProofs(s.round[hr].pc)] : hr \in DOMAIN s.round}]
Proj(k, s) ==
  IF k = DownKS THEN [down |-> TRUE, st |-> ProjStores(s)]
  ELSE [down |-> FALSE, C |-> ProjView(k.C), V |-> ProjView(k.V), N |-> ProjView(k.N), ch |-> k.ch,
        vers |-> [c |-> k.C.ver, v |-> k.V.ver, n |-> k.N.ver],
        inflight |-> k.inflight,
        sm |-> [reH |-> k.smm.reH, reR |-> k.smm.reR, lastSent |-> k.smm.lastSent, jump |-> k.smm.jump,
                out |-> [h |-> k.smm.outH, r |-> k.smm.outR, ver |-> k.smm.outVer], hc |-> k.smm.hc],
        smOut |-> SMOutput(k), gsOut |-> GossipOutput(k),
        st |-> ProjStores(s)]

\* apply the result x of a complete step; crashAt = 0 means no crash, j > 0 means the process
\* dies right after the j-th store write of the step (memory lost, later writes not done)
Apply(x, op, args, crashAt) ==
  /\ crashAt <= Len(x.wlog)
  /\ (AvoidPanics => x.pan = "")
  /\ (Guide # <<>> => /\ Len(hist) <= Len(Guide)
                      /\ Guide[Len(hist)].op = op /\ Guide[Len(hist)].args = args /\ Guide[Len(hist)].crashAt = crashAt)
  /\ IF crashAt > 0
       THEN /\ ks' = DownKS
            /\ st' = x.wlog[crashAt]
            /\ pan' = ""
            /\ out' = [res |-> "crashed", fetch |-> {}]
       ELSE /\ ks' = IF x.pan # "" THEN DownKS ELSE x.k
            /\ st' = x.st
            /\ pan' = x.pan
            /\ out' = [res |-> x.res, fetch |-> x.fetch]
  /\ hist' = Append(hist, [op |-> op, args |-> args, crashAt |-> crashAt, nwrites |-> Len(x.wlog),
                           res |-> IF crashAt > 0 THEN "crashed" ELSE x.res,
                           pan |-> IF crashAt > 0 THEN "" ELSE x.pan,
                           fetch |-> IF crashAt > 0 THEN {} ELSE x.fetch,
                           exp |-> IF EmitAll THEN Proj(ks', st') ELSE NULL])

CrashPoints(x) == IF AllowCrash THEN 0..Len(x.wlog) ELSE {0}

Init ==
  LET x == Boot(InitStores) IN
  /\ ks = x.k /\ st = x.st /\ pan = x.pan
  /\ out = [res |-> NULL, fetch |-> {}]
  /\ hist = <<[op |-> "Boot", args |-> NULL, crashAt |-> 0, nwrites |-> Len(x.wlog), res |-> NULL, pan |-> x.pan,
               fetch |-> {}, exp |-> Proj(x.k, x.st)]>>

DoVote == \E m \in W_VoteMsgs :
            LET x == HandleVote(Ctx0(ks, st), m.kind, m) IN
            \E c \in CrashPoints(x) : Apply(x, "Vote", m, c)

DoPH == \E m \in W_PHMsgs :
            LET x == HandlePH(Ctx0(ks, st), m, 1) IN
            \E c \in CrashPoints(x) : Apply(x, "PH", m, c)

DoReplay == \E m \in W_ReplayMsgs :
            LET x == HandleReplay(Ctx0(ks, st), m) IN
            \E c \in CrashPoints(x) : Apply(x, "Replay", m, c)

DoSMEnter == \E e \in W_SMEntrances :
            /\ <<e.h, e.r>> # <<ks.smm.reH, ks.smm.reR>>
            /\ (e.h > ks.smm.reH \/ (e.h = ks.smm.reH /\ e.r > ks.smm.reR))
            \* the state machine never runs ahead of the mirror by a height or by more than one round
            /\ e.h <= ks.V.h /\ (e.h = ks.V.h => e.r <= ks.V.r + 1) /\ (e.h = ks.C.h => e.r <= ks.C.r + 1)
            /\ LET x == SMEnter(Ctx0(ks, st), e.h, e.r, e.pub) IN Apply(x, "SMEnter", e, 0)

DoSMVote == \E a \in W_SMVotes :
            /\ ks.smm.actions
            /\ LET x == SMVote(Ctx0(ks, st), a.kind, a.target) IN
               \E c \in CrashPoints(x) : Apply(x, "SMVote", a, c)

DoRecvSM == /\ SMOutput(ks) # NoOut
            /\ LET o == SMOutput(ks)
                   x == [Ctx0(SendSM(ks), st) EXCEPT !.res = o] IN Apply(x, "RecvSM", NULL, 0)

DoRecvGossip == /\ GossipOutput(ks) # NoOut
                /\ LET o == GossipOutput(ks)
                       x == [Ctx0(SendGossip(ks), st) EXCEPT !.res = o] IN Apply(x, "RecvGossip", NULL, 0)

DoRestart == /\ ks = DownKS /\ pan = ""
             /\ LET x == Boot(st) IN Apply(x, "Restart", NULL, 0)

Next ==
  /\ Len(hist) < MaxSteps
  /\ \/ (Up /\ (DoVote \/ DoPH \/ DoReplay \/ DoSMEnter \/ DoSMVote \/ DoRecvSM \/ DoRecvGossip))
     \/ (AllowCrash /\ DoRestart)

Spec == Init /\ [][Next]_vars

View == <<ks, st, pan>>     \* hist/out are output-only
\* edge cover: with the last step in the view every reachable (state, event) pair is a distinct state
LastStep == [op |-> hist[Len(hist)].op, args |-> hist[Len(hist)].args, crashAt |-> hist[Len(hist)].crashAt]
EdgeView == <<ks, st, pan, LastStep>>
\* two-edge cover: the last TWO steps are part of the view, so every reachable (state, event, event) triple is a distinct
\* state: an event the model rejects without a trace (a header it refuses) is followed by every other event at least once,
\* which is what shows a change that wrongly ACCEPTED it
StepAt(i) == IF i < 1 THEN NULL ELSE [op |-> hist[i].op, args |-> hist[i].args, crashAt |-> hist[i].crashAt]
Edge2View == <<ks, st, pan, StepAt(Len(hist) - 1), StepAt(Len(hist))>>

-----------------------------------------------------------------------------
(* ---- property predicates (design level; the same predicates are evaluated *)
(*      by the Go harness on the real state with its own oracle) ----------- *)

\* ghost: the validator set the chain prescribes for height h, from the committed chain
ChainVS(s, h) == IF h = InitH THEN GenesisVS
                 ELSE IF (h - 1) \in DOMAIN s.hdr THEN HDR[s.hdr[h - 1].hdr].nvs ELSE "unknown"

\* C01: every committed header is backed by > 2/3 of the prescribed set's power in the proof kept with it.
\* (entries held in views are positions of the set the mirror used; a position is an authentic
\*  signature of the prescribed set's member only when both sets agree on that position)
AuthPositions(s, h, usedVS, P) ==
  LET cv == ChainVS(s, h) IN
  IF cv = "unknown" THEN {} ELSE {i \in P : i <= NPos(cv) /\ i <= NPos(usedVS) /\ Keys(cv)[i] = Keys(usedVS)[i]}

C01_CommitHasCert ==
  \A h \in DOMAIN st.hdr :
     LET e == st.hdr[h]
         cv == ChainVS(st, h)
         signers == IF e.hdr \in DOMAIN e.proofs THEN AuthPositions(st, h, e.pkh, e.proofs[e.hdr]) ELSE {}
     IN cv # "unknown" /\ SumPow(cv, signers) >= Maj(TotalPow(cv))

\* C04: hash-linked, gap-free, voting = committing + 1
C04_Chain ==
  /\ \A h \in DOMAIN st.hdr : h > InitH => (h - 1) \in DOMAIN st.hdr /\ HDR[st.hdr[h].hdr].prev = st.hdr[h - 1].hdr
  /\ \A h \in DOMAIN st.hdr : HDR[st.hdr[h].hdr].h = h
  /\ (Up /\ ks.C.h > 0) => ks.V.h = ks.C.h + 1

C04_Immutable == [][\A h \in DOMAIN st.hdr : h \in DOMAIN st'.hdr /\ st'.hdr[h].hdr = st.hdr[h].hdr]_vars

C04_Monotone == [][(st.nhr # NoNHR /\ st'.nhr # NoNHR) =>
                     (st'.nhr[1] > st.nhr[1] \/ (st'.nhr[1] = st.nhr[1] /\ st'.nhr[2] >= st.nhr[2]))]_vars

\* C05 (inertness): a vote message with no authentic entry changes nothing and is not accepted
NoAuthentic(m) == \A t \in DOMAIN m.proofs : \A e \in m.proofs[t] : e.cls # "ok"
C05_Inert == [][\A i \in 1..1 :
                 (Len(hist') = Len(hist) + 1 /\ hist'[Len(hist')].op = "Vote" /\ NoAuthentic(hist'[Len(hist')].args)
                    /\ hist'[Len(hist')].crashAt = 0)
                 => (st' = st /\ hist'[Len(hist')].res \notin {"Accepted", "FutureVerified"}
                     /\ (ks' # DownKS /\ ks # DownKS => ks'.V = ks.V /\ ks'.N = ks.N /\ ks'.C = ks.C))]_vars

\* C06: the total counts every validator once
C06_Recount ==
  Up => \A slot \in {"V", "N"} :
          LET v == GetView(ks, slot) IN
          /\ TotalAsCoded(v.vs, v.pv) = TotalRecount(v.vs, v.pv) /\ TotalAsCoded(v.vs, v.pv) <= TotalPow(v.vs)
          /\ TotalAsCoded(v.vs, v.pc) = TotalRecount(v.vs, v.pc)

\* C07: the set a view uses is the chain's
C07_ViewVS == Up => /\ ks.V.vs = ChainVS(st, ks.V.h)
                    /\ (ks.C.h >= InitH => ks.C.vs = ChainVS(st, ks.C.h))

\* C11 (design form): what the kernel offers is strictly newer than what was sent, per consumer
C11_SMFresh == Up => LET o == SMOutput(ks) IN
                 (o # NoOut /\ o.vrv # NoVRV) => (o.vrv.ver > ks.smm.lastSent /\ o.vrv.h = ks.smm.reH /\ o.vrv.r = ks.smm.reR)
C11_GossipFresh == Up => LET o == GossipOutput(ks) IN
                 o # NoOut => /\ (o.C => (ks.C.h > ks.gvm.sentC[1] \/ ks.C.r > ks.gvm.sentC[2] \/ ks.C.ver > ks.gvm.sentC[3] \/ ks.C.h # ks.gvm.sentC[1]))
                              /\ (o.V => HRV(ks.V) # ks.gvm.sentV)
                              /\ (o.nilVoted => ks.gvm.nilVoted.h > 0)

\* C09 (mirror part): nothing in the universe panics the kernel
C09_NoPanic == pan = ""

\* C10: restart never fails
C10_RestartOK == [][(ks = DownKS /\ pan = "" /\ ks' # ks) => pan' = ""]_vars

-----------------------------------------------------------------------------
Terminal == Len(hist) = MaxSteps \/ (pan # "")
Emit == (EmitAll /\ Terminal) => PrintT("BEH " \o ToJson(hist))
\* state / edge cover export: one behaviour per distinct state of the chosen VIEW (exhaustive mode)
EmitEvery == (EmitAll /\ Len(hist) > 1) => PrintT("BEH " \o ToJson(hist))
=============================================================================
