----------------------------- MODULE ChattyTrace -----------------------------
(* code -> spec for C17.  trace.ndjson is what the real ChattyStrategy did in  *)
(* the Go harness: per step the NetworkViewUpdate it was given (abstracted) and *)
(* the message groups it really sent.  Every step must be an instance of the   *)
(* strategy kernel of Chatty.tla (Step) producing exactly the logged messages,  *)
(* and the property predicates are evaluated on the logged (real) broadcasts.   *)
(* Fixed selects the strategy variant (as-is count heuristic / proposed fix).   *)
EXTENDS Chatty
THS == <<>>                       \* HashSeq is not used by the trace spec

Trace == ndJsonDeserialize("trace.ndjson")
VARIABLE l
tvars == <<l, ch, offered, seenAll, seenReq>>

Range(f) == {f[i] : i \in DOMAIN f}
CView(v) == [on |-> v.on, h |-> v.h, r |-> v.r, phs |-> Range(v.phs), pv |-> Range(v.pv), pc |-> Range(v.pc)]
CUpd(u)  == [C |-> CView(u.C), V |-> CView(u.V), N |-> CView(u.N), NVR |-> CView(u.NVR)]
NoDup(f) == Cardinality(Range(f)) = Len(f)
CGroup(g) == [k |-> g.k, h |-> g.h, r |-> g.r, items |-> Range(g.items)]
CMsgs(m)  == [i \in 1..Len(m) |-> CGroup(m[i])]
EmptyUpd  == [C |-> NoView, V |-> NoView, N |-> NoView, NVR |-> NoView]

TInit == /\ l = 1
         /\ env = FreshEnv /\ hist = <<>> /\ gap = 0 /\ nev = 0
         /\ ch = InitCh
         /\ offered = {} /\ offeredF = {} /\ seenAll = {} /\ seenReq = {}

Reset == /\ Trace[l].op = "reset"
         /\ ch' = InitCh
         /\ offered' = {} /\ seenAll' = {} /\ seenReq' = {}

\* the real strategy consumed update u and sent exactly the logged groups
Upd == /\ Trace[l].op \in {"update", "empty"}
       /\ LET u    == IF Trace[l].op = "empty" THEN EmptyUpd ELSE CUpd(Trace[l].u)
              st   == Step(Fixed, ch, u)
              real == CMsgs(Trace[l].msgs)
          IN /\ Trace[l].op = "empty" => ch.started
             /\ \A i \in 1..Len(Trace[l].msgs) : NoDup(Trace[l].msgs[i].items)
             /\ real = st.msgs
             /\ ch' = st.ch
             /\ offered' = offered \cup Items(real)        \* the REAL broadcasts
             /\ seenAll' = seenAll \cup UpdAll(u)
             /\ seenReq' = seenReq \cup UpdReq(u)

TNext == /\ l <= Len(Trace)
         /\ l' = l + 1
         /\ (Reset \/ Upd)
         /\ UNCHANGED <<env, hist, gap, nev, offeredF>>

TraceDone == TLCGet("stats").diameter - 1 = Len(Trace)
=============================================================================
