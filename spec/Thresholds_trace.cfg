INIT TInit
NEXT TNext
INVARIANTS TraceOK
POSTCONDITION TraceDone
CHECK_DEADLOCK FALSE
