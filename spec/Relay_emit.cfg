CONSTANTS
  Transport = "libp2p"
  Msgs = {"m1"}
  Kinds = {"ph", "prevote", "precommit"}
  Fbs = {0, 1, 2, 3, 4, 5, 255}
  Decs = {"ok", "two", "empty", "undecodable"}
  SwapHandlers = {"script", "nil"}
  MaxSwaps = 1
  Dev = {"SwapWindow", "NilPassThrough"}
  MaxLen = 14
  Split = FALSE
INIT Init
NEXT Next
INVARIANTS Emit
CHECK_DEADLOCK FALSE
