CONSTANTS
  MaxTimers = 3
  Dev = {}
  GoTimer = "sync"
  Disciplined = TRUE
  WithCtx = FALSE
  MaxLen = 0
SPECIFICATION Spec
INVARIANTS TypeOK CancelledNeverElapses FiresAtMostOnce RestartAfterCancelSucceeds NoLostStart OneTimer DrainUnreachable
PROPERTIES StartAnswered
CHECK_DEADLOCK FALSE
