CONSTANTS
  StoreSet = {"action", "round", "fin", "hdr", "mirror", "sm", "val"}
  Mode = "seq"
  Tier = "quick"
  EmitOn = TRUE
INIT Init
NEXT Next
INVARIANTS TypeOK Contract EmitAll
PROPERTIES Frozen RefusedIsNoop
CHECK_DEADLOCK FALSE
