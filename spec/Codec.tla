------------------------------- MODULE Codec -------------------------------
(* C14 -- the wire codec round-trips every message and never panics.        *)
(*                                                                          *)
(* Anchors: tm/tmcodec/tmjson/codec.go, json.go (intermediate JSON structs  *)
(* with explicit conversions), tm/tmcodec/codec.go (ConsensusMessage: one   *)
(* of three tagged fields), gcrypto/registry.go (8-byte type prefix on      *)
(* public keys), gcrypto/ed25519.go.                                        *)
(*                                                                          *)
(* The module describes (1) the abstract SHAPE space of messages (variant x *)
(* nil/empty/non-empty of every optional field x 0/1/2 validators x 0/1/2   *)
(* proof entries x 0/1/2 signatures x numeric extremes), (2) Encode as the  *)
(* JSON tree tmjson really writes (a function path -> node), (3) Decode as  *)
(* encoding/json + the tmjson conversions do it (schema-driven: null and    *)
(* absent = zero value, unknown keys ignored, type mismatch = error, public *)
(* keys through Registry.Unmarshal), and (4) structural corruption          *)
(* operators on the encoded tree.  TLC enumerates shapes x corruptions,     *)
(* checks RoundTripEq / VariantPreserved / DecodeTotal on the design and    *)
(* exports every case; the Go harness instantiates each on the real codec.  *)
(*                                                                          *)
(* All scalar values are strings (homogeneous records).                     *)
EXTENDS Integers, Sequences, FiniteSets, TLC, Json

CONSTANTS
  RegistryChecksLength, \* TRUE: design.  FALSE: AS-IS DEVIATION "RegistryShortKeyPanics":
                        \* gcrypto.Registry.Unmarshal slices b[:8] without a length check.
  MaxDist,              \* Hamming radius (in fields) around a base shape that is explored
  CorrDist,             \* corruptions are applied to shapes within this radius
  Variants              \* variants explored

AllVariants == {"Header", "ProposedHeader", "CommittedHeader", "PrevoteProof", "PrecommitProof",
                "CM.ProposedHeader", "CM.PrevoteProof", "CM.PrecommitProof"}
Methods == {"Header", "ProposedHeader", "CommittedHeader", "PrevoteProof", "PrecommitProof", "ConsensusMessage"}
Tags == <<"ProposedHeader", "PrevoteProof", "PrecommitProof">>     \* order of the switch in UnmarshalConsensusMessage
TagSet == {Tags[i] : i \in 1..3}

Pres == {"nil", "empty", "val"}
Num == {"0", "1", "max"}            \* max = 2^32-1 for Round, 2^64-1 for Height
Cnt == {"0", "1", "2"}
BlockKeys == {"nilblk", "A", "B"}   \* "nilblk" is the empty-string key (vote for nil)
ProofMaps == UNION {[ks -> Cnt] : ks \in {S \in SUBSET BlockKeys : Cardinality(S) <= 2}}

HdrFields == {"hHash", "hPrev", "hData", "hApp", "hUser", "hDriver", "hHeight", "nv", "nnv",
              "vsPKH", "vsVPH", "nvsPKH", "nvsVPH", "pcpRound", "pcpPKH", "pcpMap"}
PHFields == {"phRound", "ppk", "sig", "paUser", "paDriver"}
PrfFields == {"prfRound", "prfPKH", "prfMap"}
MapFields == {"pcpMap", "prfMap"}
StrFields == (HdrFields \cup PHFields \cup PrfFields \cup {"prfHeight"}) \ MapFields

IsCM(v) == v \in {"CM.ProposedHeader", "CM.PrevoteProof", "CM.PrecommitProof"}
InnerOf(v) == CASE v = "CM.ProposedHeader" -> "ProposedHeader" [] v = "CM.PrevoteProof" -> "PrevoteProof"
                [] v = "CM.PrecommitProof" -> "PrecommitProof" [] OTHER -> v
MethodOf(v) == IF IsCM(v) THEN "ConsensusMessage" ELSE v

FieldsOf(v) == CASE InnerOf(v) = "Header" -> HdrFields
                 [] InnerOf(v) = "ProposedHeader" -> HdrFields \cup PHFields
                 [] InnerOf(v) = "CommittedHeader" -> HdrFields \cup PrfFields
                 [] OTHER -> PrfFields \cup {"prfHeight"}

Dom(f) == CASE f \in {"hHash", "hPrev", "hData", "hApp", "hUser", "hDriver", "sig", "paUser", "paDriver"} -> Pres
            [] f \in {"hHeight", "pcpRound", "phRound", "prfRound", "prfHeight"} -> Num
            [] f \in {"nv", "nnv"} -> Cnt
            [] f \in {"vsPKH", "vsVPH", "nvsPKH", "nvsVPH", "ppk"} -> {"nil", "val"}
            [] f \in {"pcpPKH", "prfPKH"} -> {"empty", "val"}   \* string -> []byte: never nil on the wire
            [] OTHER -> {}

EmptyMap == [k \in {} |-> "0"]
Base(b, v) ==
  IF b = 1
  THEN [variant |-> v, hHash |-> "val", hPrev |-> "val", hData |-> "val", hApp |-> "val", hUser |-> "val",
        hDriver |-> "val", hHeight |-> "1", nv |-> "2", nnv |-> "2", vsPKH |-> "val", vsVPH |-> "val",
        nvsPKH |-> "val", nvsVPH |-> "val", pcpRound |-> "1", pcpPKH |-> "val",
        pcpMap |-> [k \in {"A", "nilblk"} |-> IF k = "A" THEN "2" ELSE "1"],
        phRound |-> "1", ppk |-> "val", sig |-> "val", paUser |-> "val", paDriver |-> "val",
        prfHeight |-> "1", prfRound |-> "1", prfPKH |-> "val",
        prfMap |-> [k \in {"A", "nilblk"} |-> IF k = "A" THEN "2" ELSE "1"]]
  ELSE [variant |-> v, hHash |-> "nil", hPrev |-> "nil", hData |-> "nil", hApp |-> "nil", hUser |-> "nil",
        hDriver |-> "nil", hHeight |-> "0", nv |-> "0", nnv |-> "0", vsPKH |-> "nil", vsVPH |-> "nil",
        nvsPKH |-> "nil", nvsVPH |-> "nil", pcpRound |-> "0", pcpPKH |-> "empty", pcpMap |-> EmptyMap,
        phRound |-> "0", ppk |-> "nil", sig |-> "nil", paUser |-> "nil", paDriver |-> "nil",
        prfHeight |-> "0", prfRound |-> "0", prfPKH |-> "empty", prfMap |-> EmptyMap]

-----------------------------------------------------------------------------
(* JSON tree: function from paths (sequences of strings) to nodes [t, v].   *)
(* t: "obj" | "arr" (v = arity) | "b64" (v = "empty" | "val" | "pk_*") |    *)
(*    "num" (v = "0" | "1" | "max" | "neg" | "huge" | "float") | "null" |   *)
(*    "str" (not base64) | "bool".  Array elements of proof lists are keyed *)
(* by their block key (the decoder builds a map), validators / signatures   *)
(* by index.                                                                *)
Leaf(t, v) == [t |-> t, v |-> v]
LNull == Leaf("null", "-")
LObj == Leaf("obj", "-")
LArr(n) == Leaf("arr", n)
LBytes(p) == IF p = "nil" THEN LNull ELSE Leaf("b64", p)
LNum(n) == Leaf("num", n)
LPk == Leaf("b64", "pk_ok")
Idx(n) == IF n = "0" THEN {} ELSE IF n = "1" THEN {"0"} ELSE {"0", "1"}
MergeF(S) == LET D == UNION {DOMAIN f : f \in S} IN [p \in D |-> (CHOOSE f \in S : p \in DOMAIN f)[p]]

EncSigs(pre, n) ==
  LET D == {pre} \cup {pre \o <<j>> : j \in Idx(n)} \cup {pre \o <<j, g>> : j \in Idx(n), g \in {"KeyID", "Sig"}}
  IN [p \in D |-> IF p = pre THEN LArr(n) ELSE IF Len(p) = Len(pre) + 1 THEN LObj ELSE Leaf("b64", "val")]
EncEntries(pre, m) ==
  (pre :> LArr(ToString(Cardinality(DOMAIN m))))
  @@ MergeF({ (pre \o <<k>> :> LObj)
              @@ (pre \o <<k, "BlockHash">> :> Leaf("b64", IF k = "nilblk" THEN "empty" ELSE "val"))
              @@ EncSigs(pre \o <<k, "Signatures">>, m[k]) : k \in DOMAIN m })
EncValSet(pre, n, pkh, vph) ==
  (pre :> LObj) @@ (pre \o <<"PubKeyHash">> :> LBytes(pkh)) @@ (pre \o <<"VotePowerHash">> :> LBytes(vph))
  @@ (pre \o <<"Validators">> :> LArr(n))
  @@ MergeF({ (pre \o <<"Validators", i>> :> LObj) @@ (pre \o <<"Validators", i, "PubKey">> :> LPk)
              @@ (pre \o <<"Validators", i, "Power">> :> LNum("1")) : i \in Idx(n) })
EncCommitProof(pre, round, pkh, m) ==
  (pre :> LObj) @@ (pre \o <<"Round">> :> LNum(round)) @@ (pre \o <<"PubKeyHash">> :> LBytes(pkh))
  @@ EncEntries(pre \o <<"Commits">>, m)
EncHeader(pre, s) ==
  (pre :> LObj)
  @@ (pre \o <<"Hash">> :> LBytes(s.hHash)) @@ (pre \o <<"PrevBlockHash">> :> LBytes(s.hPrev))
  @@ (pre \o <<"Height">> :> LNum(s.hHeight))
  @@ (pre \o <<"DataID">> :> LBytes(s.hData)) @@ (pre \o <<"PrevAppStateHash">> :> LBytes(s.hApp))
  @@ (pre \o <<"UserAnnotation">> :> LBytes(s.hUser)) @@ (pre \o <<"DriverAnnotation">> :> LBytes(s.hDriver))
  @@ EncCommitProof(pre \o <<"PrevCommitProof">>, s.pcpRound, s.pcpPKH, s.pcpMap)
  @@ EncValSet(pre \o <<"ValidatorSet">>, s.nv, s.vsPKH, s.vsVPH)
  @@ EncValSet(pre \o <<"NextValidatorSet">>, s.nnv, s.nvsPKH, s.nvsVPH)
EncPH(pre, s) ==
  (pre :> LObj) @@ EncHeader(pre \o <<"Header">>, s)
  @@ (pre \o <<"Round">> :> LNum(s.phRound))
  @@ (pre \o <<"ProposerPubKey">> :> IF s.ppk = "nil" THEN LNull ELSE LPk)
  @@ (pre \o <<"Signature">> :> LBytes(s.sig))
  @@ (pre \o <<"UserAnnotation">> :> LBytes(s.paUser)) @@ (pre \o <<"DriverAnnotation">> :> LBytes(s.paDriver))
EncCH(pre, s) ==
  (pre :> LObj) @@ EncHeader(pre \o <<"Header">>, s)
  @@ EncCommitProof(pre \o <<"Proof">>, s.prfRound, s.prfPKH, s.prfMap)
EncSparse(pre, s) ==
  (pre :> LObj) @@ (pre \o <<"Height">> :> LNum(s.prfHeight)) @@ (pre \o <<"Round">> :> LNum(s.prfRound))
  @@ (pre \o <<"PubKeyHash">> :> LBytes(s.prfPKH)) @@ EncEntries(pre \o <<"Proofs">>, s.prfMap)
EncInner(iv, pre, s) == CASE iv = "Header" -> EncHeader(pre, s)
                          [] iv = "ProposedHeader" -> EncPH(pre, s)
                          [] iv = "CommittedHeader" -> EncCH(pre, s)
                          [] OTHER -> EncSparse(pre, s)
Encode(s) == IF IsCM(s.variant)
             THEN (<< >> :> LObj) @@ EncInner(InnerOf(s.variant), <<InnerOf(s.variant)>>, s)
             ELSE EncInner(s.variant, << >>, s)

-----------------------------------------------------------------------------
(* Schemas of the intermediate JSON structs (json.go / codec.go).           *)
S0 == [k |-> "leaf", f |-> << >>, el |-> 0]
SBytes == [S0 EXCEPT !.k = "bytes"]
SNum == [S0 EXCEPT !.k = "num"]
SPk == [S0 EXCEPT !.k = "pk"]
SObj(f) == [k |-> "obj", f |-> f, el |-> 0]
SArr(el) == [k |-> "arr", f |-> << >>, el |-> el]
SSig == SObj([KeyID |-> SBytes, Sig |-> SBytes])
SEntry == SObj([BlockHash |-> SBytes, Signatures |-> SArr(SSig)])
SCommitProof == SObj([Round |-> SNum, PubKeyHash |-> SBytes, Commits |-> SArr(SEntry)])
SValidator == SObj([PubKey |-> SPk, Power |-> SNum])
SValSet == SObj([Validators |-> SArr(SValidator), PubKeyHash |-> SBytes, VotePowerHash |-> SBytes])
SHeader == SObj([Hash |-> SBytes, PrevBlockHash |-> SBytes, Height |-> SNum, PrevCommitProof |-> SCommitProof,
                 ValidatorSet |-> SValSet, NextValidatorSet |-> SValSet, DataID |-> SBytes,
                 PrevAppStateHash |-> SBytes, UserAnnotation |-> SBytes, DriverAnnotation |-> SBytes])
SPH == SObj([Header |-> SHeader, Round |-> SNum, ProposerPubKey |-> SPk, Signature |-> SBytes,
             UserAnnotation |-> SBytes, DriverAnnotation |-> SBytes])
SCH == SObj([Header |-> SHeader, Proof |-> SCommitProof])
SSparse == SObj([Height |-> SNum, Round |-> SNum, PubKeyHash |-> SBytes, Proofs |-> SArr(SEntry)])
SchemaOf(m) == CASE m = "Header" -> SHeader [] m = "ProposedHeader" -> SPH [] m = "CommittedHeader" -> SCH
                 [] OTHER -> SSparse

RECURSIVE TypeAt(_, _)
TypeAt(sc, p) ==
  IF p = << >> THEN sc.k
  ELSE IF sc.k = "obj" THEN (IF Head(p) \in DOMAIN sc.f THEN TypeAt(sc.f[Head(p)], Tail(p)) ELSE "ignored")
  ELSE IF sc.k = "arr" THEN TypeAt(sc.el, Tail(p))
  ELSE "ignored"

\* encoding/json: null never fails; otherwise the JSON type must fit the Go type.
Compatible(l, k) ==
  \/ l.t = "null"
  \/ k = "obj" /\ l.t = "obj"
  \/ k = "arr" /\ l.t = "arr"
  \/ k \in {"bytes", "pk"} /\ l.t = "b64"
  \/ k \in {"bytes", "pk"} /\ l.t = "arr" /\ l.v = "0"     \* []byte also accepts a JSON array of numbers; [] = empty
  \/ k = "num" /\ l.t = "num" /\ l.v \in Num

Get(tr, p) == IF p \in DOMAIN tr THEN tr[p] ELSE Leaf("absent", "-")
Zeroish(l) == l.t \in {"absent", "null"}
JsonErrs(tr, sc) == {p \in DOMAIN tr : LET k == TypeAt(sc, p) IN k # "ignored" /\ ~Compatible(tr[p], k)}

\* Registry.Unmarshal on the decoded bytes of a public-key string.
PkClass(l) == IF Zeroish(l) THEN "short"
              ELSE IF l.v \in {"pk_ok", "pk_shortbody", "pk_trunc8"} THEN "ok"
              ELSE IF l.v \in {"pk_badprefix", "val"} THEN "badprefix"
              ELSE "short"                \* "empty", "pk_trunc0" .. "pk_trunc7"
\* raw result "short": the encoding is shorter than the 8-byte prefix.  Design: error.  As-is
\* deviation RegistryShortKeyPanics: b[:prefixSize] panics.
PkResult(c) == IF c = "ok" THEN "value" ELSE IF c = "badprefix" THEN "error" ELSE "short"
Resolve(o, rcl) == IF o = "short" THEN (IF rcl THEN "error" ELSE "panic") ELSE o
\* conversion sites: every element of a Validators array (jsonValidator.ToValidator always calls
\* reg.Unmarshal, also for a null element or an absent/null PubKey), and ProposerPubKey when non-nil.
PkSiteResults(tr, sc) ==
  {PkResult(IF tr[p].t = "null" THEN "short" ELSE PkClass(Get(tr, p \o <<"PubKey">>))) :
       p \in {q \in DOMAIN tr : Len(q) >= 2 /\ q[Len(q) - 1] = "Validators" /\ TypeAt(sc, q) = "obj"}}
  \cup {PkResult(PkClass(tr[p])) :
       p \in {q \in DOMAIN tr : TypeAt(sc, q) = "pk" /\ q[Len(q)] = "ProposerPubKey" /\ ~Zeroish(tr[q])}}

TreeOutcome(tr, m) ==     \* m: a non-CM method; tr: tree whose root is the message object
  LET sc == SchemaOf(m) IN
  IF JsonErrs(tr, sc) # {} THEN "error"
  ELSE LET R == PkSiteResults(tr, sc) IN
       IF "short" \in R THEN "short" ELSE IF "error" \in R THEN "error" ELSE "value"

IsPrefix(a, x) == Len(a) <= Len(x) /\ SubSeq(x, 1, Len(a)) = a
Sub(tr, pre) == [q \in {SubSeq(p, Len(pre) + 1, Len(p)) : p \in {x \in DOMAIN tr : IsPrefix(pre, x)}} |-> tr[pre \o q]]
FirstTag(tr) == IF <<Tags[1]>> \in DOMAIN tr THEN Tags[1] ELSE IF <<Tags[2]>> \in DOMAIN tr THEN Tags[2]
                ELSE IF <<Tags[3]>> \in DOMAIN tr THEN Tags[3] ELSE "none"

\* doc = [kind, tr]: kind "object" is a syntactically valid JSON object; the others are document-level damage.
DocOutcome(doc, m) ==
  IF doc.kind = "null" THEN "value"                       \* json null: no effect, zero value
  ELSE IF doc.kind # "object" THEN "error"                \* syntax error / wrong top-level type
  ELSE IF m # "ConsensusMessage" THEN TreeOutcome(doc.tr, m)
  ELSE LET t == FirstTag(doc.tr) IN
       IF t = "none" THEN "value"                         \* no field set: undefined message, no error
       ELSE IF doc.tr[<<t>>].t = "null" THEN "value"      \* RawMessage("null") is non-nil; inner zero value
       ELSE IF doc.tr[<<t>>].t # "obj" THEN "error"
       ELSE TreeOutcome(Sub(doc.tr, <<t>>), t)
DocVariant(doc, m) == IF m = "ConsensusMessage" /\ doc.kind = "object" THEN FirstTag(doc.tr) ELSE "none"

-----------------------------------------------------------------------------
(* Decode of an undamaged tree back to a shape (design-level round trip).   *)
DB(tr, p) == LET l == Get(tr, p) IN IF Zeroish(l) THEN "nil" ELSE l.v
DN(tr, p) == LET l == Get(tr, p) IN IF Zeroish(l) THEN "0" ELSE l.v
DMap(tr, p) == [k \in {q[Len(q)] : q \in {x \in DOMAIN tr : Len(x) = Len(p) + 1 /\ IsPrefix(p, x)}} |->
                  DN(tr, p \o <<k, "Signatures">>)]
DecHeader(tr, pre) ==
  LET hasPcp == ~Zeroish(Get(tr, pre \o <<"PrevCommitProof", "PubKeyHash">>)) IN  \* json.go: proof only if PubKeyHash != nil
  [hHash |-> DB(tr, pre \o <<"Hash">>), hPrev |-> DB(tr, pre \o <<"PrevBlockHash">>),
   hData |-> DB(tr, pre \o <<"DataID">>), hApp |-> DB(tr, pre \o <<"PrevAppStateHash">>),
   hUser |-> DB(tr, pre \o <<"UserAnnotation">>), hDriver |-> DB(tr, pre \o <<"DriverAnnotation">>),
   hHeight |-> DN(tr, pre \o <<"Height">>),
   nv |-> DN(tr, pre \o <<"ValidatorSet", "Validators">>), nnv |-> DN(tr, pre \o <<"NextValidatorSet", "Validators">>),
   vsPKH |-> DB(tr, pre \o <<"ValidatorSet", "PubKeyHash">>), vsVPH |-> DB(tr, pre \o <<"ValidatorSet", "VotePowerHash">>),
   nvsPKH |-> DB(tr, pre \o <<"NextValidatorSet", "PubKeyHash">>), nvsVPH |-> DB(tr, pre \o <<"NextValidatorSet", "VotePowerHash">>),
   pcpRound |-> IF hasPcp THEN DN(tr, pre \o <<"PrevCommitProof", "Round">>) ELSE "0",
   pcpPKH |-> IF hasPcp THEN DB(tr, pre \o <<"PrevCommitProof", "PubKeyHash">>) ELSE "empty",
   pcpMap |-> IF hasPcp THEN DMap(tr, pre \o <<"PrevCommitProof", "Commits">>) ELSE EmptyMap]
DecPrf(tr, pre, list) ==
  [prfRound |-> DN(tr, pre \o <<"Round">>),
   prfPKH |-> LET x == DB(tr, pre \o <<"PubKeyHash">>) IN IF x = "nil" THEN "empty" ELSE x,   \* string(nil) = ""
   prfMap |-> DMap(tr, pre \o <<list>>)]
DecShape(tr, iv) ==
  CASE iv = "Header" -> DecHeader(tr, << >>)
    [] iv = "ProposedHeader" -> DecHeader(tr, <<"Header">>) @@
         [phRound |-> DN(tr, <<"Round">>), ppk |-> (IF Zeroish(Get(tr, <<"ProposerPubKey">>)) THEN "nil" ELSE "val"),
          sig |-> DB(tr, <<"Signature">>), paUser |-> DB(tr, <<"UserAnnotation">>), paDriver |-> DB(tr, <<"DriverAnnotation">>)]
    [] iv = "CommittedHeader" -> DecHeader(tr, <<"Header">>) @@ DecPrf(tr, <<"Proof">>, "Commits")
    [] OTHER -> DecPrf(tr, << >>, "Proofs") @@ [prfHeight |-> DN(tr, <<"Height">>)]

-----------------------------------------------------------------------------
(* Structural corruption operators on an encoded tree.                       *)
NoCorr == [op |-> "-", path |-> << >>, arg |-> "-"]
Parent(p) == SubSeq(p, 1, Len(p) - 1)
Digits == {"0", "1", "2", "3", "4", "5", "6", "7", "8"}
CorrOps == {"drop", "null", "retype", "pk_trunc", "pk_badprefix", "pk_shortbody", "num", "doc", "tag_swap", "tag_two"}
RetypeArgs == {"num", "str", "obj", "arr", "bool"}
NumArgs == {"neg", "huge", "float"}
DocArgs == {"truncate", "empty", "null", "array", "string", "number", "garbage"}
CorrArgs == {"-"} \cup RetypeArgs \cup Digits \cup NumArgs \cup DocArgs \cup TagSet
\* Which corruption records are operators of the specification on tree tr (cm: consensus-message document).
LegalCorr(tr, c, cm) ==
  \/ c.op = "doc" /\ c.path = << >> /\ c.arg \in DocArgs
  \/ /\ c.path \in DOMAIN tr /\ c.path # << >>
     /\ \/ c.op = "drop" /\ c.arg = "-" /\ tr[Parent(c.path)].t = "obj"
        \/ c.op = "null" /\ c.arg = "-"
        \/ c.op = "retype" /\ c.arg \in RetypeArgs
        \/ c.op = "pk_trunc" /\ c.arg \in Digits /\ tr[c.path].v = "pk_ok"
        \/ c.op \in {"pk_badprefix", "pk_shortbody"} /\ c.arg = "-" /\ tr[c.path].v = "pk_ok"
        \/ c.op = "num" /\ c.arg \in NumArgs /\ tr[c.path].t = "num"
        \/ cm /\ c.op \in {"tag_swap", "tag_two"} /\ c.path = <<FirstTag(tr)>> /\ c.arg \in TagSet \ {FirstTag(tr)}
Corrs(tr, cm) == {c \in [op : CorrOps, path : DOMAIN tr, arg : CorrArgs] : LegalCorr(tr, c, cm)}

Without(tr, p, strict) == [q \in {x \in DOMAIN tr : ~(IsPrefix(p, x) /\ (~strict \/ x # p))} |-> tr[q]]
Retyped(a) == CASE a = "num" -> LNum("1") [] a = "str" -> Leaf("str", "-") [] a = "obj" -> LObj
                [] a = "arr" -> LArr("0") [] OTHER -> Leaf("bool", "-")
ApplyTree(tr, c) ==
  CASE c.op = "drop" -> Without(tr, c.path, FALSE)
    [] c.op = "null" -> [Without(tr, c.path, TRUE) EXCEPT ![c.path] = LNull]
    [] c.op = "retype" -> [Without(tr, c.path, TRUE) EXCEPT ![c.path] = Retyped(c.arg)]
    [] c.op = "pk_trunc" -> [tr EXCEPT ![c.path] = Leaf("b64", "pk_trunc" \o c.arg)]
    [] c.op \in {"pk_badprefix", "pk_shortbody"} -> [tr EXCEPT ![c.path] = Leaf("b64", c.op)]
    [] c.op = "num" -> [tr EXCEPT ![c.path] = LNum(c.arg)]
    [] c.op = "tag_swap" ->
         LET inner == Sub(tr, c.path) IN
         (<< >> :> LObj) @@ [p \in {<<c.arg>> \o q : q \in DOMAIN inner} |-> inner[Tail(p)]]
    [] c.op = "tag_two" ->
         LET inner == Sub(tr, c.path) IN
         tr @@ [p \in {<<c.arg>> \o q : q \in DOMAIN inner} |-> inner[Tail(p)]]
    [] OTHER -> tr
Apply(tr, c) == [kind |-> IF c.op = "doc" THEN c.arg ELSE "object", tr |-> ApplyTree(tr, c)]

-----------------------------------------------------------------------------
VARIABLES base, shape, corr
vars == <<base, shape, corr>>

Dist(s, g) == Cardinality({f \in FieldsOf(s.variant) : s[f] # g[f]})
Init == /\ base \in {1, 2} /\ \E v \in Variants : shape = Base(base, v)
        /\ corr = NoCorr
Edit == /\ corr = NoCorr
        /\ \/ \E f \in StrFields \cap FieldsOf(shape.variant) : \E x \in Dom(f) \ {shape[f]} :
                shape' = [shape EXCEPT ![f] = x]
           \/ \E f \in MapFields \cap FieldsOf(shape.variant) : \E x \in ProofMaps \ {shape[f]} :
                shape' = [shape EXCEPT ![f] = x]
        /\ Dist(shape', Base(base, shape.variant)) <= MaxDist
        /\ UNCHANGED <<base, corr>>
Corrupt == /\ corr = NoCorr
           /\ Dist(shape, Base(base, shape.variant)) <= CorrDist
           /\ corr' \in Corrs(Encode(shape), IsCM(shape.variant))
           /\ UNCHANGED <<base, shape>>
Next == Edit \/ Corrupt

\* ---- properties (design level) ----
TypeOK == /\ shape.variant \in AllVariants
          /\ \A f \in StrFields : shape[f] \in Dom(f)
          /\ \A f \in MapFields : shape[f] \in ProofMaps
OutcomesOf(doc) == [Header |-> DocOutcome(doc, "Header"), ProposedHeader |-> DocOutcome(doc, "ProposedHeader"),
                    CommittedHeader |-> DocOutcome(doc, "CommittedHeader"), PrevoteProof |-> DocOutcome(doc, "PrevoteProof"),
                    PrecommitProof |-> DocOutcome(doc, "PrecommitProof"), ConsensusMessage |-> DocOutcome(doc, "ConsensusMessage")]
\* decoding the encoder's output gives back the shape, with the method of the variant, without error
RoundTripEqOn(s, tr, outs) ==
   LET m == MethodOf(s.variant) iv == InnerOf(s.variant)
       inner == IF IsCM(s.variant) THEN Sub(tr, <<iv>>) ELSE tr
       d == DecShape(inner, iv) IN
   /\ outs[m] = "value"
   /\ \A f \in FieldsOf(s.variant) : d[f] = s[f]
VariantPreservedOn(s, doc) == IsCM(s.variant) => DocVariant(doc, "ConsensusMessage") = InnerOf(s.variant)
\* every Unmarshal method, on every enumerated document: error or value -- never a panic.
DecodeTotalOn(outs, rcl) == \A m \in Methods : Resolve(outs[m], rcl) # "panic"
\* the as-is deviation, exactly: a panic iff some public-key encoding is shorter than the prefix
KnownPanic(outs) == \E m \in Methods : outs[m] = "short"
Resolved(outs, rcl) == [m \in Methods |-> Resolve(outs[m], rcl)]

MapJson(m) == {[key |-> k, n |-> m[k]] : k \in DOMAIN m}
ShapeJson(s) == [s EXCEPT !.pcpMap = MapJson(s.pcpMap), !.prfMap = MapJson(s.prfMap)]
\* One invariant evaluates the document once, asserts the named predicates and exports the case
\* (DoEmit = FALSE in the pure model-checking configuration).
CONSTANT DoEmit
Check ==
  LET tr == Encode(shape)
      doc == Apply(tr, corr)
      outs == OutcomesOf(doc)
      valid == corr = NoCorr IN
  /\ Assert(valid => RoundTripEqOn(shape, tr, outs), "RoundTripEq")
  /\ Assert(valid => VariantPreservedOn(shape, doc), "VariantPreserved")
  /\ Assert(valid => ~KnownPanic(outs), "DecodeTotal on a valid encoding (both variants)")
  /\ Assert(DecodeTotalOn(outs, TRUE), "DecodeTotal (design)")
  /\ Assert(DecodeTotalOn(outs, FALSE) <=> ~KnownPanic(outs), "as-is deviation not characterised")
  /\ (DoEmit => PrintT("BEH " \o ToJson([op |-> IF valid THEN "shape" ELSE "corrupt", base |-> base,
                                 shape |-> ShapeJson(shape), corr |-> corr,
                                 exp_asis |-> Resolved(outs, FALSE), exp_design |-> Resolved(outs, TRUE),
                                 variant |-> DocVariant(doc, "ConsensusMessage")])))
=============================================================================
