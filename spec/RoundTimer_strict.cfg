CONSTANTS
  MaxTimers = 2
  Dev = {"StartBeatsCancel", "TickBeatsCancel", "CloseNotAtomic"}
  GoTimer = "sync"
  Disciplined = TRUE
  WithCtx = FALSE
  MaxLen = 0
INIT Init
NEXT Next
INVARIANTS TypeOK CancelledNeverElapses FiresAtMostOnce RestartAfterCancelSucceeds NoLostStart
CHECK_DEADLOCK FALSE
