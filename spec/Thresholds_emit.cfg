CONSTANTS
  NMax = 3000
  TraceFile = "none"
INIT Init
NEXT Next
INVARIANTS Emit
CHECK_DEADLOCK FALSE
