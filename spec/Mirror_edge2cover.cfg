CONSTANTS
  ValsetDef <- W_Valsets
  GenesisVS <- W_Genesis
  HDR <- W_HDR
  Rank <- W_Rank
  InitH = 1
  Guide <- W_Guide
  MaxSteps = 5
  AllowCrash = FALSE
  AvoidPanics = TRUE
  EmitAll = TRUE
INIT Init
NEXT Next
VIEW Edge2View
CHECK_DEADLOCK FALSE
INVARIANTS EmitEvery
