\* code -> spec: validate trace.ndjson recorded from the real Go proof objects
CONSTANTS
  Ks = {1}
  Schemes = {"simple"}
  MaxOps = 99
  MaxEnt = 1
  MaxRest = 1
  EntCorrs = {"ok"}
  FinCorrOn = TRUE
  CloneOn = TRUE
  AsIs = {"simple-short-keyid", "bls-undecodable-sig", "bls-finalize-double", "bls-validate-decode", "bls-sparse-strict-todo"}
  Mode = "trace"
INIT TInit
NEXT TNext
INVARIANTS TraceOK
POSTCONDITION TraceDone
CHECK_DEADLOCK FALSE
