\* quick-tier behaviour export (one block id + nil): every behaviour with MaxUpdates deliveries, <= MaxGap mirror events between
\* two deliveries and <= MaxEvents events in total is printed (hist is part of the state here)
CONSTANTS
  v1 = v1
  v2 = v2
  v3 = v3
  v4 = v4
  v5 = v5
  A = A
  B = B
  C = C
  NilT = NilT
  Val = {v1, v2, v3}
  Byz = {v1}
  Heavy = {v3}
  HeavyPow = 3
  MaxSigs = 1
  HashSeq <- HS1
  MaxH = 2
  MaxR = 1
  Kinds = {"pv", "pc"}
  Fixed = FALSE
  Restart = FALSE
  MaxUpdates = 3
  MaxGap = 2
  MaxEvents = 3
INIT Init
NEXT Next
INVARIANTS Sound CompleteModuloKnown SoundF CompleteF EnvOK Emit
CHECK_DEADLOCK FALSE
