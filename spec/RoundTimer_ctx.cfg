CONSTANTS
  MaxTimers = 2
  Dev = {"StartBeatsCancel", "TickBeatsCancel", "CloseNotAtomic"}
  GoTimer = "sync"
  Disciplined = TRUE
  WithCtx = TRUE
  MaxLen = 0
INIT Init
NEXT Next
INVARIANTS TypeOK NoStrandedRespond
CHECK_DEADLOCK FALSE
