CONSTANTS
  NS = 1
  NT = 1
  Tables = {}
  MaxPending = 0
  MaxHist = 0
  KeepHist = FALSE
  ByValueInvalidation = TRUE
INIT LInit
NEXT LNext
INVARIANTS PendingAppliesInOrderG DeviatedOnlyAsIs StepPredicatesHold
POSTCONDITION LinDone
CHECK_DEADLOCK FALSE
