-------------------------- MODULE VoteSummaryTrace --------------------------
(* code -> spec for C06.  trace.ndjson is what the Go harnesses recorded from *)
(* the REAL functions (VoteSummary.Set*Powers, newVoteDistribution,          *)
(* GetStepFromVoteSummary):                                                   *)
(*   {"op":"reset","pow":[..]}                      new validator set         *)
(*   {"op":"load","votes":{..},"keys":{..},"obs":O}  a whole proof-map state  *)
(*   {"op":"vote","kind":k,"val":v,"tgt":t,"obs":O}  AddVote(k,v,t)           *)
(*   {"op":"entry","kind":k,"tgt":t,"obs":O}         AddEntry(k,t)            *)
(* O = the summary the real code produced after the operation.               *)
(* Every step must be the named action of VoteSummary with the logged         *)
(* arguments (hard: otherwise the trace is not consumed and TraceDone fails). *)
(* The logged result is compared with the specification's (a MISMATCH line is *)
(* printed when they differ), and every C06 predicate is evaluated on the     *)
(* OBSERVED summary against the recount from the signatures (a VIOL line is   *)
(* printed for each predicate that is false), so one run lists all of them.   *)
EXTENDS VoteSummaryMC

Trace == ndJsonDeserialize("trace.ndjson")
VARIABLES l,    \* next event
          obs,  \* result logged by the last event
          has   \* BOOLEAN: obs is meaningful (FALSE after a reset)
tvars == <<l, obs, has, pow, cfg, bits, keys, sum, hist>>

Ev == Trace[l]
TCfg(p) == [pow |-> p, kinds |-> AllKinds, entries |-> TRUE]

BitsOfVotes(vv) == [k \in AllKinds |-> [t \in Target |-> {v \in 1..Len(vv[k]) : t \in ToSet(vv[k][v])}]]
MapOf(o) == LET ks == {t \in Target : o[t] >= 0} IN [t \in ks |-> o[t]]      \* -1 = no map entry
ObsSummary(o) == [avail |-> o.avail,
                  tot   |-> [prevote |-> o.tot.prevote, precommit |-> o.tot.precommit],
                  bp    |-> [prevote |-> MapOf(o.bp.prevote), precommit |-> MapOf(o.bp.precommit)],
                  most  |-> [prevote |-> o.most.prevote, precommit |-> o.most.precommit]]
ObsDist(o, k) == [avail |-> o.dist[k].avail, present |-> o.dist[k].present, bp |-> MapOf(o.dist[k].bp)]

TInit == /\ l = 1 /\ obs = 0 /\ has = FALSE
         /\ pow = <<1>> /\ cfg = TCfg(<<1>>)
         /\ bits = NoBits /\ keys = NoKeys
         /\ sum = SummaryAsCoded
         /\ hist = <<>>

Reset ==
  /\ Ev.op = "reset"
  /\ pow' = Ev.pow /\ cfg' = TCfg(Ev.pow)
  /\ bits' = NoBits /\ keys' = NoKeys
  /\ sum' = [avail |-> AvailCoded',
             tot |-> [prevote |-> 0, precommit |-> 0],
             bp |-> [prevote |-> <<>>, precommit |-> <<>>],
             most |-> [prevote |-> Nil, precommit |-> Nil]]
  /\ obs' = 0 /\ has' = FALSE

\* a whole state at once: it is reachable by AddVote/AddEntry steps from the empty maps
Load ==
  /\ Ev.op = "load"
  /\ Len(Ev.votes.prevote) = Len(pow) /\ Len(Ev.votes.precommit) = Len(pow)
  /\ LET nb == BitsOfVotes(Ev.votes)
         nk == [k \in AllKinds |-> ToSet(Ev.keys[k])]
     IN /\ \A k \in AllKinds : \A t \in Target : nb[k][t] # {} => t \in nk[k]
        /\ bits' = nb /\ keys' = nk
        /\ sum' = SummaryOf(DoubleCount, nb, nk)
  /\ obs' = Ev.obs /\ has' = TRUE
  /\ UNCHANGED <<pow, cfg>>

Vote  == Ev.op = "vote"  /\ AddVote(Ev.kind, Ev.val, Ev.tgt) /\ obs' = Ev.obs /\ has' = TRUE
Entry == Ev.op = "entry" /\ AddEntry(Ev.kind, Ev.tgt) /\ obs' = Ev.obs /\ has' = TRUE

TNext == /\ l <= Len(Trace)
         /\ l' = l + 1
         /\ hist' = hist
         /\ (Reset \/ Load \/ Vote \/ Entry)

-----------------------------------------------------------------------------
Equiv(k)    == \E v \in Val : Cardinality(VotesOf(k, v)) >= 2          \* some validator signed >= 2 targets
PerBlock(k) == SumPow(bits[k][TOrder[1]]) + SumPow(bits[k][TOrder[2]]) + SumPow(bits[k][TOrder[3]])
                 + (IF Len(TOrder) >= 4 THEN SumPow(bits[k][TOrder[4]]) ELSE 0)
Say(tag, pred, site, k) ==
  PrintT(tag \o " " \o ToJson([pred |-> pred, site |-> site, kind |-> k, line |-> l - 1,
                               equiv |-> [prevote |-> Equiv("prevote"), precommit |-> Equiv("precommit")],
                               perblock |-> [prevote |-> PerBlock("prevote"), precommit |-> PerBlock("precommit")],
                               pow |-> pow, state |-> [votes |-> StateJson.votes, keys |-> keys],
                               obs |-> obs]))
Chk(ok, pred, site, k) == ok \/ Say("VIOL", pred, site, k)
SiteOf(k) == IF k = "prevote" THEN "SetPrevotePowers" ELSE "SetPrecommitPowers"

\* conformance: the logged result is the specification's result
Conforms ==
  has =>
    /\ (ObsSummary(obs) = sum) \/ Say("MISMATCH", "summary", "Set*Powers", "")
    /\ (obs.step = Step(ObsSummary(obs))) \/ Say("MISMATCH", "step", "GetStepFromVoteSummary", "")
    /\ \A k \in AllKinds : (ObsDist(obs, k) = DistAsCoded(k)) \/ Say("MISMATCH", "dist", "newVoteDistribution", k)

\* the C06 predicates on the observed summary
ObsPredicates ==
  has =>
    LET s == ObsSummary(obs) IN
    /\ Chk(PAvailable(s), "AvailableIsSum", "SetAvailablePower", "")
    /\ \A k \in AllKinds :
         /\ Chk(PBlockPower(s, k), "BlockPowerIsSigners", SiteOf(k), k)
         /\ Chk(PTotalOnce(s, k), "TotalCountsOnce", SiteOf(k), k)
         /\ Chk(PMostVoted(s, k), "MostVotedIsOracle", SiteOf(k), k)
         /\ Chk(PMinoritySkip(s, k), "MinorityCannotSkip", SiteOf(k), k)
         /\ LET d == ObsDist(obs, k) IN
              /\ Chk(PDistAvailable(d), "DistAvailableIsSum", "newVoteDistribution", k)
              /\ Chk(PDistBlock(d, k), "DistBlockPowerIsSigners", "newVoteDistribution", k)
              /\ Chk(PDistOnce(d, k), "DistTotalCountsOnce", "newVoteDistribution", k)
    /\ Chk(PMinorityFull(s) /\ PFullMeansAll(s), "MinorityNotFull", "SetPrecommitPowers", "precommit")
    /\ Chk(PMinorityStep(obs.step), "MinorityCannotStep", "GetStepFromVoteSummary", "")
    /\ Chk(PStepJustified(obs.step), "StepJustified", "GetStepFromVoteSummary", "")
    /\ Chk(PStepAsRecount(obs.step), "StepAsRecount", "GetStepFromVoteSummary", "")

TraceDone == TLCGet("stats").diameter - 1 = Len(Trace)
=============================================================================
