CONSTANTS
  Tier = "quick"
  Dev <- DevDesign
INIT MCInit
NEXT MCNext
INVARIANTS TypeOK PropsAndEmit
CHECK_DEADLOCK FALSE
