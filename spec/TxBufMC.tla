------------------------------ MODULE TxBufMC ------------------------------
(* TLC instance of TxBuf with the table selection of TxBufTables.           *)
EXTENDS TxBuf, TxBufTables
=============================================================================
