----------------------------- MODULE TxBufLin -----------------------------
(* code -> spec, concurrent executions.  Goroutines call AddTx / Buffered / *)
(* Rebase on one real gtxbuf.Buffer; every call is logged BEFORE it is made *)
(* ("call") and AFTER it returned ("ret") under one global sequence, so the *)
(* logged interval contains the real one.  TLC searches for a linearization:*)
(* every call takes effect atomically (a TxBuf action) somewhere between    *)
(* its call and its ret line and produces exactly the result that the Go    *)
(* call returned (the harness copies the result into the call line after    *)
(* the fact; the id of a call is the line number of its call line).         *)
(* Lines: [ev |-> "reset", tbl, a]  (a = initial state, Initialize is done  *)
(*        sequentially), [ev |-> "call", id, op, a, ap, ok, out],           *)
(*        [ev |-> "ret", id].                                               *)
(* A complete linearization takes exactly Len(Trace) + #calls steps and no  *)
(* path is longer, which is what the POSTCONDITION tests.                   *)
EXTENDS TxBuf

Trace == ndJsonDeserialize("lin.ndjson")
NCalls == Cardinality({i \in 1..Len(Trace) : Trace[i].ev = "call"})

VARIABLES l,        \* next line to consume
          called,   \* calls logged, not yet linearized
          linned    \* calls linearized, ret line not yet consumed
lvars == <<vars, l, called, linned>>

LInit == /\ l = 1 /\ called = {} /\ linned = {}
         /\ apply = <<>>
         /\ inited = FALSE /\ base = 0 /\ cur = 0 /\ updated = FALSE
         /\ pending = <<>> /\ deviated = FALSE
         /\ last = Ev("none", 0, {}, TRUE, <<>>, <<>>, <<>>, 0)
         /\ hist = <<>> /\ bad = {}

LReset == /\ l <= Len(Trace) /\ Trace[l].ev = "reset"
          /\ called = {} /\ linned = {}
          /\ apply' = Trace[l].tbl
          /\ inited' = TRUE /\ base' = Trace[l].a /\ cur' = 0 /\ updated' = FALSE
          /\ pending' = <<>> /\ deviated' = FALSE
          /\ last' = Ev("Initialize", Trace[l].a, {}, TRUE, <<>>, <<>>, <<>>, Trace[l].a)
          /\ l' = l + 1
          /\ UNCHANGED <<hist, bad, called, linned>>

LCall == /\ l <= Len(Trace) /\ Trace[l].ev = "call"
         /\ Trace[l].id = l
         /\ called' = called \cup {l}
         /\ l' = l + 1
         /\ UNCHANGED <<vars, linned>>

\* the linearization point of call c: the spec action with the logged arguments must
\* produce the result the real call returned
Lin(c) == /\ c \in called
          /\ LET e == Trace[c] IN
               \/ e.op = "AddTx" /\ AddTx(e.a) /\ last'.ok = e.ok
               \/ e.op = "Buffered" /\ Buffered /\ last'.buf = e.out
               \/ e.op = "Rebase" /\ Rebase(e.a, Range(e.ap)) /\ last'.inv = e.out
          /\ bad' = bad \cup StepViolations
          /\ called' = called \ {c}
          /\ linned' = linned \cup {c}
          /\ UNCHANGED l

LRet == /\ l <= Len(Trace) /\ Trace[l].ev = "ret"
        /\ Trace[l].id \in linned
        /\ linned' = linned \ {Trace[l].id}
        /\ l' = l + 1
        /\ UNCHANGED <<vars, called>>

LNext == LReset \/ LCall \/ LRet \/ \E c \in called : Lin(c)

LinDone == TLCGet("stats").diameter - 1 = Len(Trace) + NCalls
=============================================================================
