------------------------------- MODULE Stores -------------------------------
(* Property C16, sequential part: each tmmemstore type as a sequential      *)
(* object.  One action per interface method; `hist` records every operation *)
(* with the result the reference model (StoresModel.tla) prescribes, and is *)
(* exported (spec -> code) for replay on the real Go stores.                *)
(*                                                                           *)
(* The property itself is stated a second time, declaratively, as a         *)
(* predicate over the history alone (Contract...): a load returns what the  *)
(* latest completed save stored or the documented not-found error; a        *)
(* second proposal / prevote / precommit for a height/round and a change of *)
(* signing key are refused; a finalization is never overwritten; the        *)
(* validator store returns for a hash exactly the list hashing to it.       *)
(* TLC checks that the operational model satisfies it for every operation   *)
(* sequence up to MaxLen (configs *_seq: no VIEW, so every history is a     *)
(* distinct state) and the action properties Frozen* on every transition of *)
(* the full reachable state graph (configs *_mc: VIEW hides hist).          *)
EXTENDS StoresModel, TLC, Json

CONSTANTS StoreSet,   \* the stores this configuration exercises (subset of StoreNames)
          Mode,       \* "mc": complete reachable graph (VIEW hides hist) | "seq": all sequences | "sim": simulation
          Tier,       \* "quick" | "thorough"
          EmitOn      \* TRUE: print behaviours for replay on the Go stores

VARIABLES store, st, hist
vars == <<store, st, hist>>

(* Bounds per mode / tier / store.  H heights, R rounds, P payload ids (proposed-header     *)
(* variants for the action store, proof ids for the round store), S signature ids, L bound *)
(* on Len(hist), Rep bound on how often one replayed header is saved.  The sizes are       *)
(* fitted to measured state counts (notes/C16.md).                                         *)
Inf == 1000
B(H, R, P, S, L, Rep) == [H |-> H, R |-> R, P |-> P, S |-> S, L |-> L, Rep |-> Rep]
Bounds(s) ==
  CASE Mode = "mc" /\ Tier = "quick" ->
         CASE s = "action" -> B({1, 2}, {0}, {1}, {1}, Inf, 0)
           [] s = "round"  -> B({1}, {0}, {1, 2}, {}, Inf, 2)
           [] OTHER        -> B({1, 2}, {0}, {1, 2, 3}, {}, Inf, 0)
    [] Mode = "mc" /\ Tier = "thorough" ->
         CASE s = "action" -> B({1, 2}, {0}, {1, 2}, {1, 2}, Inf, 0)
           [] s = "round"  -> B({1}, {0, 1}, {1, 2}, {}, Inf, 1)
           [] OTHER        -> B({1, 2, 3}, {0}, {1, 2, 3}, {}, Inf, 0)
    [] Mode = "seq" /\ Tier = "quick" ->
         CASE s = "action" -> B({1}, {0, 1}, {1, 2}, {1}, 3, 0)
           [] s = "round"  -> B({1}, {0, 1}, {1, 2, 3}, {}, 3, 3)
           [] s = "val"    -> B({}, {}, {}, {}, 2, 0)
           [] s \in {"mirror", "sm"} -> B({}, {}, {1, 2, 3}, {}, 5, 0)
           [] OTHER        -> B({1, 2}, {0}, {1, 2, 3}, {}, 4, 0)
    [] Mode = "seq" /\ Tier = "thorough" ->
         CASE s = "action" -> B({1}, {0, 1}, {1, 2}, {1}, 4, 0)
           [] s = "round"  -> B({1}, {0, 1}, {1, 2, 3}, {}, 4, 4)
           [] s = "val"    -> B({}, {}, {}, {}, 3, 0)
           [] s \in {"mirror", "sm"} -> B({}, {}, {1, 2, 3}, {}, 7, 0)
           [] OTHER        -> B({1, 2}, {0}, {1, 2, 3}, {}, 5, 0)
    [] Mode = "sim" /\ Tier = "quick" ->
         CASE s = "action" -> B({1, 2}, {0, 1}, {1, 2}, {1, 2}, 12, 0)
           [] OTHER        -> B({1, 2}, {0, 1}, {1, 2, 3}, {}, 12, 3)
    [] Mode = "sim" /\ Tier = "thorough" ->
         CASE s = "action" -> B({1, 2}, {0, 1}, {1, 2}, {1, 2}, 20, 0)
           [] OTHER        -> B({1, 2}, {0, 1}, {1, 2, 3}, {}, 20, 5)
Bd == Bounds(store)

Op(n, a) == [op |-> n, a |-> a]

Do(o) == /\ Len(hist) < Bd.L
         /\ LET r == Apply(store, st, o) IN
              /\ st' = r.st
              /\ hist' = Append(hist, [op |-> o.op, a |-> o.a, err |-> r.err, v |-> r.v])
         /\ UNCHANGED store

Init == store \in StoreSet /\ st = InitOf(store) /\ hist = <<>>

\* ---- ActionStore
ASavePHAct        == \E h \in Bd.H, r \in Bd.R, x \in Bd.P : Do(Op("SavePH", <<h, r, x>>))
ASavePrevoteAct   == \E h \in Bd.H, r \in Bd.R, pk \in PkIds, tgt \in {0, 1}, sg \in Bd.S :
                        Do(Op("SavePrevote", <<h, r, pk, tgt, sg>>))
ASavePrecommitAct == \E h \in Bd.H, r \in Bd.R, pk \in PkIds, tgt \in {0, 1}, sg \in Bd.S :
                        Do(Op("SavePrecommit", <<h, r, pk, tgt, sg>>))
ALoadAct          == \E h \in Bd.H, r \in Bd.R : Do(Op("Load", <<h, r>>))
NextAction == ASavePHAct \/ ASavePrevoteAct \/ ASavePrecommitAct \/ ALoadAct

\* ---- FinalizationStore, CommittedHeaderStore
FSaveAct == \E h \in Bd.H, p \in Bd.P : Do(Op("Save", <<h, p>>))
FLoadAct == \E h \in Bd.H : Do(Op("Load", <<h>>))
NextFin == FSaveAct \/ FLoadAct
HSaveAct == \E h \in Bd.H, p \in Bd.P : Do(Op("Save", <<h, p>>))
HLoadAct == \E h \in Bd.H : Do(Op("Load", <<h>>))
NextHdr == HSaveAct \/ HLoadAct

\* ---- MirrorStore, StateMachineStore
MSetAct == \E p \in Bd.P : Do(Op("Set", <<p>>))
MGetAct == Do(Op("Get", <<>>))
NextMirror == MSetAct \/ MGetAct
SSetAct == \E p \in Bd.P : Do(Op("Set", <<p>>))
SGetAct == Do(Op("Get", <<>>))
NextSM == SSetAct \/ SGetAct

\* ---- ValidatorStore (list ids 1..3; hash id 4 is never saved)
VSavePubKeysAct    == \E k \in 1..3 : Do(Op("SavePubKeys", <<k>>))
VSaveVotePowersAct == \E w \in 1..3 : Do(Op("SaveVotePowers", <<w>>))
VLoadPubKeysAct    == \E k \in 1..4 : Do(Op("LoadPubKeys", <<k>>))
VLoadVotePowersAct == \E w \in 1..4 : Do(Op("LoadVotePowers", <<w>>))
VLoadValidatorsAct == \E k \in {1, 3, 4}, w \in {1, 3, 4} : Do(Op("LoadValidators", <<k, w>>))
NextVal == VSavePubKeysAct \/ VSaveVotePowersAct \/ VLoadPubKeysAct \/ VLoadVotePowersAct \/ VLoadValidatorsAct

\* ---- RoundStore
RSavePHAct       == \E h \in Bd.H, r \in Bd.R, hd \in HdrIds, pk \in PkIds : Do(Op("SavePH", <<h, r, hd, pk>>))
RSaveReplayedAct == \E h \in Bd.H, hd \in HdrIds :
                       /\ Get(st.rep, <<h, hd>>, 0) < Bd.Rep
                       /\ Do(Op("SaveReplayed", <<h, hd>>))
ROverwritePrevotesAct   == \E h \in Bd.H, r \in Bd.R, p \in Bd.P : Do(Op("OverwritePrevotes", <<h, r, p>>))
ROverwritePrecommitsAct == \E h \in Bd.H, r \in Bd.R, p \in Bd.P : Do(Op("OverwritePrecommits", <<h, r, p>>))
RLoadAct         == \E h \in Bd.H, r \in Bd.R : Do(Op("Load", <<h, r>>))
NextRound == RSavePHAct \/ RSaveReplayedAct \/ ROverwritePrevotesAct \/ ROverwritePrecommitsAct \/ RLoadAct

Next == \/ (store = "action" /\ NextAction) \/ (store = "fin" /\ NextFin) \/ (store = "hdr" /\ NextHdr)
        \/ (store = "mirror" /\ NextMirror) \/ (store = "sm" /\ NextSM) \/ (store = "val" /\ NextVal)
        \/ (store = "round" /\ NextRound)

-----------------------------------------------------------------------------
(* The property, over the history alone.                                     *)
N == Len(hist)
E(i) == hist[i]
OK(i) == E(i).err = ""
MaxOf(S) == CHOOSE j \in S : \A k \in S : k <= j
MinOf(S) == CHOOSE j \in S : \A k \in S : j <= k

\* -- action store
APrior(i, op) == {j \in 1..(i-1) : E(j).op = op /\ OK(j) /\ E(j).a[1] = E(i).a[1] /\ E(j).a[2] = E(i).a[2]}
AVotes(i) == APrior(i, "SavePrevote") \cup APrior(i, "SavePrecommit")
ContractAction ==
  \A i \in 1..N :
    CASE E(i).op = "SavePH" ->
           /\ OK(i) <=> APrior(i, "SavePH") = {}                       \* a second proposal is refused
           /\ ~OK(i) => E(i).err = "DoubleAction:proposed block"
      [] E(i).op \in {"SavePrevote", "SavePrecommit"} ->
           LET kind == IF E(i).op = "SavePrevote" THEN "prevote" ELSE "precommit"
               dbl  == APrior(i, E(i).op) # {}                          \* a second vote of the kind
               chg  == \E j \in AVotes(i) : E(j).a[3] # E(i).a[3]       \* another signing key
           IN /\ dbl => E(i).err = "DoubleAction:" \o kind
              /\ (~dbl /\ chg) => /\ E(i).err = "PubKeyChanged:" \o kind
                                  /\ E(i).v = <<E(MinOf(AVotes(i))).a[3], E(i).a[3]>>
              /\ (~dbl /\ ~chg) => OK(i)
      [] E(i).op = "Load" ->
           LET ph == APrior(i, "SavePH")
               pv == APrior(i, "SavePrevote")
               pc == APrior(i, "SavePrecommit")
           IN IF ph \cup pv \cup pc = {}
              THEN E(i).err = "RoundUnknown" /\ E(i).v = E(i).a
              ELSE /\ OK(i)
                   /\ E(i).v = <<E(i).a[1], E(i).a[2],
                                 IF ph = {} THEN 0 ELSE E(MinOf(ph)).a[3],
                                 IF pv \cup pc = {} THEN 0 ELSE E(MinOf(pv \cup pc)).a[3],
                                 IF pv = {} THEN 0 ELSE E(MinOf(pv)).a[4],
                                 IF pv = {} THEN 0 ELSE E(MinOf(pv)).a[5],
                                 IF pc = {} THEN 0 ELSE E(MinOf(pc)).a[4],
                                 IF pc = {} THEN 0 ELSE E(MinOf(pc)).a[5]>>
                   /\ Cardinality(ph) <= 1 /\ Cardinality(pv) <= 1 /\ Cardinality(pc) <= 1

\* -- finalization store (no overwrite) and committed header store (latest save wins)
KPrior(i) == {j \in 1..(i-1) : E(j).op = "Save" /\ OK(j) /\ E(j).a[1] = E(i).a[1]}
ContractFin ==
  \A i \in 1..N :
    CASE E(i).op = "Save" -> /\ OK(i) <=> KPrior(i) = {}
                             /\ ~OK(i) => E(i).err = "FinalizationOverwrite" /\ E(i).v = <<E(i).a[1]>>
      [] E(i).op = "Load" -> IF KPrior(i) = {} THEN E(i).err = "HeightUnknown" /\ E(i).v = E(i).a
                             ELSE OK(i) /\ E(i).v = <<E(MinOf(KPrior(i))).a[2]>> /\ Cardinality(KPrior(i)) = 1
ContractHdr ==
  \A i \in 1..N :
    CASE E(i).op = "Save" -> OK(i)
      [] E(i).op = "Load" -> IF KPrior(i) = {} THEN E(i).err = "HeightUnknown" /\ E(i).v = E(i).a
                             ELSE OK(i) /\ E(i).v = <<E(MaxOf(KPrior(i))).a[2]>>

\* -- mirror / state machine store
ContractMirror ==
  \A i \in 1..N :
    CASE E(i).op = "Set" -> OK(i)
      [] E(i).op = "Get" -> LET S == {j \in 1..(i-1) : E(j).op = "Set"} IN
                            IF S = {} THEN E(i).err = "Uninitialized" ELSE OK(i) /\ E(i).v = <<E(MaxOf(S)).a[1]>>

\* -- validator store: hash id of list x is x, so "exactly the keys that hash to it" reads v = <<requested id>>
VSaved(i, op, x) == \E j \in 1..(i-1) : E(j).op = op /\ E(j).a[1] = x
ContractVal ==
  \A i \in 1..N :
    CASE E(i).op = "SavePubKeys" -> /\ E(i).v = E(i).a
                                    /\ IF VSaved(i, "SavePubKeys", E(i).a[1]) THEN E(i).err = "PubKeysAlreadyExist" ELSE OK(i)
      [] E(i).op = "SaveVotePowers" -> /\ E(i).v = E(i).a
                                       /\ IF VSaved(i, "SaveVotePowers", E(i).a[1]) THEN E(i).err = "VotePowersAlreadyExist" ELSE OK(i)
      [] E(i).op = "LoadPubKeys" -> /\ E(i).v = E(i).a
                                    /\ IF VSaved(i, "SavePubKeys", E(i).a[1]) THEN OK(i) ELSE E(i).err = "NoPubKeyHash"
      [] E(i).op = "LoadVotePowers" -> /\ E(i).v = E(i).a
                                       /\ IF VSaved(i, "SaveVotePowers", E(i).a[1]) THEN OK(i) ELSE E(i).err = "NoVotePowerHash"
      [] E(i).op = "LoadValidators" ->
           LET hk == VSaved(i, "SavePubKeys", E(i).a[1])
               hw == VSaved(i, "SaveVotePowers", E(i).a[2])
           IN CASE ~hk /\ ~hw -> E(i).err = "NoPubKeyHash+NoVotePowerHash"
                [] ~hk /\ hw  -> E(i).err = "NoPubKeyHash" /\ E(i).v = <<E(i).a[1]>>
                [] hk /\ ~hw  -> E(i).err = "NoVotePowerHash" /\ E(i).v = <<E(i).a[2]>>
                [] hk /\ hw   -> IF ListLen(E(i).a[1]) = ListLen(E(i).a[2]) THEN OK(i) /\ E(i).v = E(i).a
                                 ELSE E(i).err = "PubKeyPowerCountMismatch"

\* -- round store
RPHs(i, h, r) == {j \in 1..(i-1) : E(j).op = "SavePH" /\ OK(j) /\ E(j).a[1] = h /\ E(j).a[2] = r}
ROvw(i, op, h, r) == {j \in 1..(i-1) : E(j).op = op /\ E(j).a[1] = h /\ E(j).a[2] = r}
ContractRound ==
  \A i \in 1..N :
    CASE E(i).op = "SavePH" ->
           /\ OK(i) <=> ~\E j \in RPHs(i, E(i).a[1], E(i).a[2]) : E(j).a[3] = E(i).a[3] /\ E(j).a[4] = E(i).a[4]
           /\ ~OK(i) => E(i).err = "Overwrite:pubkey"
      [] E(i).op = "SaveReplayed" ->
           /\ OK(i) <=> ~\E j \in 1..(i-1) : E(j).op = "SavePH" /\ OK(j) /\ E(j).a[1] = E(i).a[1] /\ E(j).a[3] = E(i).a[2]
           /\ ~OK(i) => E(i).err = "Overwrite:hash"
      [] E(i).op \in {"OverwritePrevotes", "OverwritePrecommits"} -> OK(i)
      [] E(i).op = "Load" ->
           LET h == E(i).a[1]
               r == E(i).a[2]
               ph == RPHs(i, h, r)
               pv == ROvw(i, "OverwritePrevotes", h, r)
               pc == ROvw(i, "OverwritePrecommits", h, r)
               pcid == IF pc = {} THEN 0 ELSE E(MaxOf(pc)).a[3]          \* the latest overwrite
               cnt(hd, pk) == IF pk = 0
                              THEN IF ProofHas(pcid, hd)
                                   THEN Cardinality({j \in 1..(i-1) : E(j).op = "SaveReplayed" /\ OK(j) /\ E(j).a = <<h, hd>>})
                                   ELSE 0
                              ELSE IF \E j \in ph : E(j).a[3] = hd /\ E(j).a[4] = pk THEN 1 ELSE 0
           IN IF ph \cup pv \cup pc = {} THEN E(i).err = "RoundUnknown" /\ E(i).v = E(i).a
              ELSE /\ OK(i)
                   /\ E(i).v = <<IF pv = {} THEN 0 ELSE E(MaxOf(pv)).a[3], pcid,
                                 cnt(1, 0), cnt(1, 1), cnt(1, 2), cnt(2, 0), cnt(2, 1), cnt(2, 2)>>

Contract ==
  CASE store = "action" -> ContractAction [] store = "fin" -> ContractFin [] store = "hdr" -> ContractHdr
    [] store = "mirror" -> ContractMirror [] store = "sm" -> ContractMirror [] store = "val" -> ContractVal
    [] store = "round"  -> ContractRound

-----------------------------------------------------------------------------
(* No-overwrite contracts as action properties on the state (checked on     *)
(* every transition of the complete reachable graph in the *_mc configs).   *)
FrozenStep ==
  CASE store = "action" ->
         \A k \in DOMAIN st :
            /\ k \in DOMAIN st'
            /\ st[k].ph # 0 => st'[k].ph = st[k].ph
            /\ st[k].pk # 0 => st'[k].pk = st[k].pk
            /\ st[k].pvs # 0 => (st'[k].pvs = st[k].pvs /\ st'[k].pvt = st[k].pvt)
            /\ st[k].pcs # 0 => (st'[k].pcs = st[k].pcs /\ st'[k].pct = st[k].pct)
    [] store = "fin" -> \A h \in DOMAIN st : h \in DOMAIN st' /\ st'[h] = st[h]
    [] store = "val" -> st.keys \subseteq st'.keys /\ st.pows \subseteq st'.pows
    [] store = "round" -> \A k \in DOMAIN st.phs : k \in DOMAIN st'.phs /\ st.phs[k] \subseteq st'.phs[k]
    [] OTHER -> TRUE
Frozen == [][FrozenStep]_st
\* a successful operation is the only thing that changes the state, a refused one changes nothing
RefusedIsNoop == [][hist'[Len(hist')].err # "" => st' = st]_vars

\* result of every operation is well-formed (documented error names only)
Errors == {"", "RoundUnknown", "HeightUnknown", "Uninitialized", "FinalizationOverwrite",
           "DoubleAction:proposed block", "DoubleAction:prevote", "DoubleAction:precommit",
           "PubKeyChanged:prevote", "PubKeyChanged:precommit", "Overwrite:pubkey", "Overwrite:hash",
           "PubKeysAlreadyExist", "VotePowersAlreadyExist", "NoPubKeyHash", "NoVotePowerHash",
           "NoPubKeyHash+NoVotePowerHash", "PubKeyPowerCountMismatch"}
TypeOK == \A i \in 1..N : E(i).err \in Errors

-----------------------------------------------------------------------------
(* Export (spec -> code).  EmitAll: every complete history of length MaxLen  *)
(* (shorter ones are prefixes).  EmitEdge: with VIEW hiding hist, one        *)
(* history per (reachable state, operation) pair of the complete graph.      *)
EmitAll == (EmitOn /\ Len(hist) = Bd.L) => PrintT("BEH " \o ToJson([store |-> store, h |-> hist]))
EmitEdge == [][EmitOn => PrintT("BEH " \o ToJson([store |-> store, h |-> hist']))]_vars
View == <<store, st>>
=============================================================================
