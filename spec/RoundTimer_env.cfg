CONSTANTS
  MaxTimers = 3
  Dev = {"StartBeatsCancel", "TickBeatsCancel", "CloseNotAtomic"}
  GoTimer = "sync"
  Disciplined = TRUE
  WithCtx = FALSE
  MaxLen = 0
INIT Init
NEXT Next
INVARIANTS TypeOK FiresAtMostOnce NoLostStart OneTimer DrainUnreachable ViaNamedDeviation
CHECK_DEADLOCK FALSE
