---------------------------- MODULE VoteSummary ----------------------------
(* Property C06: vote power accounting counts every validator exactly once.  *)
(*                                                                            *)
(* Anchors (transcribed in the shape of the code):                            *)
(*   tm/tmconsensus/votesummary.go      SetAvailablePower, SetPrevotePowers,  *)
(*                                      SetPrecommitPowers (same loop twice)  *)
(*   tmi/votedistribution.go            newVoteDistribution                   *)
(*   tsi/step.go                        GetStepFromVoteSummary                *)
(*   tmi/kernel.go                      the threshold tests that read the     *)
(*                                      totals (round jump, 100% present)     *)
(*                                                                            *)
(* State = the two proof maps of a round view, as the code keeps them:        *)
(* bits[k][t] is the signature bit set of the proof for target t of vote kind *)
(* k (validator indices), keys[k] the key set of the map (an entry may exist  *)
(* with no signature in it), and sum the stored VoteSummary, rewritten by     *)
(* Set<kind>Powers after every admitted vote.  One validator signing several  *)
(* targets is ordinary state here: every target has its own                   *)
(* CommonMessageSignatureProof, so nothing in the data structure prevents it. *)
(*                                                                            *)
(* Two definitions of the summary:                                            *)
(*   Coded(dc, ..)  what the Go loops compute, for a given map iteration      *)
(*                  order.  dc = TRUE is the tree as it is ("DoubleCount",    *)
(*                  named deviation D1: the total is accumulated inside the   *)
(*                  per-block loop); dc = FALSE is the intended design (the   *)
(*                  total is the power of the union of the bit sets).         *)
(*   SummaryRecount the property's oracle, defined from the signatures alone. *)
(* The C06 predicates are operators over an arbitrary summary record s, so    *)
(* the same text is evaluated on the spec's summary (invariants below) and on *)
(* summaries observed from the real code (VoteSummaryTrace).                  *)
(*                                                                            *)
(* Written for TLC speed: no RECURSIVE operators, LET-bound intermediate      *)
(* values, explicit records instead of lazily evaluated functions.            *)
EXTENDS Integers, Sequences, FiniteSets, TLC, Json, SequencesExt

CONSTANTS
  Configs,      \* set of records [pow, kinds, entries]; one is chosen at Init:
                \*   pow     power vector (tuple of positive integers, length <= 8)
                \*   kinds   subset of {"prevote","precommit"} that receives votes
                \*   entries BOOLEAN: proof-map entries without any signature can be created
  TOrder,       \* the vote targets in lexicographic order of their hashes; TOrder[1] = "nil" (hash "")
  DoubleCount,  \* BOOLEAN: deviation D1 (TRUE = unchanged tree)
  MaxLen        \* bound on Len(hist) for the behaviour export; 0 = keep no history

AllKinds == {"prevote", "precommit"}
Target   == {TOrder[i] : i \in 1..Len(TOrder)}
Nil      == TOrder[1]
RankOf   == [t \in Target |-> CHOOSE i \in 1..Len(TOrder) : TOrder[i] = t]   \* constant, computed once

T == INSTANCE Thresholds            \* C18: Maj/Min proved exact over Nat
MajN(n) == T!Maj(n \div 3, n % 3)   \* tmconsensus.ByzantineMajority
MinN(n) == T!Min(n \div 3, n % 3)   \* tmconsensus.ByzantineMinority

VARIABLES pow,    \* the round's validator powers (tuple); validator indices are DOMAIN pow
          cfg,    \* the chosen configuration (constant along a behaviour)
          bits,   \* [AllKinds -> [Target -> SUBSET Val]]  signature bit set per proof
          keys,   \* [AllKinds -> SUBSET Target]           key set of the proof map
          sum,    \* the view's VoteSummary as stored
          hist    \* exported history
vars == <<pow, cfg, bits, keys, sum, hist>>
view == <<pow, cfg, bits, keys, sum>>
Kinds == cfg.kinds

Val == 1..Len(pow)

\* sum of pow[v] over the set S of validators, each member once (S \subseteq Val, Len(pow) <= 8)
Term(S, i) == IF i \in S THEN pow[i] ELSE 0
SumPow(S) == Term(S, 1) + Term(S, 2) + Term(S, 3) + Term(S, 4) + Term(S, 5) + Term(S, 6) + Term(S, 7) + Term(S, 8)

SetMax(S) == CHOOSE x \in S : \A y \in S : y <= x
SetMin(S) == CHOOSE x \in S : \A y \in S : x <= y

MinHash(a, b) == IF RankOf[a] <= RankOf[b] THEN a ELSE b     \* Go: min(maxHash, blockHash) on strings

\* Operators below take the proof map of one kind explicitly (B \in [Target -> SUBSET Val], key set K)
\* so that actions can apply them to the new map without priming large expressions.
AnyOf(B)      == UNION {B[t] : t \in Target}                 \* validators with at least one signature
Signers(k, t) == bits[k][t]                                  \* proof.SignatureBitSet
AnySigner(k)  == AnyOf(bits[k])
VotesOf(k, v) == {t \in Target : v \in bits[k][t]}           \* what validator v signed
Orders(S) == {o \in [1..Cardinality(S) -> S] : \A i, j \in 1..Cardinality(S) : i # j => o[i] # o[j]}
SomeOrder(S) == SelectSeq(TOrder, LAMBDA t : t \in S)        \* one fixed iteration order

-----------------------------------------------------------------------------
(* votesummary.go *)

\* SetAvailablePower: for _, v := range vals { AvailablePower += v.Power }
AvailCoded == FoldLeft(LAMBDA acc, p : acc + p, 0, pow)

\* One iteration of `for blockHash, proof := range prevotes` in SetPrevotePowers/SetPrecommitPowers.
\* The inner loop over the bit set stops at len(vals); proofs are created over the round's validator
\* keys so every set bit is a validator index.
LoopBody(B, a, h) ==
  LET bs       == B[h]                       \* proof.SignatureBitSet(&bs)
      blockPow == SumPow(bs)
  IN [tot     |-> a.tot + blockPow,          \* vs.TotalPrevotePower += valPow  (inside the block loop: D1)
      union   |-> a.union \cup bs,
      bp      |-> (h :> blockPow) @@ a.bp,   \* vs.PrevoteBlockPower[blockHash] = blockPow
      maxHash |-> IF blockPow = a.maxPow THEN MinHash(a.maxHash, h)
                  ELSE IF blockPow > a.maxPow THEN h ELSE a.maxHash,
      maxPow  |-> IF blockPow > a.maxPow THEN blockPow ELSE a.maxPow]

LoopInit == [tot |-> 0, union |-> {}, bp |-> <<>>, maxHash |-> Nil, maxPow |-> 0]
Loop(B, ord) == FoldLeft(LAMBDA a, h : LoopBody(B, a, h), LoopInit, ord)

\* result of Set<kind>Powers on proof map B when the map is iterated in order ord
Coded(dc, B, ord) ==
  LET a == Loop(B, ord)
  IN [tot  |-> IF dc THEN a.tot ELSE SumPow(a.union),
      bp   |-> a.bp,
      most |-> a.maxHash]

\* whole VoteSummary for proof maps b with key sets ks (canonical iteration order)
SummaryOf(dc, b, ks) ==
  LET cpv == Coded(dc, b["prevote"], SomeOrder(ks["prevote"]))
      cpc == Coded(dc, b["precommit"], SomeOrder(ks["precommit"]))
  IN [avail |-> AvailCoded,
      tot   |-> [prevote |-> cpv.tot,  precommit |-> cpc.tot],
      bp    |-> [prevote |-> cpv.bp,   precommit |-> cpc.bp],
      most  |-> [prevote |-> cpv.most, precommit |-> cpc.most]]

CanonOrd(k) == SomeOrder(keys[k])
SummaryWith(dc) == SummaryOf(dc, bits, keys)
SummaryAsCoded  == SummaryWith(DoubleCount)    \* = sum in every reachable state (SumIsCoded)

\* Go map lookup: missing key reads as zero
BP(s, k, t) == IF t \in DOMAIN s.bp[k] THEN s.bp[k][t] ELSE 0

-----------------------------------------------------------------------------
(* votedistribution.go: newVoteDistribution(proofs, vals) for one proof map B *)
DistBody(B, a, h) ==
  LET bs == B[h]
      bp == SumPow(bs)
  IN [present |-> a.present + bp,            \* d.VotePowerPresent += pow (inside the block loop: D1)
      union   |-> a.union \cup bs,
      \* d.BlockVotePower[hash] += pow happens per set bit: no entry for a proof without signatures
      bp      |-> IF bs = {} THEN a.bp ELSE (h :> bp) @@ a.bp]
DistLoop(B, ord) == FoldLeft(LAMBDA a, h : DistBody(B, a, h), [present |-> 0, union |-> {}, bp |-> <<>>], ord)
DistCoded(dc, B, ord) ==
  LET a == DistLoop(B, ord)
  IN [avail   |-> AvailCoded,
      present |-> IF dc THEN a.present ELSE SumPow(a.union),
      bp      |-> a.bp]
DistAsCoded(k) == DistCoded(DoubleCount, bits[k], CanonOrd(k))
DBP(d, t) == IF t \in DOMAIN d.bp THEN d.bp[t] ELSE 0

-----------------------------------------------------------------------------
(* step.go: GetStepFromVoteSummary *)
Step(s) ==
  LET maj == MajN(s.avail)
      min == MinN(s.avail)
  IN IF s.tot["precommit"] >= maj
       THEN IF BP(s, "precommit", s.most["precommit"]) >= maj THEN "CommitWait" ELSE "PrecommitDelay"
     ELSE IF s.tot["precommit"] >= min THEN "AwaitingPrecommits"
     ELSE IF s.tot["prevote"] >= maj
       THEN IF BP(s, "prevote", s.most["prevote"]) >= maj THEN "AwaitingPrecommits" ELSE "PrevoteDelay"
     ELSE "AwaitingProposal"

(* kernel.go: decisions that read the totals *)
\* checkPrevoteViewShift / checkNextRoundPrecommitViewShift on the NextRound view: jumpVotingRound
JumpRound(s, k) == s.tot[k] >= MinN(s.avail)
\* checkVotingPrecommitViewShift: no block at majority but "100% of votes present": advanceVotingRound
FullyVoted(s) == /\ BP(s, "precommit", s.most["precommit"]) < MajN(s.avail)
                 /\ s.tot["precommit"] = s.avail

-----------------------------------------------------------------------------
(* The oracle: recount from the admitted signatures *)
TargetPow(k, t) == SumPow(bits[k][t])
MostVotedOf(B) ==
  LET tp == [i \in 1..Len(TOrder) |-> SumPow(B[TOrder[i]])]       \* in lexicographic order of the hashes
      mx == SetMax({tp[i] : i \in 1..Len(TOrder)})
  IN IF mx = 0 THEN Nil
     ELSE TOrder[SetMin({i \in 1..Len(TOrder) : tp[i] = mx})]       \* ties: the smaller hash
MostVotedOracle(k) == MostVotedOf(bits[k])
RecountOf(B) == [tot  |-> SumPow(AnyOf(B)),
                 bp   |-> [t \in Target |-> SumPow(B[t])],
                 most |-> MostVotedOf(B)]
SummaryRecountOf(b) ==
  LET rpv == RecountOf(b["prevote"])
      rpc == RecountOf(b["precommit"])
  IN [avail |-> SumPow(Val),
      tot   |-> [prevote |-> rpv.tot,  precommit |-> rpc.tot],
      bp    |-> [prevote |-> rpv.bp,   precommit |-> rpc.bp],
      most  |-> [prevote |-> rpv.most, precommit |-> rpc.most]]
SummaryRecount == SummaryRecountOf(bits)

-----------------------------------------------------------------------------
(* C06 predicates over a summary record s (the spec's or one observed from the code) *)
PAvailable(s)     == s.avail = SumPow(Val)
PBlockPower(s, k) == \A t \in Target : BP(s, k, t) = TargetPow(k, t)
PTotalOnce(s, k)  == s.tot[k] = SumPow(AnySigner(k))
PMostVoted(s, k)  == s.most[k] = MostVotedOracle(k)

\* consequences: what a set of signers below the minority threshold cannot do alone
Minority(S) == SumPow(S) < MinN(SumPow(Val))
PMinoritySkip(s, k) == Minority(AnySigner(k)) => ~JumpRound(s, k)
PMinorityFull(s)    == Minority(AnySigner("precommit")) => ~FullyVoted(s)
PFullMeansAll(s)    == FullyVoted(s) => SumPow(AnySigner("precommit")) = SumPow(Val)
PMinorityStep(st)   == Minority(AnySigner("prevote") \cup AnySigner("precommit")) => st = "AwaitingProposal"
\* every step past AwaitingProposal is backed by that much power of distinct validators
PStepJustified(st) ==
  LET n == SumPow(Val) maj == MajN(n) min == MinN(n)
      pc == SumPow(AnySigner("precommit")) pv == SumPow(AnySigner("prevote"))
  IN /\ st = "CommitWait"         => \E t \in Target : TargetPow("precommit", t) >= maj
     /\ st = "PrecommitDelay"     => pc >= maj
     /\ st = "AwaitingPrecommits" => (pc >= min \/ \E t \in Target : TargetPow("prevote", t) >= maj)
     /\ st = "PrevoteDelay"       => pv >= maj
\* "cannot push the derived step past where it would be"
PStepAsRecount(st) == st = Step(SummaryRecount)

PDistAvailable(d) == d.avail = SumPow(Val)
PDistBlock(d, k)  == \A t \in Target : DBP(d, t) = TargetPow(k, t)
PDistOnce(d, k)   == d.present = SumPow(AnySigner(k))

-----------------------------------------------------------------------------
(* Invariants of the design, evaluated on the stored summary `sum` *)
SumIsCoded          == sum = SummaryAsCoded     \* the stored summary is what a from-scratch recomputation gives
AvailableIsSum      == PAvailable(sum)
BlockPowerIsSigners == \A k \in AllKinds : PBlockPower(sum, k)
TotalCountsOnce     == \A k \in AllKinds : PTotalOnce(sum, k)
MostVotedIsOracle   == \A k \in AllKinds : PMostVoted(sum, k)
\* every map iteration order gives the same result
OrderIndependent    == \A k \in Kinds : \A o \in Orders(keys[k]) :
                          /\ Coded(DoubleCount, bits[k], o) = [tot |-> sum.tot[k], bp |-> sum.bp[k], most |-> sum.most[k]]
                          /\ DistCoded(DoubleCount, bits[k], o) = DistAsCoded(k)
MinorityCannotSkip  == \A k \in AllKinds : PMinoritySkip(sum, k)
MinorityNotFull     == PMinorityFull(sum) /\ PFullMeansAll(sum)
StepConsequences    == LET st == Step(sum)
                       IN PMinorityStep(st) /\ PStepJustified(st) /\ PStepAsRecount(st)
DistIsRecount       == \A k \in Kinds : LET d == DistAsCoded(k)
                                        IN PDistAvailable(d) /\ PDistBlock(d, k) /\ PDistOnce(d, k)

TypeOK == /\ cfg \in Configs /\ pow = cfg.pow
          /\ Len(pow) <= 8
          /\ DOMAIN bits = AllKinds /\ DOMAIN keys = AllKinds
          /\ \A k \in AllKinds : /\ DOMAIN bits[k] = Target
                                 /\ keys[k] \subseteq Target
                                 /\ \A t \in Target : /\ bits[k][t] \subseteq Val
                                                      /\ bits[k][t] # {} => t \in keys[k]
                                 /\ k \notin Kinds => keys[k] = {}

-----------------------------------------------------------------------------
(* Export helpers: JSON-friendly projections *)
BPJson(f) == [t \in Target |-> IF t \in DOMAIN f THEN f[t] ELSE -1]   \* -1 = no map entry
SummaryJson(s) ==
  [avail |-> s.avail, tot |-> s.tot, most |-> s.most,
   bp |-> [prevote |-> BPJson(s.bp["prevote"]), precommit |-> BPJson(s.bp["precommit"])],
   step |-> Step(s)]
DistJson(d) == [avail |-> d.avail, present |-> d.present, bp |-> BPJson(d.bp)]
ExpectOf(b, ks) ==
  LET opv == SomeOrder(ks["prevote"])
      opc == SomeOrder(ks["precommit"])
  IN [asis   |-> SummaryJson(SummaryOf(TRUE, b, ks)),
      fixed  |-> SummaryJson(SummaryOf(FALSE, b, ks)),
      oracle |-> SummaryJson(SummaryRecountOf(b)),
      dist_asis  |-> [prevote   |-> DistJson(DistCoded(TRUE, b["prevote"], opv)),
                      precommit |-> DistJson(DistCoded(TRUE, b["precommit"], opc))],
      dist_fixed |-> [prevote   |-> DistJson(DistCoded(FALSE, b["prevote"], opv)),
                      precommit |-> DistJson(DistCoded(FALSE, b["precommit"], opc))],
      min |-> MinN(SumPow(Val)), maj |-> MajN(SumPow(Val)),
      signers |-> [prevote |-> SumPow(AnyOf(b["prevote"])), precommit |-> SumPow(AnyOf(b["precommit"]))],
      anysigners |-> SumPow(AnyOf(b["prevote"]) \cup AnyOf(b["precommit"]))]
Expect == ExpectOf(bits, keys)

-----------------------------------------------------------------------------
(* Behaviour *)
NoBits == [k \in AllKinds |-> [t \in Target |-> {}]]
NoKeys == [k \in AllKinds |-> {}]

\* NewVoteSummary(); SetAvailablePower(vals); both proof maps empty
Init == /\ cfg \in Configs
        /\ pow = cfg.pow
        /\ bits = NoBits
        /\ keys = NoKeys
        /\ sum = SummaryAsCoded
        /\ hist = <<>>

\* kernel.go addPrevote/addPrecommit "Bookkeeping": vrv.VoteSummary.Set<k>Powers(vals, proofs) rewrites
\* the fields of kind k only; nB, nK are the new proof map of kind k and its key set
Recompute(k, nB, nK) ==
  LET c == Coded(DoubleCount, nB, SomeOrder(nK))
  IN sum' = [sum EXCEPT !.tot[k] = c.tot, !.bp[k] = c.bp, !.most[k] = c.most]

\* a signature of validator v for target t of kind k is admitted (any order, any multiplicity of targets)
AddVote(k, v, t) ==
  /\ k \in Kinds /\ v \in Val /\ t \in Target
  /\ v \notin bits[k][t]
  /\ LET nB == [bits[k] EXCEPT ![t] = @ \cup {v}]
         nK == keys[k] \cup {t}
     IN /\ bits' = [bits EXCEPT ![k] = nB]
        /\ keys' = [keys EXCEPT ![k] = nK]
        /\ Recompute(k, nB, nK)
  /\ UNCHANGED <<pow, cfg>>

\* a proof-map entry for t is created without any signature in it
AddEntry(k, t) ==
  /\ cfg.entries
  /\ k \in Kinds /\ t \in Target
  /\ t \notin keys[k]
  /\ LET nK == keys[k] \cup {t}
     IN /\ keys' = [keys EXCEPT ![k] = nK]
        /\ Recompute(k, bits[k], nK)
  /\ UNCHANGED <<pow, cfg, bits>>

\* history for the behaviour export (MaxLen = 0: exhaustive runs keep none)
Record(op, k, v, t) ==
  hist' = IF MaxLen > 0
          THEN Append(hist, [op |-> op, kind |-> k, val |-> v, tgt |-> t, exp |-> ExpectOf(bits', keys')])
          ELSE hist

Next ==
  \/ \E k \in Kinds, v \in Val, t \in Target : AddVote(k, v, t) /\ Record("vote", k, v, t)
  \/ \E k \in Kinds, t \in Target : AddEntry(k, t) /\ Record("entry", k, 0, t)

Spec == Init /\ [][Next]_vars

Terminal == \A k \in Kinds : \A t \in Target : bits[k][t] = Val
HistBound == Len(hist) <= MaxLen

\* behaviour export (simulation): one line per behaviour
EmitBeh == (MaxLen > 0 /\ (Len(hist) = MaxLen \/ Terminal)) =>
             PrintT("BEH " \o ToJson([pow |-> pow, steps |-> hist]))
\* state export (exhaustive, VIEW hides hist): one line per distinct proof-map state
StateJson == [pow |-> pow,
              votes |-> [prevote   |-> [v \in Val |-> VotesOf("prevote", v)],
                         precommit |-> [v \in Val |-> VotesOf("precommit", v)]],
              keys |-> keys, exp |-> Expect]
EmitState == PrintT("BEH " \o ToJson(StateJson))
\* as-is runs (DoubleCount = TRUE): list, for every state, the C06 invariants the design violates there,
\* instead of stopping at the first one
BadSet == (IF TotalCountsOnce THEN {} ELSE {"TotalCountsOnce"})
            \cup (IF MinorityCannotSkip THEN {} ELSE {"MinorityCannotSkip"})
            \cup (IF MinorityNotFull THEN {} ELSE {"MinorityNotFull"})
            \cup (IF StepConsequences THEN {} ELSE {"StepConsequences"})
            \cup (IF DistIsRecount THEN {} ELSE {"DistIsRecount"})
ReportBad == BadSet # {} => PrintT("BAD " \o ToJson([bad |-> BadSet, pow |-> pow, kinds |-> Kinds,
                                                     votes |-> StateJson.votes]))
=============================================================================
