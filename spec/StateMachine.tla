---------------------------- MODULE StateMachine ----------------------------
(***************************************************************************)
(* The round state machine of gordian                                       *)
(* (tm/tmengine/internal/tmstate/statemachine.go, tsi/roundlifecycle.go,    *)
(* tsi/step.go, tsi/consensusmanager.go), written in the shape of the code: *)
(* one operator per Go function, the round lifecycle (rlc) as one record,   *)
(* the action / finalization / state-machine stores as variables written by *)
(* separate steps, and every collaborator (mirror, consensus strategy,      *)
(* round timer, driver) as the environment.                                 *)
(*                                                                          *)
(* A step context x = [s, st, o, pan] carries the rlc record s, the stores  *)
(* st, the outputs o emitted while handling one event (strategy requests,   *)
(* timer starts/cancels, round entrances, finalize requests, signatures,    *)
(* store writes, actions sent to the mirror) in order, and the panic        *)
(* reason.  Properties C02 C08 C12(a) are stated over rlc, stores and o.    *)
(***************************************************************************)
EXTENDS Integers, Sequences, FiniteSets, TLC

CONSTANTS NVal,        \* validators 1..NVal, equal power 1
          Me,          \* this node's validator index, 0 = no signer
          InitH

Val == 1..NVal
Maj(n) == IF n % 3 < 2 THEN 2 * (n \div 3) + 1 ELSE 2 * (n \div 3) + 2
Min(n) == IF n % 3 = 0 THEN n \div 3 ELSE (n \div 3) + 1

NULL == "null"
EmptyFn == [x \in {} |-> {}]

-----------------------------------------------------------------------------
(* ---- views as the mirror sends them ------------------------------------- *)
\* [h, r, ver, phs (set of block ids; ids starting with "M" are headers whose app state hash /
\*  validator sets do not match what the state machine expects), pv, pc : target -> set of validators]

Signers(p) == UNION {p[t] : t \in DOMAIN p}
Total(p) == Cardinality(Signers(p))
BlockPow(p, t) == IF t \in DOMAIN p THEN Cardinality(p[t]) ELSE 0
\* the most voted target; ties cannot be resolved without hash bytes, so worlds avoid top ties
MostVoted(p) == IF \A t \in DOMAIN p : p[t] = {} THEN "nil"
                ELSE CHOOSE t \in DOMAIN p : \A u \in DOMAIN p : Cardinality(p[t]) >= Cardinality(p[u])
MaxPow(p) == BlockPow(p, MostVoted(p))

Mismatched(b) == b \in {"M1", "M2", "M3"}
OKPHs(phs) == {b \in phs : ~Mismatched(b)}          \* [rejectMismatchedProposedHeaders]

\* [tsi.GetStepFromVoteSummary]
StepFromSummary(v) ==
  IF Total(v.pc) >= Maj(NVal) THEN (IF MaxPow(v.pc) >= Maj(NVal) THEN "CommitWait" ELSE "PrecommitDelay")
  ELSE IF Total(v.pc) >= Min(NVal) THEN "AwaitingPrecommits"
  ELSE IF Total(v.pv) >= Maj(NVal) THEN (IF MaxPow(v.pv) >= Maj(NVal) THEN "AwaitingPrecommits" ELSE "PrevoteDelay")
  ELSE "AwaitingProposal"

-----------------------------------------------------------------------------
(* ---- rlc ---------------------------------------------------------------- *)

NoView == [h |-> 0, r |-> 0, ver |-> 0, phs |-> {}, pv |-> EmptyFn, pc |-> EmptyFn]

\* [RoundLifecycle.Reset]
ResetRLC(s, h, r) == [s EXCEPT !.H = h, !.R = r, !.timer = "none",
                               !.propCh = TRUE, !.prevoteCh = TRUE, !.precommitCh = TRUE, !.finCh = TRUE,
                               !.hc = "open", !.cwElapsed = FALSE, !.considered = {}, !.pcDue = FALSE, !.hidden = {}]

ZeroRLC == [H |-> 0, R |-> 0, S |-> "none", timer |-> "none",
            propCh |-> FALSE, prevoteCh |-> FALSE, precommitCh |-> FALSE, finCh |-> FALSE,
            hc |-> "none", cwElapsed |-> FALSE, finalized |-> FALSE, considered |-> {},
            vrv |-> NoView, replaying |-> TRUE, actions |-> FALSE,
            cm |-> "idle", cmH |-> 0, cmR |-> 0, pcDue |-> FALSE,
            \* validator sets (ids): of the current height [CurValSet], the one headers of this height must name as next
            \* [PrevFinNextValSet], and what the driver returned for this height [FinalizedValSet] ("none" until then)
            curVS |-> "G", nextVS |-> "G", finVS |-> "none",
            \* proposed headers of the mirror's view that start-up filtered out of the stored copy [sendInitialActionSet];
            \* the mirror's next update of the round carries them again
            hidden |-> {}]

-----------------------------------------------------------------------------
Ctx0(s, st) == [s |-> s, st |-> st, o |-> <<>>, pan |-> "", stop |-> FALSE, needEntrance |-> FALSE, needAdvance |-> "none"]
Out(x, rec) == [x EXCEPT !.o = Append(@, rec)]
Panic(x, why) == IF x.pan = "" THEN [x EXCEPT !.pan = why] ELSE x
OKx(x) == x.pan = "" /\ ~x.stop

Participating == Me # 0

\* The application changes the validator set at every height: finalizing height h returns FinVS(h), which applies from
\* h+2 on (same keys, all powers scaled, so the 3-of-4 thresholds stay valid).  ChainVS(h) is what the chain
\* therefore prescribes for height h; the finalization store holds FinVS(InitH-1) = genesis from the start [Engine.New].
FinVS(h) == IF h % 2 = 1 THEN "G2" ELSE "G"
ChainVS(h) == IF h <= InitH + 1 THEN "G" ELSE FinVS(h - 2)
FinAt(st, h) == IF h = InitH - 1 THEN "G" ELSE IF h \in DOMAIN st.fin THEN st.fin[h] ELSE "missing"

\* a request to the consensus manager.  `timed` requests give up after 100 ms and panic.
CMRequest(x, kind, arg, timed) ==
  IF x.s.cm # "idle"
    THEN IF timed THEN Panic(x, "TODO: handle blocked send to " \o kind)
         ELSE Out(x, [t |-> "blocked", kind |-> kind])      \* SendC blocks until the strategy returns
  ELSE Out([x EXCEPT !.s.cm = kind, !.s.cmH = x.s.H, !.s.cmR = x.s.R],
           [t |-> "strategy", kind |-> kind, h |-> x.s.H, r |-> x.s.R, arg |-> arg])

StartTimer(x, name) == Out([x EXCEPT !.s.timer = name], [t |-> "timerStart", name |-> name, h |-> x.s.H, r |-> x.s.R])
CancelTimer(x) == IF x.s.timer = "none" THEN x
                  ELSE Out([x EXCEPT !.s.timer = "none"], [t |-> "timerCancel", name |-> x.s.timer])

-----------------------------------------------------------------------------
(* ---- begin commit / advance ---------------------------------------------- *)

\* [beginCommit]
BeginCommit(x, v) ==
  LET x1 == StartTimer([x EXCEPT !.s.S = "CommitWait"], "CommitWait")
      b == MostVoted(v.pc)
  IN IF b \in v.phs THEN Out(x1, [t |-> "finalizeReq", h |-> x.s.H, r |-> v.r, block |-> b, why |-> "quorum", _pow |-> Cardinality(v.pc[b])]) ELSE x1

\* the entrance response resp chosen by the environment: [kind |-> "VRV", v |-> view] or [kind |-> "CH", block |-> b, r |-> round]
\* [beginRoundLive]
BeginRoundLive(x, v) ==
  LET step == StepFromSummary(v)
  IN CASE step = "AwaitingProposal" ->
            LET ok == OKPHs(v.phs)
                x1 == IF ok # {} THEN CMRequest([x EXCEPT !.s.considered = @ \cup ok], "Consider", ok, FALSE) ELSE x
            IN StartTimer([x1 EXCEPT !.s.S = "AwaitingProposal", !.s.vrv = v, !.s.replaying = FALSE], "Proposal")
       [] step = "PrevoteDelay" -> Panic(x, "BUG: unhandled initial step PrevoteDelay")
       [] step = "PrecommitDelay" -> Panic(x, "BUG: unhandled initial step PrecommitDelay")
       [] step = "AwaitingPrecommits" ->
            [CMRequest(x, "Decide", NULL, FALSE) EXCEPT !.s.S = "AwaitingPrecommits", !.s.vrv = v, !.s.replaying = FALSE]
       [] step = "CommitWait" ->
            IF MostVoted(v.pc) = "nil" THEN [x EXCEPT !.needAdvance = "round"]
            ELSE [BeginCommit(x, v) EXCEPT !.s.vrv = v, !.s.replaying = FALSE]

\* [advance] after a round entrance (h, r) answered with resp
Enter(x, resp) ==
  IF resp.kind = "VRV"
    THEN \* EnterRound goes through the consensus manager goroutine: it waits while the strategy is still
         \* busy with an earlier call
         IF x.s.cm # "idle" THEN Out(x, [t |-> "blocked", kind |-> "EnterRound"])
         ELSE
         LET x1 == Out([x EXCEPT !.s.actions = Participating],
                       [t |-> "enterRound", h |-> x.s.H, r |-> x.s.R, propose |-> x.s.propCh])
         IN BeginRoundLive(x1, resp.v)
    ELSE \* catch-up: the mirror supplies the committed header; ask the driver to finalize it.
         \* [MarkCatchingUp] clears the three strategy channels and the round view (IsReplaying) and sets
         \* CommitWaitElapsed
         Out([x EXCEPT !.s.replaying = TRUE, !.s.vrv = NoView, !.s.propCh = FALSE, !.s.prevoteCh = FALSE,
                       !.s.precommitCh = FALSE, !.s.cwElapsed = TRUE, !.s.S = "Catchup"],
             [t |-> "finalizeReq", h |-> x.s.H, r |-> resp.r, block |-> resp.block, why |-> "catchup", _pow |-> 0])

\* [advanceRound]: Reset, store write, round entrance (the response is supplied by the next macro step)
AdvanceRound(x) ==
  LET x0 == CancelTimer(x)
      s1 == ResetRLC(x0.s, x0.s.H, x0.s.R + 1)
      x1 == Out([x0 EXCEPT !.s = s1, !.st.smhr = <<s1.H, s1.R>>], [t |-> "write", store |-> "sm", h |-> s1.H, r |-> s1.R])
  IN Out([x1 EXCEPT !.needEntrance = TRUE], [t |-> "entrance", h |-> s1.H, r |-> s1.R])

\* [advanceHeight]: CycleFinalization, Reset, store write, round entrance
AdvanceHeight(x) ==
  LET x0 == CancelTimer(x)
      \* [CycleFinalization]: the next height's set is the one headers of this height named; what the driver returned
      \* for this height becomes the set headers of the next height must name
      s1 == [ResetRLC(x0.s, x0.s.H + 1, 0) EXCEPT !.finalized = FALSE, !.curVS = x0.s.nextVS, !.nextVS = x0.s.finVS, !.finVS = "none"]
      x1 == Out([x0 EXCEPT !.s = s1, !.st.smhr = <<s1.H, 0>>], [t |-> "write", store |-> "sm", h |-> s1.H, r |-> 0])
  IN Out([x1 EXCEPT !.needEntrance = TRUE], [t |-> "entrance", h |-> s1.H, r |-> 0])

-----------------------------------------------------------------------------
(* ---- view updates [handleViewUpdate and the four per-step handlers] ------ *)

\* [handleProposalViewUpdate]
ProposalViewUpdate(x, v) ==
  LET maj == Maj(NVal)  mn == Min(NVal) IN
  IF Total(v.pc) >= maj THEN
       LET x1 == CancelTimer(x) IN
       IF MaxPow(v.pc) >= maj
         THEN IF MostVoted(v.pc) = "nil" THEN AdvanceRound(x1) ELSE BeginCommit(x1, v)
         ELSE CMRequest(StartTimer([x1 EXCEPT !.s.S = "PrecommitDelay"], "PrecommitDelay"), "Decide", NULL, FALSE)
  ELSE IF Total(v.pc) >= mn THEN
       CMRequest([CancelTimer(x) EXCEPT !.s.S = "AwaitingPrecommits"], "Decide", NULL, FALSE)
  ELSE IF Total(v.pv) >= maj THEN
       LET x1 == CancelTimer(x)
           ok == OKPHs(v.phs)
       IN IF MaxPow(v.pv) >= maj
            THEN [CMRequest([x1 EXCEPT !.s.S = "AwaitingPrecommits"], "Choose", ok, TRUE) EXCEPT !.s.considered = {}, !.s.pcDue = Participating]
            ELSE LET x2 == StartTimer([x1 EXCEPT !.s.S = "PrevoteDelay"], "PrevoteDelay")
                 IN IF ok # {} THEN CMRequest([x2 EXCEPT !.s.considered = @ \cup ok], "Consider", ok, TRUE) ELSE x2
  ELSE IF Cardinality(v.phs) > Cardinality(x.s.vrv.phs) /\ Cardinality(OKPHs(v.phs)) > Cardinality(OKPHs(x.s.vrv.phs))
       THEN CMRequest([x EXCEPT !.s.considered = @ \cup OKPHs(v.phs)], "Consider", OKPHs(v.phs), TRUE)
  ELSE x

\* [handlePrevoteViewUpdate] (AwaitingPrevotes, PrevoteDelay)
PrevoteViewUpdate(x, v) ==
  LET maj == Maj(NVal) IN
  IF Total(v.pc) >= maj THEN
       LET x1 == IF x.s.S = "PrevoteDelay" THEN CancelTimer(x) ELSE x IN
       IF MaxPow(v.pc) >= maj
         THEN IF MostVoted(v.pc) = "nil" THEN AdvanceRound(x1) ELSE BeginCommit(x1, v)
         ELSE CMRequest(StartTimer([x1 EXCEPT !.s.S = "PrecommitDelay"], "PrecommitDelay"), "Decide", NULL, FALSE)
  ELSE IF Total(v.pv) >= maj THEN
       IF MaxPow(v.pv) >= maj
         THEN LET x1 == IF x.s.S = "PrevoteDelay" THEN CancelTimer(x) ELSE x
              IN CMRequest([x1 EXCEPT !.s.S = "AwaitingPrecommits"], "Decide", NULL, FALSE)
         ELSE IF x.s.S = "AwaitingPrevotes" THEN StartTimer([x EXCEPT !.s.S = "PrevoteDelay"], "PrevoteDelay") ELSE x
  ELSE x

\* [handlePrecommitViewUpdate] (AwaitingPrecommits, PrecommitDelay)
PrecommitViewUpdate(x, v) ==
  LET maj == Maj(NVal) IN
  IF Total(v.pc) >= maj THEN
       IF MaxPow(v.pc) >= maj
         THEN IF MostVoted(v.pc) = "nil" THEN AdvanceRound(x)
              ELSE BeginCommit(IF x.s.S = "PrecommitDelay" THEN CancelTimer(x) ELSE x, v)
         ELSE IF Total(v.pc) = NVal THEN AdvanceRound(x)
         ELSE IF x.s.S = "AwaitingPrecommits" THEN StartTimer([x EXCEPT !.s.S = "PrecommitDelay"], "PrecommitDelay") ELSE x
  ELSE x

\* [handleCommitWaitViewUpdate] (CommitWait, AwaitingFinalization)
CommitWaitViewUpdate(x, v) ==
  IF ~x.s.finCh THEN x
  ELSE IF MostVoted(x.s.vrv.pc) \in x.s.vrv.phs THEN x
  ELSE IF MostVoted(v.pc) \in v.phs
         THEN Out(x, [t |-> "finalizeReq", h |-> x.s.H, r |-> v.r, block |-> MostVoted(v.pc), why |-> "quorum", _pow |-> Cardinality(v.pc[MostVoted(v.pc)])])
  ELSE x

\* [handleJumpAhead]
JumpAhead(x, j) ==
  IF j.h # x.s.H THEN Panic(x, "BUG: attempted to jump ahead to another height")
  ELSE IF j.r <= x.s.R THEN Panic(x, "BUG: attempted to jump ahead to an earlier or the same round")
  ELSE AdvanceRound(x)

\* [handleViewUpdate] with upd = [v |-> view or NoView, jump |-> [h, r] or [h |-> 0, r |-> 0]]
ViewUpdate(x, upd) ==
  LET v == upd.v IN
  IF v.h = 0 THEN (IF upd.jump.h = 0 THEN Panic(x, "BUG: received view update with empty VRV and nil JumpAheadRoundView")
                   ELSE JumpAhead(x, upd.jump))
  ELSE IF v.h # x.s.H \/ v.r # x.s.R THEN x
  ELSE IF v.ver <= x.s.vrv.ver THEN [x EXCEPT !.stop = TRUE]       \* watchdog terminate
  ELSE
   LET x1 == CASE x.s.S = "AwaitingProposal" -> ProposalViewUpdate(x, v)
               [] x.s.S \in {"AwaitingPrevotes", "PrevoteDelay"} -> PrevoteViewUpdate(x, v)
               [] x.s.S \in {"AwaitingPrecommits", "PrecommitDelay"} -> PrecommitViewUpdate(x, v)
               [] x.s.S \in {"CommitWait", "AwaitingFinalization"} -> CommitWaitViewUpdate(x, v)
               [] OTHER -> Panic(x, "TODO: handle view update for step")
       \* the new view is kept only if the round did not change
       x2 == IF OKx(x1) /\ x1.s.H = v.h /\ x1.s.R = v.r /\ ~x1.needEntrance THEN [x1 EXCEPT !.s.vrv = v, !.s.hidden = {}] ELSE x1
   IN IF OKx(x2) /\ upd.jump.h # 0 /\ ~x2.needEntrance THEN JumpAhead(x2, upd.jump) ELSE x2

-----------------------------------------------------------------------------
(* ---- strategy results, timers, finalization ------------------------------ *)

SignAndSave(x, kind, target) ==
  LET key == <<kind, x.s.H, x.s.R>>
      x1 == Out(x, IF kind = "proposal"
                     THEN \* the proposed header carries the current height's set and the set the next height will use
                          [t |-> "sign", kind |-> kind, h |-> x.s.H, r |-> x.s.R, target |-> target, vs |-> x.s.curVS, nvs |-> x.s.nextVS]
                     ELSE [t |-> "sign", kind |-> kind, h |-> x.s.H, r |-> x.s.R, target |-> target])
  IN IF key \in DOMAIN x1.st.actions
       THEN [x1 EXCEPT !.stop = TRUE]             \* DoubleActionError: the state machine stops
       ELSE Out(Out([x1 EXCEPT !.st.actions = (key :> target) @@ @],
                    [t |-> "write", store |-> "action", kind |-> kind, h |-> x.s.H, r |-> x.s.R, target |-> target]),
                [t |-> "action", kind |-> kind, h |-> x.s.H, r |-> x.s.R, target |-> target])

\* [recordProposedHeader] proposal with data id d
RecordProposal(x, d) == [IF Participating THEN SignAndSave(x, "proposal", d) ELSE x EXCEPT !.s.propCh = FALSE]

\* [recordPrevote]
RecordPrevote(x, target) ==
  LET x1 == IF Participating THEN SignAndSave(x, "prevote", target) ELSE x
      x2 == IF OKx(x1) /\ x1.s.S = "AwaitingProposal" THEN CancelTimer([x1 EXCEPT !.s.S = "AwaitingPrevotes"]) ELSE x1
      \* the prevote quorum was seen before our own prevote: the precommit decision is requested now
      x3 == IF OKx(x2) /\ x2.s.pcDue
              THEN (IF x2.s.S = "AwaitingPrecommits" /\ x2.s.precommitCh
                      THEN CMRequest([x2 EXCEPT !.s.pcDue = FALSE], "Decide", NULL, FALSE)
                      ELSE [x2 EXCEPT !.s.pcDue = FALSE])
              ELSE x2
  IN [x3 EXCEPT !.s.prevoteCh = FALSE]

\* [recordPrecommit]
RecordPrecommit(x, target) ==
  [IF Participating THEN SignAndSave(x, "precommit", target) ELSE x EXCEPT !.s.precommitCh = FALSE]

\* [handleTimerElapsed]
TimerElapsed(x) ==
  CASE x.s.S = "AwaitingProposal" ->
         [CancelTimer([CMRequest(x, "Choose", OKPHs(x.s.vrv.phs), FALSE) EXCEPT !.s.S = "AwaitingPrevotes", !.s.considered = {}])
            EXCEPT !.s.timer = "none"]
    [] x.s.S = "PrevoteDelay" ->
         [CancelTimer([CMRequest(x, "Decide", NULL, FALSE) EXCEPT !.s.S = "AwaitingPrecommits"]) EXCEPT !.s.timer = "none"]
    [] x.s.S = "PrecommitDelay" -> AdvanceRound(x)
    [] x.s.S = "CommitWait" ->
         LET x1 == CancelTimer([x EXCEPT !.s.cwElapsed = TRUE]) IN
         IF ~x1.s.finalized THEN [x1 EXCEPT !.s.S = "AwaitingFinalization"] ELSE AdvanceHeight(x1)
    [] OTHER -> Panic(x, "BUG: unhandled timer elapse for step")

\* [handleHeightCommitted]
HeightCommitted(x) ==
  LET x1 == CancelTimer([x EXCEPT !.s.hc = "done", !.s.cwElapsed = TRUE]) IN
  IF x1.s.S = "AwaitingFinalization" THEN x1
  ELSE IF x1.s.S # "CommitWait" THEN Panic(x1, "BUG: expected to be on step commit wait")
  ELSE IF ~x1.s.finalized THEN [x1 EXCEPT !.s.S = "AwaitingFinalization"]
  ELSE AdvanceHeight(x1)

\* [handleFinalization] resp = [h, r] echoed by the driver (validators always supplied)
Finalized(x, resp) ==
  LET x1 == [x EXCEPT !.s.finalized = TRUE, !.s.finCh = FALSE] IN
  IF resp.h # x.s.H \/ resp.r # x.s.R THEN Panic(x1, "BUG: driver sent height/round differing from current")
  ELSE IF x.s.H \in DOMAIN x.st.fin THEN [x1 EXCEPT !.stop = TRUE]        \* FinalizationOverwriteError
  ELSE LET \* the returned set is what is stored [SaveFinalization(... rlc.FinalizedValSet ...)]
           x2 == Out([x1 EXCEPT !.s.finVS = FinVS(x.s.H), !.st.fin = (x.s.H :> FinVS(x.s.H)) @@ @],
                     [t |-> "write", store |-> "fin", h |-> x.s.H, r |-> x.s.R, vs |-> FinVS(x.s.H)])
       IN IF x2.s.S = "AwaitingFinalization" THEN AdvanceHeight(x2) ELSE x2

\* [handleBlockDataArrival] for data id d at (h, r)
BlockDataArrival(x, a) ==
  IF ~x.s.prevoteCh \/ a.h # x.s.H \/ a.r # x.s.R THEN x
  ELSE LET ok == OKPHs(x.s.vrv.phs) IN
       IF ok = {} \/ a.d \notin ok THEN x
       ELSE CMRequest(x, "Consider", ok, FALSE)

\* [initializeRLC + sendInitialActionSet]: position from the state machine store, moved past a stored
\* finalization; the entrance response is supplied by the environment
BootPos(st) == LET h0 == IF st.smhr = <<0, 0>> THEN InitH ELSE st.smhr[1]
                   r0 == IF st.smhr = <<0, 0>> THEN 0 ELSE st.smhr[2]
               IN IF h0 \in DOMAIN st.fin THEN <<h0 + 1, 0>> ELSE <<h0, r0>>

Boot(st, resp) ==
  LET pos == BootPos(st)
      \* [sendInitialActionSet]: genesis sets at the initial height, otherwise the finalizations of h-2 and h-1
      s0 == [ResetRLC(ZeroRLC, pos[1], pos[2]) EXCEPT !.hc = "open",
                !.curVS = IF pos[1] = InitH THEN "G" ELSE FinAt(st, pos[1] - 2),
                !.nextVS = IF pos[1] = InitH THEN "G" ELSE FinAt(st, pos[1] - 1)]
      x0 == Out(Ctx0(s0, st), [t |-> "entrance", h |-> pos[1], r |-> pos[2]])
  IN IF resp.kind = "CH"
       THEN Out([x0 EXCEPT !.s.replaying = TRUE, !.s.S = "Catchup"],
                [t |-> "finalizeReq", h |-> pos[1], r |-> resp.r, block |-> resp.block, why |-> "catchup", _pow |-> 0])
       ELSE
        \* a proposal already recorded for this round is re-sent instead of asking the strategy again;
        \* stored prevotes/precommits are NOT consulted (TODO in initializeRLC)
        LET key == <<"proposal", pos[1], pos[2]>>
            mine == Participating /\ key \in DOMAIN st.actions
            x1 == IF mine THEN Out([x0 EXCEPT !.s.propCh = FALSE],
                                   [t |-> "action", kind |-> "proposal", h |-> pos[1], r |-> pos[2], target |-> st.actions[key]])
                  ELSE x0
            \* at start-up the view's proposed headers are filtered before use [sendInitialActionSet]
            v0 == [resp.v EXCEPT !.phs = OKPHs(@)]
            hid == resp.v.phs \ OKPHs(resp.v.phs)
            v == IF mine THEN [v0 EXCEPT !.phs = @ \cup {st.actions[key]}] ELSE v0
            x2 == Out([x1 EXCEPT !.s.actions = Participating, !.s.hidden = hid],
                      [t |-> "enterRound", h |-> pos[1], r |-> pos[2], propose |-> x1.s.propCh])
        IN BeginRoundLive(x2, v)

\* [handleCatchupEvent]: while rlc.VRV is nil only finalization responses are handled; the step is forced
\* to AwaitingFinalization so that handleFinalization advances the height
CatchupFinalized(x, resp) == Finalized([x EXCEPT !.s.S = "AwaitingFinalization"], resp)

=============================================================================
