--------------------------- MODULE HashSignTrace ---------------------------
(* code -> spec for C15.  The Go harness writes, for abstract headers /      *)
(* sign items it instantiated (exported cases AND seeded random ones beyond  *)
(* the exported bounds), the class index of the REAL block hash / sign       *)
(* bytes (equal real outputs <=> equal class index).  A row is accepted iff  *)
(* the specification's canonical serialization relates it to all earlier     *)
(* rows in the same way: known class => identical serialization; new class   *)
(* => serialization not seen before.  So the kernel of the real function is  *)
(* the kernel of Ser.  SigsBound selects the as-is deviation (FALSE) or the  *)
(* design (TRUE).  memoH / memoS: class -> serialization of its first row.   *)
EXTENDS HashSign
Trace == ndJsonDeserialize("trace.ndjson")
VARIABLES l, memoH, memoS
Range(s) == {s[i] : i \in DOMAIN s}
TPcp(hj) == {<<en.key, {<<x.k, x.s>> : x \in Range(en.sigs)}>> : en \in Range(hj.pcp)}
TSer(hj) == FullSer(hj, TPcp(hj), SigsBound)
Empty == [x \in {} |-> {}]

TInit == l = 1 /\ memoH = Empty /\ memoS = Empty /\ b = 1 /\ h = Base(1) /\ e = NoEdit(h) /\ item = NoItem
Accept(memo, c, s) == IF c \in DOMAIN memo THEN memo[c] = s ELSE \A k \in DOMAIN memo : memo[k] # s
HashRow == /\ Trace[l].op = "hash"
           /\ LET s == TSer(Trace[l].h) c == Trace[l].cls IN
                /\ Accept(memoH, c, s)
                /\ memoH' = IF c \in DOMAIN memoH THEN memoH ELSE memoH @@ (c :> s)
           /\ UNCHANGED memoS
SignRow == /\ Trace[l].op = "sign"
           /\ LET s == SignSer(Trace[l].item) c == Trace[l].cls IN
                /\ Accept(memoS, c, s)
                /\ memoS' = IF c \in DOMAIN memoS THEN memoS ELSE memoS @@ (c :> s)
           /\ UNCHANGED memoH
TNext == l <= Len(Trace) /\ (HashRow \/ SignRow) /\ l' = l + 1 /\ UNCHANGED vars
TraceDone == TLCGet("stats").diameter - 1 = Len(Trace)
=============================================================================
