\* exhaustive, design mode (DoubleCount = FALSE); history off, VIEW = state without hist;
\* EmitState prints every distinct proof-map state with the expected summaries (spec -> code)
CONSTANTS
  Configs <- C_quick
  TOrder <- TO3
  DoubleCount = FALSE
  MaxLen = 0
INIT Init
NEXT Next
VIEW view
INVARIANTS TypeOK SumIsCoded AvailableIsSum BlockPowerIsSigners TotalCountsOnce MostVotedIsOracle OrderIndependent MinorityCannotSkip MinorityNotFull StepConsequences DistIsRecount EmitState
CHECK_DEADLOCK FALSE
