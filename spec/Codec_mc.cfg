CONSTANTS
  RegistryChecksLength = FALSE
  MaxDist = 1
  CorrDist = 0
  DoEmit = TRUE
  Variants = {"Header", "ProposedHeader", "CommittedHeader", "PrevoteProof", "PrecommitProof", "CM.ProposedHeader", "CM.PrevoteProof", "CM.PrecommitProof"}
INIT Init
NEXT Next
INVARIANTS TypeOK Check
CHECK_DEADLOCK FALSE
