CONSTANTS
  MaxTimers = 4
  Dev = {"StartBeatsCancel", "TickBeatsCancel", "CloseNotAtomic"}
  GoTimer = "sync"
  Disciplined = TRUE
  WithCtx = FALSE
  MaxLen = 0
INIT TInit
NEXT TNext
INVARIANTS TraceTypeOK
POSTCONDITION TraceDone
CHECK_DEADLOCK FALSE
