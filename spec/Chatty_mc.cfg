\* exhaustive over all behaviours with <= MaxEvents mirror events (any number of deliveries),
\* as-is strategy: Sound, EnvOK and Complete modulo the named deviation; proposed fix (offeredF): Sound and full Complete
CONSTANTS
  v1 = v1
  v2 = v2
  v3 = v3
  v4 = v4
  v5 = v5
  A = A
  B = B
  C = C
  NilT = NilT
  Val = {v1, v2, v3}
  Byz = {v1}
  Heavy = {v3}
  HeavyPow = 3
  MaxSigs = 1
  HashSeq <- HS2
  MaxH = 2
  MaxR = 1
  Kinds = {"pv", "pc"}
  Fixed = FALSE
  Restart = FALSE
  MaxUpdates = 0
  MaxGap = 0
  MaxEvents = 3
INIT Init
NEXT Next
VIEW mcview
INVARIANTS Sound CompleteModuloKnown SoundF CompleteF EnvOK
CHECK_DEADLOCK FALSE
