CONSTANTS
  NMax = 400
  TraceFile = "none"
INIT Init
NEXT Next
INVARIANTS Exact ExactArith Overlap Harmless
CHECK_DEADLOCK FALSE
