CONSTANTS
  ValsetDef <- W_Valsets
  GenesisVS <- W_Genesis
  HDR <- W_HDR
  Rank <- W_Rank
  InitH = 1
  Guide <- W_Guide
  MaxSteps = 8
  AllowCrash = FALSE
  AvoidPanics = FALSE
  EmitAll = TRUE
INIT Init
NEXT Next
CHECK_DEADLOCK FALSE
INVARIANTS Emit
