INIT TInit
NEXT TNext
INVARIANTS Agreement Contiguous
POSTCONDITION TraceDone
CHECK_DEADLOCK FALSE
