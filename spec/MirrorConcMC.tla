---------------------------- MODULE MirrorConcMC ----------------------------
(* Concurrent callers of Handle{Prevote,Precommit}Proofs (C04 C05 C06 C09:   *)
(* "for all schedules").  Each of two callers is between the two phases of   *)
(* its call (Mirror.tla: Snap / HandleVoteSnap) for as long as the scheduler *)
(* likes; anything else -- the other caller, proposed headers, sequential    *)
(* votes, the state machine -- may run in between.  A caller may also give   *)
(* up (its context ends) while the kernel is working on its request.         *)
(* The harness drives the real Mirror into exactly these interleavings with  *)
(* the verifGate hook between the two phases and a held round-store write.   *)
EXTENDS MirrorMC

VARIABLE pend      \* caller -> NoPend or the call it is in the middle of

Callers == {1, 2}
NoPend == [on |-> FALSE]
cvars == <<ks, st, pan, out, hist, pend>>

CInit == Init /\ pend = [c \in Callers |-> NoPend]

\* phase 1: the kernel answers the view lookup; the caller now holds a copy
CStart(c) ==
  /\ Up /\ ~pend[c].on
  /\ \E m \in W_VoteMsgs :
       /\ DOMAIN m.proofs # {}
       /\ LET sn == Snap(ks, m)
              x == IF sn.status = "PANIC" THEN Panic(Ctx0(ks, st), "TODO: unhandled attempt to find view")
                   ELSE [Ctx0(ks, st) EXCEPT !.res = "parked"]
          IN /\ Apply(x, "CStart", [c |-> c, m |-> m], 0)
             /\ pend' = [pend EXCEPT ![c] = IF sn.status = "PANIC" THEN NoPend ELSE [on |-> TRUE, m |-> m, snap |-> sn]]

\* phase 2: signatures computed from the copy, add request with the copy's versions; on Conflict the caller
\* looks up again and is between the phases once more
CFinish(c) ==
  /\ Up /\ pend[c].on /\ "ph" \notin DOMAIN pend[c]
  /\ LET p == pend[c]
         x == HandleVoteSnap(Ctx0(ks, st), p.m.kind, p.m, p.snap)
         retry == x.pan = "" /\ x.res = "Conflict"
         x2 == IF retry THEN [x EXCEPT !.res = "retry"] ELSE x
     IN /\ Apply(x2, "CFinish", [c |-> c], 0)
        /\ pend' = [pend EXCEPT ![c] = IF retry THEN [p EXCEPT !.snap = Snap(x.k, p.m)] ELSE NoPend]

\* the caller's context ends while the kernel is inside its add request (the harness holds the round store write):
\* the kernel finishes the request, nobody waits for the answer, the caller reports an internal error and does not retry
CAbandon(c) ==
  /\ Up /\ pend[c].on /\ "ph" \notin DOMAIN pend[c]
  /\ LET p == pend[c]
         x == HandleVoteSnap(Ctx0(ks, st), p.m.kind, p.m, p.snap)
         wrote == Len(x.wlog) > 0
         retry == ~wrote /\ x.pan = "" /\ x.res = "Conflict"
         x2 == IF wrote /\ x.pan = "" THEN [x EXCEPT !.res = "InternalError"]
               ELSE IF retry THEN [x EXCEPT !.res = "retry"] ELSE x
     IN /\ Apply(x2, "CAbandon", [c |-> c], 0)
        /\ pend' = [pend EXCEPT ![c] = IF retry THEN [p EXCEPT !.snap = Snap(x.k, p.m)] ELSE NoPend]

\* HandleProposedHeader between its two phases (headers of the voting height only: the next-height path restarts itself)
CStartPH(c) ==
  /\ Up /\ ~pend[c].on
  /\ \E m \in W_PHMsgs :
       /\ m.prop # 0
       /\ LET sn == PHSnap(ks, m) IN
            /\ sn.chk.status \in {"Check", "RoundTooOld", "RoundTooFarInFuture"}
            /\ Apply([Ctx0(ks, st) EXCEPT !.res = "parked"], "CStartPH", [c |-> c, m |-> m], 0)
            /\ pend' = [pend EXCEPT ![c] = [on |-> TRUE, ph |-> TRUE, m |-> m, snap |-> sn]]

CFinishPH(c) ==
  /\ Up /\ pend[c].on /\ "ph" \in DOMAIN pend[c]
  /\ LET p == pend[c]
         x == IF p.snap.chk.status = "RoundTooOld" THEN [Ctx0(ks, st) EXCEPT !.res = "RoundTooOld"]
              ELSE IF p.snap.chk.status = "RoundTooFarInFuture" THEN [Ctx0(ks, st) EXCEPT !.res = "RoundTooFarInFuture"]
              ELSE HandlePHFrom(Ctx0(ks, st), p.m, p.snap)
     IN /\ Apply(x, "CFinishPH", [c |-> c], 0)
        /\ pend' = [pend EXCEPT ![c] = NoPend]

CNext ==
  /\ Len(hist) < MaxSteps
  /\ \/ \E c \in Callers : CStart(c) \/ CFinish(c) \/ CAbandon(c) \/ CStartPH(c) \/ CFinishPH(c)
     \/ (Up /\ (DoPH \/ DoSMEnter) /\ UNCHANGED pend)

CView == <<ks, st, pan, pend>>
\* edge cover: finishing a parked call often leads to a state a shorter path reached already, so the step itself
\* is part of the view used for the export
CEdgeView == <<ks, st, pan, pend, LastStep>>

\* every call that returned Accepted has all its authentic, in-range signatures in the view it was for, as long as the
\* mirror still holds that view (nothing a concurrent caller did may lose them)
CEmitEvery == (EmitAll /\ Len(hist) > 1) => PrintT("BEH " \o ToJson(hist))
=============================================================================
