CONSTANTS
  Unmapped <- UnmappedOriginal
INIT Init
NEXT Next
INVARIANTS MapperTotal
CHECK_DEADLOCK FALSE
