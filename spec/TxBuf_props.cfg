\* the step predicates checked the TLC-native way, as action properties (cross-check of the bad' encoding)
CONSTANTS
  NS = 2
  NT = 2
  Tables <- AllTables
  MaxPending = 3
  MaxHist = 0
  KeepHist = FALSE
  ByValueInvalidation = FALSE
SPECIFICATION Spec
VIEW view
CONSTRAINT PendingBound
INVARIANTS TypeOK PendingAppliesInOrder
PROPERTIES AppendOnlyIfApplies RebaseKeepsExactly RebaseReturnsRestAsInvalidated BufferedReadsPending KeptIsExact
CHECK_DEADLOCK FALSE
