INIT Init
NEXT Next
INVARIANTS TypeOK
POSTCONDITION ReportHW
CHECK_DEADLOCK FALSE
