\* exhaustive: ALL apply tables over 2 states x 2 transactions
CONSTANTS
  NS = 2
  NT = 2
  Tables <- AllTables
  MaxPending = 5
  MaxHist = 0
  KeepHist = FALSE
  ByValueInvalidation = FALSE
SPECIFICATION Spec
VIEW view
CONSTRAINT PendingBound
INVARIANTS TypeOK PendingAppliesInOrderG DeviatedOnlyAsIs StepPredicatesHold
CHECK_DEADLOCK FALSE
