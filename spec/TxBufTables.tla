---------------------------- MODULE TxBufTables ----------------------------
(* Selection of apply tables over 3 states x 3 transactions.  This file is  *)
(* the default (curated tables only); checks/c19.py overwrites it in the    *)
(* TLC scratch directory with curated + seeded random tables.               *)
(* Row s, column t: state after applying t in s, 0 = invalid.               *)
SampleTables == {
  <<<<2,1,0>>,<<3,2,1>>,<<0,3,1>>>>,   \* t1 counter up to 3 (becomes invalid), t2 identity, t3 reset-to-1 (invalid in 1)
  <<<<2,3,1>>,<<3,1,2>>,<<1,2,3>>>>,   \* all valid, order dependent (permutations)
  <<<<2,0,0>>,<<0,3,0>>,<<0,0,1>>>>,   \* strict chain: only one order applies
  <<<<1,1,1>>,<<2,2,2>>,<<3,3,3>>>>,   \* identity transactions
  <<<<0,0,0>>,<<0,0,0>>,<<0,0,0>>>>    \* nothing applies
}
=============================================================================
