CONSTANTS
  NS = 1
  NT = 1
  Tables = {}
  MaxPending = 0
  MaxHist = 0
  KeepHist = FALSE
  ByValueInvalidation = TRUE
INIT TInit
NEXT TNext
INVARIANTS PendingAppliesInOrderG DeviatedOnlyAsIs StepPredicatesHold
POSTCONDITION TraceDone
CHECK_DEADLOCK FALSE
