-------------------------- MODULE ThresholdsTrace --------------------------
(* code -> spec: triples (n, maj, min) recorded from the Go functions must  *)
(* equal the specification's definitions.                                   *)
EXTENDS Thresholds, Sequences, Json, TLC
MajN(n) == Maj(n \div 3, n % 3)
MinN(n) == Min(n \div 3, n % 3)
Trace == ndJsonDeserialize("trace.ndjson")
VARIABLE l
TInit == l = 1
TNext == l <= Len(Trace) /\ l' = l + 1
TraceOK == l <= Len(Trace) =>
             /\ Trace[l].maj = MajN(Trace[l].n)
             /\ Trace[l].min = MinN(Trace[l].n)
TraceDone == TLCGet("stats").diameter - 1 = Len(Trace)
=============================================================================
