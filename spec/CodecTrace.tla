----------------------------- MODULE CodecTrace -----------------------------
(* code -> spec for C14.  Each row is a seeded random shape over the FULL     *)
(* product (not only the exported Hamming radius), optionally with a random   *)
(* structural corruption, together with what the REAL tmjson codec did with   *)
(* the resulting bytes under each of the six Unmarshal methods.  The row is   *)
(* accepted iff the corruption is one of the specification's operators on the *)
(* specification's encoding of that shape and the specification's Decode       *)
(* predicts exactly the observed outcomes (and decoded variant).               *)
EXTENDS Codec
Trace == ndJsonDeserialize("trace.ndjson")
VARIABLE l
Range(s) == {s[i] : i \in DOMAIN s}
MapOf(seq) == [k \in {x.key : x \in Range(seq)} |-> (CHOOSE x \in Range(seq) : x.key = k).n]
ShapeOf(j) == [j EXCEPT !.pcpMap = MapOf(j.pcpMap), !.prfMap = MapOf(j.prfMap)]

TInit == l = 1 /\ base = 1 /\ shape = Base(1, "Header") /\ corr = NoCorr
RowOK(row) ==
  LET s == ShapeOf(row.shape)
      c == row.corr
      tr == Encode(s)
      doc == Apply(tr, c)
      outs == Resolved(OutcomesOf(doc), RegistryChecksLength) IN
  /\ c = NoCorr \/ LegalCorr(tr, c, IsCM(s.variant))
  /\ \A m \in Methods : row.outs[m] = outs[m]
  /\ row.variant = "-" \/ row.variant = DocVariant(doc, "ConsensusMessage")
  /\ (c = NoCorr) => (RoundTripEqOn(s, tr, OutcomesOf(doc)) /\ VariantPreservedOn(s, doc))
TNext == l <= Len(Trace) /\ RowOK(Trace[l]) /\ l' = l + 1 /\ UNCHANGED vars
TraceDone == TLCGet("stats").diameter - 1 = Len(Trace)
=============================================================================
