------------------------------ MODULE RelayMap ------------------------------
(* C20 -- the exchange-feedback -> pubsub.ValidationResult mapping, one state *)
(* per uint8 value: checked against the property's reading (MappingOK) and    *)
(* exported as a table for the Go function exchangeFeedbackToLibp2p and for   *)
(* DaisyChainConnection.handleMessage.                                        *)
EXTENDS RelayDefs, Sequences, TLC, Json
VARIABLE f
MapInit == f \in FbAll
MapNext == FALSE /\ UNCHANGED f
MapOK == /\ MappingOK(f, FeedbackToLibp2p(f))
         /\ DaisyRelays(f) <=> (f = FbAccepted)
MapEmit == PrintT("BEH " \o ToJson([f |-> f, res |-> FeedbackToLibp2p(f), daisy |-> DaisyRelays(f)]))
=============================================================================
