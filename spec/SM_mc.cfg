CONSTANTS
  NVal = 4
  Me = 1
  InitH = 1
  MaxSteps = 6
  MaxH = 2
  MaxR = 1
  AllowCrash = FALSE
  EmitAll = FALSE
  AvoidPanics = TRUE
  Guide <- SMGuide
  Blocks <- SMBlocks
  VoteSets <- SMVoteSets
INIT Init
NEXT Next
VIEW View
CHECK_DEADLOCK FALSE
INVARIANTS C12_ArmedIffTimed C12_TimerMatchesStep C08_Forward C02_SignOnce
