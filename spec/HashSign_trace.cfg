CONSTANTS
  SigsBound = FALSE
  MaxDist = 0
  MaxSigs = 2
  BlockKeys = {"nil", "A", "B"}
  EmitPairs = FALSE
INIT TInit
NEXT TNext
POSTCONDITION TraceDone
CHECK_DEADLOCK FALSE
