\* behaviour export from the restart initial states (a Committing view exists from the first update on): reaches updates
\* that carry a Committing view together with a NilVotedRound within the event bound
CONSTANTS
  v1 = v1
  v2 = v2
  v3 = v3
  v4 = v4
  v5 = v5
  A = A
  B = B
  C = C
  NilT = NilT
  Val = {v1, v2, v3}
  Byz = {v1}
  Heavy = {v3}
  HeavyPow = 3
  MaxSigs = 1
  HashSeq <- HS1
  MaxH = 2
  MaxR = 1
  Kinds = {"pv", "pc"}
  Fixed = FALSE
  Restart = TRUE
  MaxUpdates = 2
  MaxGap = 3
  MaxEvents = 3
INIT Init
NEXT Next
INVARIANTS Sound CompleteModuloKnown SoundF CompleteF EnvOK Emit
CHECK_DEADLOCK FALSE
