INIT MapInit
NEXT MapNext
INVARIANTS MapOK MapEmit
CHECK_DEADLOCK FALSE
