CONSTANTS
  ValsetDef <- W_Valsets
  GenesisVS <- W_Genesis
  HDR <- W_HDR
  Rank <- W_Rank
  InitH = 1
  Guide <- W_Guide
  MaxSteps = 3
  AllowCrash = FALSE
  AvoidPanics = FALSE
  EmitAll = FALSE
INIT Init
NEXT Next
VIEW View
CHECK_DEADLOCK FALSE
INVARIANTS C09_NoPanic
