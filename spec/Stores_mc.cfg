CONSTANTS
  StoreSet = {"action", "round", "fin", "hdr", "mirror", "sm", "val"}
  Mode = "mc"
  Tier = "quick"
  EmitOn = TRUE
INIT Init
NEXT Next
VIEW View
INVARIANTS TypeOK
PROPERTIES Frozen RefusedIsNoop EmitEdge
CHECK_DEADLOCK FALSE
