--------------------------- MODULE StateMachineMC ---------------------------
(* TLC instance of StateMachine: the environment (mirror, strategy, timer,   *)
(* driver) may do anything the channel interface permits; properties C02,    *)
(* C08, C12(a) as invariants over the history of outputs; behaviours are     *)
(* exported for replay on the real tmstate.StateMachine.                     *)
EXTENDS StateMachine, Json

CONSTANTS MaxSteps, MaxH, MaxR, AllowCrash, EmitAll, AvoidPanics, Guide, RichEntrances,
          Blocks,          \* block ids proposed by others, e.g. {"A", "B", "M1"}
          VoteSets         \* signer sets that a view update may add at once

SMGuide == <<>>
SMBlocks == {"A", "B", "M1"}
SMVoteSets == {{1}, {2, 3}, {2, 3, 4}}
SMBlocksSmall == {"A"}
SMVoteSetsSmall == {{2, 3, 4}}
SMBlocksTwo == {"A", "B"}
SMVoteSetsTwo == {{2, 3}, {4}}

VARIABLES s,      \* rlc record, or Down
          st,     \* stores: actions (key -> target), fin (set of heights), smhr
          env,    \* [finPending: outstanding finalize request or NoFin, committed: heights the mirror has committed]
          pan, stopped,
          hist,   \* exported history of macro steps
          signed, entered, finreqs, timers   \* property history (persist across restarts)

vars == <<s, st, env, pan, stopped, hist, signed, entered, finreqs, timers>>

Down == [down |-> TRUE]
NoFin == [h |-> 0, r |-> 0]
NoJump == [h |-> 0, r |-> 0]
Up == s # Down /\ pan = "" /\ ~stopped

InitStores == [actions |-> [k \in {} |-> NULL], fin |-> [h \in {} |-> "G"], smhr |-> <<0, 0>>]

Targets == Blocks \cup {"nil"}

\* entrance responses the environment may give for (h, r)
FreshView(h, r) == [h |-> h, r |-> r, ver |-> 1, phs |-> {}, pv |-> EmptyFn, pc |-> EmptyFn]
EntranceResponses(h, r) ==
  {[kind |-> "VRV", v |-> FreshView(h, r)]}
  \cup {[kind |-> "VRV", v |-> [FreshView(h, r) EXCEPT !.phs = {b}]] : b \in Blocks}
  \cup {[kind |-> "CH", block |-> b, r |-> rr] : b \in {"A"}, rr \in 0..1}
  \cup (IF RichEntrances THEN
          {[kind |-> "VRV", v |-> [FreshView(h, r) EXCEPT !.pc = (t :> vs)]] : t \in Targets, vs \in VoteSets}
          \cup {[kind |-> "VRV", v |-> [FreshView(h, r) EXCEPT !.pv = (t :> vs)]] : t \in Targets, vs \in VoteSets}
          \cup {[kind |-> "VRV", v |-> [FreshView(h, r) EXCEPT !.phs = {b}, !.pc = (b :> vs)]] : b \in Blocks, vs \in VoteSets}
        ELSE {})

\* resolve a pending nested advance (beginRoundLive on a nil-committed view advances again)
Adv(x) == IF OKx(x) /\ x.needAdvance = "round" THEN AdvanceRound([x EXCEPT !.needAdvance = "none"]) ELSE x
Pending(x) == OKx(x) /\ x.needEntrance

Blocked(x) == \E i \in 1..Len(x.o) : x.o[i].t = "blocked"
Entrances(x) == Cardinality({i \in 1..Len(x.o) : x.o[i].t = "entrance"})

Proj(ss, sst, e) ==
  IF ss = Down THEN [down |-> TRUE, st |-> [actions |-> {[k |-> k, v |-> sst.actions[k]] : k \in DOMAIN sst.actions}, fin |-> DOMAIN sst.fin, smhr |-> sst.smhr]]
  ELSE [down |-> FALSE, H |-> ss.H, R |-> ss.R, S |-> IF ss.replaying THEN "Catchup" ELSE ss.S, timer |-> ss.timer,
        propCh |-> ss.propCh, prevoteCh |-> ss.prevoteCh, precommitCh |-> ss.precommitCh, finCh |-> ss.finCh,
        finalized |-> ss.finalized, cwElapsed |-> ss.cwElapsed, replaying |-> ss.replaying,
        vrvVer |-> ss.vrv.ver, cm |-> ss.cm,
        st |-> [actions |-> {[k |-> k, v |-> sst.actions[k]] : k \in DOMAIN sst.actions}, fin |-> DOMAIN sst.fin, smhr |-> sst.smhr]]

\* record the outputs of a macro step in the property history
Signs(x) == SelectSeq(x.o, LAMBDA r : r.t = "sign")
Ents(x) == SelectSeq(x.o, LAMBDA r : r.t = "entrance")
Fins(x) == SelectSeq(x.o, LAMBDA r : r.t = "finalizeReq")

Apply(x, op, args, resps, crash) ==
  /\ (AvoidPanics => x.pan = "")
  /\ ~Blocked(x)
  /\ (Guide # <<>> => /\ Len(hist) < Len(Guide)
                      /\ Guide[Len(hist) + 1].op = op /\ Guide[Len(hist) + 1].args = args /\ Guide[Len(hist) + 1].resps = resps
                      /\ Guide[Len(hist) + 1].crash = crash)
  /\ s' = IF crash \/ x.pan # "" THEN Down ELSE x.s
  /\ st' = x.st
  /\ pan' = x.pan
  /\ stopped' = (x.stop /\ ~crash)
  /\ env' = LET f == Fins(x) IN
            [env EXCEPT !.finPending = IF crash THEN NoFin
                                       ELSE IF Len(f) > 0 THEN [h |-> f[Len(f)].h, r |-> f[Len(f)].r]
                                       ELSE IF op = "Finalized" THEN NoFin ELSE @]
  /\ signed' = signed \o Signs(x)
  /\ entered' = entered \o Ents(x)
  /\ finreqs' = finreqs \o [i \in 1..Len(Fins(x)) |-> [f |-> Fins(x)[i], view |-> IF s = Down THEN NoView ELSE s.vrv, args |-> args]]
  /\ timers' = Append(timers, [before |-> IF s = Down THEN "none" ELSE s.timer, after |-> IF crash \/ x.pan # "" THEN "none" ELSE x.s.timer,
                               S |-> IF crash \/ x.pan # "" THEN "none" ELSE x.s.S])
  /\ hist' = Append(hist, [op |-> op, args |-> args, resps |-> resps, crash |-> crash, pan |-> x.pan, stop |-> x.stop,
                           o |-> x.o, exp |-> IF EmitAll THEN Proj(s', st', env') ELSE NULL])

\* LATE STRATEGY ANSWER.  A round may be left while the consensus manager goroutine is still inside a strategy call made
\* for it (Consider / Choose / Decide).  EnterRound for the new round goes through the same goroutine, so the state
\* machine waits in that send until the strategy returns; the answer is sent on the result channel of the round that was
\* LEFT (every round gets fresh 1-buffered channels in RoundLifecycle.Reset) and is never read.  The environment gives
\* that late answer right after it has answered the round entrance: late = the answer ("none": the strategy was idle).
LateAnswer(x, a) == IF a.kind = "VRV" /\ x.s.cm \in {"Consider", "Choose", "Decide"} THEN "A" ELSE "none"
Unblock(x, late) == IF late = "none" THEN x ELSE [x EXCEPT !.s.cm = "idle"]
WithLate(a, late) == IF late = "none" THEN a ELSE a @@ [late |-> late]

\* finish a macro step: every round entrance it makes is answered by the environment (at most two)
Finish(x0, op, args, crash) ==
  LET xa == Adv(x0) IN
  IF ~Pending(xa) THEN Apply(xa, op, args, <<>>, crash)
  ELSE \E a \in EntranceResponses(xa.s.H, xa.s.R) :
         LET la == LateAnswer(xa, a)
             x1 == Adv(Enter([Unblock(xa, la) EXCEPT !.needEntrance = FALSE], a)) IN
         IF ~Pending(x1) THEN Apply(x1, op, args, <<WithLate(a, la)>>, crash)
         ELSE \E b \in EntranceResponses(x1.s.H, x1.s.R) :
                LET lb == LateAnswer(x1, b)
                    x2 == Adv(Enter([Unblock(x1, lb) EXCEPT !.needEntrance = FALSE], b)) IN
                /\ ~Pending(x2)
                /\ Apply(x2, op, args, <<WithLate(a, la), WithLate(b, lb)>>, crash)

Crashes == IF AllowCrash THEN {FALSE, TRUE} ELSE {FALSE}

\* view deltas: the next view of the current round
Deltas == {[k |-> "ph", b |-> b] : b \in Blocks}
          \cup {[k |-> kind, t |-> t, vs |-> vs] : kind \in {"pv", "pc"}, t \in Targets, vs \in VoteSets}
AddDelta(v, d) ==
  CASE d.k = "ph" -> [v EXCEPT !.ver = @ + 1, !.phs = @ \cup {d.b}]
    [] d.k = "pv" -> [v EXCEPT !.ver = @ + 1, !.pv = (d.t :> ((IF d.t \in DOMAIN v.pv THEN v.pv[d.t] ELSE {}) \cup d.vs)) @@ @]
    [] d.k = "pc" -> [v EXCEPT !.ver = @ + 1, !.pc = (d.t :> ((IF d.t \in DOMAIN v.pc THEN v.pc[d.t] ELSE {}) \cup d.vs)) @@ @]
\* a vote set may be added only if no validator votes twice for different targets... not required: equivocation allowed

DoBoot(op) ==
  /\ s = Down /\ pan = "" /\ ~stopped
  /\ LET pos == BootPos(st) IN
     \E r1 \in EntranceResponses(pos[1], pos[2]) : Finish(Boot(st, r1), op, r1, FALSE)

\* The code resolves a tie between the most voted targets by the smaller hash; the model has no hash bytes, so the
\* environment does not produce a view in which two targets share the top vote count (that needs half of the
\* validators to equivocate)
NoTopTie(p) == \A t, u \in DOMAIN p : (t # u /\ p[t] # {} /\ \A w \in DOMAIN p : Cardinality(p[t]) >= Cardinality(p[w]))
                                        => Cardinality(p[u]) < Cardinality(p[t])
DoView == /\ Up /\ ~s.replaying
          /\ \E d \in Deltas : \E c \in Crashes :
               \* the mirror's view of the round: what the state machine holds plus what its start-up filter hid from it
               LET mv == [s.vrv EXCEPT !.phs = @ \cup s.hidden] IN
               /\ NoTopTie(AddDelta(mv, d).pv) /\ NoTopTie(AddDelta(mv, d).pc)
               /\ Finish(ViewUpdate(Ctx0(s, st), [v |-> AddDelta(mv, d), jump |-> NoJump]), "View", d, c)

DoJump == /\ Up /\ ~s.replaying /\ s.R < MaxR
          /\ Finish(ViewUpdate(Ctx0(s, st), [v |-> NoView, jump |-> [h |-> s.H, r |-> s.R + 1]]), "Jump", [h |-> s.H, r |-> s.R + 1], FALSE)

DoTimer == /\ Up /\ s.timer # "none"
           /\ \E c \in Crashes : Finish(TimerElapsed(Ctx0(s, st)), "Timer", s.timer, c)

\* the strategy returns from the call it is in
DoStrategy == /\ Up /\ s.cm \in {"Consider", "Choose", "Decide"}
              /\ \E ans \in (IF s.cm = "Decide" THEN Targets ELSE (OKPHs(s.vrv.phs) \cup {"nil"} \cup (IF s.cm = "Consider" THEN {"NotReady"} ELSE {}))) :
                 \E c \in Crashes :
                 LET same == s.cmH = s.H /\ s.cmR = s.R
                     x0 == Ctx0([s EXCEPT !.cm = "idle"], st)
                     x == IF ans = "NotReady" \/ ~same THEN x0
                          ELSE IF s.cm = "Decide" THEN (IF s.precommitCh THEN RecordPrecommit(x0, ans) ELSE x0)
                          ELSE (IF s.prevoteCh THEN RecordPrevote(x0, ans) ELSE x0)
                 IN Finish(x, "Strategy", [kind |-> s.cm, ans |-> ans], c)

DoProposal == /\ Up /\ ~s.replaying /\ s.propCh /\ s.actions
              /\ \E c \in Crashes : Finish(RecordProposal(Ctx0(s, st), "P"), "Proposal", "P", c)

\* the strategy answers a second time on the (1-buffered) proposal channel of a round in which the state machine has
\* already recorded its proposal: the channel is no longer read, nothing happens
DoProposalDup == /\ Up /\ ~s.replaying /\ ~s.propCh /\ s.actions
                 /\ \E i \in 1..Len(signed) : signed[i].kind = "proposal" /\ signed[i].h = s.H /\ signed[i].r = s.R
                 /\ Finish(Ctx0(s, st), "ProposalDup", "P2", FALSE)

DoFinalized == /\ Up /\ env.finPending # NoFin /\ s.finCh
               /\ \E c \in Crashes :
                    Finish(IF s.replaying THEN CatchupFinalized(Ctx0(s, st), env.finPending) ELSE Finalized(Ctx0(s, st), env.finPending),
                           "Finalized", env.finPending, c)

DoHeightCommitted == /\ Up /\ ~s.replaying /\ s.hc = "open"
                     /\ Finish(HeightCommitted(Ctx0(s, st)), "HeightCommitted", NULL, FALSE)

DoBlockData == /\ Up /\ ~s.replaying
               /\ \E b \in Blocks : Finish(BlockDataArrival(Ctx0(s, st), [h |-> s.H, r |-> s.R, d |-> b]), "BlockData", b, FALSE)

Init == /\ s = Down /\ st = InitStores /\ env = [finPending |-> NoFin] /\ pan = "" /\ stopped = FALSE
        /\ hist = <<>> /\ signed = <<>> /\ entered = <<>> /\ finreqs = <<>> /\ timers = <<>>

Bounded == IF s = Down THEN TRUE ELSE (s.H <= MaxH /\ s.R <= MaxR)

View == <<s, st, env, pan, stopped, signed, entered, finreqs>>
\* edge cover: the last step is part of the view, so every (state, event) pair is a distinct state
LastStep == IF hist = <<>> THEN NULL ELSE [op |-> hist[Len(hist)].op, args |-> hist[Len(hist)].args, resps |-> hist[Len(hist)].resps, crash |-> hist[Len(hist)].crash]
EdgeView == <<s, st, env, pan, stopped, signed, entered, finreqs, LastStep>>

-----------------------------------------------------------------------------
(* ---- properties ---------------------------------------------------------- *)

\* C02: at most one signature per (kind, height, round), across restarts; saved before sent is structural
C02_SignOnce == \A i, j \in 1..Len(signed) :
                   (i # j /\ signed[i].kind = signed[j].kind /\ signed[i].h = signed[j].h /\ signed[i].r = signed[j].r) => FALSE

\* C08: entered (height, round) pairs strictly increase (within one process lifetime the history is
\* append-only; across a restart the state machine may re-enter the round it was in)
C08_Forward == \A i \in 1..(Len(entered) - 1) :
                  \/ entered[i + 1].h > entered[i].h
                  \/ (entered[i + 1].h = entered[i].h /\ entered[i + 1].r >= entered[i].r)

\* C08: a finalize request for a quorum needs > 2/3 precommit power for that block in the view that caused it
C08_FinalizeNeedsQuorum == \A i \in 1..Len(finreqs) :
   finreqs[i].f.why = "quorum" => finreqs[i].f._pow >= Maj(NVal)

\* C08: within one (height, round) the step only moves forwards
StepRank(S) == CASE S = "AwaitingProposal" -> 1 [] S = "AwaitingPrevotes" -> 2 [] S = "PrevoteDelay" -> 3
                 [] S = "AwaitingPrecommits" -> 4 [] S = "PrecommitDelay" -> 5 [] S = "CommitWait" -> 6
                 [] S = "AwaitingFinalization" -> 7 [] OTHER -> 0
C08_StepForward == [][(s # Down /\ s' # Down /\ ~s.replaying /\ ~s'.replaying /\ s.H = s'.H /\ s.R = s'.R)
                        => StepRank(s'.S) >= StepRank(s.S)]_<<s>>
\* C08: the position (height, round) never moves backwards while the process is up
C08_PosForward == [][(s # Down /\ s' # Down) => (s'.H > s.H \/ (s'.H = s.H /\ s'.R >= s.R))]_<<s>>
\* candidate state invariants evaluated by the suite monitor on the real RoundLifecycle (lib/smsuitemon.py)
C08_FinStepHasElapsed == (Up /\ ~s.replaying /\ s.S = "AwaitingFinalization") => s.cwElapsed


\* C07 (state machine half): every header the state machine signs as a proposal carries the validator set the chain
\* prescribes for its height and, as next set, the one prescribed for the height after it -- in particular after restarts
\* and catch-up, where the sets are rebuilt from the finalization store
C07_SMSets == \A i \in 1..Len(signed) :
                 signed[i].kind = "proposal" => (signed[i].vs = ChainVS(signed[i].h) /\ signed[i].nvs = ChainVS(signed[i].h + 1))

\* C12(a): a timer is armed exactly in the timed steps
TimedStep(S) == S \in {"AwaitingProposal", "PrevoteDelay", "PrecommitDelay", "CommitWait"}
C12_ArmedIffTimed == Up => ((s.timer # "none") <=> TimedStep(s.S))
C12_TimerMatchesStep == Up /\ s.timer # "none" =>
   s.timer = CASE s.S = "AwaitingProposal" -> "Proposal" [] s.S = "PrevoteDelay" -> "PrevoteDelay"
               [] s.S = "PrecommitDelay" -> "PrecommitDelay" [] s.S = "CommitWait" -> "CommitWait" [] OTHER -> "none"

C09_NoPanic == pan = ""

DesignOK == C02_SignOnce /\ C08_Forward /\ C12_ArmedIffTimed /\ C12_TimerMatchesStep

Next == /\ Len(hist) < MaxSteps
        /\ Bounded
        /\ DesignOK          \* a state that violates a property predicate is terminal (its behaviour is a witness)
        /\ \/ (Len(hist) = 0 /\ DoBoot("Boot"))
           \/ (Len(hist) > 0 /\ AllowCrash /\ DoBoot("Restart"))
           \/ DoView \/ DoJump \/ DoTimer \/ DoStrategy \/ DoProposal \/ DoProposalDup \/ DoFinalized \/ DoHeightCommitted \/ DoBlockData


\* reachability targets (negated: TLC's counterexample is a shortest witness; used to direct the export towards the
\* transitions out of the timed delay steps, which random simulation rarely reaches)
Target_PrevoteDelayToCommit == ~\E i \in 1..(Len(timers) - 1) : timers[i].S = "PrevoteDelay" /\ timers[i + 1].S = "CommitWait"
Target_PrecommitDelayToCommit == ~\E i \in 1..(Len(timers) - 1) : timers[i].S = "PrecommitDelay" /\ timers[i + 1].S = "CommitWait"

\* witnesses of design-level violations, exported for replay on the real code
EmitCex == (EmitAll /\ ~DesignOK) => PrintT("BEH " \o ToJson(hist))

Terminal == Len(hist) = MaxSteps \/ pan # "" \/ stopped \/ ~DesignOK \/ ~Bounded
Emit == (EmitAll /\ Terminal) => PrintT("BEH " \o ToJson(hist))
EmitEvery == (EmitAll /\ hist # <<>>) => PrintT("BEH " \o ToJson(hist))
=============================================================================
