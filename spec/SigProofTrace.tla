---------------------------- MODULE SigProofTrace ----------------------------
(***************************************************************************)
(* code -> spec for C13: the events recorded by the Go harness while it    *)
(* drove the REAL proof objects (replayed TLC behaviours and seeded random *)
(* behaviours over key sets of up to 9 keys) are re-read here.  Every      *)
(* event must be an instance of the SigProof action of the same name with  *)
(* the logged arguments, and the logged result (signer bit sets and sparse *)
(* key ids of both proof objects, merge flags, error, validated finalized  *)
(* proof, finalized key ids) must be the result the specification gives.   *)
(* A result that differs is attributed to the named rule it breaks (bad).  *)
(* The named deviations in AsIs are accepted (the harness reports them).   *)
(***************************************************************************)
EXTENDS SigProof

Trace == TLCEval(ndJsonDeserialize("trace.ndjson"))   \* TLCEval: deserialize once

VARIABLES l, bad
tvars == <<vars, l, bad>>

SeqSet(q) == {q[i] : i \in DOMAIN q}
Ev == Trace[l]
TCur == IF Ev.slot = 0 THEN h0 ELSE h1
TUpd0(nh) == IF Ev.slot = 0 THEN nh ELSE h0
TUpd1(nh) == IF Ev.slot = 0 THEN h1 ELSE nh

TInit ==
  /\ l = 1 /\ bad = {}
  /\ k = 1 /\ sch = "simple" /\ l3 = FALSE /\ h0 = {} /\ h1 = {} /\ has1 = FALSE
  /\ panicked = TRUE            \* a reset event must come first
  /\ hist = <<>>

\* rules broken by the logged observable, given the states the specification expects
ObsBad(a0, a1, ahas) ==
  LET tgtBad == IF Ev.slot = 0 THEN SeqSet(Ev.b0) # Bits(G, a0) ELSE SeqSet(Ev.b1) # Bits(G, a1)
      othBad == IF Ev.slot = 0 THEN SeqSet(Ev.b1) # Bits(G, a1) ELSE SeqSet(Ev.b0) # Bits(G, a0)
      idsBad == SeqSet(Ev.t0) # Tops(G, a0) \/ SeqSet(Ev.t1) # Tops(G, a1)
  IN (IF tgtBad THEN {CASE Ev.ev = "rebuild" -> "SparseRoundTrip"
                        [] Ev.ev = "clone"   -> "CloneIndependent"
                        [] Ev.ev = "fin"     -> "Monotone"
                        [] OTHER             -> "UnionOfVerified"} ELSE {})
     \cup (IF othBad THEN {"CloneIndependent"} ELSE {})
     \cup (IF ~tgtBad /\ ~othBad /\ idsBad THEN {"SpecDetail:sparse-key-ids"} ELSE {})
     \cup (IF Ev.has1 # ahas THEN {"SpecDetail:has1"} ELSE {})

TStep(a0, a1, ahas, pan, b) ==
  /\ h0' = a0 /\ h1' = a1 /\ has1' = ahas /\ panicked' = pan
  /\ bad' = b /\ l' = l + 1
  /\ UNCHANGED <<k, sch, l3, hist>>

FlagsOf(f) == [av |-> f.av, inc |-> f.inc, ss |-> f.ss]

TReset ==
  /\ Ev.ev = "reset"
  /\ k' = Ev.k /\ sch' = Ev.sch /\ l3' = Ev.l3
  /\ h0' = SeqSet(Ev.nodes) /\ h1' = {} /\ has1' = FALSE /\ panicked' = FALSE
  /\ bad' = IF /\ SeqSet(Ev.nodes) \subseteq RealNodes(GEO[Ev.k][Ev.sch])
               /\ FoldAdd(GEO[Ev.k][Ev.sch], {}, SeqSet(Ev.nodes)) = SeqSet(Ev.nodes)
            THEN {} ELSE {"SpecDetail:setup-not-closed"}
  /\ l' = l + 1 /\ UNCHANGED hist

TAdd ==
  /\ Ev.ev = "add"
  /\ LET r == ApplyAdd(G, sch, TCur, Ev.arg)
         a0 == TUpd0(r.h)  a1 == TUpd1(r.h)
     IN IF Ev.panic THEN TStep(h0, h1, has1, TRUE, {"NoPanic"})
        ELSE TStep(a0, a1, has1, FALSE,
                   ObsBad(a0, a1, has1) \cup (IF Ev.err # r.err THEN {"FlagsMatch"} ELSE {}))

TSparse ==
  /\ Ev.ev = "sparse"
  /\ LET ri == ApplySparse(G, sch, TCur, Ev.arg, {})
         ra == ApplySparse(G, sch, TCur, Ev.arg, AsIs)
         a0 == TUpd0(ri.h)  a1 == TUpd1(ri.h)
         fl == FlagsOf(Ev.flags)
         flOK == \/ fl = [av |-> ri.av, inc |-> ri.inc, ss |-> ri.ss]
                 \/ fl = [av |-> ra.av, inc |-> ra.inc, ss |-> ra.ass]     \* named deviation (flag)
     IN IF Ev.panic
          THEN TStep(h0, h1, has1, TRUE, IF ra.panic # "" THEN {} ELSE {"NoPanic"})
          ELSE TStep(a0, a1, has1, FALSE,
                     ObsBad(a0, a1, has1) \cup (IF flOK THEN {} ELSE {"FlagsMatch"}))

TMerge ==
  /\ Ev.ev = "merge"
  /\ LET o  == [O |-> SeqSet(Ev.arg.O), B |-> SeqSet(Ev.arg.B), bk |-> Ev.arg.bk, match |-> Ev.arg.match]
         r  == ApplyMerge(G, sch, TCur, o)
         a0 == TUpd0(r.h)  a1 == TUpd1(r.h)
     IN IF Ev.panic THEN TStep(h0, h1, has1, TRUE, {"NoPanic"})
        ELSE TStep(a0, a1, has1, FALSE,
                   ObsBad(a0, a1, has1)
                   \cup (IF FlagsOf(Ev.flags) = [av |-> r.av, inc |-> r.inc, ss |-> r.ss] THEN {} ELSE {"FlagsMatch"}))

TClone ==
  /\ Ev.ev = "clone"
  /\ IF Ev.panic THEN TStep(h0, h1, has1, TRUE, {"NoPanic"})
     ELSE TStep(h0, h0, TRUE, FALSE, ObsBad(h0, h0, TRUE))

TRebuild ==
  /\ Ev.ev = "rebuild"
  /\ LET ids == Tops(G, TCur)
         nh  == FoldAdd(G, {}, ids)
         ss  == StrictSparse(Bits(G, nh), {})
         ass == IF sch = "bls" /\ "bls-sparse-strict-todo" \in AsIs THEN FALSE ELSE ss
         a0 == TUpd0(nh)  a1 == TUpd1(nh)
         fl == FlagsOf(Ev.flags)
     IN IF Ev.panic THEN TStep(h0, h1, has1, TRUE, {"NoPanic"})
        ELSE TStep(a0, a1, has1, FALSE,
                   ObsBad(a0, a1, has1)
                   \cup (IF SeqSet(Ev.ids) = ids THEN {} ELSE {"SpecDetail:assparse-ids"})
                   \cup (IF \/ fl = [av |-> TRUE, inc |-> ids # {}, ss |-> ss]
                            \/ fl = [av |-> TRUE, inc |-> ids # {}, ss |-> ass]
                         THEN {} ELSE {"FlagsMatch"}))

TFin ==
  /\ Ev.ev = "fin"
  /\ LET M   == SeqSet(Ev.main)
         R   == [i \in 1..Len(Ev.rest) |-> SeqSet(Ev.rest[i])]
         fc  == [kind |-> Ev.fc.kind, cnt |-> Ev.fc.cnt, idx |-> Ev.fc.idx]
         dev == IF FinDev(sch, M, R, fc) \in AsIs THEN FinDev(sch, M, R, fc) ELSE ""
         res == ApplyFin(sch, k, M, R, fc)
         got == Ev.res
         setOK(i) == \/ got.sets[i] = <<-1>> /\ ~res.exact
                     \/ SeqSet(got.sets[i]) = res.sets[i]
         resBad ==
           IF got.nilmap # res.nilmap \/ got.uniq # res.uniq THEN {"FinalizeRoundTrip"}
           ELSE IF res.nilmap THEN {}
           ELSE IF Len(got.sets) # Len(res.sets) \/ \E i \in DOMAIN res.sets : ~setOK(i) THEN {"FinalizeRoundTrip"}
           ELSE IF res.ids # <<>> /\ SeqSet(got.ids) # SeqSet(res.ids) THEN {"SpecDetail:finalized-key-ids"}
           ELSE {}
     IN /\ Ev.slot = 0
        /\ IF Ev.panic
             THEN TStep(h0, h1, has1, TRUE, IF dev # "" THEN {} ELSE {"NoPanic"})
             ELSE TStep(h0, h1, has1, FALSE,
                        ObsBad(h0, h1, has1)
                        \cup (IF M = Bits(G, h0) /\ M # {} THEN {} ELSE {"SpecDetail:fin-main"})
                        \cup resBad)

TNext ==
  /\ l <= Len(Trace)
  /\ bad = {}
  /\ \/ TReset
     \/ /\ Ev.ev # "reset"
        /\ IF panicked
             THEN /\ bad' = {"SpecDetail:event-after-panic"} /\ l' = l + 1
                  /\ UNCHANGED vars
             ELSE TAdd \/ TSparse \/ TMerge \/ TClone \/ TRebuild \/ TFin

TraceOK == bad = {}
TraceDone == TLCGet("stats").diameter - 1 = Len(Trace)
=============================================================================
