------------------------------ MODULE ChattyMC ------------------------------
(* TLC instance of Chatty: constant definitions that a .cfg cannot express.  *)
EXTENDS Chatty
CONSTANTS A, B, C, v1, v2, v3, v4, v5
HS1 == <<A>>
HS2 == <<A, B>>
HS3 == <<A, B, C>>
=============================================================================
