\* export: every closed proof state (setup) followed by MaxOps operations, one behaviour per line
CONSTANTS
  Ks = {1, 2, 3, 4}
  Schemes = {"simple", "bls"}
  MaxOps = 1
  MaxEnt = 1
  MaxRest = 1
  EntCorrs = {"ok", "othersigner", "othermsg", "bitflip", "garbage"}
  FinCorrOn = TRUE
  CloneOn = FALSE
  AsIs = {"simple-short-keyid", "bls-undecodable-sig", "bls-finalize-double", "bls-validate-decode", "bls-sparse-strict-todo"}
  Mode = "emit"
INIT Init
NEXT Next
INVARIANTS Emit
CHECK_DEADLOCK FALSE
