CONSTANTS
  V1 = v1
  V2 = v2
  V3 = v3
  V4 = v4
  P1 = 1
  P2 = 1
  P3 = 1
  P4 = 1
  MaxH = 1
  MaxR = 1
  RestartResumes = FALSE
  MaxRestarts = 1
  ByzKinds = {"prop", "pv", "pc"}
  ByzNil = TRUE
  ByzOne = FALSE
  WeakMirror = 0
  WeakSM = 0
  AnyTarget = FALSE
  Forge = FALSE
  MaxLen = 18
  EmitAll = TRUE
INIT Init
NEXT Next
CHECK_DEADLOCK FALSE
INVARIANTS Emit
