CONSTANTS
  SigsBound = TRUE
  MaxDist = 2
  MaxSigs = 1
  BlockKeys = {"nil", "A"}
  EmitPairs = FALSE
INIT HInit
NEXT HNext
INVARIANTS TypeOK BallInjective
PROPERTIES HashBinds
CHECK_DEADLOCK FALSE
