\* behaviour export by simulation over 3x3 tables (Tables substituted by checks/c19.py)
CONSTANTS
  NS = 3
  NT = 3
  Tables <- SampleTables
  MaxPending = 99
  MaxHist = 8
  KeepHist = TRUE
  ByValueInvalidation = TRUE
INIT Init
NEXT NextEmit
INVARIANTS Emit
CHECK_DEADLOCK FALSE
