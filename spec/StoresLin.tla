----------------------------- MODULE StoresLin -----------------------------
(* Property C16, concurrent part and code -> spec direction.                *)
(*                                                                           *)
(* trace.ndjson holds histories recorded from the REAL tmmemstore objects:  *)
(*   {ev: reset, store: name}   a fresh store object of that type           *)
(*   {ev: call, t, op, a, err, v}  thread t is about to invoke op(a); the   *)
(*                               line position is the moment BEFORE the call *)
(*                               (err, v: what that call eventually returned,*)
(*                               filled in when the file is written)        *)
(*   {ev: ret, t}               thread t's call has returned; the position  *)
(*                               is a moment AFTER the return               *)
(* Positions come from one logger mutex, so every real call interval lies   *)
(* inside its recorded interval.  A history is linearizable w.r.t. the      *)
(* sequential model (StoresModel) iff this spec can consume all its lines:  *)
(* each pending call takes effect in one internal Lin(t) step somewhere     *)
(* between its call and ret lines and must produce the recorded result.     *)
(* Single-threaded histories (the seeded random sequential driver) make     *)
(* this ordinary trace validation: every step must be an instance of the    *)
(* named model operation with the logged arguments and the logged result.   *)
(* Acceptance: POSTCONDITION Accepted (the high-water mark of consumed      *)
(* lines reaches the end); otherwise HW names the first line that no        *)
(* linearization can get past.  Run with -workers 1.                        *)
EXTENDS StoresModel, TLC, Json

Trace == ndJsonDeserialize("trace.ndjson")
NT == Len(Trace)

VARIABLES i,      \* next line of Trace to consume
          store,  \* type of the store of the current history
          st,     \* abstract state of that store
          pend    \* thread -> [op, a, err, v, lin]: its open call; lin: already took effect
vars == <<i, store, st, pend>>

Ev == Trace[i]
Without(f, k) == [x \in (DOMAIN f) \ {k} |-> f[x]]
Mark(n) == TLCSet(1, IF n > TLCGet(1) THEN n ELSE TLCGet(1))

Init == i = 1 /\ store = "none" /\ st = 0 /\ pend = EmptyF /\ TLCSet(1, 1)

Reset == /\ i <= NT /\ Ev.ev = "reset" /\ DOMAIN pend = {}
         /\ store' = Ev.store /\ st' = InitOf(Ev.store) /\ pend' = EmptyF
         /\ i' = i + 1 /\ Mark(i + 1)

Call == /\ i <= NT /\ Ev.ev = "call" /\ Ev.t \notin DOMAIN pend
        /\ pend' = Put(pend, Ev.t, [op |-> Ev.op, a |-> Ev.a, err |-> Ev.err, v |-> Ev.v, lin |-> FALSE])
        /\ i' = i + 1 /\ Mark(i + 1) /\ UNCHANGED <<store, st>>

\* the linearization point of t's open call: the model operation with the logged
\* arguments, producing the logged result
Lin(t) == /\ ~pend[t].lin
          /\ LET r == Apply(store, st, pend[t]) IN
               /\ r.err = pend[t].err /\ r.v = pend[t].v
               /\ st' = r.st
          /\ pend' = [pend EXCEPT ![t].lin = TRUE]
          /\ UNCHANGED <<i, store>>

Ret == /\ i <= NT /\ Ev.ev = "ret" /\ Ev.t \in DOMAIN pend /\ pend[Ev.t].lin
       /\ pend' = Without(pend, Ev.t)
       /\ i' = i + 1 /\ Mark(i + 1) /\ UNCHANGED <<store, st>>

Next == Reset \/ Call \/ Ret \/ \E t \in DOMAIN pend : Lin(t)

\* at most one open call per thread, and only between reset lines
TypeOK == /\ i \in 1..(NT + 1)
          /\ store \in StoreNames \cup {"none"}

\* Acceptance: all lines consumed.  The check (checks/c16.py) reads the printed high-water
\* mark: HW = NT + 1 <=> every history has a linearization; otherwise line HW belongs to the
\* first history without one (that history is reported and removed, the rest re-checked).
Accepted == TLCGet(1) = NT + 1
ReportHW == PrintT(<<"HW", TLCGet(1), NT, Accepted>>)
=============================================================================
