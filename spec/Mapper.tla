------------------------------- MODULE Mapper -------------------------------
(* C09, last clause: "the shipped feedback mappers translate every result the engine can  *)
(* return into a p2p feedback value."                                                      *)
(*                                                                                        *)
(* Anchors: tm/tmconsensus/handler.go (HandleProposedHeaderResult, HandleVoteProofsResult: *)
(* iota enums, 0 kept invalid), tm/tmconsensus/feedbackmapper.go (AcceptAllValid- and      *)
(* DropDuplicateFeedbackMapper: a switch per method whose default branch panics),          *)
(* gexchange.Feedback.  Every enum constant is returned somewhere in tmmirror/mirror.go,   *)
(* so "every result the engine can return" is every constant of the two enums.             *)
(*                                                                                        *)
(* The module is a table: one state per row.  Rows come from two sources:                  *)
(*   src = "spec": every (mapper, method, result) of the enums below with the feedback     *)
(*                 the mapping yields (exported to be compared with the code), and          *)
(*   src = "obs" : rows recorded from the real mappers by                                  *)
(*                 harness/tm/tmconsensus/zz_verif_c09cfg_test.go (code -> spec).           *)
EXTENDS Integers, Sequences, FiniteSets, TLC, Json

CONSTANT Unmapped      \* set of <<enum, result name>> the switches lack (deviation; {} at HEAD)

UnmappedNone == {}
(* The tree before "fix: feedback mappers translate every result the engine returns":     *)
UnmappedOriginal == { <<"vote", "FutureVerified">>, <<"vote", "FutureUnverified">>, <<"vote", "BadSignature">>,
                      <<"ph", "MissingProposerPubKey">>, <<"ph", "BadPrevCommitProofDoubleSigned">>,
                      <<"ph", "RoundTooFarInFuture">> }

(* Enum constants in iota order; the value of the k-th name is k.                         *)
PHResults == << "Accepted", "AlreadyStored", "SignerUnrecognized", "BadBlockHash", "BadSignature",
                "MissingProposerPubKey", "BadPrevCommitProofPubKeyHash", "BadPrevCommitProofSignature",
                "BadPrevCommitProofDoubleSigned", "BadPrevCommitVoteCount", "RoundTooOld",
                "RoundTooFarInFuture", "InternalError" >>
VoteResults == << "Accepted", "NoNewSignatures", "Empty", "BadPubKeyHash", "RoundTooOld", "BadSignature",
                  "FutureVerified", "FutureUnverified", "InternalError" >>

Mappers  == { "AcceptAllValid", "DropDuplicate" }
Methods  == { "HandleProposedHeader", "HandlePrevoteProofs", "HandlePrecommitProofs" }
Feedback == { "Accepted", "Rejected", "Ignored", "RejectAndDisconnect" }   \* gexchange.Feedback minus Unspecified

EnumOf(method)  == IF method = "HandleProposedHeader" THEN "ph" ELSE "vote"
Results(method) == IF method = "HandleProposedHeader" THEN PHResults ELSE VoteResults

(* feedbackmapper.go: HandleProposedHeader switch of mapper m.                            *)
MapPH(m, r) ==
  CASE <<"ph", r>> \in Unmapped -> "PANIC"
    [] r = "Accepted" -> "Accepted"
    [] r = "AlreadyStored" -> IF m = "AcceptAllValid" THEN "Accepted" ELSE "Ignored"
    [] r \in {"RoundTooOld", "RoundTooFarInFuture", "InternalError"} -> "Ignored"
    [] r \in {"SignerUnrecognized", "MissingProposerPubKey", "BadSignature", "BadBlockHash",
              "BadPrevCommitProofPubKeyHash", "BadPrevCommitProofSignature",
              "BadPrevCommitProofDoubleSigned", "BadPrevCommitVoteCount"} -> "Rejected"
    [] OTHER -> "PANIC"                       \* default: panic("BUG: no ... mapping set")

(* feedbackmapper.go: mapVoteResult of mapper m.                                          *)
MapVote(m, r) ==
  CASE <<"vote", r>> \in Unmapped -> "PANIC"
    [] r \in {"Accepted", "FutureVerified"} -> "Accepted"
    [] r = "NoNewSignatures" -> IF m = "AcceptAllValid" THEN "Accepted" ELSE "Ignored"
    [] r \in {"RoundTooOld", "FutureUnverified", "InternalError"} -> "Ignored"
    [] r \in {"Empty", "BadSignature", "BadPubKeyHash"} -> "Rejected"
    [] OTHER -> "PANIC"

Map(m, method, r) == IF method = "HandleProposedHeader" THEN MapPH(m, r) ELSE MapVote(m, r)

(* The table.                                                                              *)
Row(m, me, v) == [src |-> "spec", mapper |-> m, method |-> me, value |-> v, name |-> Results(me)[v],
                  fb |-> Map(m, me, Results(me)[v])]
SpecRows == UNION { { Row(m, me, v) : v \in 1..Len(Results(me)) } : m \in Mappers, me \in Methods }

(* The property on a row: a result the engine can return is translated into a feedback     *)
(* value (no panic, not the zero value).                                                   *)
InRange(r)  == r.value \in 1..Len(Results(r.method))
TotalRow(r) == InRange(r) => r.fb \in Feedback
=============================================================================
