---------------------------- MODULE NetworkTrace ----------------------------
(* code -> spec for C03.  trace.ndjson is the global-order log (one logger    *)
(* mutex) of what happened in clusters of REAL engines: schedule events       *)
(* (deliver / timeout / inject / restart), what the engines' own gossip put   *)
(* into the pool (send), round entrances and -- the observation the property  *)
(* is about -- every FinalizeBlockRequest a driver received.                  *)
(*                                                                            *)
(* Every event has to be an instance of the matching action below:            *)
(*   deliver   only a message that is in the soup (sent or injected before)   *)
(*   inject    only messages signed by the Byzantine validator                *)
(*   send      a vote first appears in the soup from its own signer           *)
(*   finalize  the node has to KNOW a > 2/3 precommit certificate for that    *)
(*             block in one round: precommits delivered to it (also inside    *)
(*             the previous-commit proof of a delivered header) or signed by  *)
(*             itself                                                         *)
(* and Agreement / Contiguous (the predicates of Network.tla, stated on the   *)
(* real FinalizeBlockRequests) are evaluated after every event.  Many runs    *)
(* are concatenated with reset events.                                        *)
EXTENDS Integers, Sequences, FiniteSets, TLC, Json

Trace == ndJsonDeserialize("trace.ndjson")

VARIABLES l,        \* next event
          pw,       \* voting powers of this run
          soup,     \* messages sent or injected so far
          got,      \* [1..3 -> messages delivered to that node]
          fin       \* [1..3 -> sequence of [h, v] finalize requests]

tvars == <<l, pw, soup, got, fin>>
Corr == 1..3

M(m) == [k |-> m.k, h |-> m.h, r |-> m.r, v |-> m.v, s |-> m.s]
Range(f) == {f[i] : i \in DOMAIN f}

PowOf(S) == (IF 1 \in S THEN pw[1] ELSE 0) + (IF 2 \in S THEN pw[2] ELSE 0)
          + (IF 3 \in S THEN pw[3] ELSE 0) + (IF 4 \in S THEN pw[4] ELSE 0)
Total == pw[1] + pw[2] + pw[3] + pw[4]

\* the node's own precommits: they are in its mirror as soon as it has signed them, the log shows them
\* when its gossip emits them (possibly a moment after the finalize request they complete)
OwnLater(n) == {M(Trace[j].m) : j \in {x \in l..Len(Trace) : x <= l + 200 /\ Trace[x].ev = "send" /\ Trace[x].run = Trace[l].run
                                                             /\ Trace[x].m.s = n /\ Trace[x].m.k = "pc"}}
Knows(n) == got[n] \cup {m \in soup : m.s = n} \cup OwnLater(n)

HasCert(n, h, v) ==
  \E r \in {m.r : m \in Knows(n)} :
     3 * PowOf({m.s : m \in {x \in Knows(n) : x.k = "pc" /\ x.h = h /\ x.r = r /\ x.v = v}}) > 2 * Total

TInit == /\ l = 1 /\ pw = <<1, 1, 1, 1>> /\ soup = {}
         /\ got = [n \in Corr |-> {}] /\ fin = [n \in Corr |-> <<>>]

E == Trace[l]

Reset == /\ E.ev = "reset"
         /\ pw' = E.powers /\ soup' = {} /\ got' = [n \in Corr |-> {}] /\ fin' = [n \in Corr |-> <<>>]

Send == /\ E.ev = "send"
        /\ (E.m.s = E.n \/ M(E.m) \in soup \/ E.m.k = "prop")
        /\ soup' = soup \cup {M(E.m)}
        /\ UNCHANGED <<pw, got, fin>>

Inject == /\ E.ev = "inject"
          /\ E.m.s = 4
          /\ soup' = soup \cup {M(E.m)}
          /\ UNCHANGED <<pw, got, fin>>

\* a forged vote (signed with the Byzantine key in another validator's name) may be handed to a node; it is
\* not in the soup and gives the node no knowledge
Forged == /\ (E.ev = "forge" \/ (E.ev = "deliver" /\ "forged" \in DOMAIN E))
          /\ UNCHANGED <<pw, soup, got, fin>>

Deliver == /\ E.ev = "deliver" /\ "forged" \notin DOMAIN E
           /\ M(E.m) \in soup
           /\ LET extra == IF "pcp" \in DOMAIN E THEN {M(x) : x \in Range(E.pcp)} ELSE {}
              IN got' = [got EXCEPT ![E.n] = @ \cup {M(E.m)} \cup extra]
           /\ UNCHANGED <<pw, soup, fin>>

Quiet == /\ E.ev \in {"timeout", "restart", "enter"}
         /\ UNCHANGED <<pw, soup, got, fin>>

Finalize == /\ E.ev = "finalize"
            /\ HasCert(E.n, E.h, E.v)
            /\ fin' = [fin EXCEPT ![E.n] = Append(@, [h |-> E.h, v |-> E.v])]
            /\ UNCHANGED <<pw, soup, got>>

TNext == /\ l <= Len(Trace)
         /\ l' = l + 1
         /\ (Reset \/ Send \/ Inject \/ Deliver \/ Forged \/ Quiet \/ Finalize)

\* ---- the property, on the real drivers' records --------------------------------
Agreement == \A i, j \in Corr : \A a \in Range(fin[i]), b \in Range(fin[j]) : a.h = b.h => a.v = b.v

\* the distinct heights a node was asked to finalize come as 1, 2, 3, ... (the same height again only
\* after a restart, for the same block: Agreement with i = j)
Contiguous == \A i \in Corr : \A k \in 1..Len(fin[i]) :
                 LET before == {fin[i][x].h : x \in 1..(k - 1)} IN
                 fin[i][k].h \in before \/ fin[i][k].h = Cardinality(before) + 1

TraceDone == TLCGet("stats").diameter - 1 = Len(Trace)
=============================================================================
