"""Pipeline for the checks built on spec/StateMachine.tla: TLC (exhaustive design check, behaviour export)
and replay on the real tmstate.StateMachine in child processes."""
import json, os, sys, hashlib, re
import vlib
sys.path.insert(0, os.path.join(vlib.VERIF, "checks"))
import sm_worlds
from tlagen import tla

PKG = "tm/tmengine/internal/tmstate"


class SMRun:
    def __init__(self, ctx, me=1):
        self.ctx = ctx
        self.me = me
        self.dir = os.path.dirname(ctx.path("sm-%d" % me, "x"))
        self.world_json = os.path.join(self.dir, "world.json")
        json.dump(sm_worlds.sm_world(), open(self.world_json, "w"))
        self.binary = None
        self.records = []
        self.summary = {"behaviours": 0, "steps": 0, "mismatches": 0, "violations": 0, "ops": {}, "distinct_states": 0}
        self.deaths = []

    def build(self):
        ov = self.ctx.harness_overlay(PKG, only=("zz_verif_sm",))
        self.binary = os.path.join(self.dir, "sm.test")
        self.ctx.go_test(PKG, "", overlay=ov, compile_only=True, binary=self.binary, timeout=900)

    def cfg(self, name, consts, invariants=(), properties=(), view=True, guide=None, edge_view=False):
        """writes a cfg with the given constants; returns its file name (copied next to the spec by ctx.tlc)."""
        lines = ["CONSTANTS"]
        base = {"NVal": 4, "Me": self.me, "InitH": 1, "MaxSteps": 6, "MaxH": 2, "MaxR": 1, "AllowCrash": "FALSE",
                "EmitAll": "FALSE", "AvoidPanics": "TRUE", "RichEntrances": "TRUE"}
        base.update(consts)
        universe = base.pop("Universe", "")
        for k, v in base.items():
            lines.append("  %s = %s" % (k, v))
        lines += ["  Guide <- SMGuide", "  Blocks <- SMBlocks" + universe, "  VoteSets <- SMVoteSets" + universe, "INIT Init", "NEXT Next"]
        if edge_view:
            lines.append("VIEW EdgeView")
        elif view:
            lines.append("VIEW View")
        lines.append("CHECK_DEADLOCK FALSE")
        if invariants:
            lines.append("INVARIANTS " + " ".join(invariants))
        if properties:
            lines.append("PROPERTIES " + " ".join(properties))
        p = os.path.join(self.dir, name)
        open(p, "w").write("\n".join(lines) + "\n")
        return p

    def tlc(self, cfgpath, guide=None, **kw):
        copy = dict(kw.pop("copy", {}) or {})
        copy[cfgpath] = os.path.basename(cfgpath)
        if guide is not None:
            # a private copy of the MC module with the Guide definition replaced
            src = open(os.path.join(vlib.SPEC, "StateMachineMC.tla")).read()
            src = re.sub(r"(?m)^SMGuide == .*$", lambda m: "SMGuide == " + tla(sm_worlds.guide_value(guide)), src)
            gp = os.path.join(self.dir, "StateMachineMC.tla")
            open(gp, "w").write(src)
            copy[gp] = "StateMachineMC.tla"
        return self.ctx.tlc("StateMachineMC", os.path.basename(cfgpath), copy=copy, **kw)

    def behaviours(self, res):
        behs = self.ctx.tlc_emitted(res)
        seen, out = set(), []
        for h in behs:
            key = hashlib.sha1(json.dumps([(s["op"], s["args"], s["resps"], s["crash"]) for s in h], sort_keys=True).encode()).hexdigest()
            if key in seen:
                continue
            seen.add(key)
            out.append(h)
        return out

    def edge_cover(self, consts, timeout=1500, workers=1):
        """Exhaustive TLC run whose view includes the last step: one behaviour is exported for every reachable
        (abstract state, event) pair -- including the events the model ignores.  Returns the maximal behaviours
        (every exported behaviour is a prefix of one of them) and the TLC result."""
        cfg = self.cfg("SM_cover.cfg", dict(consts, EmitAll="TRUE"), invariants=("EmitEvery",), edge_view=True)
        res = self.tlc(cfg, timeout=timeout, workers=workers)
        behs = self.behaviours(res)

        def key(b):
            return json.dumps([(s["op"], s["args"], s["resps"], s["crash"]) for s in b], sort_keys=True)
        pref = set()
        for b in behs:
            for i in range(1, len(b)):
                pref.add(key(b[:i]))
        return [b for b in behs if key(b) not in pref], res, len(behs)

    def guided(self, steps):
        cfg = self.cfg("SM_guide.cfg", {"MaxSteps": len(steps), "AvoidPanics": "FALSE", "AllowCrash": "TRUE", "EmitAll": "TRUE",
                                        "MaxH": 9, "MaxR": 9}, invariants=("Emit",), view=False)
        res = self.tlc(cfg, guide=steps, workers=1, timeout=600)
        behs = self.ctx.tlc_emitted(res)
        full = [b for b in behs if len(b) == len(steps) or (b and (b[-1].get("pan") or b[-1].get("stop")))]
        return full[:1] if full else behs[:1]

    def replay(self, behs, batch=500, timeout_per_batch=900, parallel=8):
        """Replays behaviours; large sets are split over `parallel` child processes."""
        if self.binary is None:
            self.build()
        if len(behs) > 40 and parallel > 1:
            from concurrent.futures import ThreadPoolExecutor
            chunks = [behs[i::parallel] for i in range(parallel)]
            chunks = [c for c in chunks if c]
            subs = []
            for c in chunks:
                sub = SMRun.__new__(SMRun)
                sub.__dict__.update(self.__dict__)
                sub.records, sub.deaths = [], []
                sub.summary = {"behaviours": 0, "steps": 0, "mismatches": 0, "violations": 0, "ops": {}, "distinct_states": 0}
                sub.dir = os.path.join(self.dir, "par-%d" % len(os.listdir(self.dir)))
                os.makedirs(sub.dir)
                subs.append(sub)
            with ThreadPoolExecutor(len(chunks)) as ex:
                list(ex.map(lambda sc: sc[0].replay(sc[1], batch, timeout_per_batch, parallel=1), zip(subs, chunks)))
            # map the chunk-local behaviour indices back to indices into behs
            for ci, sub in enumerate(subs):
                for r in sub.records:
                    if "beh" in r:
                        r["beh"] = r["beh"] * parallel + ci
                for d in sub.deaths:
                    d["beh"] = d["beh"] * parallel + ci
                self.records += sub.records
                self.deaths += sub.deaths
                for k in ("behaviours", "steps", "mismatches", "violations", "distinct_states"):
                    self.summary[k] += sub.summary[k]
                for k, v in sub.summary["ops"].items():
                    self.summary["ops"][k] = self.summary["ops"].get(k, 0) + v
            return self.records
        inp = os.path.join(self.dir, "beh-%d.ndjson" % len(os.listdir(self.dir)))
        with open(inp, "w") as f:
            for i, h in enumerate(behs):
                f.write(json.dumps({"id": i, "steps": h}) + "\n")
        n, start = len(behs), 0
        while start < n:
            end = min(n, start + batch)
            out = os.path.join(self.dir, "out-%d-%d.ndjson" % (start, len(os.listdir(self.dir))))
            env = {"VERIF_WORLD": self.world_json, "VERIF_IN": inp, "VERIF_OUT": out, "VERIF_FROM": str(start), "VERIF_TO": str(end),
                   "VERIF_ME": str(self.me), "VERIF_SEED": str(self.ctx.seed)}
            rc, o = self.ctx.go_test(PKG, "^TestVerifSMReplay$", binary=self.binary, env=env, timeout=timeout_per_batch)
            recs = vlib.read_ndjson(out)
            self.records += recs
            for r in recs:
                if r.get("kind") == "begin":
                    self.summary["steps"] += 1
                    self.summary["ops"][r["op"]] = self.summary["ops"].get(r["op"], 0) + 1
            summ = [r for r in recs if r.get("kind") == "summary"]
            done = [r for r in recs if r.get("kind") == "done"]
            if summ:
                for k in ("behaviours", "mismatches", "violations", "distinct_states"):
                    self.summary[k] += summ[0].get(k, 0)
                start = end
                continue
            begins = [r for r in recs if r.get("kind") == "begin"]
            last = begins[-1] if begins else None
            nxt = (done[-1]["index"] + 1) if done else start
            if last is None:
                raise vlib.Inconclusive("state machine replay child died before any step (rc=%s):\n%s" % (rc, o[-3000:]))
            msg = ""
            for ln in o.splitlines():
                if ln.startswith("panic:"):
                    msg = ln[:300]
                    break
            if not msg and rc == 124:
                raise vlib.Inconclusive("state machine replay batch timed out at behaviour %d" % nxt)
            self.deaths.append({"beh": last["beh"], "step": last["step"], "op": last["op"], "args": last.get("args"),
                                "expected": last.get("expPan", ""), "panic": msg or ("exit status %s" % rc),
                                "steps": behs[last["beh"]][: last["step"] + 1], "tail": o[-1500:]})
            self.summary["behaviours"] += (nxt - start) + 1
            start = max(nxt, last["beh"]) + 1
        return self.records

    def by_kind(self, kind):
        return [r for r in self.records if r.get("kind") == kind]


def strip(steps):
    return [{"op": s["op"], "args": s["args"], "resps": s.get("resps", []), "crash": s.get("crash", False)} for s in (steps or [])]
