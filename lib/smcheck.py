"""Generic runner for the checks built on spec/StateMachine.tla + the real state machine replay harness."""
import json, os, random, re
import vlib, smlib
from mirrorcheck import norm_panic


def collect(ctx, props, plans, design=(), report_deaths=False, me=1):
    """plans: dicts {universe, rich, sim, steps, avoid, crash, seeds, cap}; design: dicts {steps, universe, rich, crash, invariants, witnesses}"""
    run = smlib.SMRun(ctx, me=me)
    run.build()
    design_cov, all_behs = [], []
    mismatches = []
    stored = None
    if ctx.replay:
        # --replay <file>: the stored case is re-derived by TLC (Guide) and replayed alone
        try:
            rp = json.load(open(ctx.replay)).get("replay") or {}
            if rp.get("steps") and "world" not in rp and "cluster_behaviour" not in rp:
                stored = rp["steps"]
        except (OSError, ValueError):
            stored = None
    if stored is not None:
        plans, design = [], []

    def do_replay(behs, label):
        if not behs:
            return
        base = len(run.records)
        nd = len(run.deaths)
        run.replay(behs)
        recs = run.records[base:]
        # a predicate failure must reproduce when the same behaviour is replayed again (timing must never decide a verdict)
        cand = {}
        for r in recs:
            if r.get("kind") == "violation" and r["prop"] in props:
                cand.setdefault((r["pred"], r["site"], r["class"]), r)
        if cand:
            keys = list(cand)
            sub = [behs[cand[k]["beh"]] for k in keys]
            base2 = len(run.records)
            run.replay(sub)
            again = {(r2["beh"], r2["pred"], r2["site"], r2["class"]) for r2 in run.records[base2:] if r2.get("kind") == "violation"}
            dropped = 0
            for n, k in enumerate(keys):
                r = cand[k]
                if (n, k[0], k[1], k[2]) in again:
                    ctx.violation(r["pred"], r["site"], r["class"], r["what"],
                                  replay_obj={"me": me, "steps": smlib.strip(behs[r["beh"]][: r["step"] + 1])})
                else:
                    dropped += 1
            if dropped:
                ctx.log("%d predicate failures did not reproduce on a second replay and are dropped" % dropped)
        for r in recs:
            if r.get("kind") == "mismatch":
                mismatches.append({"source": label, "op": r["op"], "args": r.get("args"), "diff": r.get("diff"),
                                   "steps": smlib.strip(behs[r["beh"]][: r["step"] + 1]), "_full": behs[r["beh"]], "_step": r["step"]})
        for d in run.deaths[nd:]:
            if report_deaths:
                ctx.violation("NoPanic", "StateMachine:" + d["op"], norm_panic(d["panic"]),
                              "the process died while the state machine handled %s %s: %s" % (d["op"], json.dumps(d["args"]), d["panic"]),
                              replay_obj={"me": me, "steps": smlib.strip(d["steps"])})
            elif not d["expected"]:
                mismatches.append({"source": label, "op": d["op"], "args": d["args"], "diff": ["unexpected process death: " + d["panic"]],
                                   "steps": smlib.strip(d["steps"]), "_full": d["steps"], "_step": d["step"]})

    for d in design:
        consts = {"MaxSteps": d["steps"], "AllowCrash": "TRUE" if d.get("crash") else "FALSE", "Universe": d.get("universe", "Small"),
                  "RichEntrances": "TRUE" if d.get("rich") else "FALSE", "AvoidPanics": "TRUE" if d.get("avoid", True) else "FALSE",
                  "MaxH": d.get("maxh", 2), "MaxR": d.get("maxr", 1)}
        cfg = run.cfg("SM_design_%d.cfg" % len(design_cov), consts, invariants=tuple(d["invariants"]), properties=tuple(d.get("properties", ())))
        res = run.tlc(cfg, timeout=d.get("timeout", 1200), allow_violation=True)
        cex = None
        if res["violated"]:
            m = re.search(r"Error: (Invariant|Action property) (\w+) is violated", res["out"])
            cex = m.group(2) if m else "?"
        design_cov.append({"universe": consts["Universe"], "steps": d["steps"], "crash": bool(d.get("crash")), "checked": list(d["invariants"]) + list(d.get("properties", ())),
                           "distinct_states": res.get("distinct", 0), "generated": res.get("states", 0), "design_counterexample": cex})
        ctx.log("TLC StateMachineMC %s steps<=%d: %s distinct states%s" % (consts["Universe"], d["steps"], res.get("distinct"),
                (", design counterexample for " + cex) if cex else ""))
        if d.get("witnesses"):
            consts2 = dict(consts, EmitAll="TRUE")
            cfg2 = run.cfg("SM_wit_%d.cfg" % len(design_cov), consts2, invariants=("EmitCex",))
            res2 = run.tlc(cfg2, timeout=d.get("timeout", 1200))
            wit = run.behaviours(res2)
            rnd = random.Random(ctx.seed)
            rnd.shuffle(wit)
            wit = wit[: d["witnesses"]]
            ctx.log("replaying %d design-counterexample witnesses on the real state machine" % len(wit))
            do_replay(wit, "witness")
            all_behs += wit[:1]
    if stored is not None:
        b = run.guided(stored)
        if not b:
            raise vlib.Inconclusive("the stored behaviour is not a behaviour of the current spec")
        do_replay(b, "stored")
        all_behs += b[:1]
    for p in plans:
        if p.get("cover"):
            consts = {"MaxSteps": p["steps"], "AvoidPanics": "TRUE" if p.get("avoid", True) else "FALSE",
                      "AllowCrash": "TRUE" if p.get("crash") else "FALSE", "MaxH": p.get("maxh", 2), "MaxR": p.get("maxr", 1),
                      "Universe": p.get("universe", "Small"), "RichEntrances": "TRUE" if p.get("rich") else "FALSE"}
            behs, res, edges = run.edge_cover(consts, timeout=p.get("timeout", 1500), workers=p.get("workers", 1))
            if p.get("visit"):
                # directed export: only the behaviours that pass through one of the named steps (the timed delay steps are
                # what random simulation rarely reaches)
                want = set(p["visit"])
                behs = [b for b in behs if any(isinstance(st.get("exp"), dict) and st["exp"].get("S") in want for st in b)]
            total = len(behs)
            if p.get("cap") and total > p["cap"]:
                rnd = random.Random(ctx.seed)
                rnd.shuffle(behs)
                behs = behs[: p["cap"]]
            design_cov.append({"universe": consts["Universe"], "steps": p["steps"], "crash": bool(p.get("crash")), "checked": ["edge cover"],
                               "distinct_states": res.get("distinct", 0), "generated": res.get("states", 0), "design_counterexample": None,
                               "state_event_pairs": edges, "maximal_behaviours": total, "replayed": len(behs)})
            ctx.log("edge cover (universe %s, <= %d steps): %d (state, event) pairs, %d maximal behaviours, replaying %d on the real state machine"
                    % (consts["Universe"], p["steps"], edges, total, len(behs)))
            if not behs:
                raise vlib.Inconclusive("edge cover produced no behaviours")
            do_replay(behs, "cover")
            all_behs += behs[:1]
            continue
        behs = []
        want = p.get("min", 20)
        for sd in range(p.get("seeds", 1) + 6):
            if sd >= p.get("seeds", 1) and len(behs) >= want:
                break
            consts = {"MaxSteps": p["steps"], "EmitAll": "TRUE", "AvoidPanics": "TRUE" if p.get("avoid", True) else "FALSE",
                      "AllowCrash": "TRUE" if p.get("crash") else "FALSE", "MaxH": p.get("maxh", 3), "MaxR": p.get("maxr", 2),
                      "Universe": p.get("universe", ""), "RichEntrances": "TRUE" if p.get("rich", True) else "FALSE"}
            cfg = run.cfg("SM_sim.cfg", consts, invariants=("Emit",), view=False)
            res = run.tlc(cfg, simulate="num=%d" % p["sim"], depth=p["steps"] + 2, extra=["-seed", str(ctx.seed * 1000 + sd)],
                          workers=1, timeout=p.get("timeout", 900))
            behs += run.behaviours(res)
        rnd = random.Random(ctx.seed)
        rnd.shuffle(behs)
        behs = behs[: p.get("cap", 400)]
        if not behs:
            raise vlib.Inconclusive("no state machine behaviours generated")
        ctx.log("replaying %d simulated behaviours (<= %d steps, universe %r) on the real state machine" % (len(behs), p["steps"], p.get("universe", "")))
        do_replay(behs, "sim")
        all_behs += behs[:1]
    # a divergence must reproduce when the same behaviour is replayed again (timing must never decide a verdict)
    if mismatches:
        confirmed, flaky = [], 0
        # one batch, at most CONFIRM_CAP of them (a change that makes hundreds of behaviours diverge needs no more than that
        # for a verdict; what is not confirmed is not reported)
        CONFIRM_CAP = 40
        if len(mismatches) > CONFIRM_CAP:
            ctx.log("%d divergences; confirming the first %d by a second replay, the rest are not reported" % (len(mismatches), CONFIRM_CAP))
            del mismatches[CONFIRM_CAP:]
        base = len(run.records)
        nd = len(run.deaths)
        run.replay([m["_full"] for m in mismatches], parallel=1)
        again = {(r["beh"], r["step"]) for r in run.records[base:] if r.get("kind") == "mismatch"}
        died = {d["beh"] for d in run.deaths[nd:]}
        for n, m in enumerate(mismatches):
            if (n, m["_step"]) in again or n in died or m["diff"] and "unexpected process death" in m["diff"][0]:
                confirmed.append(m)
            else:
                flaky += 1
        for m in mismatches:
            m.pop("_full", None)
            m.pop("_step", None)
        if flaky:
            ctx.log("%d divergences did not reproduce on a second replay and are dropped" % flaky)
        mismatches[:] = confirmed
    inconcl = run.by_kind("inconclusive")
    for b in all_behs[:3]:
        ctx.sample({"state_machine_behaviour": smlib.strip(b)})
    ctx.traces_validated += run.summary["behaviours"] - len(mismatches)
    cov = {"design_checks": design_cov, "behaviours_replayed_on_real_code": run.summary["behaviours"], "steps_replayed": run.summary["steps"],
           "distinct_abstract_states_reached_on_real_code": run.summary["distinct_states"], "ops": run.summary["ops"],
           "spec_vs_code_divergences": len(mismatches),
           "evaluations": run.summary["steps"], "distinct_nontrivial": run.summary["distinct_states"],
           "rule": "behaviours = macro-step sequences generated by TLC from StateMachineMC (witnesses of design counterexamples and simulation), each replayed on a real tmstate.StateMachine whose mirror, strategy, timer, driver, stores and signer are played by the harness; distinct_nontrivial counts distinct projected round-lifecycle states observed on the real code",
           "exhaustive": False}
    if mismatches:
        cov["first_divergences"] = mismatches[:3]
        json.dump(mismatches, open(os.path.join(ctx.outdir, "divergences_sm.json"), "w"), indent=1)
    return cov, mismatches, inconcl
