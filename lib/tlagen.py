"""Python values -> TLA+ expressions (for generated constant modules)."""

class S(list):
    """a TLA+ set (list of elements)"""

def tla(v):
    if isinstance(v, bool):
        return "TRUE" if v else "FALSE"
    if isinstance(v, int):
        return str(v)
    if isinstance(v, str):
        return '"%s"' % v
    if isinstance(v, S) or isinstance(v, (set, frozenset)):
        return "{" + ", ".join(tla(x) for x in v) + "}"
    if isinstance(v, (list, tuple)):
        return "<<" + ", ".join(tla(x) for x in v) + ">>"
    if isinstance(v, dict):
        if not v:
            return "<<>>"
        return "(" + " @@ ".join("(%s :> %s)" % (tla(k), tla(x)) for k, x in v.items()) + ")"
    if v is None:
        return '"null"'
    raise TypeError(type(v))

def module(name, defs, extends="Integers, Sequences, TLC"):
    lines = ["---- MODULE %s ----" % name, "EXTENDS " + extends]
    for k, v in defs.items():
        lines.append("%s == %s" % (k, tla(v)))
    lines.append("====")
    return "\n".join(lines) + "\n"
