"""Shared machinery for /verif checks: TLC runs, Go harness runs (overlay into /repo),
verdict classification against known findings, evidence writing.

Verdict discipline (DESIGN.md section 3.5):
  exit 0  every predicate held on everything explored
  exit 1  VIOLATION observed on the real code whose fingerprint is not a known finding
  exit 2  inconclusive (tool failure, timeout, unexplained harness failure) -- never a violation
"""
import json, os, re, shutil, subprocess, sys, tempfile, time, hashlib

VERIF = os.path.dirname(os.path.dirname(os.path.abspath(__file__)))
REPO = os.environ.get("VERIF_REPO", "/repo")
SPEC = os.path.join(VERIF, "spec")
HARNESS = os.path.join(VERIF, "harness")
EVIDENCE = os.path.join(VERIF, "evidence")
OUT = os.path.join(VERIF, "out")
KNOWN = os.path.join(VERIF, "known_findings.json")
NCPU = os.cpu_count() or 4


class Inconclusive(Exception):
    pass


def goenv():
    e = dict(os.environ)
    e["GOFLAGS"] = "-mod=mod"
    e["GOPROXY"] = "off"
    e.pop("GOSUMDB", None)  # GOSUMDB=off breaks the offline toolchain switch
    e.pop("GOTOOLCHAIN", None)
    return e


class Ctx:
    def __init__(self, pid, tier, seed, replay=None):
        self.pid = pid
        self.tier = tier
        self.seed = seed
        self.replay = replay
        self.t0 = time.time()
        base = os.environ.get("VERIF_SCRATCH") or tempfile.gettempdir()
        self.scratch = tempfile.mkdtemp(prefix="verif-%s-" % pid, dir=base)
        self.outdir = os.path.join(OUT, pid)
        os.makedirs(self.outdir, exist_ok=True)
        self.violations = []      # dicts: {fingerprint, what, replay}
        self.known_seen = []      # findings re-observed
        self.cov = {"samples": []}
        self.assumptions = []
        self.tlc_states = 0
        self.tlc_transitions = 0
        self.traces_validated = 0
        self.notes = []

    # ---------------------------------------------------------------- scratch
    def path(self, *p):
        d = os.path.join(self.scratch, *p)
        os.makedirs(os.path.dirname(d), exist_ok=True)
        return d

    def cleanup(self):
        shutil.rmtree(self.scratch, ignore_errors=True)

    def quick(self):
        return self.tier == "quick"

    def log(self, *a):
        print("[%s %6.1fs]" % (self.pid, time.time() - self.t0), *a, flush=True)

    # ---------------------------------------------------------------- TLC
    def tlc(self, module, cfg, workers=None, timeout=600, simulate=None, depth=None,
            extra=None, copy=None, deque=False, defines=None, heap=None, check_deadlock=None,
            allow_violation=False, allow_rejected=False):
        """Run TLC on spec/<module>.tla with spec/<cfg> in a scratch copy of /verif/spec.
        Returns dict(states, distinct, ok, violated, out, lines).  Raises Inconclusive on tool failure."""
        wd = self.path("tlc-%s-%d" % (cfg.replace("/", "_"), len(os.listdir(self.scratch))), "x")
        wd = os.path.dirname(wd)
        for f in os.listdir(SPEC):
            if f.endswith(".tla") or f.endswith(".cfg"):
                shutil.copy(os.path.join(SPEC, f), wd)
        for src, dst in (copy or {}).items():
            shutil.copy(src, os.path.join(wd, dst))
        if defines:
            # constants overridden by generating a cfg with substituted values
            txt = open(os.path.join(wd, cfg)).read()
            for k, v in defines.items():
                txt, n = re.subn(r"(?m)^(\s*%s\s*=\s*).*$" % re.escape(k), lambda m: m.group(1) + str(v), txt)
                if n == 0:
                    raise Inconclusive("cfg %s has no constant %s" % (cfg, k))
            open(os.path.join(wd, cfg), "w").write(txt)
        cmd = ["timeout", str(int(timeout)), "java", "-XX:+UseParallelGC"]
        if heap:
            cmd.append("-Xmx" + heap)
        cmd += ["-Xss64m", "-DTLA-Library=/opt/veriftools/tlapm/lib/tlapm/stdlib"]
        if deque:
            cmd.append("-Dtlc2.tool.queue.IStateQueue=StateDeque")
        cmd += ["-cp", "/opt/veriftools/tla/tla2tools.jar:/opt/veriftools/tla/CommunityModules-deps.jar",
                "tlc2.TLC", "-metadir", os.path.join(wd, "meta"),
                "-workers", str(workers or min(NCPU, 16)), "-config", cfg]
        if simulate:
            cmd += ["-simulate", simulate]
        if depth:
            cmd += ["-depth", str(depth)]
        if check_deadlock is False:
            cmd += ["-deadlock"]
        cmd += (extra or [])
        cmd.append(module + ".tla")
        t = time.time()
        p = subprocess.run(cmd, cwd=wd, stdout=subprocess.PIPE, stderr=subprocess.STDOUT, text=True)
        out = p.stdout
        res = {"out": out, "rc": p.returncode, "wd": wd, "wall": time.time() - t}
        m = re.search(r"(\d+) states generated, (\d+) distinct states found", out)
        if m:
            res["states"] = int(m.group(1))
            res["distinct"] = int(m.group(2))
        else:
            m2 = re.findall(r"Progress.*?(\d[\d,]*) states (?:generated|checked)", out)
            res["states"] = int(m2[-1].replace(",", "")) if m2 else 0
            res["distinct"] = res["states"]
        res["violated"] = ("is violated" in out) or ("Error: Invariant" in out) or ("Temporal properties were violated" in out) or ("Error: Action property" in out)
        res["ok"] = ("No error has been found" in out) or (simulate is not None and p.returncode in (0, 124) and not res["violated"] and "Error:" not in out)
        res["lines"] = out.splitlines()
        if p.returncode == 124 and not simulate:
            raise Inconclusive("TLC timeout on %s/%s" % (module, cfg))
        # trace validation: a false POSTCONDITION means the trace was not accepted (res["rejected"])
        res["rejected"] = bool(re.search(r"Postcondition \w+ .*is false", out))
        if res["rejected"] and allow_rejected:
            return res
        if not res["ok"] and not (res["violated"] and allow_violation):
            errs = [i for i, ln in enumerate(res["lines"]) if ln.startswith("Error:") or "Exception" in ln]
            first = "\n".join(res["lines"][errs[0]:errs[0] + 25]) if errs else ""
            tail = first + "\n...\n" + "\n".join(res["lines"][-15:])
            raise Inconclusive("TLC failed on %s/%s rc=%s\n%s" % (module, cfg, p.returncode, tail))
        if not simulate:
            self.tlc_states += res.get("distinct", 0)
            self.tlc_transitions += res.get("states", 0)
        return res

    @staticmethod
    def tlc_emitted(res, tag="BEH"):
        """Lines printed by PrintT(tag \\o " " \\o ToJson(x)) -> list of decoded JSON values."""
        vals = []
        pre = '"' + tag + ' '
        for ln in res["lines"]:
            if ln.startswith(pre):
                s = json.loads(ln)
                vals.append(json.loads(s[len(tag) + 1:]))
        return vals

    # ---------------------------------------------------------------- Go
    def overlay(self, mapping):
        """mapping: {path relative to /repo: absolute source path}.  Returns overlay json path."""
        rep = {}
        for rel, src in mapping.items():
            rep[os.path.join(REPO, rel)] = src
        p = self.path("overlay-%d.json" % len(os.listdir(self.scratch)))
        json.dump({"Replace": rep}, open(p, "w"))
        return p

    def harness_overlay(self, *pkgs, extra=None, only=None):
        """Overlay the files of /verif/harness/<pkg>/ into /repo/<pkg>/.  `only`: tuple of file-name
        prefixes to include (several checks share package directories; each overlays its own files).
        The shared package harness/internal/verifcommon is always added as /repo/internal/verifcommon."""
        mapping = {}
        allp = list(pkgs) + ["internal/verifcommon"]
        for pkg in allp:
            d = os.path.join(HARNESS, pkg)
            if not os.path.isdir(d):
                continue
            for f in sorted(os.listdir(d)):
                if not f.endswith(".go"):
                    continue
                if only and pkg != "internal/verifcommon" and not f.startswith(tuple(only)):
                    continue
                mapping[os.path.join(pkg, f)] = os.path.join(d, f)
        mapping.update(extra or {})
        return self.overlay(mapping)

    def go_test(self, pkg, run, env=None, timeout=900, overlay=None, tags="verif", race=False,
                compile_only=False, binary=None, args=None, count=1):
        """go test in /repo with overlay. Returns (rc, output)."""
        e = goenv()
        e.update(env or {})
        if binary and not compile_only:
            cmd = ["timeout", str(int(timeout)), binary, "-test.run", run, "-test.count", str(count),
                   "-test.timeout", "%ds" % int(timeout)] + (args or [])
            p = subprocess.run(cmd, cwd=os.path.join(REPO, pkg), env=e, stdout=subprocess.PIPE,
                               stderr=subprocess.STDOUT, text=True, errors="replace")
            return p.returncode, p.stdout
        cmd = ["go", "test", "-vet=off", "-tags", tags]
        if overlay:
            cmd += ["-overlay", overlay]
        if race:
            cmd.append("-race")
        if compile_only:
            cmd += ["-c", "-o", binary, "./" + pkg]
        else:
            cmd += ["-count=%d" % count, "-timeout", "%ds" % int(timeout), "-run", run, "./" + pkg] + (args or [])
        p = subprocess.run(["timeout", str(int(timeout) + 120)] + cmd, cwd=REPO, env=e,
                           stdout=subprocess.PIPE, stderr=subprocess.STDOUT, text=True, errors="replace")
        if compile_only and p.returncode != 0:
            raise Inconclusive("go test -c failed for %s:\n%s" % (pkg, p.stdout[-4000:]))
        return p.returncode, p.stdout

    # ---------------------------------------------------------------- verdicts
    def violation(self, predicate, site, input_class, what, replay_obj=None):
        fp = {"property": self.pid, "predicate": predicate, "site": site, "class": input_class}
        for v in self.violations + self.known_seen:
            if v["fingerprint"] == fp:
                v["count"] = v.get("count", 1) + 1
                return
        rp = None
        if replay_obj is not None:
            h = hashlib.sha1(json.dumps(fp, sort_keys=True).encode()).hexdigest()[:10]
            rp = os.path.join(self.outdir, "replay-%s.json" % h)
            json.dump({"fingerprint": fp, "what": what, "replay": replay_obj}, open(rp, "w"), indent=1)
        rec = {"fingerprint": fp, "what": what, "replay": rp, "count": 1}
        k = match_known(fp)
        if k is not None:
            rec["known"] = k
            self.known_seen.append(rec)
        else:
            self.violations.append(rec)

    def sample(self, s, cap=6):
        if len(self.cov["samples"]) < cap:
            self.cov["samples"].append(s)

    def finish(self, level, extra_cov=None, explanation=None):
        cov = dict(self.cov)
        cov.update(extra_cov or {})
        if level == "model_checking":
            cov.setdefault("states", self.tlc_states)
            cov.setdefault("transitions", self.tlc_transitions)
            cov.setdefault("traces_validated_against_impl", self.traces_validated)
        if explanation:
            cov["explanation"] = explanation
        if not cov.get("samples"):
            cov["samples"] = ["(no sample recorded)"]
        cov["known_findings_reobserved"] = [k["what"] for k in self.known_seen]
        ev = {
            "property_id": self.pid, "tier": self.tier, "seed": self.seed, "level": level,
            "coverage": cov, "assumptions": self.assumptions,
            "wall_s": round(time.time() - self.t0, 2), "violations": len(self.violations),
        }
        if self.replay:
            # a --replay run re-executes ONE stored behaviour: it must not replace the evidence of the tier run
            os.makedirs(self.outdir, exist_ok=True)
            json.dump(ev, open(os.path.join(self.outdir, "replay-evidence.json"), "w"), indent=1, sort_keys=True)
        else:
            os.makedirs(EVIDENCE, exist_ok=True)
            json.dump(ev, open(os.path.join(EVIDENCE, self.pid + ".json"), "w"), indent=1, sort_keys=True)
        printed = set()
        for k in self.known_seen:
            line = "KNOWN-FINDING: property=%s %s" % (self.pid, k["known"].get("what", k["what"]))
            if line not in printed:
                printed.add(line)
                print(line)
        for v in self.violations:
            print("VIOLATION property=%s replay=%s" % (self.pid, v["replay"] or "-"))
            print("  " + v["what"].replace("\n", "\n  "))
        return 1 if self.violations else 0


_known_cache = None


def known_findings():
    global _known_cache
    if _known_cache is None:
        try:
            _known_cache = json.load(open(KNOWN))
        except FileNotFoundError:
            _known_cache = {"findings": [], "fixed": []}
        d = os.path.join(VERIF, "known_findings.d")
        if os.path.isdir(d):
            for f in sorted(os.listdir(d)):
                if f.endswith(".json"):
                    extra = json.load(open(os.path.join(d, f)))
                    _known_cache.setdefault("findings", []).extend(extra.get("findings", []))
                    _known_cache.setdefault("fixed", []).extend(extra.get("fixed", []))
    return _known_cache


def match_known(fp):
    for k in known_findings().get("findings", []):
        kf = k["fingerprint"]
        if all(fp.get(key) == val for key, val in kf.items()):
            return k
    return None


def read_ndjson(path):
    out = []
    if not os.path.exists(path):
        return out
    with open(path) as f:
        for ln in f:
            ln = ln.strip()
            if ln:
                try:
                    out.append(json.loads(ln))
                except json.JSONDecodeError:
                    out.append({"_bad": ln})
    return out


def main(pid, runfn, argv=None):
    import argparse
    ap = argparse.ArgumentParser()
    ap.add_argument("--tier", default=os.environ.get("VERIF_TIER", "quick"), choices=["quick", "thorough"])
    ap.add_argument("--seed", type=int, default=int(os.environ.get("VERIF_SEED", "1") or 1))
    ap.add_argument("--replay", default=None)
    a = ap.parse_args(argv)
    ctx = Ctx(pid, a.tier, a.seed, a.replay)
    try:
        rc = runfn(ctx)
    except Inconclusive as e:
        print("INCONCLUSIVE property=%s: %s" % (pid, e))
        rc = 2
    finally:
        if not os.environ.get("VERIF_KEEP"):
            ctx.cleanup()
    sys.exit(rc)
