"""Code -> spec direction for the Mirror family: the repository's own tests are run with the kernel
trace hook (build tag verif) and the invariant monitor overlay (harness/.../tmi/zz_verif_monitor.go);
the monitor evaluates, inside the kernel goroutine after every handled request, the state predicates of
spec/MirrorMC.tla that can be stated on kState (C01 C04 C05 C06 C07 C11).  Only monitor records decide:
a failing or flaky repository test is not a verdict."""
import json, os, subprocess
import vlib

TMI = "tm/tmengine/internal/tmmirror/internal/tmi"
TMSTATE = "tm/tmengine/internal/tmstate"
KINDS = {
    # kind: (overlay package, file prefix, environment variable, extra quick packages)
    "mirror": (TMI, "zz_verif_monitor", "VERIF_MONITOR_OUT", ["./tm/tmengine/internal/tmmirror/..."]),
    "sm": (TMSTATE, "zz_verif_suite_sm", "VERIF_SM_MONITOR_OUT", ["./tm/tmengine/internal/tmstate/..."]),
}
QUICK_PKGS = ["./tm/tmengine/internal/tmmirror/...", "./tm/tmengine"]
THOROUGH_PKGS = QUICK_PKGS + ["./tm/tmintegration/...", "./tm/tmgossip/...", "./tm/tmdriver/...", "./gordian-echo/...", "./tm/tmdebug/..."]


def run_suite(ctx, props, thorough=None, kind="mirror"):
    """Runs the repository tests of the packages that start mirror kernels under the monitor.
    Returns a coverage dict; reports violations for `props` through ctx.violation."""
    if ctx.replay:
        return {}     # --replay re-runs one stored case only
    thorough = (not ctx.quick()) if thorough is None else thorough
    opkg, prefix, envvar, qp = KINDS[kind]
    ov = ctx.harness_overlay(opkg, only=(prefix,))
    out = ctx.path("suitemon-" + kind, "monitor.ndjson")
    if os.path.exists(out):
        os.remove(out)
    e = vlib.goenv()
    e[envvar] = out
    e.setdefault("GORDIAN_TEST_TIME_FACTOR", "4")
    pkgs = [p for p in (qp + ["./tm/tmengine"] + (THOROUGH_PKGS[2:] if thorough else []))
            if os.path.isdir(os.path.join(vlib.REPO, p.replace("./", "").replace("/...", "")))]
    cmd = ["go", "test", "-vet=off", "-tags", "verif", "-overlay", ov, "-count=1", "-timeout", "900s"] + pkgs
    p = subprocess.run(["timeout", "1200"] + cmd, cwd=vlib.REPO, env=e, stdout=subprocess.PIPE, stderr=subprocess.STDOUT,
                       text=True, errors="replace")
    if "[build failed]" in p.stdout or "[setup failed]" in p.stdout:
        raise vlib.Inconclusive("monitored suite did not build:\n" + p.stdout[-3000:])
    recs = vlib.read_ndjson(out)
    per_pid = {}
    kernels = 0
    for r in recs:
        if r.get("kind") == "progress":
            per_pid[r.get("pid")] = max(per_pid.get(r.get("pid"), 0), r.get("events", 0))
        elif r.get("kind") in ("kernel", "machine"):
            kernels += 1
    events = sum(per_pid.values())
    nviol = 0
    for r in recs:
        if r.get("kind") == "violation" and r["prop"] in props:
            nviol += 1
            ctx.violation(r["pred"], "suite", r["class"], "while the repository's tests ran: " + r["what"],
                          replay_obj={"command": " ".join(cmd), "env": {envvar: "<file>"}, "record": r})
    failed = [ln for ln in p.stdout.splitlines() if ln.startswith("FAIL\t") or ln.startswith("--- FAIL")]
    if events == 0:
        raise vlib.Inconclusive("the monitored suite produced no kernel events:\n" + p.stdout[-2000:])
    ctx.log("monitored suite: %d trace points in %d packages, %d monitor violations for %s%s" %
            (events, len(pkgs), nviol, sorted(props), (", %d repository test failures (not a verdict)" % len(failed)) if failed else ""))
    return {"suite_packages": pkgs, "suite_events_monitored": events, "suite_instances": kernels,
            "suite_repo_test_failures_ignored": failed[:10]}
