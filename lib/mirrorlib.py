"""Pipeline shared by the Mirror-based checks (C01 C04 C05 C06 C07 C09 C10 C11):
world (python) -> real hash ranks (Go) -> MirrorWorld.tla -> TLC (exhaustive check of the design,
behaviour export by exhaustive enumeration or simulation) -> replay on the real Mirror in child
processes (a kernel panic kills the child; it is attributed to the last begun step) -> records."""
import json, os, sys, subprocess, time, hashlib
import vlib
sys.path.insert(0, os.path.join(vlib.VERIF, "checks"))
import mirror_worlds as mw

PKG = "tm/tmengine/internal/tmmirror"


class MirrorRun:
    def __init__(self, ctx, world_name, world=None):
        self.ctx = ctx
        self.name = world_name
        self.world = world if world is not None else mw.WORLDS[world_name]()
        self.dir = os.path.dirname(ctx.path("mirror-" + world_name, "x"))
        self.world_json = os.path.join(self.dir, "world.json")
        json.dump(mw.world_json(self.world), open(self.world_json, "w"))
        self.binary = None
        self.rank = None
        self.records = []
        self.summary = {"behaviours": 0, "steps": 0, "mismatches": 0, "violations": 0, "ops": {}, "distinct_states": 0}
        self.deaths = []
        self.inconclusive = []

    # ------------------------------------------------------------ build
    def build(self):
        ov = self.ctx.harness_overlay(PKG, PKG + "/internal/tmi", only=("zz_verif_rig", "zz_verif_mirror", "zz_verif_access", "zz_verif_proj", "zz_verif_conc", "zz_verif_c07lists"))
        self.binary = os.path.join(self.dir, "mirror.test")
        self.ctx.go_test(PKG, "", overlay=ov, compile_only=True, binary=self.binary, timeout=900)
        out = os.path.join(self.dir, "rank.ndjson")
        rc, o = self.ctx.go_test(PKG, "^TestVerifMirrorWorld$", binary=self.binary,
                                 env={"VERIF_WORLD": self.world_json, "VERIF_OUT": out}, timeout=120)
        recs = vlib.read_ndjson(out)
        if rc != 0 or not recs:
            raise vlib.Inconclusive("world instantiation failed:\n" + o[-3000:])
        self.rank = recs[0]["rank"]
        self.world_tla = os.path.join(self.dir, "MirrorWorld.tla")
        mw.write_world(self.world, self.rank, self.world_tla)

    # ------------------------------------------------------------ TLC
    def tlc(self, cfg, **kw):
        copy = dict(kw.pop("copy", {}) or {})
        copy[self.world_tla] = "MirrorWorld.tla"
        return self.ctx.tlc("MirrorMC", cfg, copy=copy, **kw)

    def guided(self, steps):
        """Re-derives the spec's expectations for one stored behaviour (steps without Boot or with it)."""
        steps = [s for s in steps if s["op"] != "Boot"]
        mw.write_world(self.world, self.rank, self.world_tla, guide=steps)
        try:
            res = self.tlc("Mirror_sim.cfg", workers=1, timeout=600,
                           defines={"MaxSteps": len(steps) + 1, "AvoidPanics": "FALSE", "AllowCrash": "TRUE"})
        finally:
            mw.write_world(self.world, self.rank, self.world_tla)
        behs = self.ctx.tlc_emitted(res)
        full = [b for b in behs if len(b) == len(steps) + 1 or (b and b[-1].get("pan"))]
        return full[:1] if full else behs[:1]

    def behaviours(self, res):
        behs = self.ctx.tlc_emitted(res)
        # de-duplicate (simulation may repeat) and drop strict prefixes of other behaviours cheaply
        seen, out = set(), []
        for h in behs:
            key = hashlib.sha1(json.dumps([(s["op"], s["args"], s["crashAt"]) for s in h], sort_keys=True).encode()).hexdigest()
            if key in seen:
                continue
            seen.add(key)
            out.append(h)
        return out

    def cover(self, steps, edge=False, crash=False, avoid=True, timeout=1500):
        """Exhaustive TLC run exporting one behaviour per distinct state (edge=False) or per distinct
        (state, event) pair (edge=True); returns the maximal behaviours, the TLC result and the number exported."""
        cfg = "Mirror_edge2cover.cfg" if edge == 2 else ("Mirror_edgecover.cfg" if edge else "Mirror_cover.cfg")
        res = self.tlc(cfg, workers=8, timeout=timeout,
                       defines={"MaxSteps": steps, "AvoidPanics": "TRUE" if avoid else "FALSE", "AllowCrash": "TRUE" if crash else "FALSE"})
        behs = self.behaviours(res)

        def key(b):
            return json.dumps([(s["op"], s["args"], s["crashAt"]) for s in b], sort_keys=True)
        pref = set()
        for b in behs:
            for i in range(1, len(b)):
                pref.add(key(b[:i]))
        return [b for b in behs if key(b) not in pref], res, len(behs)

    def conc_cover(self, steps, timeout=1500):
        """MirrorConcMC: design check of the concurrent-caller driver and state cover export of its behaviours."""
        copy = {self.world_tla: "MirrorWorld.tla"}
        design = self.ctx.tlc("MirrorConcMC", "Mirror_conc.cfg", copy=copy, defines={"MaxSteps": steps}, timeout=timeout, allow_violation=True)
        res = self.ctx.tlc("MirrorConcMC", "Mirror_conccover.cfg", copy=dict(copy), defines={"MaxSteps": steps}, timeout=timeout, workers=8)
        behs = self.behaviours(res)

        def key(b):
            return json.dumps([(s["op"], s["args"], s["crashAt"]) for s in b], sort_keys=True)
        pref = set()
        for b in behs:
            for i in range(1, len(b)):
                pref.add(key(b[:i]))
        return [b for b in behs if key(b) not in pref], design, res, len(behs)

    # ------------------------------------------------------------ replay
    def replay(self, behs, batch=400, timeout_per_batch=900, parallel=8):
        """Replays behaviours on the real Mirror; survives child deaths.  Large sets are split over child processes."""
        if self.binary is None:
            self.build()
        if len(behs) > 60 and parallel > 1:
            from concurrent.futures import ThreadPoolExecutor
            chunks = [c for c in (behs[i::parallel] for i in range(parallel)) if c]
            subs = []
            for c in chunks:
                sub = MirrorRun.__new__(MirrorRun)
                sub.__dict__.update(self.__dict__)
                sub.records, sub.deaths, sub.inconclusive = [], [], []
                sub.summary = {"behaviours": 0, "steps": 0, "mismatches": 0, "violations": 0, "ops": {}, "distinct_states": 0}
                sub.dir = os.path.join(self.dir, "par-%d" % len(os.listdir(self.dir)))
                os.makedirs(sub.dir)
                subs.append(sub)
            with ThreadPoolExecutor(len(chunks)) as ex:
                list(ex.map(lambda sc: sc[0].replay(sc[1], batch, timeout_per_batch, parallel=1), zip(subs, chunks)))
            for ci, sub in enumerate(subs):
                for r in sub.records:
                    if "beh" in r:
                        r["beh"] = r["beh"] * parallel + ci
                for d in sub.deaths:
                    d["beh"] = d["beh"] * parallel + ci
                self.records += sub.records
                self.deaths += sub.deaths
                for k in ("behaviours", "steps", "mismatches", "violations", "distinct_states"):
                    self.summary[k] += sub.summary[k]
                for k, v in sub.summary["ops"].items():
                    self.summary["ops"][k] = self.summary["ops"].get(k, 0) + v
            self.inconclusive = [r for r in self.records if r.get("kind") == "inconclusive"]
            return self.records
        inp = os.path.join(self.dir, "beh-%d.ndjson" % len(os.listdir(self.dir)))
        with open(inp, "w") as f:
            for i, h in enumerate(behs):
                f.write(json.dumps({"id": i, "steps": h}) + "\n")
        n = len(behs)
        start = 0
        trace = os.path.join(self.dir, "trace.ndjson")
        while start < n:
            end = min(n, start + batch)
            out = os.path.join(self.dir, "out-%d-%d.ndjson" % (start, len(os.listdir(self.dir))))
            env = {"VERIF_WORLD": self.world_json, "VERIF_IN": inp, "VERIF_OUT": out, "VERIF_TRACE": trace,
                   "VERIF_FROM": str(start), "VERIF_TO": str(end), "VERIF_SEED": str(self.ctx.seed)}
            rc, o = self.ctx.go_test(PKG, "^TestVerifMirrorReplay$", binary=self.binary, env=env, timeout=timeout_per_batch)
            recs = vlib.read_ndjson(out)
            self.records += recs
            summ = [r for r in recs if r.get("kind") == "summary"]
            done = [r for r in recs if r.get("kind") == "done"]
            for r in recs:
                if r.get("kind") == "begin":
                    self.summary["steps"] += 1
                    self.summary["ops"][r["op"]] = self.summary["ops"].get(r["op"], 0) + 1
            if summ:
                s = summ[0]
                for k in ("behaviours", "mismatches", "violations", "distinct_states"):
                    self.summary[k] += s.get(k, 0)
                start = end
                continue
            # the child died: attribute to the last begun step
            begins = [r for r in recs if r.get("kind") == "begin"]
            last = begins[-1] if begins else None
            nxt = (done[-1]["index"] + 1) if done else start
            if last is None:
                raise vlib.Inconclusive("replay child died before any step (rc=%s):\n%s" % (rc, o[-3000:]))
            msg = ""
            for ln in o.splitlines():
                if ln.startswith("panic:"):
                    msg = ln[:300]
                    break
            if not msg and rc == 124:
                raise vlib.Inconclusive("replay batch timed out at behaviour %d" % nxt)
            self.deaths.append({"beh": last["beh"], "step": last["step"], "op": last["op"], "args": last.get("args"),
                                "expected": last.get("expPan", ""), "panic": msg or ("exit status %s" % rc),
                                "steps": behs[last["beh"]][: last["step"] + 1], "tail": o[-1500:]})
            self.summary["behaviours"] += (nxt - start) + 1
            start = max(nxt, last["beh"]) + 1
        self.inconclusive = [r for r in self.records if r.get("kind") == "inconclusive"]
        return self.records

    def by_kind(self, kind):
        return [r for r in self.records if r.get("kind") == kind]


def report_violations(ctx, run, props, behs):
    """Turns harness 'violation' records for the given properties into ctx.violation calls.  A predicate failure must
    reproduce when the same behaviour is replayed again (one behaviour per fingerprint): timing never decides a verdict."""
    cand = {}
    for r in run.by_kind("violation"):
        if r["prop"] not in props or r["beh"] >= len(behs):
            continue
        cand.setdefault((r["pred"], r["site"], r["class"]), r)
    if not cand:
        return
    keys = list(cand)
    again_run = MirrorRun.__new__(MirrorRun)
    again_run.__dict__.update(run.__dict__)
    again_run.records, again_run.deaths, again_run.inconclusive = [], [], []
    again_run.summary = {"behaviours": 0, "steps": 0, "mismatches": 0, "violations": 0, "ops": {}, "distinct_states": 0}
    again_run.replay([behs[cand[k]["beh"]] for k in keys])
    again = {(r2["beh"], r2["pred"], r2["site"], r2["class"]) for r2 in again_run.by_kind("violation")}
    died = {d["beh"] for d in again_run.deaths}
    dropped = 0
    for n, k in enumerate(keys):
        r = cand[k]
        if (n, k[0], k[1], k[2]) in again or n in died:
            steps = behs[r["beh"]][: r["step"] + 1]
            ctx.violation(r["pred"], r["site"], r["class"], r["what"], replay_obj={"world": run.name, "steps": strip(steps)})
        else:
            dropped += 1
    if dropped:
        ctx.log("%d predicate failures did not reproduce on a second replay and are dropped" % dropped)


def strip(steps):
    if steps is None:
        return None
    return [{"op": s["op"], "args": s["args"], "crashAt": s.get("crashAt", 0)} for s in steps]
