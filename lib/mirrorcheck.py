"""Generic runner for the checks built on spec/Mirror.tla + the real-Mirror replay harness."""
import json, os, re
import vlib, mirrorlib
import mirror_worlds as mw


def norm_panic(msg):
    """class of a panic message: digits and hex blobs removed so that the fingerprint is stable."""
    m = re.sub(r"^panic:\s*", "", msg or "")
    m = re.sub(r"\[recovered\].*", "", m)
    m = re.sub(r"0x[0-9a-fA-F]+|[0-9a-f]{8,}", "#", m)
    m = re.sub(r"\d+", "#", m)
    m = re.sub(r"\(status=\w+\)", "(status=*)", m)
    return m.strip()[:120]


def run(ctx, props, plans, design_cfgs=(), refinement=False, report_deaths=False, suite=None):
    cov, mismatches, inconcl = collect(ctx, props, plans, design_cfgs, refinement, report_deaths)
    if suite:
        # code -> spec direction: the repository's own tests run under the invariant monitor
        import suitemon
        cov.update(suitemon.run_suite(ctx, props, kind=suite))
    rc = ctx.finish("model_checking", extra_cov=cov)
    return conclude(rc, mismatches, inconcl, refinement)


def conclude(rc, mismatches, inconcl, refinement=False):
    if rc == 0 and (mismatches or inconcl) and not refinement:
        for m in mismatches[:5]:
            print("DIVERGENCE (spec vs code, no property predicate failed): %s %s: %s" % (m["op"], json.dumps(m["args"]), "; ".join(m["diff"] or [])))
        for r in inconcl[:5]:
            print("INCONCLUSIVE step: %s" % json.dumps(r))
        raise vlib.Inconclusive("%d spec/code divergences, %d inconclusive steps" % (len(mismatches), len(inconcl)))
    return rc


def replay_stored(ctx):
    """--replay <file>: the stored case (world + steps) is re-derived by TLC (Guide) and replayed alone."""
    if not ctx.replay:
        return None
    try:
        rp = json.load(open(ctx.replay)).get("replay") or {}
    except (OSError, ValueError):
        return None
    if "world" not in rp or not rp.get("steps"):
        return None
    if any(s.get("op", "").startswith("C") for s in rp["steps"]):
        return None     # concurrent-caller behaviours are not re-derived by the sequential driver
    return [{"world": rp["world"], "stored": rp["steps"]}]


def collect(ctx, props, plans, design_cfgs=(), refinement=False, report_deaths=False):
    stored = replay_stored(ctx)
    if stored is not None:
        plans, design_cfgs = stored, ()
    return _collect(ctx, props, plans, design_cfgs, refinement, report_deaths)


def _collect(ctx, props, plans, design_cfgs=(), refinement=False, report_deaths=False):
    """plans: list of dicts {world, sim (num traces), steps, avoid (bool), crash (bool), seeds (int)}
    design_cfgs: list of (cfg, defines, invariants-description) exhaustively checked on the first plan's world.
    Returns exit code via ctx.finish."""
    total_beh, total_steps, total_states = 0, 0, 0
    mismatches, inconcl = [], []
    ops = {}
    design = []
    # the design-level TLC checks run on the first curated (non-cover) world
    design_plan = next((p for p in plans if not p.get("cover") and not p.get("conc")), plans[0])
    for plan in plans:
        run_ = mirrorlib.MirrorRun(ctx, plan["world"])
        run_.build()
        first = plan is design_plan
        if first:
            for cfg, defines, what in design_cfgs:
                res = run_.tlc(cfg, defines=defines, timeout=plan.get("tlc_timeout", 1500), allow_violation=True)
                cex = None
                if res["violated"]:
                    m = re.search(r"Error: (Invariant|Action property) (\w+) is violated", res["out"])
                    cex = m.group(2) if m else "?"
                design.append({"cfg": cfg, "world": plan["world"], "checked": what, "distinct_states": res.get("distinct", 0),
                               "generated": res.get("states", 0), "design_counterexample": cex})
                ctx.log("TLC %s on world %s: %s distinct states%s" % (cfg, plan["world"], res.get("distinct"),
                        (", design counterexample for " + cex) if cex else ""))
        behs = []
        if plan.get("stored"):
            behs = run_.guided(plan["stored"])
            if not behs:
                raise vlib.Inconclusive("the stored behaviour is not a behaviour of the current spec")
        if plan.get("conc"):
            # concurrent callers: two Handle*Proofs calls parked between their two phases in every interleaving with each
            # other and with proposed headers / state machine entrances, a caller giving up while the kernel works on its request
            behs, dres, res, exported = run_.conc_cover(plan["steps"], timeout=plan.get("tlc_timeout", 1500))
            cex = None
            if dres["violated"]:
                m = re.search(r"Error: (Invariant|Action property) (\w+) is violated", dres["out"])
                cex = m.group(2) if m else "?"
            design.append({"cfg": "Mirror_conc.cfg", "world": plan["world"], "checked": "C01_CommitHasCert C04_Chain C06_Recount C07_ViewVS in every interleaving of two callers",
                           "distinct_states": dres.get("distinct", 0), "generated": dres.get("states", 0), "design_counterexample": cex})
            design.append({"cfg": "Mirror_conccover.cfg", "world": plan["world"], "checked": "edge cover (concurrent callers)", "distinct_states": res.get("distinct", 0),
                           "generated": res.get("states", 0), "design_counterexample": None, "exported": exported, "maximal_behaviours": len(behs)})
            ctx.log("world %s: concurrent callers <= %d steps: %s distinct (design), %d maximal behaviours" % (plan["world"], plan["steps"], dres.get("distinct"), len(behs)))
        if plan.get("cover"):
            behs, res, exported = run_.cover(plan["steps"], edge=plan.get("edge", False), crash=plan.get("crash", False),
                                             avoid=plan.get("avoid", True), timeout=plan.get("tlc_timeout", 1500))
            design.append({"cfg": ("Mirror_edge2cover.cfg" if plan.get("edge") == 2 else "Mirror_edgecover.cfg") if plan.get("edge") else "Mirror_cover.cfg", "world": plan["world"],
                           "checked": ("two-edge cover" if plan.get("edge") == 2 else "edge cover") if plan.get("edge") else "state cover", "distinct_states": res.get("distinct", 0),
                           "generated": res.get("states", 0), "design_counterexample": None, "exported": exported, "maximal_behaviours": len(behs)})
            ctx.log("world %s: %s cover <= %d steps: %s distinct, %d maximal behaviours" % (plan["world"], "edge" if plan.get("edge") else "state",
                    plan["steps"], res.get("distinct"), len(behs)))
        for s in range(0 if (plan.get("cover") or plan.get("conc") or plan.get("stored")) else plan.get("seeds", 1)):
            res = run_.tlc("Mirror_sim.cfg", simulate="num=%d" % plan["sim"], depth=plan["steps"] + 2,
                           extra=["-seed", str(ctx.seed * 1000 + s)], workers=1, timeout=plan.get("tlc_timeout", 900),
                           defines={"MaxSteps": plan["steps"], "AvoidPanics": "TRUE" if plan.get("avoid", True) else "FALSE",
                                    "AllowCrash": "TRUE" if plan.get("crash") else "FALSE"})
            behs += run_.behaviours(res)
        cap = plan.get("cap")
        if cap and len(behs) > cap:
            # keep a seed-dependent sample, longest first (maximal behaviours carry the most steps)
            import random
            rnd = random.Random(ctx.seed)
            rnd.shuffle(behs)
            behs = behs[:cap]
        if not behs:
            raise vlib.Inconclusive("no behaviours generated for world %s" % plan["world"])
        ctx.log("world %s: replaying %d behaviours (<= %d steps) on the real Mirror" % (plan["world"], len(behs), plan["steps"]))
        run_.replay(behs)
        mirrorlib.report_violations(ctx, run_, props, behs)
        total_beh += run_.summary["behaviours"]
        total_steps += run_.summary["steps"]
        total_states += run_.summary["distinct_states"]
        for k, v in run_.summary["ops"].items():
            ops[k] = ops.get(k, 0) + v
        first_mis = run_.by_kind("mismatch")
        if first_mis:
            # a divergence must reproduce when the same behaviour is replayed again
            again_run = mirrorlib.MirrorRun(ctx, plan["world"])
            again_run.binary, again_run.rank, again_run.world_tla = run_.binary, run_.rank, run_.world_tla
            subset = [behs[r["beh"]] for r in first_mis]
            again_run.replay(subset)
            again = {r["beh"] for r in again_run.by_kind("mismatch")} | {d["beh"] for d in again_run.deaths}
            kept = 0
            for i, r in enumerate(first_mis):
                if i in again:
                    kept += 1
                    mismatches.append({"world": plan["world"], "op": r["op"], "args": r.get("args"), "diff": r.get("diff"),
                                       "steps": mirrorlib.strip(behs[r["beh"]][: r["step"] + 1])})
            if kept < len(first_mis):
                ctx.log("%d divergences did not reproduce on a second replay and are dropped" % (len(first_mis) - kept))
        for r in run_.by_kind("stopped-serving"):
            if "C09" in props:
                ctx.violation("StillServing", r["op"], "stopped", "the mirror stopped answering VotingView after %s %s" % (r["op"], json.dumps(r.get("args"))),
                              replay_obj={"world": plan["world"], "steps": mirrorlib.strip(behs[r["beh"]][: r["step"] + 1])})
        inconcl += run_.inconclusive
        if report_deaths:
            for d in run_.deaths:
                ctx.violation("NoPanic", d["op"], norm_panic(d["panic"]),
                              "the process died handling %s %s: %s" % (d["op"], json.dumps(d["args"]), d["panic"]),
                              replay_obj={"world": plan["world"], "steps": mirrorlib.strip(d["steps"])})
            for r in run_.by_kind("panic"):
                if r.get("got"):
                    ctx.violation("NoPanic", r["op"], norm_panic(r["got"]),
                                  "a Handle* call panicked in the caller on %s %s: %s" % (r["op"], json.dumps(r.get("args")), r["got"][:300]),
                                  replay_obj={"world": plan["world"], "steps": mirrorlib.strip(behs[r["beh"]][: r["step"] + 1])})
            for r in run_.by_kind("result"):
                if r.get("res") == "HANG":
                    ctx.violation("HandlerReturns", r["op"], "hang", "HandleProposedHeader did not return (it cycles through the kernel's header check until its context ends)",
                                  replay_obj={"world": plan["world"], "steps": mirrorlib.strip(behs[r["beh"]][: r["step"] + 1])})
        else:
            # deaths the spec did not predict are divergences for every Mirror-based check
            for d in run_.deaths:
                if not d["expected"]:
                    mismatches.append({"world": plan["world"], "op": d["op"], "args": d["args"], "diff": ["unexpected process death: " + d["panic"]],
                                       "steps": mirrorlib.strip(d["steps"])})
        for b in behs[:2]:
            ctx.sample({"world": plan["world"], "behaviour": mirrorlib.strip(b)})
    ctx.traces_validated = total_beh - len(mismatches)
    cov = {
        "design_checks": design,
        "behaviours_replayed_on_real_code": total_beh, "steps_replayed": total_steps,
        "distinct_abstract_states_reached_on_real_code": total_states, "ops": ops,
        "spec_vs_code_divergences": len(mismatches),
        "evaluations": total_steps, "distinct_nontrivial": total_states,
        "rule": "behaviours = action sequences generated by TLC from MirrorMC (simulation; every terminal successor of every visited state is exported), each replayed step by step on a real tmmirror.Mirror with real ed25519 signatures; distinct_nontrivial counts distinct projected post-states observed on the real code",
        "exhaustive": False,
    }
    if mismatches:
        cov["first_divergences"] = mismatches[:3]
        json.dump(mismatches, open(os.path.join(ctx.outdir, "divergences.json"), "w"), indent=1)
    if refinement:
        for m in mismatches:
            ctx.violation("Refinement", m["op"], "divergence", "real Mirror diverges from spec/Mirror.tla: %s" % "; ".join(m["diff"] or []),
                          replay_obj={"world": m["world"], "steps": m["steps"]})
    return cov, mismatches, inconcl
