package verifcommon

// World: the concrete instantiation of the abstract domains of spec/Mirror.tla
// (validator set ids, header labels, vote targets, signature entries) with real
// ed25519 keys, real header hashes (SimpleHashScheme) and real signatures.
// The abstract world is produced by /verif/checks/mirror_worlds.py; the same dict
// becomes MirrorWorld.tla for TLC.

import (
	"bytes"
	"context"
	"crypto/sha256"
	"encoding/binary"
	"encoding/hex"
	"fmt"
	"sort"

	"github.com/bits-and-blooms/bitset"
	"github.com/gordian-engine/gordian/gcrypto"
	"github.com/gordian-engine/gordian/tm/tmconsensus"
	"github.com/gordian-engine/gordian/tm/tmconsensus/tmconsensustest"
)

type Entry struct {
	Pos int    `json:"pos"`
	Cls string `json:"cls"`
}

type ValsetDef struct {
	Keys []int    `json:"keys"`
	Pow  []uint64 `json:"pow"`
	// Stored: the validator store holds this set's keys and powers from the start
	Stored bool `json:"stored"`
}

type HdrDef struct {
	H      uint64             `json:"h"`
	Prev   string             `json:"prev"`
	VS     string             `json:"vs"`
	NVS    string             `json:"nvs"`
	PcpR   uint32             `json:"pcpR"`
	PcpPkh string             `json:"pcpPkh"`
	Pcp    map[string][]Entry `json:"pcp"`
	Data   string             `json:"data"`
	// Lists, when set, replaces the validator LISTS of ValidatorSet/NextValidatorSet by those of
	// another validator set id while the hashes stay those of VS/NVS (C07 forged copies).
	ListsVS  string `json:"listsVS,omitempty"`
	ListsNVS string `json:"listsNVS,omitempty"`
	// App, when set, overrides the header's PrevAppStateHash (headers the state machine must reject).
	App string `json:"app,omitempty"`
}

type WorldDef struct {
	Valsets map[string]ValsetDef `json:"valsets"`
	Genesis string               `json:"genesis"`
	Hdr     map[string]HdrDef    `json:"hdr"`
}

type World struct {
	Def WorldDef

	PrivVals tmconsensustest.PrivVals // global key i (1-based) = PrivVals[i-1]

	HashScheme tmconsensus.HashScheme
	SigScheme  tmconsensus.SignatureScheme
	CMSP       gcrypto.CommonMessageSignatureProofScheme

	Valsets map[string]tmconsensus.ValidatorSet
	vsByKey map[string]string // pubkeyhash|powhash -> id

	GenesisHash []byte

	hdrs    map[string]tmconsensus.Header
	byHash  map[string]string // real hash -> label
	XHash   []byte
	nGlobal int
}

func NewWorld(def WorldDef) *World {
	maxKey := 0
	for _, v := range def.Valsets {
		for _, k := range v.Keys {
			if k > maxKey {
				maxKey = k
			}
		}
	}
	nGlobal := maxKey + 2 // two spare keys outside every set ("otherkey", foreign proposers)
	w := &World{
		Def:        def,
		PrivVals:   tmconsensustest.DeterministicValidatorsEd25519(nGlobal),
		HashScheme: tmconsensustest.SimpleHashScheme{},
		SigScheme:  tmconsensustest.SimpleSignatureScheme{},
		CMSP:       gcrypto.SimpleCommonMessageSignatureProofScheme{},
		Valsets:    map[string]tmconsensus.ValidatorSet{},
		vsByKey:    map[string]string{},
		hdrs:       map[string]tmconsensus.Header{},
		byHash:     map[string]string{},
		nGlobal:    nGlobal,
	}
	ids := make([]string, 0, len(def.Valsets))
	for id := range def.Valsets {
		ids = append(ids, id)
	}
	sort.Strings(ids)
	for _, id := range ids {
		d := def.Valsets[id]
		vals := make([]tmconsensus.Validator, len(d.Keys))
		for i, k := range d.Keys {
			vals[i] = tmconsensus.Validator{PubKey: w.PrivVals[k-1].Val.PubKey, Power: d.Pow[i]}
		}
		vs, err := tmconsensus.NewValidatorSet(vals, w.HashScheme)
		if err != nil {
			panic(err)
		}
		w.Valsets[id] = vs
		w.vsByKey[string(vs.PubKeyHash)+"|"+string(vs.VotePowerHash)] = id
	}
	g := tmconsensus.Genesis{
		ChainID:             "verif-chain",
		InitialHeight:       1,
		CurrentAppStateHash: []byte("app_state_0"),
		ValidatorSet:        w.Valsets[def.Genesis],
	}
	gh, err := g.Header(w.HashScheme)
	if err != nil {
		panic(err)
	}
	w.GenesisHash = gh.Hash
	x := sha256.Sum256([]byte("verif unknown block"))
	w.XHash = x[:]

	labels := make([]string, 0, len(def.Hdr))
	for l := range def.Hdr {
		labels = append(labels, l)
	}
	sort.Strings(labels)
	for _, l := range labels {
		w.Header(l)
	}
	return w
}

func (w *World) Genesis() tmconsensus.Genesis {
	return tmconsensus.Genesis{
		ChainID:             "verif-chain",
		InitialHeight:       1,
		CurrentAppStateHash: []byte("app_state_0"),
		ValidatorSet:        w.Valsets[w.Def.Genesis],
	}
}

// Signer returns the signer of global key k (1-based).
func (w *World) Signer(k int) gcrypto.Signer { return w.PrivVals[k-1].Signer }
func (w *World) PubKey(k int) gcrypto.PubKey { return w.PrivVals[k-1].Val.PubKey }

// KeyIndex returns the global index (1-based) of pk, or 0.
func (w *World) KeyIndex(pk gcrypto.PubKey) int {
	if pk == nil {
		return 0
	}
	for i, pv := range w.PrivVals {
		if pv.Val.PubKey.Equal(pk) {
			return i + 1
		}
	}
	return -1
}

// VSID maps a concrete validator set to its abstract id ("none" when empty, "?" when unknown).
func (w *World) VSID(vs tmconsensus.ValidatorSet) string {
	if len(vs.Validators) == 0 && len(vs.PubKeyHash) == 0 {
		return "none"
	}
	if id, ok := w.vsByKey[string(vs.PubKeyHash)+"|"+string(vs.VotePowerHash)]; ok {
		// lists must agree with the hashes too
		if tmconsensus.ValidatorSlicesEqual(vs.Validators, w.Valsets[id].Validators) {
			return id
		}
		return "?lists(" + id + ")"
	}
	return "?"
}

// PKHID maps a pub key hash to the id of a validator set with that hash ("none" for empty).
func (w *World) PKHID(h string) string {
	if h == "" {
		return "none"
	}
	ids := make([]string, 0)
	for id, vs := range w.Valsets {
		if string(vs.PubKeyHash) == h {
			ids = append(ids, id)
		}
	}
	if len(ids) == 0 {
		return "?"
	}
	sort.Strings(ids)
	return ids[0]
}

func (w *World) PKH(id string) string {
	switch id {
	case "none":
		return ""
	case "bad":
		return "not-a-known-pub-key-hash-0123456"
	}
	return string(w.Valsets[id].PubKeyHash)
}

// TargetHash maps an abstract vote target to the real block hash string.
func (w *World) TargetHash(t string) string {
	switch t {
	case "nil":
		return ""
	case "X":
		return string(w.XHash)
	}
	return string(w.Header(t).Hash)
}

// Label maps a real hash to its abstract label.
func (w *World) Label(hash string) string {
	if hash == "" {
		return "nil"
	}
	if hash == string(w.XHash) {
		return "X"
	}
	if l, ok := w.byHash[hash]; ok {
		return l
	}
	return "?" + hex.EncodeToString([]byte(hash))[:min(8, 2*len(hash))]
}

func (w *World) SignBytes(kind string, h uint64, r uint32, targetHash string) []byte {
	vt := tmconsensus.VoteTarget{Height: h, Round: r, BlockHash: targetHash}
	var b []byte
	var err error
	if kind == "prevote" {
		b, err = tmconsensus.PrevoteSignBytes(vt, w.SigScheme)
	} else {
		b, err = tmconsensus.PrecommitSignBytes(vt, w.SigScheme)
	}
	if err != nil {
		panic(err)
	}
	return b
}

// SparseSig instantiates one abstract signature entry for slot (kind,h,r,target) of valset vsID.
func (w *World) SparseSig(kind string, h uint64, r uint32, target string, vsID string, e Entry) gcrypto.SparseSignature {
	d := w.Def.Valsets[vsID]
	n := len(d.Keys)
	var keyID []byte
	signerPos := e.Pos
	switch {
	case e.Pos >= 1:
		keyID = make([]byte, 2)
		binary.BigEndian.PutUint16(keyID, uint16(e.Pos-1))
	case e.Pos == 0:
		keyID = make([]byte, 2)
		binary.BigEndian.PutUint16(keyID, uint16(n))
		signerPos = 1
	case e.Pos == -1:
		keyID = []byte{0}
		signerPos = 1
	case e.Pos == -3:
		keyID = []byte{0, 0, 7}
		signerPos = 1
	default:
		panic(fmt.Errorf("bad entry pos %d", e.Pos))
	}
	if signerPos > n {
		signerPos = 1
	}
	signerKey := d.Keys[signerPos-1]
	kk, hh, rr, th := kind, h, r, w.TargetHash(target)
	switch e.Cls {
	case "ok", "flip":
	case "otherkey":
		// a key that is not the one the key id names: the spare key outside every set
		signerKey = w.nGlobal
	case "stolen":
		// the authentic signature of the previous validator of the set (ed25519 is deterministic, so these are the
		// very bytes of that validator's own vote), filed under this entry's key id
		sp := signerPos - 1
		if sp < 1 {
			sp = n
		}
		signerKey = d.Keys[sp-1]
	case "otherkind":
		if kind == "prevote" {
			kk = "precommit"
		} else {
			kk = "prevote"
		}
	case "otherround":
		rr = r + 1
	case "otherheight":
		hh = h + 1
	case "othertarget":
		if target == "nil" {
			th = string(w.XHash)
		} else {
			th = ""
		}
	default:
		panic(fmt.Errorf("bad entry class %q", e.Cls))
	}
	sig, err := w.Signer(signerKey).Sign(context.Background(), w.SignBytes(kk, hh, rr, th))
	if err != nil {
		panic(err)
	}
	if e.Cls == "flip" {
		sig = bytes.Clone(sig)
		sig[5] ^= 0x10
	}
	return gcrypto.SparseSignature{KeyID: keyID, Sig: sig}
}

// SparseProofs instantiates a target -> entries map.
func (w *World) SparseProofs(kind string, h uint64, r uint32, vsID string, proofs map[string][]Entry) map[string][]gcrypto.SparseSignature {
	out := make(map[string][]gcrypto.SparseSignature, len(proofs))
	for t, es := range proofs {
		sigs := make([]gcrypto.SparseSignature, 0, len(es))
		for _, e := range es {
			sigs = append(sigs, w.SparseSig(kind, h, r, t, vsID, e))
		}
		out[w.TargetHash(t)] = sigs
	}
	return out
}

// Header builds (once) the concrete header of label l.
func (w *World) Header(l string) tmconsensus.Header {
	if h, ok := w.hdrs[l]; ok {
		return h
	}
	d, ok := w.Def.Hdr[l]
	if !ok {
		panic(fmt.Errorf("unknown header label %q", l))
	}
	var prevHash []byte
	switch d.Prev {
	case "gen":
		prevHash = bytes.Clone(w.GenesisHash)
	case "bogus":
		x := sha256.Sum256([]byte("bogus prev of " + l))
		prevHash = x[:]
	default:
		prevHash = bytes.Clone(w.Header(d.Prev).Hash)
	}
	pcp := tmconsensus.CommitProof{
		Round:      d.PcpR,
		PubKeyHash: w.PKH(d.PcpPkh),
		Proofs:     map[string][]gcrypto.SparseSignature{},
	}
	if d.H > 1 || (d.H == 1 && len(d.Pcp) > 0) {
		sigVS := d.PcpPkh
		if _, ok := w.Def.Valsets[sigVS]; !ok {
			sigVS = w.Def.Genesis
		}
		pcp.Proofs = w.SparseProofs("precommit", d.H-1, d.PcpR, sigVS, d.Pcp)
	}
	vs, nvs := w.Valsets[d.VS], w.Valsets[d.NVS]
	if d.ListsVS != "" {
		o := w.Valsets[d.ListsVS]
		vs.Validators, vs.PubKeys = o.Validators, o.PubKeys
	}
	if d.ListsNVS != "" {
		o := w.Valsets[d.ListsNVS]
		nvs.Validators, nvs.PubKeys = o.Validators, o.PubKeys
	}
	h := tmconsensus.Header{
		Height:           d.H,
		PrevBlockHash:    prevHash,
		PrevCommitProof:  pcp,
		ValidatorSet:     vs,
		NextValidatorSet: nvs,
		DataID:           []byte(d.Data),
		PrevAppStateHash: []byte(fmt.Sprintf("app_state_%d", d.H-1)),
	}
	if d.App != "" {
		h.PrevAppStateHash = []byte(d.App)
	}
	hash, err := w.HashScheme.Block(h)
	if err != nil {
		panic(err)
	}
	h.Hash = hash
	w.hdrs[l] = h
	if _, dup := w.byHash[string(hash)]; !dup {
		w.byHash[string(hash)] = l
	}
	return h
}

// ProposedHeader builds a proposed header message.
// prop: global key index of the proposer (0 = nil pub key); sig: "ok" | "bad" | "otherkey";
// hashOK=false corrupts the Hash field.
func (w *World) ProposedHeader(l string, round uint32, prop int, sig string, hashOK bool) tmconsensus.ProposedHeader {
	ph := tmconsensus.ProposedHeader{Header: w.Header(l), Round: round}
	// deep-enough copy so that corruptions do not leak into the cached header
	ph.Header.Hash = bytes.Clone(ph.Header.Hash)
	if !hashOK {
		ph.Header.Hash[0] ^= 0x01
	}
	if prop == 0 {
		return ph
	}
	signer := prop
	if sig == "otherkey" {
		signer = w.nGlobal
	}
	b, err := tmconsensus.ProposalSignBytes(ph.Header, ph.Round, ph.Annotations, w.SigScheme)
	if err != nil {
		panic(err)
	}
	s, err := w.Signer(signer).Sign(context.Background(), b)
	if err != nil {
		panic(err)
	}
	if sig == "bad" {
		s = bytes.Clone(s)
		s[7] ^= 0x20
	}
	ph.Signature = s
	ph.ProposerPubKey = w.PubKey(prop)
	return ph
}

// Positions returns the 1-based positions set in a full proof.
func Positions(p gcrypto.CommonMessageSignatureProof) []int {
	var bs bitset.BitSet
	p.SignatureBitSet(&bs)
	out := []int{}
	for i, ok := bs.NextSet(0); ok; i, ok = bs.NextSet(i + 1) {
		out = append(out, int(i)+1)
	}
	return out
}

// SparsePositions decodes key ids of stored sparse signatures to positions
// (0 / -1 / -3 codes as in the spec for malformed ids).
func SparsePositions(sigs []gcrypto.SparseSignature, n int) []int {
	out := []int{}
	for _, s := range sigs {
		switch {
		case len(s.KeyID) == 2:
			p := int(binary.BigEndian.Uint16(s.KeyID)) + 1
			if p > n && n > 0 {
				p = 0
			}
			out = append(out, p)
		case len(s.KeyID) < 2:
			out = append(out, -1)
		default:
			out = append(out, -3)
		}
	}
	sort.Ints(out)
	return out
}

// Rank returns header labels (and "X") ordered by their real hash bytes (1 = smallest).
func (w *World) Rank() map[string]int {
	type lh struct {
		l string
		h []byte
	}
	all := []lh{{"X", w.XHash}}
	for l, h := range w.hdrs {
		all = append(all, lh{l, h.Hash})
	}
	sort.Slice(all, func(i, j int) bool {
		c := bytes.Compare(all[i].h, all[j].h)
		if c != 0 {
			return c < 0
		}
		return all[i].l < all[j].l
	})
	out := map[string]int{}
	rank := 0
	var prev []byte
	for _, e := range all {
		if prev == nil || !bytes.Equal(prev, e.h) {
			rank++
		}
		out[e.l] = rank
		prev = e.h
	}
	return out
}
