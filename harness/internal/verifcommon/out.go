// Package verifcommon holds helpers shared by the /verif conformance harnesses.
// It is compiled into /repo through `go test -overlay` and is not part of gordian.
package verifcommon

import (
	"bufio"
	"encoding/json"
	"fmt"
	"os"
	"strconv"
	"sync"
)

// Out is an ndjson writer.
type Out struct {
	mu sync.Mutex
	f  *os.File
	w  *bufio.Writer
	n  int
}

// Open opens the file named by the environment variable env for writing.
func Open(env string) *Out {
	p := os.Getenv(env)
	if p == "" {
		p = os.DevNull
	}
	f, err := os.OpenFile(p, os.O_CREATE|os.O_WRONLY|os.O_APPEND, 0o644)
	if err != nil {
		panic(err)
	}
	return &Out{f: f, w: bufio.NewWriterSize(f, 1<<20)}
}

// Emit writes one JSON object as a line.
func (o *Out) Emit(v any) {
	b, err := json.Marshal(v)
	if err != nil {
		panic(fmt.Errorf("verifcommon: marshal: %w", err))
	}
	o.mu.Lock()
	o.w.Write(b)
	o.w.WriteByte('\n')
	o.n++
	o.mu.Unlock()
}

// Flush flushes buffered lines to disk (call before anything that may panic).
func (o *Out) Flush() {
	o.mu.Lock()
	o.w.Flush()
	o.mu.Unlock()
}

func (o *Out) Close() {
	o.mu.Lock()
	o.w.Flush()
	o.f.Close()
	o.mu.Unlock()
}

func (o *Out) Count() int {
	o.mu.Lock()
	defer o.mu.Unlock()
	return o.n
}

// M is shorthand for a JSON object.
type M = map[string]any

// EnvInt reads an integer environment variable with a default.
func EnvInt(name string, def int) int {
	s := os.Getenv(name)
	if s == "" {
		return def
	}
	v, err := strconv.Atoi(s)
	if err != nil {
		return def
	}
	return v
}

// ReadNDJSON reads every line of the file named by env into out (a pointer to a slice).
func ReadNDJSON[T any](env string) []T {
	p := os.Getenv(env)
	if p == "" {
		return nil
	}
	f, err := os.Open(p)
	if err != nil {
		panic(err)
	}
	defer f.Close()
	var res []T
	sc := bufio.NewScanner(f)
	sc.Buffer(make([]byte, 1<<20), 1<<28)
	for sc.Scan() {
		if len(sc.Bytes()) == 0 {
			continue
		}
		var v T
		if err := json.Unmarshal(sc.Bytes(), &v); err != nil {
			panic(fmt.Errorf("verifcommon: bad ndjson line: %w", err))
		}
		res = append(res, v)
	}
	return res
}
