// Package verifc06 is shared by the three C06 conformance harnesses
// (tm/tmconsensus, tmi, tsi).  It is compiled into /repo through `go test -overlay`
// and is not part of gordian.
//
// It turns what TLC exported from VoteSummary.tla (proof-map states and behaviours, with the
// summaries the specification expects) plus seeded random larger cases into one deterministic
// sequence of events, instantiates every event with REAL ed25519 keys and signatures
// (gcrypto.NewSimpleCommonMessageSignatureProof + AddSignature, which verifies), and compares
// what the real functions returned with the specification's expectation.
package verifc06

import (
	"context"
	"fmt"
	"math/rand"
	"sort"

	"github.com/gordian-engine/gordian/gcrypto"
	vc "github.com/gordian-engine/gordian/internal/verifcommon"
	"github.com/gordian-engine/gordian/tm/tmconsensus"
	"github.com/gordian-engine/gordian/tm/tmconsensus/tmconsensustest"
)

var Kinds = []string{"prevote", "precommit"}

// TNames are the abstract target names of the specification in lexicographic order of the
// concrete hashes they stand for; "nil" is the empty hash.
var TNames = []string{"nil", "A", "B", "C"}

// ---- what TLC exported ------------------------------------------------------------------

type Sum struct {
	Avail uint64                      `json:"avail"`
	Tot   map[string]uint64           `json:"tot"`
	Most  map[string]string           `json:"most"`
	BP    map[string]map[string]int64 `json:"bp"` // -1 = no map entry
	Step  string                      `json:"step"`
}

type Dist struct {
	Avail   uint64           `json:"avail"`
	Present uint64           `json:"present"`
	BP      map[string]int64 `json:"bp"`
}

type Expect struct {
	Asis       Sum               `json:"asis"`
	Fixed      Sum               `json:"fixed"`
	Oracle     Sum               `json:"oracle"`
	DistAsis   map[string]Dist   `json:"dist_asis"`
	DistFixed  map[string]Dist   `json:"dist_fixed"`
	Min        uint64            `json:"min"`
	Maj        uint64            `json:"maj"`
	Signers    map[string]uint64 `json:"signers"`
	AnySigners uint64            `json:"anysigners"`
}

type BehStep struct {
	Op   string  `json:"op"`
	Kind string  `json:"kind"`
	Val  int     `json:"val"`
	Tgt  string  `json:"tgt"`
	Exp  *Expect `json:"exp"`
}

// Input is one line of $VERIF_IN: either a state (Votes != nil) or a behaviour (Steps != nil).
type Input struct {
	Pow   []uint64              `json:"pow"`
	Votes map[string][][]string `json:"votes"`
	Keys  map[string][]string   `json:"keys"`
	Exp   *Expect               `json:"exp"`
	Steps []BehStep             `json:"steps"`
	Trace bool                  `json:"trace"` // include in the trace for VoteSummaryTrace.tla
}

// ---- events -----------------------------------------------------------------------------

type Event struct {
	I     int                   `json:"i"`
	Op    string                `json:"op"` // reset | load | vote | entry
	Src   string                `json:"src"`
	Pow   []uint64              `json:"pow,omitempty"`
	Kind  string                `json:"kind,omitempty"`
	Val   int                   `json:"val,omitempty"`
	Tgt   string                `json:"tgt,omitempty"`
	Votes map[string][][]string `json:"votes,omitempty"`
	Keys  map[string][]string   `json:"keys,omitempty"`
	Exp   *Expect               `json:"-"`
	Trace bool                  `json:"-"`
}

func samePow(a, b []uint64) bool {
	if len(a) != len(b) {
		return false
	}
	for i := range a {
		if a[i] != b[i] {
			return false
		}
	}
	return true
}

// Plan builds the event sequence.  It is a pure function of $VERIF_IN, $VERIF_SEED and
// $VERIF_RANDOM, so the three harness binaries see the same events with the same indices.
func Plan() []Event {
	ins := vc.ReadNDJSON[Input]("VERIF_IN")
	seed := int64(vc.EnvInt("VERIF_SEED", 1))
	nRandom := vc.EnvInt("VERIF_RANDOM", 300)
	var evs []Event
	var cur []uint64
	add := func(e Event) {
		e.I = len(evs)
		evs = append(evs, e)
	}
	reset := func(pow []uint64, src string, tr bool) {
		add(Event{Op: "reset", Src: src, Pow: pow, Trace: tr})
		cur = pow
	}
	// states first, grouped by power vector in input order (a reset only when it changes)
	for _, in := range ins {
		if in.Steps != nil {
			continue
		}
		if cur == nil || !samePow(cur, in.Pow) {
			// resets are always traced: the trace spec needs the power vector of later traced events
			reset(in.Pow, "state", true)
		}
		add(Event{Op: "load", Src: "state", Votes: in.Votes, Keys: in.Keys, Exp: in.Exp, Trace: in.Trace})
	}
	for _, in := range ins {
		if in.Steps == nil {
			continue
		}
		reset(in.Pow, "beh", true)
		for _, s := range in.Steps {
			add(Event{Op: s.Op, Src: "beh", Kind: s.Kind, Val: s.Val, Tgt: s.Tgt, Exp: s.Exp, Trace: true})
		}
	}
	// seeded random larger cases: up to 7 validators, powers up to 50, up to 4 targets
	rng := rand.New(rand.NewSource(seed*7919 + 13))
	for c := 0; c < nRandom; c++ {
		n := 1 + rng.Intn(7)
		pow := make([]uint64, n)
		shape := rng.Intn(4)
		for i := range pow {
			switch shape {
			case 0:
				pow[i] = 1 + uint64(rng.Intn(50))
			case 1:
				pow[i] = 1 + uint64(rng.Intn(3))
			case 2: // one heavy validator
				pow[i] = 1 + uint64(rng.Intn(4))
				if i == 0 {
					pow[i] = 20 + uint64(rng.Intn(31))
				}
			default: // equal
				pow[i] = 1 + uint64(c%7)
			}
		}
		reset(pow, "random", true)
		nT := 2 + rng.Intn(3) // targets in use
		votes := map[string][][]string{}
		keys := map[string][]string{}
		type vt struct {
			k string
			v int
			t string
		}
		var order []vt
		for _, k := range Kinds {
			votes[k] = make([][]string, n)
			ks := map[string]bool{}
			for v := 0; v < n; v++ {
				votes[k][v] = []string{}
				var cnt int
				switch r := rng.Intn(10); {
				case r < 3:
					cnt = 0
				case r < 8:
					cnt = 1
				default:
					cnt = 2 + rng.Intn(nT-1)
				}
				perm := rng.Perm(nT)
				for _, ti := range perm[:min(cnt, nT)] {
					votes[k][v] = append(votes[k][v], TNames[ti])
					ks[TNames[ti]] = true
					order = append(order, vt{k, v + 1, TNames[ti]})
				}
			}
			if rng.Intn(3) == 0 { // a proof-map entry without signatures
				ks[TNames[rng.Intn(nT)]] = true
			}
			keys[k] = []string{}
			for _, t := range TNames {
				if ks[t] {
					keys[k] = append(keys[k], t)
				}
			}
		}
		if c%3 == 0 {
			// incrementally, in a random arrival order
			rng.Shuffle(len(order), func(i, j int) { order[i], order[j] = order[j], order[i] })
			for _, o := range order {
				add(Event{Op: "vote", Src: "random", Kind: o.k, Val: o.v, Tgt: o.t, Trace: true})
			}
		} else {
			add(Event{Op: "load", Src: "random", Votes: votes, Keys: keys, Trace: true})
		}
	}
	return evs
}

// ---- the real objects -------------------------------------------------------------------

// hash sets: concrete block hashes for A < B < C (nil is always "")
var hashSets = [][3]string{
	{"AAAAAAAAAAAAAAAAAAAAAAAAAAAAAAAA", "BBBBBBBBBBBBBBBBBBBBBBBBBBBBBBBB", "CCCCCCCCCCCCCCCCCCCCCCCCCCCCCCCC"},
	{"a", "aa", "ab"}, // prefix relations
	{"\x00", "\x00\x00", "\x01"},
	{"hash\x00\x00\x00\x01", "hash\x00\x00\x00\x02", "hash\x00\x00\x01\x00"},
	{"\x7f\xff", "\x80", "\xff\x00"}, // bytes >= 0x80: string comparison is bytewise, not signed
}

type proofKey struct {
	n, hs int
	kind  string
	tgt   string
	mask  uint
}

var proofCache = map[proofKey]gcrypto.CommonMessageSignatureProof{}

type sigKey struct {
	n, hs, val int
	kind, tgt  string
}

var sigCache = map[sigKey][]byte{}

// World is one validator set with real keys, and the current proof maps.
type World struct {
	N       int
	HS      int
	Fx      *tmconsensustest.Fixture
	Vals    []tmconsensus.Validator
	pubKeys []gcrypto.PubKey
	keyHash string
	hashOf  map[string]string
	nameOf  map[string]string

	// current state: signer mask per kind per target name; -1 = no entry.
	mask map[string]map[string]int
	// incrementally built proof objects (vote/entry events)
	inc map[string]map[string]gcrypto.CommonMessageSignatureProof
}

func NewWorld(pow []uint64, idx int) *World {
	n := len(pow)
	fx := tmconsensustest.NewEd25519Fixture(n)
	for i := range fx.PrivVals {
		fx.PrivVals[i].Val.Power = pow[i]
	}
	w := &World{N: n, HS: idx % len(hashSets), Fx: fx, Vals: fx.Vals()}
	w.pubKeys = tmconsensus.ValidatorsToPubKeys(w.Vals)
	kh, err := fx.HashScheme.PubKeys(w.pubKeys)
	if err != nil {
		panic(err)
	}
	w.keyHash = string(kh)
	hs := hashSets[w.HS]
	w.hashOf = map[string]string{"nil": "", "A": hs[0], "B": hs[1], "C": hs[2]}
	w.nameOf = map[string]string{}
	for k, v := range w.hashOf {
		w.nameOf[v] = k
	}
	w.clear()
	return w
}

func (w *World) clear() {
	w.mask = map[string]map[string]int{}
	w.inc = map[string]map[string]gcrypto.CommonMessageSignatureProof{}
	for _, k := range Kinds {
		w.mask[k] = map[string]int{}
		w.inc[k] = map[string]gcrypto.CommonMessageSignatureProof{}
		for _, t := range TNames {
			w.mask[k][t] = -1
		}
	}
}

func (w *World) NameOf(hash string) string {
	if n, ok := w.nameOf[hash]; ok {
		return n
	}
	return fmt.Sprintf("?%x", hash)
}

func (w *World) signBytes(kind, tgt string) []byte {
	vt := tmconsensus.VoteTarget{Height: 1, Round: 0, BlockHash: w.hashOf[tgt]}
	var b []byte
	var err error
	if kind == "prevote" {
		b, err = tmconsensus.PrevoteSignBytes(vt, w.Fx.SignatureScheme)
	} else {
		b, err = tmconsensus.PrecommitSignBytes(vt, w.Fx.SignatureScheme)
	}
	if err != nil {
		panic(err)
	}
	return b
}

func (w *World) sig(kind, tgt string, val int) []byte {
	k := sigKey{w.N, w.HS, val, kind, tgt}
	if s, ok := sigCache[k]; ok {
		return s
	}
	s, err := w.Fx.PrivVals[val].Signer.Sign(context.Background(), w.signBytes(kind, tgt))
	if err != nil {
		panic(err)
	}
	sigCache[k] = s
	return s
}

func (w *World) newProof(kind, tgt string) gcrypto.CommonMessageSignatureProof {
	p, err := gcrypto.NewSimpleCommonMessageSignatureProof(w.signBytes(kind, tgt), w.pubKeys, w.keyHash)
	if err != nil {
		panic(err)
	}
	return p
}

// proof with real signatures of the validators in mask, for (kind, tgt); shared read-only.
func (w *World) proof(kind, tgt string, mask uint) gcrypto.CommonMessageSignatureProof {
	k := proofKey{w.N, w.HS, kind, tgt, mask}
	if p, ok := proofCache[k]; ok {
		return p
	}
	p := w.newProof(kind, tgt)
	for v := 0; v < w.N; v++ {
		if mask&(1<<uint(v)) != 0 {
			if err := p.AddSignature(w.sig(kind, tgt, v), w.pubKeys[v]); err != nil {
				panic(fmt.Errorf("AddSignature rejected a genuine signature: %w", err))
			}
		}
	}
	proofCache[k] = p
	return p
}

// Apply moves the world to the state after ev.
func (w *World) Apply(ev *Event) {
	switch ev.Op {
	case "load":
		w.clear()
		for _, k := range Kinds {
			for _, t := range ev.Keys[k] {
				w.mask[k][t] = 0
			}
			for v, ts := range ev.Votes[k] {
				for _, t := range ts {
					if w.mask[k][t] < 0 {
						w.mask[k][t] = 0
					}
					w.mask[k][t] |= 1 << uint(v)
				}
			}
		}
	case "vote":
		k, t, v := ev.Kind, ev.Tgt, ev.Val-1
		if w.mask[k][t] < 0 {
			w.mask[k][t] = 0
		}
		w.mask[k][t] |= 1 << uint(v)
		p, ok := w.inc[k][t]
		if !ok {
			p = w.newProof(k, t)
			w.inc[k][t] = p
		}
		// the admitted signature is added to the long-lived proof object, as the mirror does
		if err := p.AddSignature(w.sig(k, t, v), w.pubKeys[v]); err != nil {
			panic(fmt.Errorf("AddSignature rejected a genuine signature: %w", err))
		}
	case "entry":
		k, t := ev.Kind, ev.Tgt
		if w.mask[k][t] < 0 {
			w.mask[k][t] = 0
		}
		if _, ok := w.inc[k][t]; !ok {
			w.inc[k][t] = w.newProof(k, t)
		}
	}
}

// ProofMap returns the proof map of one kind as a fresh Go map whose keys were inserted in a
// random order (rng), to vary the map's layout and iteration order between calls.
func (w *World) ProofMap(kind string, incremental bool, rng *rand.Rand) map[string]gcrypto.CommonMessageSignatureProof {
	var names []string
	for _, t := range TNames {
		if w.mask[kind][t] >= 0 {
			names = append(names, t)
		}
	}
	rng.Shuffle(len(names), func(i, j int) { names[i], names[j] = names[j], names[i] })
	m := make(map[string]gcrypto.CommonMessageSignatureProof, rng.Intn(4))
	for _, t := range names {
		if incremental {
			m[w.hashOf[t]] = w.inc[kind][t]
		} else {
			m[w.hashOf[t]] = w.proof(kind, t, uint(w.mask[kind][t]))
		}
	}
	return m
}

// Equivocation reports whether some validator signed >= 2 targets of kind in the current state.
func (w *World) Equivocation(kind string) bool {
	for v := 0; v < w.N; v++ {
		c := 0
		for _, t := range TNames {
			if m := w.mask[kind][t]; m > 0 && m&(1<<uint(v)) != 0 {
				c++
			}
		}
		if c >= 2 {
			return true
		}
	}
	return false
}

// PerBlockSum is the sum over the targets of the power of their signers (what the as-is loop adds up).
func (w *World) PerBlockSum(kind string) uint64 {
	var s uint64
	for _, t := range TNames {
		if m := w.mask[kind][t]; m > 0 {
			for v := 0; v < w.N; v++ {
				if m&(1<<uint(v)) != 0 {
					s += w.Vals[v].Power
				}
			}
		}
	}
	return s
}

// ---- observations of the real code ------------------------------------------------------

// ObsSum is the projection of a real tmconsensus.VoteSummary on the specification's names.
type ObsSum struct {
	Avail uint64                      `json:"avail"`
	Tot   map[string]uint64           `json:"tot"`
	Most  map[string]string           `json:"most"`
	BP    map[string]map[string]int64 `json:"bp"`
}

func (w *World) projBP(m map[string]uint64) (map[string]int64, []string) {
	out := map[string]int64{}
	for _, t := range TNames {
		out[t] = -1
	}
	var unknown []string
	for h, p := range m {
		n, ok := w.nameOf[h]
		if !ok {
			unknown = append(unknown, fmt.Sprintf("%x", h))
			continue
		}
		out[n] = int64(p)
	}
	sort.Strings(unknown)
	return out, unknown
}

func (w *World) Project(vs tmconsensus.VoteSummary) (ObsSum, []string) {
	o := ObsSum{Avail: vs.AvailablePower,
		Tot:  map[string]uint64{"prevote": vs.TotalPrevotePower, "precommit": vs.TotalPrecommitPower},
		Most: map[string]string{"prevote": w.NameOf(vs.MostVotedPrevoteHash), "precommit": w.NameOf(vs.MostVotedPrecommitHash)},
		BP:   map[string]map[string]int64{}}
	var unk []string
	var u []string
	o.BP["prevote"], u = w.projBP(vs.PrevoteBlockPower)
	unk = append(unk, u...)
	o.BP["precommit"], u = w.projBP(vs.PrecommitBlockPower)
	unk = append(unk, u...)
	return o, unk
}

func (w *World) ProjectDist(avail, present uint64, bp map[string]uint64) (Dist, []string) {
	m, unk := w.projBP(bp)
	return Dist{Avail: avail, Present: present, BP: m}, unk
}

func eqBP(a, b map[string]int64, absentIsZero bool) bool {
	for _, t := range TNames {
		x, okx := a[t]
		y, oky := b[t]
		if !okx {
			x = -1
		}
		if !oky {
			y = -1
		}
		if absentIsZero {
			if x < 0 {
				x = 0
			}
			if y < 0 {
				y = 0
			}
		}
		if x != y {
			return false
		}
	}
	return true
}

func sumEq(o ObsSum, e Sum) bool {
	if o.Avail != e.Avail {
		return false
	}
	for _, k := range Kinds {
		if o.Tot[k] != e.Tot[k] || o.Most[k] != e.Most[k] || !eqBP(o.BP[k], e.BP[k], false) {
			return false
		}
	}
	return true
}

func siteOf(k string) string {
	if k == "prevote" {
		return "SetPrevotePowers"
	}
	return "SetPrecommitPowers"
}

// class of the current input for fingerprints: coarse enough to be stable across seeds, fine enough
// that a wrong total which is NOT the per-block sum gets its own fingerprint.
func (w *World) classOf(kind string, observedTotal uint64) string {
	if !w.Equivocation(kind) {
		return "no-equivocation"
	}
	if observedTotal == w.PerBlockSum(kind) {
		return "equivocation/per-block-sum"
	}
	return "equivocation/other"
}

// Checker accumulates records and tallies for one harness.
type Checker struct {
	Out     *vc.Out
	Variant map[string]int // which model variant the real result equals: asis | fixed | both | neither
	Ops     map[string]int
	Srcs    map[string]int
	Cases   int
	Viol    int
	ByFP    map[string]int // violation records per fingerprint
	// distinct (pow, votes) inputs checked, counted in a set
	Distinct map[string]struct{}
}

func NewChecker(out *vc.Out) *Checker {
	return &Checker{Out: out, Variant: map[string]int{}, Ops: map[string]int{}, Srcs: map[string]int{}, Distinct: map[string]struct{}{}, ByFP: map[string]int{}}
}

func (c *Checker) viol(ev *Event, w *World, pred, site, class, what string, extra vc.M) {
	c.Viol++
	// at most 20 records per fingerprint are written out (the check deduplicates by fingerprint anyway);
	// the summary carries the full counts
	fp := pred + "|" + site + "|" + class
	c.ByFP[fp]++
	if c.ByFP[fp] > 20 {
		return
	}
	m := vc.M{"kind": "violation", "predicate": pred, "site": site, "class": class, "what": what,
		"i": ev.I, "src": ev.Src, "pow": w.powers(), "state": w.StateJSON()}
	for k, v := range extra {
		m[k] = v
	}
	c.Out.Emit(m)
}

func (w *World) powers() []uint64 {
	p := make([]uint64, w.N)
	for i, v := range w.Vals {
		p[i] = v.Power
	}
	return p
}

// StateJSON is the current proof-map state as votes per validator (replayable as a "load" input).
func (w *World) StateJSON() vc.M {
	votes := map[string][][]string{}
	keys := map[string][]string{}
	for _, k := range Kinds {
		votes[k] = make([][]string, w.N)
		keys[k] = []string{}
		for v := 0; v < w.N; v++ {
			votes[k][v] = []string{}
		}
		for _, t := range TNames {
			m := w.mask[k][t]
			if m < 0 {
				continue
			}
			keys[k] = append(keys[k], t)
			for v := 0; v < w.N; v++ {
				if m&(1<<uint(v)) != 0 {
					votes[k][v] = append(votes[k][v], t)
				}
			}
		}
	}
	return vc.M{"votes": votes, "keys": keys}
}

func (c *Checker) tally(ev *Event, w *World) {
	c.Cases++
	c.Ops[ev.Op]++
	c.Srcs[ev.Src]++
	c.Distinct[fmt.Sprint(w.powers(), w.mask)] = struct{}{}
}

// CheckSummary compares a real summary with the specification's expectations for ev.
func (c *Checker) CheckSummary(ev *Event, w *World, o ObsSum) {
	e := ev.Exp
	if e == nil {
		return
	}
	a, f := sumEq(o, e.Asis), sumEq(o, e.Fixed)
	switch {
	case a && f:
		c.Variant["both"]++
	case a:
		c.Variant["asis"]++
	case f:
		c.Variant["fixed"]++
	default:
		c.Variant["neither"]++
		c.Out.Emit(vc.M{"kind": "mismatch", "what": "summary differs from both model variants", "i": ev.I, "src": ev.Src,
			"pow": w.powers(), "state": w.StateJSON(), "got": o, "asis": e.Asis, "fixed": e.Fixed})
	}
	// the property: the reported summary equals the recount (oracle)
	if o.Avail != e.Oracle.Avail {
		c.viol(ev, w, "AvailableIsSum", "SetAvailablePower", "any",
			fmt.Sprintf("AvailablePower=%d but the validator powers sum to %d", o.Avail, e.Oracle.Avail), vc.M{"got": o})
	}
	for _, k := range Kinds {
		cls := w.classOf(k, o.Tot[k])
		if !eqBP(o.BP[k], e.Oracle.BP[k], true) {
			c.viol(ev, w, "BlockPowerIsSigners", siteOf(k), cls,
				fmt.Sprintf("%s block power %v but distinct signers give %v", k, o.BP[k], e.Oracle.BP[k]), vc.M{"got": o})
		}
		if o.Tot[k] != e.Oracle.Tot[k] {
			c.viol(ev, w, "TotalCountsOnce", siteOf(k), cls,
				fmt.Sprintf("total %s power %d but the distinct signers hold %d (available %d)", k, o.Tot[k], e.Oracle.Tot[k], e.Oracle.Avail), vc.M{"got": o})
		}
		if o.Most[k] != e.Oracle.Most[k] {
			c.viol(ev, w, "MostVotedIsOracle", siteOf(k), cls,
				fmt.Sprintf("most voted %s is %q, expected %q", k, o.Most[k], e.Oracle.Most[k]), vc.M{"got": o})
		}
		// consequences (kernel.go thresholds on the totals)
		if e.Signers[k] < e.Min && o.Tot[k] >= e.Min {
			c.viol(ev, w, "MinorityCannotSkip", siteOf(k), cls,
				fmt.Sprintf("signers of all %ss hold %d < minority %d of %d, yet total %s power %d >= %d: a NextRound view with these votes makes the mirror jump rounds",
					k, e.Signers[k], e.Min, e.Oracle.Avail, k, o.Tot[k], e.Min), vc.M{"got": o})
		}
	}
	k := "precommit"
	var top int64
	if v, ok := o.BP[k][o.Most[k]]; ok && v > 0 {
		top = v
	}
	full := uint64(top) < e.Maj && o.Tot[k] == o.Avail
	if full && e.Signers[k] != e.Oracle.Avail {
		c.viol(ev, w, "MinorityNotFull", siteOf(k), w.classOf(k, o.Tot[k]),
			fmt.Sprintf("TotalPrecommitPower == AvailablePower == %d (100%% of votes present) but the precommit signers hold only %d (minority threshold %d)",
				o.Avail, e.Signers[k], e.Min), vc.M{"got": o})
	}
}

// CheckDist compares a real voteDistribution of one kind.
func (c *Checker) CheckDist(ev *Event, w *World, k string, d Dist) {
	e := ev.Exp
	if e == nil {
		return
	}
	eq := func(x Dist) bool { return d.Avail == x.Avail && d.Present == x.Present && eqBP(d.BP, x.BP, false) }
	a, f := eq(e.DistAsis[k]), eq(e.DistFixed[k])
	switch {
	case a && f:
		c.Variant["both"]++
	case a:
		c.Variant["asis"]++
	case f:
		c.Variant["fixed"]++
	default:
		c.Variant["neither"]++
		c.Out.Emit(vc.M{"kind": "mismatch", "what": "voteDistribution differs from both model variants", "i": ev.I, "src": ev.Src,
			"pow": w.powers(), "state": w.StateJSON(), "vote_kind": k, "got": d, "asis": e.DistAsis[k], "fixed": e.DistFixed[k]})
	}
	cls := w.classOf(k, d.Present)
	site := "newVoteDistribution"
	if d.Avail != e.Oracle.Avail {
		c.viol(ev, w, "DistAvailableIsSum", site, "any", fmt.Sprintf("AvailableVotePower=%d, powers sum to %d", d.Avail, e.Oracle.Avail), vc.M{"got": d, "vote_kind": k})
	}
	if !eqBP(d.BP, e.Oracle.BP[k], true) {
		c.viol(ev, w, "DistBlockPowerIsSigners", site, cls, fmt.Sprintf("BlockVotePower %v, distinct signers give %v", d.BP, e.Oracle.BP[k]), vc.M{"got": d, "vote_kind": k})
	}
	if d.Present != e.Oracle.Tot[k] {
		c.viol(ev, w, "DistTotalCountsOnce", site, cls, fmt.Sprintf("VotePowerPresent=%d but the distinct signers hold %d", d.Present, e.Oracle.Tot[k]), vc.M{"got": d, "vote_kind": k})
	}
}

// CheckStep compares the real step derived from the real summary.
func (c *Checker) CheckStep(ev *Event, w *World, o ObsSum, step string) {
	e := ev.Exp
	if e == nil {
		return
	}
	a, f := step == e.Asis.Step && sumEq(o, e.Asis), step == e.Fixed.Step && sumEq(o, e.Fixed)
	switch {
	case a && f:
		c.Variant["both"]++
	case a:
		c.Variant["asis"]++
	case f:
		c.Variant["fixed"]++
	default:
		c.Variant["neither"]++
		c.Out.Emit(vc.M{"kind": "mismatch", "what": "step (or the summary it was derived from) differs from both model variants", "i": ev.I, "src": ev.Src,
			"pow": w.powers(), "state": w.StateJSON(), "got_step": step, "got": o, "asis": e.Asis, "fixed": e.Fixed})
	}
	cls := "no-equivocation"
	for _, k := range Kinds {
		if cl := w.classOf(k, o.Tot[k]); cl != "no-equivocation" && cls != "equivocation/other" {
			cls = cl
		}
	}
	site := "GetStepFromVoteSummary"
	if step != e.Oracle.Step {
		c.viol(ev, w, "StepAsRecount", site, cls,
			fmt.Sprintf("step %s, but the recount of the admitted signatures gives %s", step, e.Oracle.Step), vc.M{"got": o, "got_step": step})
	}
	if e.AnySigners < e.Min && step != "AwaitingProposal" {
		c.viol(ev, w, "MinorityCannotStep", site, cls,
			fmt.Sprintf("all signers together hold %d < minority %d of %d, yet the state machine would enter %s", e.AnySigners, e.Min, e.Oracle.Avail, step),
			vc.M{"got": o, "got_step": step})
	}
}

// Summary writes the closing record.
func (c *Checker) Summary(name string, extra vc.M) {
	m := vc.M{"kind": "summary", "harness": name, "cases": c.Cases, "ops": c.Ops, "srcs": c.Srcs,
		"variant": c.Variant, "violations": c.Viol, "by_fingerprint": c.ByFP, "distinct": len(c.Distinct)}
	for k, v := range extra {
		m[k] = v
	}
	c.Out.Emit(m)
}

// Tally counts an executed event.
func (c *Checker) Tally(ev *Event, w *World) { c.tally(ev, w) }
