package tmengine_test

// C03 conformance harness: an in-process cluster of REAL engines (tmengine.New) for validators 1..3,
// a Byzantine validator 4 that exists only as a key in the harness, a message pool fed by the
// engines' own gossip output, and a scheduler that decides every delivery, timer firing, Byzantine
// injection, restart and partition.  Overlaid into /repo/tm/tmengine by /verif/checks/c03.py.
//
// Two sources of schedules:
//   VERIF_MODE=random  seeded adversarial schedules (VERIF_SEED, VERIF_RUNS, VERIF_FROM)
//   VERIF_MODE=replay  behaviours exported by TLC from spec/NetworkMC.tla (VERIF_IN), replayed
//                      step-locked and compared with the state the spec expects after every step
// In both modes Agreement and Contiguous are evaluated on what the REAL drivers recorded, after
// every step, and a global-order trace is written for spec/NetworkTrace.tla.
//
// A panic in an engine goroutine kills the process: the parent (c03.py) runs batches in child
// processes and attributes a death to the last line of $VERIF_PROGRESS.

import (
	"bytes"
	"context"
	"encoding/binary"
	"encoding/hex"
	"encoding/json"
	"fmt"
	"io"
	"log/slog"
	"math/rand"
	"os"
	"sort"
	"strings"
	"sync"
	"sync/atomic"
	"testing"
	"time"

	"github.com/gordian-engine/gordian/gassert/gasserttest"
	"github.com/gordian-engine/gordian/gcrypto"
	"github.com/gordian-engine/gordian/gwatchdog"
	vc "github.com/gordian-engine/gordian/internal/verifcommon"
	"github.com/gordian-engine/gordian/tm/tmconsensus"
	"github.com/gordian-engine/gordian/tm/tmconsensus/tmconsensustest"
	"github.com/gordian-engine/gordian/tm/tmdriver"
	"github.com/gordian-engine/gordian/tm/tmengine"
	"github.com/gordian-engine/gordian/tm/tmengine/internal/tmstate"
	"github.com/gordian-engine/gordian/tm/tmengine/tmelink"
	"github.com/gordian-engine/gordian/tm/tmstore"
	"github.com/gordian-engine/gordian/tm/tmstore/tmmemstore"
)

const (
	c03N     = 4 // validators; 1..3 run engines, 4 is Byzantine
	c03Byz   = 4
	c03InitA = "app_state_0"
)

// ---------------------------------------------------------------- activity / quiescence

var c03Activity atomic.Uint64

func c03Bump() { c03Activity.Add(1) }

// c03Settle waits until nothing observable has happened for a short while.
// It reports false when the cluster does not settle within the bound.
func c03Settle(bound time.Duration) bool {
	deadline := time.Now().Add(bound)
	last := c03Activity.Load()
	same := 0
	for {
		time.Sleep(300 * time.Microsecond)
		cur := c03Activity.Load()
		if cur == last {
			same++
			if same >= c03SettleSamples {
				return true
			}
		} else {
			same = 0
			last = cur
		}
		if time.Now().After(deadline) {
			return false
		}
	}
}

var c03SettleSamples = 5

// ---------------------------------------------------------------- messages

type c03Msg struct {
	K string `json:"k"` // prop | pv | pc
	H uint64 `json:"h"`
	R uint32 `json:"r"`
	V string `json:"v"` // label of the block (data id), "nil"
	S int    `json:"s"` // signer 1..4

	forged bool // signed by the Byzantine key in another validator's name (never enters the pool)
	hash   string // block hash (target of a vote / hash of a proposed header)
	ph   tmconsensus.ProposedHeader
	sig  gcrypto.SparseSignature
}

func (m *c03Msg) key() string {
	return fmt.Sprintf("%s/%d/%d/%s/%d", m.K, m.H, m.R, hex.EncodeToString([]byte(m.hash)), m.S)
}

func (m *c03Msg) js() vc.M {
	return vc.M{"k": m.K, "h": m.H, "r": m.R, "v": m.V, "s": m.S}
}

// ---------------------------------------------------------------- world

type c03World struct {
	pv     tmconsensustest.PrivVals
	powers []uint64
	vs     tmconsensus.ValidatorSet
	hs     tmconsensus.HashScheme
	ss     tmconsensus.SignatureScheme
	cm     gcrypto.CommonMessageSignatureProofScheme

	genesisHash []byte
	total       uint64
}

func newC03World(powers []uint64) *c03World {
	w := &c03World{
		pv:     tmconsensustest.DeterministicValidatorsEd25519(c03N),
		powers: powers,
		hs:     tmconsensustest.SimpleHashScheme{},
		ss:     tmconsensustest.SimpleSignatureScheme{},
		cm:     gcrypto.SimpleCommonMessageSignatureProofScheme{},
	}
	vals := make([]tmconsensus.Validator, c03N)
	for i := range vals {
		vals[i] = tmconsensus.Validator{PubKey: w.pv[i].Val.PubKey, Power: powers[i]}
		w.total += powers[i]
	}
	vs, err := tmconsensus.NewValidatorSet(vals, w.hs)
	if err != nil {
		panic(err)
	}
	w.vs = vs
	g := tmconsensus.Genesis{ChainID: "verif-c03", InitialHeight: 1, CurrentAppStateHash: []byte(c03InitA), ValidatorSet: vs}
	gh, err := g.Header(w.hs)
	if err != nil {
		panic(err)
	}
	w.genesisHash = gh.Hash
	return w
}

// more than two thirds, computed independently of tmconsensus/math.go
func (w *c03World) isMaj(p uint64) bool { return 3*p > 2*w.total }

func (w *c03World) signerOf(keyID []byte) int {
	if len(keyID) != 2 {
		return 0
	}
	return int(binary.BigEndian.Uint16(keyID)) + 1
}

// ---------------------------------------------------------------- trace / output

type c03Out struct {
	out      *vc.Out
	trace    *vc.Out
	progress *os.File
	mu       sync.Mutex // the one logger mutex: global order of trace events
	tracing  bool
	g        uint64
	run      int
}

func (o *c03Out) ev(e vc.M) {
	o.mu.Lock()
	if o.tracing {
		o.g++
		e["g"] = o.g
		e["run"] = o.run
		o.trace.Emit(e)
	}
	o.mu.Unlock()
}

func (o *c03Out) prog(format string, a ...any) {
	if o.progress != nil {
		fmt.Fprintf(o.progress, format+"\n", a...)
	}
}

// ---------------------------------------------------------------- lock-respecting strategy

type c03Strategy struct {
	c   *c03Cluster
	idx int // validator 1..3

	mu       sync.Mutex
	propose  bool
	curH     uint64
	curR     uint32
	lockH    uint64
	lockV    string // block hash, "" = not locked
	lockR    int
	answered map[string]bool // "h/r" for which a prevote choice was returned
	dataOf   map[string]string
}

func (s *c03Strategy) resetForHeight(h uint64) {
	if s.lockH != h {
		s.lockH, s.lockV, s.lockR = h, "", -1
	}
}

func (s *c03Strategy) EnterRound(ctx context.Context, rv tmconsensus.RoundView, proposalOut chan<- tmconsensus.Proposal) error {
	c03Bump()
	s.mu.Lock()
	s.curH, s.curR = rv.Height, rv.Round
	s.resetForHeight(rv.Height)
	// the strategy keeps no memory of its answers: entering a round (again, after a restart) it answers again
	delete(s.answered, fmt.Sprintf("%d/%d", rv.Height, rv.Round))
	for _, ph := range rv.ProposedHeaders {
		s.dataOf[string(ph.Header.Hash)] = string(ph.Header.DataID)
	}
	propose := s.propose && proposalOut != nil && (int(rv.Height)+int(rv.Round))%c03N == s.idx-1
	data := fmt.Sprintf("n%d-h%d-r%d", s.idx, rv.Height, rv.Round)
	if s.lockV != "" {
		if d, ok := s.dataOf[s.lockV]; ok {
			data = d
		}
	}
	s.mu.Unlock()
	s.c.out.ev(vc.M{"ev": "enter", "n": s.idx, "h": rv.Height, "r": rv.Round})
	if propose {
		select {
		case proposalOut <- tmconsensus.Proposal{DataID: data}:
		default:
		}
	}
	return nil
}

func (s *c03Strategy) pick(phs []tmconsensus.ProposedHeader) string {
	best := -1
	for i, ph := range phs {
		s.dataOf[string(ph.Header.Hash)] = string(ph.Header.DataID)
		if best < 0 || bytes.Compare(ph.Header.DataID, phs[best].Header.DataID) < 0 {
			best = i
		}
	}
	if best < 0 {
		return ""
	}
	return string(phs[best].Header.Hash)
}

func (s *c03Strategy) ConsiderProposedBlocks(ctx context.Context, phs []tmconsensus.ProposedHeader, _ tmconsensus.ConsiderProposedBlocksReason) (string, error) {
	c03Bump()
	s.mu.Lock()
	defer s.mu.Unlock()
	k := fmt.Sprintf("%d/%d", s.curH, s.curR)
	if s.answered[k] {
		// one answer per round: a second one could only block the consensus manager
		s.pick(phs)
		return "", tmconsensus.ErrProposedBlockChoiceNotReady
	}
	choice := s.pick(phs)
	if s.lockV != "" {
		choice = s.lockV
	} else if len(phs) == 0 {
		return "", tmconsensus.ErrProposedBlockChoiceNotReady
	}
	s.answered[k] = true
	return choice, nil
}

func (s *c03Strategy) ChooseProposedBlock(ctx context.Context, phs []tmconsensus.ProposedHeader) (string, error) {
	c03Bump()
	s.mu.Lock()
	defer s.mu.Unlock()
	choice := s.pick(phs)
	if s.lockV != "" {
		choice = s.lockV
	}
	s.answered[fmt.Sprintf("%d/%d", s.curH, s.curR)] = true
	return choice, nil
}

func (s *c03Strategy) DecidePrecommit(ctx context.Context, vs tmconsensus.VoteSummary) (string, error) {
	c03Bump()
	s.mu.Lock()
	defer s.mu.Unlock()
	for hash, pow := range vs.PrevoteBlockPower {
		if hash == "" || !(3*pow > 2*vs.AvailablePower) {
			continue
		}
		// a prevote quorum for hash in the current round
		if s.lockV == "" || s.lockV == hash || s.lockR < int(s.curR) {
			s.lockV, s.lockR = hash, int(s.curR)
			return hash, nil
		}
		// locked on another value in this very round: keep the lock
		return s.lockV, nil
	}
	return "", nil
}

func (s *c03Strategy) lockState() (string, int) {
	s.mu.Lock()
	defer s.mu.Unlock()
	return s.lockV, s.lockR
}

// ---------------------------------------------------------------- timer

type c03Timer struct {
	mu     sync.Mutex
	name   string
	h      uint64
	r      uint32
	ch     chan struct{}
	active bool
}

func (t *c03Timer) arm(name string, h uint64, r uint32) (<-chan struct{}, func()) {
	c03Bump()
	t.mu.Lock()
	defer t.mu.Unlock()
	ch := make(chan struct{})
	t.name, t.h, t.r, t.ch, t.active = name, h, r, ch, true
	return ch, func() {
		t.mu.Lock()
		if t.ch == ch && t.active {
			t.active = false
			c03Bump()
		}
		t.mu.Unlock()
	}
}
func (t *c03Timer) ProposalTimer(_ context.Context, h uint64, r uint32) (<-chan struct{}, func()) {
	return t.arm("Proposal", h, r)
}
func (t *c03Timer) PrevoteDelayTimer(_ context.Context, h uint64, r uint32) (<-chan struct{}, func()) {
	return t.arm("PrevoteDelay", h, r)
}
func (t *c03Timer) PrecommitDelayTimer(_ context.Context, h uint64, r uint32) (<-chan struct{}, func()) {
	return t.arm("PrecommitDelay", h, r)
}
func (t *c03Timer) CommitWaitTimer(_ context.Context, h uint64, r uint32) (<-chan struct{}, func()) {
	return t.arm("CommitWait", h, r)
}
func (t *c03Timer) fire() (string, bool) {
	t.mu.Lock()
	defer t.mu.Unlock()
	if !t.active {
		return "", false
	}
	t.active = false
	close(t.ch)
	c03Bump()
	return t.name, true
}
func (t *c03Timer) current() string {
	t.mu.Lock()
	defer t.mu.Unlock()
	if !t.active {
		return "none"
	}
	return t.name
}
func (t *c03Timer) reset() {
	t.mu.Lock()
	t.active = false
	t.mu.Unlock()
}

// ---------------------------------------------------------------- gossip strategy

type c03Gossip struct {
	n       *c03Node
	ctx     context.Context
	done    chan struct{}
	started atomic.Bool
}

func (g *c03Gossip) Start(ch <-chan tmelink.NetworkViewUpdate) {
	g.started.Store(true)
	go func() {
		defer close(g.done)
		for {
			select {
			case <-g.ctx.Done():
				return
			case u := <-ch:
				c03Bump()
				for _, v := range []*tmconsensus.VersionedRoundView{u.Committing, u.Voting, u.NextRound, u.NilVotedRound} {
					if v != nil {
						g.n.c.absorb(g.n.idx, &v.RoundView)
					}
				}
				c03Bump()
			}
		}
	}()
}

func (g *c03Gossip) Wait() {
	if g.started.Load() {
		<-g.done
	}
}

// ---------------------------------------------------------------- node

type c03Fin struct {
	H     uint64
	Hash  string
	Label string
	Round uint32
}

type c03Node struct {
	c   *c03Cluster
	idx int

	as *tmmemstore.ActionStore
	ch *tmmemstore.CommittedHeaderStore
	fs *tmmemstore.FinalizationStore
	ms *tmmemstore.MirrorStore
	rs *tmmemstore.RoundStore
	ss *tmmemstore.StateMachineStore
	vs *tmmemstore.ValidatorStore

	strat *c03Strategy
	timer *c03Timer

	ctx        context.Context
	cancel     context.CancelFunc
	eng        *tmengine.Engine
	wd         *gwatchdog.Watchdog
	gs         *c03Gossip
	driverDone chan struct{}

	mu       sync.Mutex
	fins     []c03Fin
	restarts int
	up       bool
}

func (n *c03Node) driver(ctx context.Context, initCh <-chan tmdriver.InitChainRequest, finCh <-chan tmdriver.FinalizeBlockRequest) {
	defer close(n.driverDone)
	for {
		select {
		case <-ctx.Done():
			return
		case req, ok := <-initCh:
			if !ok {
				initCh = nil
				continue
			}
			c03Bump()
			req.Resp <- tmdriver.InitChainResponse{AppStateHash: []byte(c03InitA)}
		case req := <-finCh:
			c03Bump()
			h := req.Header.Height
			label := n.c.label(string(req.Header.Hash))
			n.mu.Lock()
			n.fins = append(n.fins, c03Fin{H: h, Hash: string(req.Header.Hash), Label: label, Round: req.Round})
			n.mu.Unlock()
			n.c.out.ev(vc.M{"ev": "finalize", "n": n.idx, "h": h, "v": label, "r": req.Round})
			// The driver reports the round the state machine is in (read from its store): the state
			// machine panics on any other round, which it would get in catch-up when the committed
			// round differs from its own (a C09 matter, not C03's).
			round := req.Round
			if sh, sr, err := n.ss.StateMachineHeightRound(ctx); err == nil && sh == h {
				round = sr
			}
			req.Resp <- tmdriver.FinalizeBlockResponse{
				Height: h, Round: round, BlockHash: req.Header.Hash,
				Validators:   n.c.w.vs.Validators,
				AppStateHash: []byte(fmt.Sprintf("app_state_%d", h)),
			}
			c03Bump()
		}
	}
}

func (n *c03Node) start() error {
	ctx, cancel := context.WithCancel(context.Background())
	n.ctx, n.cancel = ctx, cancel
	log := slog.New(slog.NewTextHandler(io.Discard, nil))
	if os.Getenv("VERIF_LOG") != "" {
		log = slog.New(slog.NewTextHandler(os.Stderr, &slog.HandlerOptions{Level: slog.LevelInfo})).With("node", n.idx)
	}
	wd, wctx := gwatchdog.NewNopWatchdog(ctx, log)
	n.wd = wd
	n.timer.reset()
	n.gs = &c03Gossip{n: n, ctx: wctx, done: make(chan struct{})}
	initCh := make(chan tmdriver.InitChainRequest)
	finCh := make(chan tmdriver.FinalizeBlockRequest)
	n.driverDone = make(chan struct{})
	go n.driver(ctx, initCh, finCh)

	w := n.c.w
	eng, err := tmengine.New(wctx, log,
		tmengine.WithGenesis(&tmconsensus.ExternalGenesis{
			ChainID: "verif-c03", InitialHeight: 1, InitialAppState: strings.NewReader(""), GenesisValidatorSet: w.vs,
		}),
		tmengine.WithActionStore(n.as),
		tmengine.WithCommittedHeaderStore(n.ch),
		tmengine.WithFinalizationStore(n.fs),
		tmengine.WithMirrorStore(n.ms),
		tmengine.WithRoundStore(n.rs),
		tmengine.WithStateMachineStore(n.ss),
		tmengine.WithValidatorStore(n.vs),
		tmengine.WithHashScheme(w.hs),
		tmengine.WithSignatureScheme(w.ss),
		tmengine.WithCommonMessageSignatureProofScheme(w.cm),
		tmengine.WithGossipStrategy(n.gs),
		tmengine.WithConsensusStrategy(n.strat),
		tmengine.WithInitChainChannel(initCh),
		tmengine.WithBlockFinalizationChannel(finCh),
		tmengine.WithInternalRoundTimer(n.timer),
		tmengine.WithSigner(tmconsensus.PassthroughSigner{Signer: w.pv[n.idx-1].Signer, SignatureScheme: w.ss}),
		tmengine.WithWatchdog(wd),
		tmengine.WithAssertEnv(gasserttest.DefaultEnv()),
	)
	n.eng = eng
	if err != nil {
		cancel()
		if eng != nil {
			eng.Wait()
		}
		wd.Wait()
		<-n.driverDone
		return err
	}
	n.up = true
	return nil
}

func (n *c03Node) stop() {
	if !n.up {
		return
	}
	n.cancel()
	n.eng.Wait()
	n.wd.Wait()
	<-n.driverDone
	n.up = false
}

// ---------------------------------------------------------------- cluster

type c03Cluster struct {
	w   *c03World
	out *c03Out

	nodes [3]*c03Node

	mu        sync.Mutex
	pool      map[string]*c03Msg
	order     []string
	labels    map[string]string            // block hash -> label
	byLabel   map[string]string            // "h/label" -> block hash
	headers   map[string]tmconsensus.Header // block hash -> header
	byzHdr    map[string]tmconsensus.Header // "h/label" -> header built by the injector
	delivered [3]map[string]int
	sentBy    map[string]int // key -> first node whose gossip emitted it (0 = injected)
}

func newC03Cluster(w *c03World, out *c03Out, propose bool) (*c03Cluster, error) {
	c := &c03Cluster{
		w: w, out: out,
		pool: map[string]*c03Msg{}, labels: map[string]string{}, byLabel: map[string]string{},
		headers: map[string]tmconsensus.Header{}, byzHdr: map[string]tmconsensus.Header{}, sentBy: map[string]int{},
	}
	for i := 0; i < 3; i++ {
		n := &c03Node{
			c: c, idx: i + 1,
			as: tmmemstore.NewActionStore(), ch: tmmemstore.NewCommittedHeaderStore(), fs: tmmemstore.NewFinalizationStore(),
			ms: tmmemstore.NewMirrorStore(), rs: tmmemstore.NewRoundStore(), ss: tmmemstore.NewStateMachineStore(),
			vs:    tmmemstore.NewValidatorStore(w.hs),
			timer: &c03Timer{},
		}
		n.strat = &c03Strategy{c: c, idx: i + 1, propose: propose, lockR: -1, answered: map[string]bool{}, dataOf: map[string]string{}}
		c.nodes[i] = n
		c.delivered[i] = map[string]int{}
	}
	for _, n := range c.nodes {
		if err := n.start(); err != nil {
			c.stop()
			return nil, err
		}
	}
	return c, nil
}

func (c *c03Cluster) stop() {
	for _, n := range c.nodes {
		if n != nil {
			n.stop()
		}
	}
}

func (c *c03Cluster) label(hash string) string {
	if hash == "" {
		return "nil"
	}
	c.mu.Lock()
	defer c.mu.Unlock()
	if l, ok := c.labels[hash]; ok {
		return l
	}
	return "?" + hex.EncodeToString([]byte(hash))[:8]
}

func (c *c03Cluster) registerHeader(h tmconsensus.Header) string {
	hash := string(h.Hash)
	if l, ok := c.labels[hash]; ok {
		return l
	}
	l := string(h.DataID)
	k := fmt.Sprintf("%d/%s", h.Height, l)
	if other, dup := c.byLabel[k]; dup && other != hash {
		l = l + "#" + hex.EncodeToString(h.Hash)[:6]
		k = fmt.Sprintf("%d/%s", h.Height, l)
	}
	c.labels[hash] = l
	c.byLabel[k] = hash
	c.headers[hash] = h
	return l
}

func (c *c03Cluster) add(m *c03Msg, from int) bool {
	k := m.key()
	if _, ok := c.pool[k]; ok {
		return false
	}
	c.pool[k] = m
	c.order = append(c.order, k)
	c.sentBy[k] = from
	return true
}

// absorb decomposes one round view emitted by node `from` into pool messages.
func (c *c03Cluster) absorb(from int, rv *tmconsensus.RoundView) {
	var fresh []*c03Msg
	c.mu.Lock()
	for _, ph := range rv.ProposedHeaders {
		l := c.registerHeader(ph.Header)
		s := 0
		for i := range c.w.pv {
			if ph.ProposerPubKey != nil && c.w.pv[i].Val.PubKey.Equal(ph.ProposerPubKey) {
				s = i + 1
			}
		}
		m := &c03Msg{K: "prop", H: ph.Header.Height, R: ph.Round, V: l, S: s, hash: string(ph.Header.Hash), ph: ph}
		if c.add(m, from) {
			fresh = append(fresh, m)
		}
	}
	for kind, proofs := range map[string]map[string]gcrypto.CommonMessageSignatureProof{"pv": rv.PrevoteProofs, "pc": rv.PrecommitProofs} {
		for hash, proof := range proofs {
			l := "nil"
			if hash != "" {
				var ok bool
				if l, ok = c.labels[hash]; !ok {
					l = "?" + hex.EncodeToString([]byte(hash))[:8]
				}
			}
			for _, sg := range proof.AsSparse().Signatures {
				m := &c03Msg{K: kind, H: rv.Height, R: rv.Round, V: l, S: c.w.signerOf(sg.KeyID), hash: hash,
					sig: gcrypto.SparseSignature{KeyID: bytes.Clone(sg.KeyID), Sig: bytes.Clone(sg.Sig)}}
				if c.add(m, from) {
					fresh = append(fresh, m)
				}
			}
		}
	}
	c.mu.Unlock()
	for _, m := range fresh {
		c.out.ev(vc.M{"ev": "send", "n": from, "m": m.js()})
	}
}

// ---- Byzantine injector

// prevOf returns what a header at height h has to extend: hash, commit proof and validity.
func (c *c03Cluster) prevOf(h uint64) (prevHash []byte, pcp tmconsensus.CommitProof, ok bool) {
	if h == 1 {
		return bytes.Clone(c.w.genesisHash), tmconsensus.CommitProof{}, true
	}
	for _, n := range c.nodes {
		chd, err := n.ch.LoadCommittedHeader(context.Background(), h-1)
		if err != nil {
			continue
		}
		hash := string(chd.Header.Hash)
		sigs := chd.Proof.Proofs[hash]
		cp := tmconsensus.CommitProof{Round: chd.Proof.Round, PubKeyHash: chd.Proof.PubKeyHash,
			Proofs: map[string][]gcrypto.SparseSignature{hash: append([]gcrypto.SparseSignature(nil), sigs...)}}
		return bytes.Clone(chd.Header.Hash), cp, true
	}
	return nil, tmconsensus.CommitProof{}, false
}

// byzHeader builds (once) the Byzantine validator's header for (h, label).
func (c *c03Cluster) byzHeader(h uint64, label string) (tmconsensus.Header, bool) {
	k := fmt.Sprintf("%d/%s", h, label)
	c.mu.Lock()
	if hd, ok := c.byzHdr[k]; ok {
		c.mu.Unlock()
		return hd, true
	}
	c.mu.Unlock()
	prev, pcp, ok := c.prevOf(h)
	if !ok {
		return tmconsensus.Header{}, false
	}
	hd := tmconsensus.Header{
		Height: h, PrevBlockHash: prev, PrevCommitProof: pcp,
		ValidatorSet: c.w.vs, NextValidatorSet: c.w.vs,
		DataID:           []byte(fmt.Sprintf("%s-h%d", label, h)),
		PrevAppStateHash: []byte(fmt.Sprintf("app_state_%d", h-1)),
	}
	hash, err := c.w.hs.Block(hd)
	if err != nil {
		panic(err)
	}
	hd.Hash = hash
	c.mu.Lock()
	c.byzHdr[k] = hd
	l := c.registerHeader(hd)
	// the spec-level label of a Byzantine block is the bare letter
	c.labels[string(hash)] = label
	delete(c.byLabel, fmt.Sprintf("%d/%s", h, l))
	c.byLabel[k] = string(hash)
	c.mu.Unlock()
	return hd, true
}

func (c *c03Cluster) hashOf(h uint64, label string) (string, bool) {
	if label == "nil" {
		return "", true
	}
	c.mu.Lock()
	hash, ok := c.byLabel[fmt.Sprintf("%d/%s", h, label)]
	c.mu.Unlock()
	if ok {
		return hash, true
	}
	if label == "A" || label == "B" {
		if hd, ok := c.byzHeader(h, label); ok {
			return string(hd.Hash), true
		}
	}
	return "", false
}

// inject creates (if new) the Byzantine validator's message and puts it into the pool.
func (c *c03Cluster) inject(kind string, h uint64, r uint32, label string) (*c03Msg, bool) {
	ctx := context.Background()
	var m *c03Msg
	switch kind {
	case "prop":
		hd, ok := c.byzHeader(h, label)
		if !ok {
			return nil, false
		}
		ph := tmconsensus.ProposedHeader{Header: hd, Round: r, ProposerPubKey: c.w.pv[c03Byz-1].Val.PubKey}
		sb, err := tmconsensus.ProposalSignBytes(ph.Header, ph.Round, ph.Annotations, c.w.ss)
		if err != nil {
			panic(err)
		}
		if ph.Signature, err = c.w.pv[c03Byz-1].Signer.Sign(ctx, sb); err != nil {
			panic(err)
		}
		m = &c03Msg{K: "prop", H: h, R: r, V: label, S: c03Byz, hash: string(hd.Hash), ph: ph}
	default:
		hash, ok := c.hashOf(h, label)
		if !ok {
			return nil, false
		}
		vt := tmconsensus.VoteTarget{Height: h, Round: r, BlockHash: hash}
		var sb []byte
		var err error
		if kind == "pv" {
			sb, err = tmconsensus.PrevoteSignBytes(vt, c.w.ss)
		} else {
			sb, err = tmconsensus.PrecommitSignBytes(vt, c.w.ss)
		}
		if err != nil {
			panic(err)
		}
		sig, err := c.w.pv[c03Byz-1].Signer.Sign(ctx, sb)
		if err != nil {
			panic(err)
		}
		kid := make([]byte, 2)
		binary.BigEndian.PutUint16(kid, uint16(c03Byz-1))
		m = &c03Msg{K: kind, H: h, R: r, V: label, S: c03Byz, hash: hash, sig: gcrypto.SparseSignature{KeyID: kid, Sig: sig}}
	}
	c.mu.Lock()
	if old, ok := c.pool[m.key()]; ok {
		c.mu.Unlock()
		return old, true
	}
	c.add(m, 0)
	c.mu.Unlock()
	c.out.ev(vc.M{"ev": "inject", "m": m.js()})
	return m, true
}

// forge creates a vote that claims to be from validator `as` but is signed with the Byzantine key (a real
// signature over the right sign bytes by the wrong key).  An engine that verifies signatures rejects it.
func (c *c03Cluster) forge(kind string, h uint64, r uint32, label string, as int) (*c03Msg, bool) {
	hash, ok := c.hashOf(h, label)
	if !ok || kind == "prop" {
		return nil, false
	}
	vt := tmconsensus.VoteTarget{Height: h, Round: r, BlockHash: hash}
	var sb []byte
	var err error
	if kind == "pv" {
		sb, err = tmconsensus.PrevoteSignBytes(vt, c.w.ss)
	} else {
		sb, err = tmconsensus.PrecommitSignBytes(vt, c.w.ss)
	}
	if err != nil {
		panic(err)
	}
	sig, err := c.w.pv[c03Byz-1].Signer.Sign(context.Background(), sb)
	if err != nil {
		panic(err)
	}
	kid := make([]byte, 2)
	binary.BigEndian.PutUint16(kid, uint16(as-1))
	m := &c03Msg{K: kind, H: h, R: r, V: label, S: as, hash: hash, sig: gcrypto.SparseSignature{KeyID: kid, Sig: sig}, forged: true}
	c.out.ev(vc.M{"ev": "forge", "m": m.js()})
	return m, true
}

// find looks a message up by its abstract coordinates.
func (c *c03Cluster) find(kind string, h uint64, r uint32, label string, s int) (*c03Msg, bool) {
	hash, ok := c.hashOf(h, label)
	if !ok {
		return nil, false
	}
	probe := &c03Msg{K: kind, H: h, R: r, S: s, hash: hash}
	c.mu.Lock()
	m, ok := c.pool[probe.key()]
	c.mu.Unlock()
	return m, ok
}

// deliver hands message m to node idx through the engine's public handler.
func (c *c03Cluster) deliver(idx int, m *c03Msg) string {
	n := c.nodes[idx-1]
	ev := vc.M{"ev": "deliver", "n": idx, "m": m.js()}
	if m.forged {
		ev["forged"] = true
	}
	if m.K == "prop" && m.H > 1 {
		// the header carries precommits of the previous height: the node learns them too
		pc := []vc.M{}
		for hash, sigs := range m.ph.Header.PrevCommitProof.Proofs {
			for _, sg := range sigs {
				pc = append(pc, vc.M{"k": "pc", "h": m.H - 1, "r": m.ph.Header.PrevCommitProof.Round, "v": c.label(hash), "s": c.w.signerOf(sg.KeyID)})
			}
		}
		ev["pcp"] = pc
	}
	c.out.ev(ev)
	c.out.out.Flush()
	ctx, cancel := context.WithTimeout(n.ctx, 20*time.Second)
	defer cancel()
	c03Bump()
	var res string
	switch m.K {
	case "prop":
		res = n.eng.HandleProposedHeader(ctx, m.ph).String()
	case "pv":
		res = n.eng.HandlePrevoteProofs(ctx, tmconsensus.PrevoteSparseProof{Height: m.H, Round: m.R, PubKeyHash: string(c.w.vs.PubKeyHash),
			Proofs: map[string][]gcrypto.SparseSignature{m.hash: {m.sig}}}).String()
	case "pc":
		res = n.eng.HandlePrecommitProofs(ctx, tmconsensus.PrecommitSparseProof{Height: m.H, Round: m.R, PubKeyHash: string(c.w.vs.PubKeyHash),
			Proofs: map[string][]gcrypto.SparseSignature{m.hash: {m.sig}}}).String()
	}
	c03Bump()
	if !m.forged {
		c.mu.Lock()
		c.delivered[idx-1][m.key()]++
		c.mu.Unlock()
	}
	return res
}

// sync runs a benign schedule (every pool message to every node, timers only when nothing is left to
// deliver) until every node has finalized height h; false when that does not happen within the budget.
func (c *c03Cluster) sync(h uint64, bound time.Duration) bool {
	for iter := 0; iter < 400; iter++ {
		done := true
		for _, n := range c.nodes {
			n.mu.Lock()
			if uint64(len(n.fins)) < h {
				done = false
			}
			n.mu.Unlock()
		}
		if done {
			return true
		}
		type pend struct {
			n int
			m *c03Msg
		}
		var todo []pend
		c.mu.Lock()
		for _, k := range c.order {
			m := c.pool[k]
			for n := 1; n <= 3; n++ {
				if m.S != n && c.delivered[n-1][k] == 0 {
					todo = append(todo, pend{n, m})
				}
			}
		}
		c.mu.Unlock()
		if len(todo) > 0 {
			for _, p := range todo {
				c.deliver(p.n, p.m)
			}
		} else {
			fired := false
			for _, n := range c.nodes {
				if _, ok := c.timeout(n.idx); ok {
					fired = true
				}
			}
			if !fired {
				return false
			}
		}
		if !c03Settle(bound) {
			return false
		}
	}
	return false
}

func (c *c03Cluster) timeout(idx int) (string, bool) {
	n := c.nodes[idx-1]
	name := n.timer.current()
	if name == "none" {
		return "", false
	}
	c.out.ev(vc.M{"ev": "timeout", "n": idx, "t": name})
	return n.timer.fire()
}

func (c *c03Cluster) restart(idx int) error {
	n := c.nodes[idx-1]
	c.out.ev(vc.M{"ev": "restart", "n": idx})
	n.stop()
	n.restarts++
	return n.start()
}

// restartSafe reports whether restarting node idx now would run into one of the start-up panics that are
// C09's business (round entrance for an orphaned round; a view that implies the prevote or precommit delay
// step).  The adversary steers around them to reach deeper states; a death would only abort the run.
func (c *c03Cluster) restartSafe(idx int) bool {
	n := c.nodes[idx-1]
	ctx := context.Background()
	mh, mr, _, _, err := n.ms.NetworkHeightRound(ctx)
	if err != nil {
		return true
	}
	sh, sr, err := n.ss.StateMachineHeightRound(ctx)
	if err != nil {
		sh, sr = 1, 0
	}
	if _, _, _, _, err := n.fs.LoadFinalizationByHeight(ctx, sh); err == nil {
		sh, sr = sh+1, 0
	}
	if sh == mh && sr < mr {
		return false
	}
	if sh > mh || (sh == mh && sr > mr+1) {
		return false
	}
	pow := map[string]map[string]map[int]bool{"pv": {}, "pc": {}}
	c.mu.Lock()
	for k, m := range c.pool {
		if m.K == "prop" || m.H != sh || m.R != sr {
			continue
		}
		if m.S != idx && c.delivered[idx-1][k] == 0 {
			continue
		}
		if pow[m.K][m.hash] == nil {
			pow[m.K][m.hash] = map[int]bool{}
		}
		pow[m.K][m.hash][m.S] = true
	}
	c.mu.Unlock()
	sum := func(kind string) (total, best uint64) {
		all := map[int]bool{}
		for _, signers := range pow[kind] {
			var p uint64
			for s := range signers {
				p += c.w.powers[s-1]
				all[s] = true
			}
			if p > best {
				best = p
			}
		}
		for s := range all {
			total += c.w.powers[s-1]
		}
		return
	}
	pcT, pcB := sum("pc")
	pvT, pvB := sum("pv")
	if c.w.isMaj(pcT) {
		return c.w.isMaj(pcB)
	}
	if 3*pcT >= c.w.total {
		return true
	}
	if c.w.isMaj(pvT) {
		return c.w.isMaj(pvB)
	}
	return true
}

// ---- observation

type c03Obs struct {
	MH    uint64   `json:"mh"`
	MR    uint32   `json:"mr"`
	Chain []string `json:"chain"`
	SH    uint64   `json:"sh"`
	SR    uint32   `json:"sr"`
	Fin   []string `json:"fin"`
	Timer string   `json:"timer"`
	LockV string   `json:"lockV"`
	LockR int      `json:"lockR"`
	Acts  []string `json:"acts"`
}

func (c *c03Cluster) observe(idx int, maxH uint64, maxR uint32) c03Obs {
	n := c.nodes[idx-1]
	ctx := context.Background()
	var o c03Obs
	vh, vr, _, _, err := n.ms.NetworkHeightRound(ctx)
	if err != nil {
		vh, vr = 1, 0
	}
	o.MH, o.MR = vh, vr
	o.Chain = []string{}
	for h := uint64(1); ; h++ {
		chd, err := n.ch.LoadCommittedHeader(ctx, h)
		if err != nil {
			break
		}
		o.Chain = append(o.Chain, c.label(string(chd.Header.Hash)))
	}
	sh, sr, err := n.ss.StateMachineHeightRound(ctx)
	if err != nil {
		sh, sr = 1, 0
	}
	o.SH, o.SR = sh, sr
	o.Fin = []string{}
	n.mu.Lock()
	for _, f := range n.fins {
		o.Fin = append(o.Fin, fmt.Sprintf("%d:%s", f.H, f.Label))
	}
	n.mu.Unlock()
	o.Timer = n.timer.current()
	lv, lr := n.strat.lockState()
	o.LockV, o.LockR = "none", lr
	if lv != "" {
		o.LockV = c.label(lv)
	}
	o.Acts = []string{}
	for h := uint64(1); h <= maxH+1; h++ {
		for r := uint32(0); r <= maxR+1; r++ {
			ra, err := n.as.LoadActions(ctx, h, r)
			if err != nil {
				continue
			}
			if ra.PrevoteSignature != "" {
				o.Acts = append(o.Acts, fmt.Sprintf("pv/%d/%d/%s", h, r, c.label(ra.PrevoteTarget)))
			}
			if ra.PrecommitSignature != "" {
				o.Acts = append(o.Acts, fmt.Sprintf("pc/%d/%d/%s", h, r, c.label(ra.PrecommitTarget)))
			}
		}
	}
	sort.Strings(o.Acts)
	return o
}

// property predicates on what the real drivers and stores recorded
type c03Viol struct {
	Pred string
	What string
}

func (c *c03Cluster) checkProps() []c03Viol {
	var out []c03Viol
	ctx := context.Background()
	byH := map[uint64]map[string][]int{}
	for _, n := range c.nodes {
		n.mu.Lock()
		fins := append([]c03Fin(nil), n.fins...)
		n.mu.Unlock()
		// Contiguous: the sequence of distinct finalized heights of a node is 1,2,3,...; a height may be
		// re-requested after a restart only for the same block
		next := uint64(1)
		seen := map[uint64]string{}
		for _, f := range fins {
			if prev, ok := seen[f.H]; ok {
				if prev != f.Hash {
					out = append(out, c03Viol{"Agreement", fmt.Sprintf("node %d was asked to finalize two different blocks at height %d (%s, %s)", n.idx, f.H, c.label(prev), f.Label)})
				}
				continue
			}
			if f.H != next {
				out = append(out, c03Viol{"Contiguous", fmt.Sprintf("node %d finalized height %d when height %d was due (sequence %v)", n.idx, f.H, next, c03FinHeights(fins))})
				next = f.H
			}
			seen[f.H] = f.Hash
			next++
			if byH[f.H] == nil {
				byH[f.H] = map[string][]int{}
			}
			byH[f.H][f.Hash] = append(byH[f.H][f.Hash], n.idx)
		}
		// the committed header store is the other observation point of the property
		for h := uint64(1); ; h++ {
			chd, err := n.ch.LoadCommittedHeader(ctx, h)
			if err != nil {
				break
			}
			if chd.Header.Height != h {
				out = append(out, c03Viol{"Contiguous", fmt.Sprintf("node %d: committed header store returns a header of height %d for height %d", n.idx, chd.Header.Height, h)})
				continue
			}
			if byH[h] == nil {
				byH[h] = map[string][]int{}
			}
			k := string(chd.Header.Hash)
			byH[h][k] = append(byH[h][k], -n.idx)
		}
	}
	for h, m := range byH {
		if len(m) > 1 {
			parts := []string{}
			for hash, who := range m {
				parts = append(parts, fmt.Sprintf("%s by %v", c.label(hash), who))
			}
			sort.Strings(parts)
			out = append(out, c03Viol{"Agreement", fmt.Sprintf("different blocks at height %d: %s (positive = finalize request of that node, negative = its committed header store)", h, strings.Join(parts, "; "))})
		}
	}
	return out
}

func c03FinHeights(f []c03Fin) []uint64 {
	o := make([]uint64, len(f))
	for i := range f {
		o[i] = f[i].H
	}
	return o
}

// ---------------------------------------------------------------- schedules

type c03Step struct {
	Op string          `json:"op"` // deliver | timeout | restart
	N  int             `json:"n"`
	Ms []*c03Msg       `json:"ms,omitempty"` // deliver: the batch, handed over one message at a time in this order
	H  uint64          `json:"h,omitempty"`  // sync: run a benign schedule until every node has finalized height H
	E  json.RawMessage `json:"exp,omitempty"` // expected per-node observation (array of 3) after the step
}

type c03Behaviour struct {
	ID     int       `json:"id"`
	Class  string    `json:"class"` // sim | cex | attack
	Powers []uint64  `json:"powers"`
	MaxH   uint64    `json:"maxH"`
	MaxR   uint32    `json:"maxR"`
	Steps  []c03Step `json:"steps"`
	// Propose: the correct nodes' strategy proposes blocks itself (round-robin) -- needed for "sync" steps
	Propose bool `json:"propose,omitempty"`
	// Forge: attack schedules of the model variant in which signatures are not checked
	Forge bool `json:"forge,omitempty"`
}

func c03Diff(exp, got c03Obs) []string {
	var d []string
	chk := func(name string, a, b any) {
		aj, _ := json.Marshal(a)
		bj, _ := json.Marshal(b)
		if !bytes.Equal(aj, bj) {
			d = append(d, fmt.Sprintf("%s: spec %s real %s", name, aj, bj))
		}
	}
	chk("mirror", []any{exp.MH, exp.MR}, []any{got.MH, got.MR})
	chk("chain", exp.Chain, got.Chain)
	chk("sm", []any{exp.SH, exp.SR}, []any{got.SH, got.SR})
	chk("fin", exp.Fin, got.Fin)
	if exp.Timer != "*" {
		chk("timer", exp.Timer, got.Timer)
	}
	chk("lock", []any{exp.LockV, exp.LockR}, []any{got.LockV, got.LockR})
	chk("acts", exp.Acts, got.Acts)
	return d
}

type c03Runner struct {
	t      *testing.T
	out    *c03Out
	settle time.Duration
	states map[string]struct{}
	ops    map[string]int
	nViol  int
}

func (r *c03Runner) report(c *c03Cluster, run int, class string, sched []vc.M) bool {
	vs := c.checkProps()
	for _, v := range vs {
		r.nViol++
		r.out.out.Emit(vc.M{"kind": "violation", "run": run, "class": class, "pred": v.Pred, "what": v.What, "schedule": sched, "powers": c.w.powers})
	}
	r.out.out.Flush()
	return len(vs) > 0
}

func (r *c03Runner) note(c *c03Cluster) {
	for i := 1; i <= 3; i++ {
		o := c.observe(i, 3, 3)
		b, _ := json.Marshal(o)
		r.states[string(b)] = struct{}{}
	}
}

// replay runs one TLC behaviour step-locked.
func (r *c03Runner) replay(b c03Behaviour) {
	powers := b.Powers
	if len(powers) != c03N {
		powers = []uint64{1, 1, 1, 1}
	}
	r.out.mu.Lock()
	r.out.run = b.ID
	r.out.mu.Unlock()
	r.out.prog("run %d", b.ID)
	r.out.ev(vc.M{"ev": "reset", "powers": powers})
	c, err := newC03Cluster(newC03World(powers), r.out, b.Propose)
	if err != nil {
		r.out.out.Emit(vc.M{"kind": "inconclusive", "run": b.ID, "why": "cluster start: " + err.Error()})
		return
	}
	defer c.stop()
	status := "ok"
	if !c03Settle(r.settle) {
		status = "unsettled"
	}
	emitObs := os.Getenv("VERIF_OBS") != ""
	var sched []vc.M
	done := 0
	skipped := 0
	var firstDiff vc.M
	for i, st := range b.Steps {
		if status == "unsettled" {
			break
		}
		r.out.prog("step %d %d %s %d", b.ID, i, st.Op, st.N)
		rec := vc.M{"op": st.Op, "n": st.N}
		okStep := true
		switch st.Op {
		case "deliver":
			var msl []vc.M
			var ress []string
			for _, sm := range st.Ms {
				msl = append(msl, sm.js())
				var m *c03Msg
				var ok bool
				if sm.S == c03Byz {
					m, ok = c.inject(sm.K, sm.H, sm.R, sm.V)
				} else {
					m, ok = c.find(sm.K, sm.H, sm.R, sm.V, sm.S)
					for try := 0; !ok && try < 15 && b.Class != "attack"; try++ {
						// the sender's gossip may not have emitted it yet
						time.Sleep(10 * time.Millisecond)
						c03Settle(r.settle)
						m, ok = c.find(sm.K, sm.H, sm.R, sm.V, sm.S)
					}
					if !ok && b.Class == "attack" && b.Forge {
						m, ok = c.forge(sm.K, sm.H, sm.R, sm.V, sm.S)
					}
				}
				if !ok {
					okStep = false
					break
				}
				ress = append(ress, c.deliver(st.N, m))
				if !c03Settle(r.settle) {
					status = "unsettled"
					break
				}
			}
			rec["ms"], rec["res"] = msl, ress
		case "timeout":
			if _, ok := c.timeout(st.N); !ok {
				okStep = false
			}
		case "restart":
			if err := c.restart(st.N); err != nil {
				r.out.out.Emit(vc.M{"kind": "inconclusive", "run": b.ID, "why": "restart: " + err.Error()})
				status = "unsettled"
			}
		case "sync":
			rec["h"] = st.H
			if !c.sync(st.H, r.settle) {
				okStep = false
			}
		}
		r.ops[st.Op]++
		if !okStep {
			// the real cluster is not where the spec thinks it is: the step cannot be performed
			if firstDiff == nil {
				firstDiff = vc.M{"step": i, "op": st.Op, "n": st.N, "diff": []string{"step not performable on the real cluster (message never sent / timer not armed)"}}
			}
			skipped++
			if b.Class != "attack" {
				status = "diverged"
				break
			}
			continue
		}
		sched = append(sched, rec)
		done++
		if status == "unsettled" || !c03Settle(r.settle) {
			status = "unsettled"
			break
		}
		r.note(c)
		if emitObs {
			r.out.out.Emit(vc.M{"kind": "obs", "run": b.ID, "step": i, "op": st.Op, "n": st.N,
				"nodes": []c03Obs{c.observe(1, b.MaxH, b.MaxR), c.observe(2, b.MaxH, b.MaxR), c.observe(3, b.MaxH, b.MaxR)}})
		}
		if r.report(c, b.ID, b.Class, sched) {
			status = "violation"
			break
		}
		if len(st.E) > 0 && firstDiff == nil {
			var exp []c03Obs
			if err := json.Unmarshal(st.E, &exp); err == nil && len(exp) == 3 {
				for try := 0; try < 12; try++ {
					firstDiff = nil
					for n := 1; n <= 3; n++ {
						got := c.observe(n, b.MaxH, b.MaxR)
						if d := c03Diff(exp[n-1], got); len(d) > 0 {
							firstDiff = vc.M{"step": i, "op": st.Op, "n": st.N, "node": n, "diff": d}
							break
						}
					}
					if firstDiff == nil {
						break
					}
					// not quiescent after all?  A real divergence is still there after waiting.
					time.Sleep(time.Duration(2+4*try) * time.Millisecond)
					c03Settle(r.settle)
				}
				if firstDiff != nil && b.Class != "attack" {
					status = "diverged"
					break
				}
			}
		}
	}
	if status == "unsettled" {
		r.out.out.Emit(vc.M{"kind": "inconclusive", "run": b.ID, "why": "cluster did not settle"})
	}
	if firstDiff != nil && b.Class != "attack" {
		firstDiff["kind"], firstDiff["run"], firstDiff["class"] = "mismatch", b.ID, b.Class
		firstDiff["schedule"] = sched
		r.out.out.Emit(firstDiff)
	}
	fins := vc.M{}
	for _, n := range c.nodes {
		fins[fmt.Sprint(n.idx)] = c.observe(n.idx, 1, 1).Fin
	}
	r.out.out.Emit(vc.M{"kind": "run", "run": b.ID, "class": b.Class, "steps": done, "skipped": skipped, "status": status, "fin": fins})
	r.out.out.Flush()
}

// ---- seeded adversarial schedules

type c03Policy struct {
	name                                       string
	wDeliver, wTimeout, wInject, wRestart, wDup int
	split                                      bool // Byzantine shows value A to group GA and B to the others first
	starve                                     int  // node that alone is allowed to see the votes of the others promptly (0 = none)
	partition                                  bool
	propose                                    bool
	maxRestarts                                int
	eagerRestart                               bool // restart a node right after its precommit became visible
}

var c03Policies = []c03Policy{
	{name: "benign", wDeliver: 90, wTimeout: 4, wInject: 4, wRestart: 0, wDup: 2, propose: true},
	{name: "split", wDeliver: 70, wTimeout: 12, wInject: 14, wRestart: 0, wDup: 4, split: true, propose: false},
	{name: "lonelock", wDeliver: 60, wTimeout: 22, wInject: 14, wRestart: 0, wDup: 4, split: true, starve: 1, propose: false},
	{name: "restarts", wDeliver: 70, wTimeout: 10, wInject: 8, wRestart: 8, wDup: 4, propose: true, maxRestarts: 3, eagerRestart: true},
	{name: "timeouts", wDeliver: 50, wTimeout: 36, wInject: 10, wRestart: 0, wDup: 4, propose: true},
	{name: "partition", wDeliver: 70, wTimeout: 14, wInject: 10, wRestart: 2, wDup: 4, partition: true, propose: true, maxRestarts: 1},
	{name: "splitrestart", wDeliver: 60, wTimeout: 16, wInject: 14, wRestart: 6, wDup: 4, split: true, propose: true, maxRestarts: 2, eagerRestart: true},
}

func (r *c03Runner) random(run int, seed int64, maxSteps int, maxH uint64, powers []uint64) {
	rng := rand.New(rand.NewSource(seed*1000003 + int64(run)))
	pol := c03Policies[run%len(c03Policies)]
	if pol.starve != 0 {
		pol.starve = 1 + rng.Intn(3)
	}
	r.out.mu.Lock()
	r.out.run = run
	r.out.mu.Unlock()
	r.out.prog("run %d %s", run, pol.name)
	r.out.ev(vc.M{"ev": "reset", "powers": powers})
	c, err := newC03Cluster(newC03World(powers), r.out, pol.propose)
	if err != nil {
		r.out.out.Emit(vc.M{"kind": "inconclusive", "run": run, "why": "cluster start: " + err.Error()})
		return
	}
	defer c.stop()
	status := "ok"
	if !c03Settle(r.settle) {
		status = "unsettled"
	}
	var sched []vc.M
	groupA := map[int]bool{1 + rng.Intn(3): true} // nodes shown value A first
	if rng.Intn(2) == 0 {
		groupA[1+rng.Intn(3)] = true
	}
	partUntil, partSide := 0, map[int]bool{}
	restartsLeft := pol.maxRestarts
	seenPC := map[string]bool{}
	steps := 0
	for ; steps < maxSteps && status == "ok"; steps++ {
		// where is the cluster?
		var hiH uint64 = 1
		hiR := uint32(0)
		allDone := true
		for _, n := range c.nodes {
			o := c.observe(n.idx, 1, 0)
			if o.MH > hiH {
				hiH, hiR = o.MH, o.MR
			} else if o.MH == hiH && o.MR > hiR {
				hiR = o.MR
			}
			if uint64(len(o.Fin)) < maxH {
				allDone = false
			}
		}
		if allDone {
			break
		}
		if pol.partition && steps >= partUntil && rng.Intn(12) == 0 {
			partUntil = steps + 10 + rng.Intn(25)
			partSide = map[int]bool{1 + rng.Intn(3): true}
		}
		inPartition := pol.partition && steps < partUntil

		// candidate deliveries
		type cand struct {
			n int
			m *c03Msg
			w int
		}
		var cands []cand
		var dups []cand
		c.mu.Lock()
		for _, k := range c.order {
			m := c.pool[k]
			if m.H+1 < hiH {
				continue
			}
			for n := 1; n <= 3; n++ {
				if m.S == n {
					continue // a node's own message is in its mirror already
				}
				if inPartition && m.S != c03Byz && partSide[m.S] != partSide[n] {
					continue
				}
				w := 10
				if pol.split && m.S == c03Byz && (m.V == "A" || m.V == "B") {
					// the "own" value of the group first, the other one rarely
					if (m.V == "A") == groupA[n] {
						w = 30
					} else {
						w = 1
					}
				}
				if pol.starve != 0 && n != pol.starve && m.S != c03Byz && m.K != "prop" {
					w = 1 // the others see honest votes late
				}
				if c.delivered[n-1][k] > 0 {
					dups = append(dups, cand{n, m, 1})
					continue
				}
				cands = append(cands, cand{n, m, w})
			}
		}
		// a node's precommit became visible: candidates for an immediate restart
		var justPC []int
		for _, k := range c.order {
			m := c.pool[k]
			if m.K == "pc" && m.S != c03Byz && !seenPC[k] {
				seenPC[k] = true
				justPC = append(justPC, m.S)
			}
		}
		c.mu.Unlock()

		var armed []int
		for _, n := range c.nodes {
			if n.timer.current() != "none" {
				armed = append(armed, n.idx)
			}
		}

		var safePC []int
		for _, n := range justPC {
			if c.restartSafe(n) {
				safePC = append(safePC, n)
			}
		}
		justPC = safePC
		var safeAny []int
		for n := 1; n <= 3; n++ {
			if c.restartSafe(n) {
				safeAny = append(safeAny, n)
			}
		}
		if pol.eagerRestart && restartsLeft > 0 && len(justPC) > 0 && rng.Intn(2) == 0 {
			n := justPC[rng.Intn(len(justPC))]
			r.out.prog("step %d %d restart %d", run, steps, n)
			restartsLeft--
			r.ops["restart"]++
			sched = append(sched, vc.M{"op": "restart", "n": n})
			if err := c.restart(n); err != nil {
				r.out.out.Emit(vc.M{"kind": "inconclusive", "run": run, "why": "restart: " + err.Error()})
				status = "unsettled"
				break
			}
		} else {
			wD, wT, wI, wR, wU := pol.wDeliver, pol.wTimeout, pol.wInject, pol.wRestart, pol.wDup
			if len(cands) == 0 {
				wD = 0
				wT *= 4
			}
			if len(armed) == 0 {
				wT = 0
			}
			if restartsLeft <= 0 || len(safeAny) == 0 {
				wR = 0
			}
			if len(dups) == 0 {
				wU = 0
			}
			tot := wD + wT + wI + wR + wU
			if tot == 0 {
				break
			}
			x := rng.Intn(tot)
			switch {
			case x < wD:
				sum := 0
				for _, cd := range cands {
					sum += cd.w
				}
				y := rng.Intn(sum)
				var pick cand
				for _, cd := range cands {
					if y < cd.w {
						pick = cd
						break
					}
					y -= cd.w
				}
				r.out.prog("step %d %d deliver %d %s", run, steps, pick.n, pick.m.key())
				res := c.deliver(pick.n, pick.m)
				r.ops["deliver"]++
				sched = append(sched, vc.M{"op": "deliver", "n": pick.n, "m": pick.m.js(), "res": res})
			case x < wD+wT:
				n := armed[rng.Intn(len(armed))]
				r.out.prog("step %d %d timeout %d", run, steps, n)
				if t, ok := c.timeout(n); ok {
					r.ops["timeout"]++
					sched = append(sched, vc.M{"op": "timeout", "n": n, "t": t})
				}
			case x < wD+wT+wI:
				kinds := []string{"prop", "prop", "pv", "pv", "pc", "pc"}
				labels := []string{"A", "B"}
				kind := kinds[rng.Intn(len(kinds))]
				label := labels[rng.Intn(2)]
				if kind != "prop" && rng.Intn(5) == 0 {
					label = "nil"
				}
				if kind != "prop" && rng.Intn(6) == 0 {
					// vote for a block an honest node proposed
					c.mu.Lock()
					var hl []string
					for k := range c.byLabel {
						if strings.HasPrefix(k, fmt.Sprintf("%d/n", hiH)) {
							hl = append(hl, strings.SplitN(k, "/", 2)[1])
						}
					}
					c.mu.Unlock()
					sort.Strings(hl)
					if len(hl) > 0 {
						label = hl[rng.Intn(len(hl))]
					}
				}
				rr := hiR
				if rng.Intn(4) == 0 {
					rr = hiR + 1
				}
				r.out.prog("step %d %d inject %s %d %d %s", run, steps, kind, hiH, rr, label)
				if m, ok := c.inject(kind, hiH, rr, label); ok {
					r.ops["inject"]++
					sched = append(sched, vc.M{"op": "inject", "m": m.js()})
				}
			case x < wD+wT+wI+wR:
				n := safeAny[rng.Intn(len(safeAny))]
				r.out.prog("step %d %d restart %d", run, steps, n)
				restartsLeft--
				r.ops["restart"]++
				sched = append(sched, vc.M{"op": "restart", "n": n})
				if err := c.restart(n); err != nil {
					r.out.out.Emit(vc.M{"kind": "inconclusive", "run": run, "why": "restart: " + err.Error()})
					status = "unsettled"
				}
			default:
				pick := dups[rng.Intn(len(dups))]
				r.out.prog("step %d %d dup %d %s", run, steps, pick.n, pick.m.key())
				res := c.deliver(pick.n, pick.m)
				r.ops["duplicate"]++
				sched = append(sched, vc.M{"op": "deliver", "n": pick.n, "m": pick.m.js(), "res": res, "dup": true})
			}
		}
		if status != "ok" {
			break
		}
		if !c03Settle(r.settle) {
			status = "unsettled"
			break
		}
		r.note(c)
		if r.report(c, run, pol.name, sched) {
			status = "violation"
		}
	}
	if status == "unsettled" {
		r.out.out.Emit(vc.M{"kind": "inconclusive", "run": run, "why": "cluster did not settle"})
	}
	fins := vc.M{}
	maxFin := 0
	for _, n := range c.nodes {
		f := c.observe(n.idx, 1, 1).Fin
		fins[fmt.Sprint(n.idx)] = f
		if len(f) > maxFin {
			maxFin = len(f)
		}
	}
	r.out.out.Emit(vc.M{"kind": "run", "run": run, "class": pol.name, "steps": steps, "status": status, "fin": fins, "heights": maxFin})
	r.out.out.Flush()
}

// ---- scripted attacks: the schedules that break an engine whose commit rule is weaker than > 2/3 of the
// power for one block in one round, or that accepts votes it cannot verify.  On the unmodified engine they
// end without any disagreement.

type c03Script struct {
	r     *c03Runner
	c     *c03Cluster
	run   int
	sched []vc.M
	ok    bool
}

func (x *c03Script) settle() {
	if !c03Settle(x.r.settle) {
		x.ok = false
	}
}

// dl delivers the message (kind, round, label, signer) of height 1 to node n; Byzantine messages are created
// on demand, messages of correct validators have to be in the pool (the node has to have sent them).
func (x *c03Script) dl(n int, kind string, r uint32, label string, signer int) bool {
	if !x.ok {
		return false
	}
	var m *c03Msg
	var ok bool
	if signer == c03Byz {
		m, ok = x.c.inject(kind, 1, r, label)
	} else if signer < 0 {
		m, ok = x.c.forge(kind, 1, r, label, -signer)
	} else {
		m, ok = x.c.find(kind, 1, r, label, signer)
		for try := 0; !ok && try < 10; try++ {
			time.Sleep(5 * time.Millisecond)
			c03Settle(x.r.settle)
			m, ok = x.c.find(kind, 1, r, label, signer)
		}
	}
	if !ok {
		return false
	}
	x.r.out.prog("step %d %d deliver %d %s", x.run, len(x.sched), n, m.key())
	res := x.c.deliver(n, m)
	x.r.ops["deliver"]++
	rec := vc.M{"op": "deliver", "n": n, "m": m.js(), "res": res}
	if m.forged {
		rec["forged"] = true
		x.r.ops["forge"]++
	}
	x.sched = append(x.sched, rec)
	x.settle()
	x.check()
	return true
}

func (x *c03Script) fire(n int, want string) bool {
	if !x.ok || x.c.nodes[n-1].timer.current() != want {
		return false
	}
	x.r.out.prog("step %d %d timeout %d", x.run, len(x.sched), n)
	t, ok := x.c.timeout(n)
	if ok {
		x.r.ops["timeout"]++
		x.sched = append(x.sched, vc.M{"op": "timeout", "n": n, "t": t})
		x.settle()
		x.check()
	}
	return ok
}

func (x *c03Script) check() {
	x.r.note(x.c)
	if x.r.report(x.c, x.run, "script", x.sched) {
		x.ok = false
	}
}

// ownVote returns the label node n recorded for (kind, round) at height 1 ("" = none).
func (x *c03Script) ownVote(n int, kind string, r uint32) string {
	ra, err := x.c.nodes[n-1].as.LoadActions(context.Background(), 1, r)
	if err != nil {
		return ""
	}
	if kind == "pv" && ra.PrevoteSignature != "" {
		return x.c.label(ra.PrevoteTarget)
	}
	if kind == "pc" && ra.PrecommitSignature != "" {
		return x.c.label(ra.PrecommitTarget)
	}
	return ""
}

func (r *c03Runner) scripted(run int, seed int64, powers []uint64) {
	rng := rand.New(rand.NewSource(seed*7919 + int64(run)))
	perm := rng.Perm(3)
	v, h, t := perm[0]+1, perm[1]+1, perm[2]+1 // victim, helper, third
	X, Y := "A", "B"
	if rng.Intn(2) == 0 {
		X, Y = "B", "A"
	}
	kind := []string{"lonelock", "lonelock", "forge"}[rng.Intn(3)]
	r.out.mu.Lock()
	r.out.run = run
	r.out.mu.Unlock()
	r.out.prog("run %d script-%s", run, kind)
	r.out.ev(vc.M{"ev": "reset", "powers": powers})
	c, err := newC03Cluster(newC03World(powers), r.out, false)
	if err != nil {
		r.out.out.Emit(vc.M{"kind": "inconclusive", "run": run, "why": "cluster start: " + err.Error()})
		return
	}
	defer c.stop()
	x := &c03Script{r: r, c: c, run: run, ok: true}
	x.settle()
	switch kind {
	case "forge":
		// votes in the name of correct validators, signed with the Byzantine key: one certificate for X at the
		// victim, one for Y at the others
		for _, n := range []int{v, h, t} {
			val := Y
			if n == v {
				val = X
			}
			x.dl(n, "prop", 0, val, c03Byz)
			for _, kd := range []string{"pv", "pc"} {
				for s := 1; s <= 3; s++ {
					if s != n {
						x.dl(n, kd, 0, val, -s)
					}
				}
				x.dl(n, kd, 0, val, c03Byz)
			}
		}
	default:
		// round 0: the victim alone sees a prevote quorum for X and precommits it; the Byzantine validator adds
		// its precommit; the others time out and precommit nil; round 1: the others commit Y
		x.dl(v, "prop", 0, X, c03Byz)
		x.dl(h, "prop", 0, X, c03Byz)
		x.fire(t, "Proposal")
		x.dl(v, "pv", 0, X, h)
		x.dl(v, "pv", 0, X, c03Byz)
		x.dl(v, "pc", 0, X, c03Byz)
		// the helper and the third see a split vote and give up on the round
		x.dl(h, "pv", 0, "nil", t)
		x.dl(h, "pv", 0, Y, c03Byz)
		x.fire(h, "PrevoteDelay")
		x.dl(t, "pv", 0, X, h)
		x.dl(t, "pv", 0, Y, c03Byz)
		x.fire(t, "PrevoteDelay")
		pcH, pcT := x.ownVote(h, "pc", 0), x.ownVote(t, "pc", 0)
		if pcH != "" && pcT != "" {
			// the victim also learns the nil precommits (an engine that adds up all precommits commits X now)
			x.dl(v, "pc", 0, pcT, t)
			x.dl(h, "pc", 0, pcT, t)
			x.dl(h, "pc", 0, "nil", c03Byz)
			x.dl(t, "pc", 0, pcH, h)
			x.dl(t, "pc", 0, "nil", c03Byz)
			x.dl(v, "pc", 0, pcH, h)
			// round 1
			x.dl(h, "prop", 1, Y, c03Byz)
			x.dl(t, "prop", 1, Y, c03Byz)
			pvH, pvT := x.ownVote(h, "pv", 1), x.ownVote(t, "pv", 1)
			if pvH != "" && pvT != "" {
				x.dl(h, "pv", 1, pvT, t)
				x.dl(h, "pv", 1, Y, c03Byz)
				x.dl(t, "pv", 1, pvH, h)
				x.dl(t, "pv", 1, Y, c03Byz)
				if pc := x.ownVote(t, "pc", 1); pc != "" {
					x.dl(h, "pc", 1, pc, t)
				}
				x.dl(h, "pc", 1, Y, c03Byz)
				if pc := x.ownVote(h, "pc", 1); pc != "" {
					x.dl(t, "pc", 1, pc, h)
				}
				x.dl(t, "pc", 1, Y, c03Byz)
			}
		}
	}
	fins := vc.M{}
	for _, n := range c.nodes {
		fins[fmt.Sprint(n.idx)] = c.observe(n.idx, 1, 1).Fin
	}
	status := "ok"
	if !x.ok {
		status = "stopped"
	}
	r.out.out.Emit(vc.M{"kind": "run", "run": run, "class": "script-" + kind, "steps": len(x.sched), "status": status, "fin": fins})
	r.out.out.Flush()
}

// ---------------------------------------------------------------- entry point

func TestVerifC03Cluster(t *testing.T) {
	if os.Getenv("VERIF_OUT") == "" {
		t.Skip("VERIF_OUT not set")
	}
	tmstate.VerifSetSMHook(func(*tmstate.StateMachine, tmstate.VerifRLC) { c03Bump() })
	out := &c03Out{out: vc.Open("VERIF_OUT"), trace: vc.Open("VERIF_TRACE")}
	if p := os.Getenv("VERIF_PROGRESS"); p != "" {
		f, err := os.OpenFile(p, os.O_CREATE|os.O_WRONLY|os.O_APPEND, 0o644)
		if err != nil {
			t.Fatal(err)
		}
		out.progress = f
		defer f.Close()
	}
	defer out.out.Close()
	defer out.trace.Close()
	c03SettleSamples = vc.EnvInt("VERIF_SETTLE_SAMPLES", 5)
	r := &c03Runner{t: t, out: out, settle: time.Duration(vc.EnvInt("VERIF_SETTLE_MS", 8000)) * time.Millisecond,
		states: map[string]struct{}{}, ops: map[string]int{}}
	from, to := vc.EnvInt("VERIF_FROM", 0), vc.EnvInt("VERIF_TO", 1<<30)
	traceRuns := vc.EnvInt("VERIF_TRACE_RUNS", 1<<30)
	nRuns := 0
	switch os.Getenv("VERIF_MODE") {
	case "replay":
		behs := vc.ReadNDJSON[c03Behaviour]("VERIF_IN")
		for i, b := range behs {
			if i < from || i >= to {
				continue
			}
			b.ID = i
			out.tracing = nRuns < traceRuns
			r.replay(b)
			out.trace.Flush()
			nRuns++
		}
	default:
		seed := int64(vc.EnvInt("VERIF_SEED", 1))
		runs := vc.EnvInt("VERIF_RUNS", 10)
		maxSteps := vc.EnvInt("VERIF_STEPS", 160)
		maxH := uint64(vc.EnvInt("VERIF_MAXH", 2))
		for i := from; i < runs && i < to; i++ {
			powers := []uint64{1, 1, 1, 1}
			if i%3 == 2 {
				powers = []uint64{2, 1, 1, 1}
			}
			out.tracing = nRuns < traceRuns
			if i%10 == 9 || os.Getenv("VERIF_ONLY_SCRIPT") != "" {
				r.scripted(i, seed, []uint64{1, 1, 1, 1})
				out.trace.Flush()
				nRuns++
				continue
			}
			r.random(i, seed, maxSteps, maxH, powers)
			out.trace.Flush()
			nRuns++
		}
	}
	out.out.Emit(vc.M{"kind": "summary", "runs": nRuns, "violations": r.nViol, "distinct_states": len(r.states), "ops": r.ops})
	out.out.Flush()
}

var _ tmstore.ActionStore = (*tmmemstore.ActionStore)(nil)
