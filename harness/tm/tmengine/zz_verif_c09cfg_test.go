package tmengine_test

// C09 (configuration clause) conformance harness, overlaid into /repo/tm/tmengine by
// /verif/checks/c09_config.py.  spec -> code: every option sequence enumerated by TLC from
// spec/Config.tla (ConfigMC) is turned into the real []tmengine.Opt and handed to the real
// tmengine.New / tmengine.NewMirror inside recover(); the outcome {instance, error(text),
// panic(text)} is classified, the predicates NoPanic / ErrorListsEveryRejectedOption /
// InstanceOnlyIfComplete are evaluated on it, and it is compared with the outcome the spec
// expects (design) and with the outcome of the as-is deviation model.
//
// The test runs in a child process: a "b <id>" line is written (unbuffered) to $VERIF_PROGRESS
// before every case, so that a panic in a goroutine spawned by a constructor is attributable.

import (
	"bytes"
	"context"
	"fmt"
	"io"
	"log/slog"
	"os"
	"regexp"
	"runtime/debug"
	"sort"
	"strings"
	"testing"
	"time"

	"github.com/gordian-engine/gordian/gassert/gasserttest"
	"github.com/gordian-engine/gordian/gwatchdog"
	vc "github.com/gordian-engine/gordian/internal/verifcommon"
	"github.com/gordian-engine/gordian/tm/tmconsensus"
	"github.com/gordian-engine/gordian/tm/tmconsensus/tmconsensustest"
	"github.com/gordian-engine/gordian/tm/tmdriver"
	"github.com/gordian-engine/gordian/tm/tmengine"
	"github.com/gordian-engine/gordian/tm/tmengine/internal/tmstate"
	"github.com/gordian-engine/gordian/tm/tmengine/internal/tmstate/tmstatetest"
	"github.com/gordian-engine/gordian/tm/tmengine/tmelink"
	"github.com/gordian-engine/gordian/tm/tmgossip/tmgossiptest"
	"github.com/gordian-engine/gordian/tm/tmstore/tmmemstore"
)

type c09Case struct {
	ID    int        `json:"id"`
	Ctor  string     `json:"ctor"`  // "engine" | "mirror"
	World string     `json:"world"` // "fresh" | "init" (stores already hold an initialized chain)
	Opts  [][]string `json:"opts"`  // [[OptName without "With", value class], ...] in application order
	// Requirement exported by the spec: outcome kind, option names an error has to mention (all of
	// them) and names of which it has to mention at least one.  Two variants: the real
	// WithTimeoutStrategy refuses nil (Exp/All/Any) or accepts it (Exp0/All0/Any0).
	Exp  string   `json:"exp"`
	All  []string `json:"all"`
	Any  []string `json:"any"`
	Exp0 string   `json:"exp0"`
	All0 []string `json:"all0"`
	Any0 []string `json:"any0"`
	AsOut string     `json:"as_out"`
	AsMen []string   `json:"as_men"`
}

// ---------------------------------------------------------------- stubs

type c09Strategy struct{ entered chan struct{} }

func (s *c09Strategy) EnterRound(ctx context.Context, rv tmconsensus.RoundView, proposalOut chan<- tmconsensus.Proposal) error {
	select {
	case s.entered <- struct{}{}:
	default:
	}
	return nil
}
func (s *c09Strategy) ConsiderProposedBlocks(ctx context.Context, phs []tmconsensus.ProposedHeader, _ tmconsensus.ConsiderProposedBlocksReason) (string, error) {
	return "", tmconsensus.ErrProposedBlockChoiceNotReady
}
func (s *c09Strategy) ChooseProposedBlock(ctx context.Context, phs []tmconsensus.ProposedHeader) (string, error) {
	return "", nil
}
func (s *c09Strategy) DecidePrecommit(ctx context.Context, vs tmconsensus.VoteSummary) (string, error) {
	return "", nil
}

type c09Timeouts struct{}

func (c09Timeouts) ProposalTimeout(uint64, uint32) time.Duration       { return time.Hour }
func (c09Timeouts) PrevoteDelayTimeout(uint64, uint32) time.Duration   { return time.Hour }
func (c09Timeouts) PrecommitDelayTimeout(uint64, uint32) time.Duration { return time.Hour }
func (c09Timeouts) CommitWaitTimeout(uint64, uint32) time.Duration     { return time.Hour }

// ---------------------------------------------------------------- one world (stores + channels) per case

// c09Commit holds the messages that commit the first block of the fixture's chain.
type c09Commit struct {
	ph         tmconsensus.ProposedHeader
	precommits tmconsensus.PrecommitSparseProof
}

func newC09Commit(fx *tmconsensustest.Fixture) *c09Commit {
	ctx := context.Background()
	ph := fx.NextProposedHeader([]byte("app_data_1"), 0)
	fx.SignProposal(ctx, &ph, 0)
	all := make([]int, len(fx.PrivVals))
	for i := range all {
		all[i] = i
	}
	full := fx.PrecommitProofMap(ctx, 1, 0, map[string][]int{string(ph.Header.Hash): all})
	sp, err := tmconsensus.PrecommitSparseProofFromFullProof(1, 0, full)
	if err != nil {
		panic(err)
	}
	return &c09Commit{ph: ph, precommits: sp}
}

type c09World struct {
	fx     *tmconsensustest.Fixture
	log    *slog.Logger
	commit *c09Commit

	ctx    context.Context
	cancel context.CancelFunc
	wd     *gwatchdog.Watchdog
	wctx   context.Context

	as  *tmmemstore.ActionStore
	chs *tmmemstore.CommittedHeaderStore
	fs  *tmmemstore.FinalizationStore
	ms  *tmmemstore.MirrorStore
	rs  *tmmemstore.RoundStore
	sms *tmmemstore.StateMachineStore
	vs  *tmmemstore.ValidatorStore

	strat   *c09Strategy
	initCh  chan tmdriver.InitChainRequest
	finCh   chan tmdriver.FinalizeBlockRequest
	lagCh   chan tmelink.LagState
	metCh   chan tmengine.Metrics
	bdaCh   chan tmelink.BlockDataArrival
	replCh  chan tmelink.ReplayedHeaderRequest
}

func newC09World(fx *tmconsensustest.Fixture, log *slog.Logger) *c09World {
	w := &c09World{fx: fx, log: log}
	w.ctx, w.cancel = context.WithCancel(context.Background())
	w.wd, w.wctx = gwatchdog.NewNopWatchdog(w.ctx, log)
	w.as = tmmemstore.NewActionStore()
	w.chs = tmmemstore.NewCommittedHeaderStore()
	w.fs = tmmemstore.NewFinalizationStore()
	w.ms = tmmemstore.NewMirrorStore()
	w.rs = tmmemstore.NewRoundStore()
	w.sms = tmmemstore.NewStateMachineStore()
	w.vs = fx.NewMemValidatorStore()
	w.strat = &c09Strategy{entered: make(chan struct{}, 1)}
	w.initCh = make(chan tmdriver.InitChainRequest, 1)
	w.finCh = make(chan tmdriver.FinalizeBlockRequest, 1)
	w.lagCh = make(chan tmelink.LagState)
	w.metCh = make(chan tmengine.Metrics)
	w.bdaCh = make(chan tmelink.BlockDataArrival)
	w.replCh = make(chan tmelink.ReplayedHeaderRequest)
	// The application side: answers InitChain, drains the output channels.
	ctx, initCh, lagCh, metCh, finCh := w.ctx, w.initCh, w.lagCh, w.metCh, w.finCh
	go func() {
		for {
			select {
			case <-ctx.Done():
				return
			case req, ok := <-initCh:
				if !ok {
					initCh = nil
					continue
				}
				select {
				case req.Resp <- tmdriver.InitChainResponse{AppStateHash: []byte("app_state_0")}:
				case <-ctx.Done():
					return
				}
			case <-lagCh:
			case <-metCh:
			case <-finCh:
			}
		}
	}()
	return w
}

func (w *c09World) genesis(class string) *tmconsensus.ExternalGenesis {
	switch class {
	case "ok":
		return &tmconsensus.ExternalGenesis{ChainID: "my-chain", InitialHeight: 1,
			InitialAppState: new(bytes.Buffer), GenesisValidatorSet: w.fx.ValSet()}
	case "zero":
		return &tmconsensus.ExternalGenesis{}
	case "novals":
		return &tmconsensus.ExternalGenesis{ChainID: "my-chain", InitialHeight: 1, InitialAppState: new(bytes.Buffer)}
	case "h0":
		return &tmconsensus.ExternalGenesis{ChainID: "my-chain", InitialHeight: 0,
			InitialAppState: new(bytes.Buffer), GenesisValidatorSet: w.fx.ValSet()}
	}
	return nil
}

// opt builds the real option for (name, value class).  Class "nil" is the untyped nil of the
// parameter type; "ok" the fixture value; other classes are specific to the option.
func (w *c09World) opt(name, class string) (tmengine.Opt, error) {
	isNil := class == "nil"
	switch name {
	case "Genesis":
		return tmengine.WithGenesis(w.genesis(class)), nil
	case "CommittedHeaderStore":
		if isNil {
			return tmengine.WithCommittedHeaderStore(nil), nil
		}
		return tmengine.WithCommittedHeaderStore(w.chs), nil
	case "FinalizationStore":
		if isNil {
			return tmengine.WithFinalizationStore(nil), nil
		}
		return tmengine.WithFinalizationStore(w.fs), nil
	case "MirrorStore":
		if isNil {
			return tmengine.WithMirrorStore(nil), nil
		}
		return tmengine.WithMirrorStore(w.ms), nil
	case "RoundStore":
		if isNil {
			return tmengine.WithRoundStore(nil), nil
		}
		return tmengine.WithRoundStore(w.rs), nil
	case "StateMachineStore":
		if isNil {
			return tmengine.WithStateMachineStore(nil), nil
		}
		return tmengine.WithStateMachineStore(w.sms), nil
	case "ValidatorStore":
		if isNil {
			return tmengine.WithValidatorStore(nil), nil
		}
		return tmengine.WithValidatorStore(w.vs), nil
	case "ActionStore":
		if isNil {
			return tmengine.WithActionStore(nil), nil
		}
		return tmengine.WithActionStore(w.as), nil
	case "HashScheme":
		if isNil {
			return tmengine.WithHashScheme(nil), nil
		}
		return tmengine.WithHashScheme(w.fx.HashScheme), nil
	case "SignatureScheme":
		if isNil {
			return tmengine.WithSignatureScheme(nil), nil
		}
		return tmengine.WithSignatureScheme(w.fx.SignatureScheme), nil
	case "CommonMessageSignatureProofScheme":
		if isNil {
			return tmengine.WithCommonMessageSignatureProofScheme(nil), nil
		}
		return tmengine.WithCommonMessageSignatureProofScheme(w.fx.CommonMessageSignatureProofScheme), nil
	case "GossipStrategy":
		if isNil {
			return tmengine.WithGossipStrategy(nil), nil
		}
		return tmengine.WithGossipStrategy(tmgossiptest.NewPassThroughStrategy()), nil
	case "ConsensusStrategy":
		if isNil {
			return tmengine.WithConsensusStrategy(nil), nil
		}
		return tmengine.WithConsensusStrategy(w.strat), nil
	case "Signer":
		if isNil {
			return tmengine.WithSigner(nil), nil
		}
		return tmengine.WithSigner(tmconsensus.PassthroughSigner{
			Signer: w.fx.PrivVals[0].Signer, SignatureScheme: w.fx.SignatureScheme}), nil
	case "InitChainChannel":
		if isNil {
			return tmengine.WithInitChainChannel(nil), nil
		}
		return tmengine.WithInitChainChannel(w.initCh), nil
	case "BlockFinalizationChannel":
		if isNil {
			return tmengine.WithBlockFinalizationChannel(nil), nil
		}
		return tmengine.WithBlockFinalizationChannel(w.finCh), nil
	case "BlockDataArrivalChannel":
		if isNil {
			return tmengine.WithBlockDataArrivalChannel(nil), nil
		}
		return tmengine.WithBlockDataArrivalChannel(w.bdaCh), nil
	case "LagStateChannel":
		switch class {
		case "nil":
			return tmengine.WithLagStateChannel(nil), nil
		case "buffered":
			return tmengine.WithLagStateChannel(make(chan tmelink.LagState, 1)), nil
		}
		return tmengine.WithLagStateChannel(w.lagCh), nil
	case "ProposedHeaderInterceptor":
		if isNil {
			return tmengine.WithProposedHeaderInterceptor(nil), nil
		}
		return tmengine.WithProposedHeaderInterceptor(tmelink.ProposedHeaderInterceptorFunc(
			func(context.Context, *tmconsensus.ProposedHeader) error { return nil })), nil
	case "ReplayedHeaderRequestChannel":
		if isNil {
			return tmengine.WithReplayedHeaderRequestChannel(nil), nil
		}
		return tmengine.WithReplayedHeaderRequestChannel(w.replCh), nil
	case "InternalRoundTimer":
		if isNil {
			return tmengine.WithInternalRoundTimer(nil), nil
		}
		return tmengine.WithInternalRoundTimer(new(tmstatetest.MockRoundTimer)), nil
	case "TimeoutStrategy":
		if isNil {
			return tmengine.WithTimeoutStrategy(w.ctx, nil), nil
		}
		return tmengine.WithTimeoutStrategy(w.ctx, c09Timeouts{}), nil
	case "Watchdog":
		if isNil {
			return tmengine.WithWatchdog(nil), nil
		}
		return tmengine.WithWatchdog(w.wd), nil
	case "MetricsChannel":
		switch class {
		case "nil":
			return tmengine.WithMetricsChannel(nil), nil
		case "nonempty":
			ch := make(chan tmengine.Metrics, 1)
			ch <- tmengine.Metrics{}
			return tmengine.WithMetricsChannel(ch), nil
		}
		return tmengine.WithMetricsChannel(w.metCh), nil
	case "AssertEnv":
		return tmengine.WithAssertEnv(gasserttest.DefaultEnv()), nil
	}
	return nil, fmt.Errorf("harness: unknown option %q", name)
}

// ---------------------------------------------------------------- outcome

type c09Outcome struct {
	Kind     string   // "instance" | "error" | "panic"
	Text     string   // error or panic text
	Mentions []string // option names (without "With") found in Text
	PSite    string   // first non-runtime frame of a panic
	Probe    string   // result of the liveness probe on an instance
	Committed bool    // the instance accepted a proposed header and a full precommit for the initial height
	NonNilOnErr bool  // constructor returned a non-nil instance together with an error
	WaitOK   bool
}

var c09WithRe = regexp.MustCompile(`With([A-Za-z]+)`)
var c09OptFrameRe = regexp.MustCompile(`\.(With[A-Za-z]+)\.func\d+`)
var c09FrameRe = regexp.MustCompile(`(?m)^([^\s].*)\(.*\)$`)

func c09Mentions(text string) []string {
	set := map[string]bool{}
	for _, m := range c09WithRe.FindAllStringSubmatch(text, -1) {
		set[m[1]] = true
	}
	out := make([]string, 0, len(set))
	for k := range set {
		out = append(out, k)
	}
	sort.Strings(out)
	return out
}

func c09PanicSite(stack string) string {
	for _, m := range c09FrameRe.FindAllStringSubmatch(stack, -1) {
		fn := m[1]
		if strings.HasPrefix(fn, "runtime") || strings.HasPrefix(fn, "panic") ||
			strings.HasPrefix(fn, "goroutine ") || strings.HasPrefix(fn, "testing.") {
			continue
		}
		// Option closures are inlined into the harness' own opt(): "...(*c09World).opt.WithHashScheme.func18".
		if w := c09OptFrameRe.FindStringSubmatch(fn); w != nil {
			return "tmengine." + w[1]
		}
		if strings.Contains(fn, "c09") {
			continue
		}
		if i := strings.LastIndex(fn, "/"); i >= 0 {
			fn = fn[i+1:]
		}
		return fn
	}
	return "?"
}

type c09Waiter interface{ Wait() }

func c09WaitTimeout(w c09Waiter, d time.Duration) bool {
	done := make(chan struct{})
	go func() { w.Wait(); close(done) }()
	select {
	case <-done:
		return true
	case <-time.After(d):
		return false
	}
}

func c09Construct(w *c09World, c c09Case, opts []tmengine.Opt, settle time.Duration) (o c09Outcome) {
	var inst c09Waiter
	var handler tmconsensus.FineGrainedConsensusHandler
	func() {
		defer func() {
			if r := recover(); r != nil {
				o.Kind = "panic"
				o.Text = fmt.Sprint(r)
				st := string(debug.Stack())
				o.PSite = c09PanicSite(st)
				if os.Getenv("VERIF_DEBUG_STACK") != "" {
					fmt.Fprintln(os.Stderr, st)
				}
			}
		}()
		var err error
		if c.Ctor == "engine" {
			var e *tmengine.Engine
			e, err = tmengine.New(w.wctx, w.log, opts...)
			if e != nil {
				inst, handler = e, e
			}
		} else {
			var m tmengine.Mirror
			m, err = tmengine.NewMirror(w.wctx, w.log, opts...)
			if m != nil {
				inst, handler = m, m
			}
		}
		if err != nil {
			o.Kind = "error"
			o.Text = err.Error()
			o.Mentions = c09Mentions(o.Text)
			o.NonNilOnErr = inst != nil
			return
		}
		if inst == nil {
			o.Kind = "error"
			o.Text = "(nil instance and nil error)"
			return
		}
		o.Kind = "instance"
	}()
	if o.Kind == "instance" {
		// "keeps running": give the goroutines started by the constructor the chance to take their
		// first steps (the state machine enters its first round and arms its timer), then require a
		// defined answer from a handler call.
		if c.Ctor == "engine" {
			select {
			case <-w.strat.entered:
			case <-time.After(settle):
			}
		}
		if settle > 0 {
			time.Sleep(settle / 10)
		}
		func() {
			defer func() {
				if r := recover(); r != nil {
					o.Kind = "panic"
					o.Text = "liveness probe: " + fmt.Sprint(r)
					o.PSite = c09PanicSite(string(debug.Stack()))
				}
			}()
			pctx, pc := context.WithTimeout(w.ctx, 20*time.Second)
			defer pc()
			r := handler.HandlePrevoteProofs(pctx, tmconsensus.PrevoteSparseProof{Height: 1, Round: 0})
			o.Probe = r.String()
			if r == 0 {
				o.Probe = "undefined(0)"
				return
			}
			// ... and survives its first commit: a proposed header for the initial height and the
			// precommits of all validators make the mirror kernel shift voting -> committing.
			if w.commit != nil {
				r1 := handler.HandleProposedHeader(pctx, w.commit.ph)
				r2 := handler.HandlePrecommitProofs(pctx, w.commit.precommits)
				o.Probe += "/" + r1.String() + "/" + r2.String()
				o.Committed = r1 == tmconsensus.HandleProposedHeaderAccepted && r2 == tmconsensus.HandleVoteProofsAccepted
				// One more round trip through the kernel's single goroutine (the pre-check of a proposed
				// header is answered by the kernel; an empty vote message would be refused before reaching
				// it): when this returns, the iteration that added the precommits -- including the shift
				// and the write to the committed header store -- is over.
				r3 := handler.HandleProposedHeader(pctx, w.commit.ph)
				o.Probe += "/" + r3.String()
			}
		}()
	}
	w.cancel()
	o.WaitOK = true
	if inst != nil && o.Kind != "panic" {
		o.WaitOK = c09WaitTimeout(inst, 60*time.Second)
	}
	w.wd.Wait()
	return o
}

// initializeWorld runs one complete engine on the world's stores and stops it, so that the stores
// hold an initialized chain; a fresh context is installed afterwards.
func c09InitializeWorld(w *c09World) error {
	names := []string{"Genesis", "CommittedHeaderStore", "FinalizationStore", "MirrorStore", "RoundStore",
		"StateMachineStore", "ValidatorStore", "HashScheme", "SignatureScheme", "CommonMessageSignatureProofScheme",
		"GossipStrategy", "ConsensusStrategy", "InitChainChannel", "BlockFinalizationChannel", "InternalRoundTimer", "Watchdog"}
	var opts []tmengine.Opt
	for _, n := range names {
		o, _ := w.opt(n, "ok")
		opts = append(opts, o)
	}
	e, err := tmengine.New(w.wctx, w.log, opts...)
	if err != nil {
		return err
	}
	select {
	case <-w.strat.entered:
	case <-time.After(5 * time.Second):
	}
	w.cancel()
	e.Wait()
	w.wd.Wait()
	// new lifetime on the same stores
	w2 := newC09World(w.fx, w.log)
	w2.as, w2.chs, w2.fs, w2.ms, w2.rs, w2.sms, w2.vs = w.as, w.chs, w.fs, w.ms, w.rs, w.sms, w.vs
	w2.commit = w.commit
	*w = *w2
	return nil
}

// c09OptRejects applies one option function to a scratch engine and state machine configuration.
func c09OptRejects(o tmengine.Opt) (rejects bool) {
	defer func() {
		if r := recover(); r != nil {
			rejects = false
		}
	}()
	return o(new(tmengine.Engine), new(tmstate.StateMachineConfig)) != nil
}

func c09SetEq(a, b []string) bool {
	if len(a) != len(b) {
		return false
	}
	m := map[string]bool{}
	for _, x := range a {
		m[x] = true
	}
	for _, x := range b {
		if !m[x] {
			return false
		}
	}
	return true
}

func TestVerifC09Config(t *testing.T) {
	cases := vc.ReadNDJSON[c09Case]("VERIF_IN")
	out := vc.Open("VERIF_OUT")
	defer out.Close()
	var prog *os.File
	if p := os.Getenv("VERIF_PROGRESS"); p != "" {
		var err error
		prog, err = os.OpenFile(p, os.O_CREATE|os.O_WRONLY|os.O_APPEND, 0o644)
		if err != nil {
			t.Fatal(err)
		}
		defer prog.Close()
	}
	settle := time.Duration(vc.EnvInt("VERIF_SETTLE_MS", 50)) * time.Millisecond
	skip := map[int]bool{}
	for _, s := range strings.Split(os.Getenv("VERIF_SKIP"), ",") {
		var id int
		if _, err := fmt.Sscan(s, &id); err == nil {
			skip[id] = true
		}
	}
	from := vc.EnvInt("VERIF_FROM", 0) // resume: skip ids < from

	fx := tmconsensustest.NewEd25519Fixture(4)
	log := slog.New(slog.NewTextHandler(io.Discard, nil))
	var commit *c09Commit
	if os.Getenv("VERIF_NO_COMMIT_PROBE") == "" {
		commit = newC09Commit(fx)
	}

	counts := map[string]int{}
	sigs := map[string]bool{}
	n := 0
	for _, c := range cases {
		if c.ID < from || skip[c.ID] {
			continue
		}
		if prog != nil {
			fmt.Fprintf(prog, "b %d\n", c.ID)
		}
		w := newC09World(fx, log)
		w.commit = commit
		if c.World == "init" {
			if err := c09InitializeWorld(w); err != nil {
				out.Emit(vc.M{"kind": "harness-error", "id": c.ID, "what": "initialize world: " + err.Error()})
				w.cancel()
				continue
			}
		}
		opts := make([]tmengine.Opt, 0, len(c.Opts))
		bad := ""
		lastRejects := false
		var optRej []string // options whose function, applied on its own to a scratch configuration, returns an error
		for _, ov := range c.Opts {
			o, err := w.opt(ov[0], ov[1])
			if err != nil {
				bad = err.Error()
				break
			}
			opts = append(opts, o)
			if c09OptRejects(o) {
				optRej = append(optRej, ov[0])
				lastRejects = len(opts) == len(c.Opts)
			}
		}
		if bad != "" {
			out.Emit(vc.M{"kind": "harness-error", "id": c.ID, "what": bad})
			w.cancel()
			continue
		}
		o := c09Construct(w, c, opts, settle)
		n++
		counts[c.Ctor+":"+o.Kind]++
		sig := c.Ctor + "|" + o.Kind + "|" + strings.Join(o.Mentions, ",") + "|" + o.PSite
		if o.Committed {
			sig += "|committed"
		}
		sigs[sig] = true
		if prog != nil {
			fmt.Fprintf(prog, "e %d %s\n", c.ID, sig)
		}

		// ---- the requirement variant that matches what the real option functions do
		exp, all, any := c.Exp, c.All, c.Any
		tsNil, tsRejected := false, false
		for _, ov := range c.Opts {
			if ov[0] == "TimeoutStrategy" && ov[1] == "nil" {
				tsNil = true
			}
		}
		for _, r := range optRej {
			if r == "TimeoutStrategy" {
				tsRejected = true
			}
		}
		if tsNil && !tsRejected {
			exp, all, any = c.Exp0, c.All0, c.Any0
		}
		// ---- predicates on the real outcome
		var viol []string
		var lost []string    // names of `all` the error does not mention / that an instance ignores
		var lostAny []string // `any` when none of them is mentioned
		switch o.Kind {
		case "panic":
			viol = append(viol, "NoPanic")
		case "instance":
			if exp != "instance" {
				viol = append(viol, "InstanceOnlyIfComplete")
				lost, lostAny = all, any
			}
			if o.Probe == "undefined(0)" {
				viol = append(viol, "InstanceKeepsRunning")
			}
		case "error":
			men := map[string]bool{}
			for _, m := range o.Mentions {
				men[m] = true
			}
			for _, m := range all {
				if !men[m] {
					lost = append(lost, m)
				}
			}
			hit := len(any) == 0
			for _, m := range any {
				hit = hit || men[m]
			}
			if !hit {
				lostAny = any
			}
			if len(lost) > 0 || !hit {
				viol = append(viol, "ErrorListsEveryRejectedOption")
			}
		}
		matchesDesign := o.Kind == exp && len(viol) == 0
		matchesAsis := o.Kind == c.AsOut && (o.Kind != "error" || c09SetEq(o.Mentions, c.AsMen))
		if len(viol) > 0 || !matchesDesign || !o.WaitOK || o.NonNilOnErr {
			out.Emit(vc.M{"kind": "case", "id": c.ID, "ctor": c.Ctor, "outcome": o.Kind, "text": o.Text,
				"mentions": o.Mentions, "psite": o.PSite, "viol": viol, "lost": lost, "lost_any": lostAny, "exp": exp,
				"design": matchesDesign, "asis": matchesAsis, "wait_ok": o.WaitOK, "probe": o.Probe, "committed": o.Committed,
				"nonnil_on_err": o.NonNilOnErr, "optrej": optRej, "last_rejects": lastRejects})
			out.Flush()
		}
	}
	sl := make([]string, 0, len(sigs))
	for s := range sigs {
		sl = append(sl, s)
	}
	sort.Strings(sl)
	out.Emit(vc.M{"kind": "summary", "cases": n, "counts": counts, "distinct_outcomes": len(sl), "outcome_sigs": sl})
}
