//go:build verif

package tmstate

// Access to the round lifecycle for the /verif conformance harness.
// Overlaid into the package by `go test -overlay`; not part of gordian.

import (
	"github.com/gordian-engine/gordian/tm/tmengine/internal/tmstate/internal/tsi"
)

// VerifRLC is the projection of tsi.RoundLifecycle the harness compares with spec/StateMachine.tla.
type VerifRLC struct {
	Ev string

	H uint64
	R uint32
	S string

	TimerArmed bool

	PropCh, PrevoteCh, PrecommitCh, FinCh, HCOpen bool

	Finalized, CWElapsed, Replaying bool

	VRVVer uint32
	VRVH   uint64
	VRVR   uint32
}

var verifStepNames = map[tsi.Step]string{
	tsi.StepInvalid:              "none",
	tsi.StepAwaitingProposal:     "AwaitingProposal",
	tsi.StepAwaitingPrevotes:     "AwaitingPrevotes",
	tsi.StepPrevoteDelay:         "PrevoteDelay",
	tsi.StepAwaitingPrecommits:   "AwaitingPrecommits",
	tsi.StepPrecommitDelay:       "PrecommitDelay",
	tsi.StepCommitWait:           "CommitWait",
	tsi.StepAwaitingFinalization: "AwaitingFinalization",
}

// VerifSetSMHook installs cb as the state machine trace hook (nil removes it).
func VerifSetSMHook(cb func(m *StateMachine, st VerifRLC)) {
	if cb == nil {
		verifSMHook = nil
		return
	}
	verifSMHook = func(m *StateMachine, ev string, rlc *tsi.RoundLifecycle) {
		st := VerifRLC{
			Ev: ev,
			H:  rlc.H, R: rlc.R, S: verifStepNames[rlc.S],
			TimerArmed:  rlc.StepTimer != nil,
			PropCh:      rlc.ProposalCh != nil,
			PrevoteCh:   rlc.PrevoteHashCh != nil,
			PrecommitCh: rlc.PrecommitHashCh != nil,
			FinCh:       rlc.FinalizeRespCh != nil,
			HCOpen:      rlc.HeightCommitted != nil,
			Finalized:   len(rlc.FinalizedValSet.Validators) > 0,
			CWElapsed:   rlc.CommitWaitElapsed,
			Replaying:   rlc.IsReplaying(),
		}
		if rlc.VRV != nil {
			st.VRVVer, st.VRVH, st.VRVR = rlc.VRV.Version, rlc.VRV.Height, rlc.VRV.Round
		}
		cb(m, st)
	}
}
