//go:build verif

package tmstate

// Invariant monitor for executions of the repository's own tests (code -> spec direction) of the round
// state machine: when $VERIF_SM_MONITOR_OUT is set, every StateMachine of the process evaluates, at each of
// its trace points (inside the state machine goroutine, at the end of every handled event), the predicates of
// spec/StateMachineMC.tla that can be stated on the RoundLifecycle alone:
//
//	C08_PosForward        (height, round) never moves backwards
//	C08_StepForward       within one (height, round) the step never moves backwards
//	C08_FinStepHasElapsed AwaitingFinalization implies the commit wait has elapsed
//	C12_ArmedIffTimed     a step timer is outstanding exactly in the timed steps (never while replaying)
//
// TLC checks the same formulas on the model (checks/c08.py, checks/c12.py design stage).
// Overlaid into the package by `go test -overlay`; not part of gordian.

import (
	"encoding/json"
	"fmt"
	"os"
	"sync"

	"github.com/gordian-engine/gordian/tm/tmengine/internal/tmstate/internal/tsi"
)

type verifSMMon struct {
	mu       sync.Mutex
	f        *os.File
	last     map[*StateMachine]verifSMPos
	events   uint64
	reported map[string]int
}

type verifSMPos struct {
	H         uint64
	R         uint32
	S         tsi.Step
	Replaying bool
}

var verifSMMonitor *verifSMMon

func init() {
	p := os.Getenv("VERIF_SM_MONITOR_OUT")
	if p == "" {
		return
	}
	f, err := os.OpenFile(p, os.O_CREATE|os.O_WRONLY|os.O_APPEND, 0o644)
	if err != nil {
		panic(err)
	}
	verifSMMonitor = &verifSMMon{f: f, last: map[*StateMachine]verifSMPos{}, reported: map[string]int{}}
	prev := verifSMHook
	verifSMHook = func(m *StateMachine, ev string, rlc *tsi.RoundLifecycle) {
		verifSMMonitor.check(m, ev, rlc)
		if prev != nil {
			prev(m, ev, rlc)
		}
	}
}

func (mon *verifSMMon) emit(rec map[string]any) {
	b, _ := json.Marshal(rec)
	mon.f.Write(append(b, '\n'))
}

func (mon *verifSMMon) viol(prop, pred, class, what string) {
	key := prop + pred + class
	mon.reported[key]++
	if mon.reported[key] > 3 {
		return
	}
	mon.emit(map[string]any{"kind": "violation", "prop": prop, "pred": pred, "site": "suite", "class": class, "what": what})
}

func verifTimedStep(s tsi.Step) bool {
	switch s {
	case tsi.StepAwaitingProposal, tsi.StepPrevoteDelay, tsi.StepPrecommitDelay, tsi.StepCommitWait:
		return true
	}
	return false
}

func (mon *verifSMMon) check(m *StateMachine, ev string, rlc *tsi.RoundLifecycle) {
	mon.mu.Lock()
	defer mon.mu.Unlock()
	mon.events++
	if mon.events%50 == 0 {
		mon.emit(map[string]any{"kind": "progress", "pid": os.Getpid(), "events": mon.events, "machines": len(mon.last)})
	}
	if rlc.Ctx != nil && rlc.Ctx.Err() != nil {
		// the state machine is being shut down: a handler that gave up half way (cancelled round entrance) is not judged
		return
	}
	cur := verifSMPos{H: rlc.H, R: rlc.R, S: rlc.S, Replaying: rlc.IsReplaying()}
	if last, ok := mon.last[m]; ok {
		if cur.H < last.H || (cur.H == last.H && cur.R < last.R) {
			mon.viol("C08", "PosForward", ev, fmt.Sprintf("the state machine moved from %d/%d to %d/%d", last.H, last.R, cur.H, cur.R))
		}
		if cur.H == last.H && cur.R == last.R && !cur.Replaying && !last.Replaying && cur.S < last.S {
			mon.viol("C08", "StepForward", ev+":"+last.S.String()+">"+cur.S.String(),
				fmt.Sprintf("in %d/%d the step went back from %s to %s", cur.H, cur.R, last.S, cur.S))
		}
	} else {
		mon.emit(map[string]any{"kind": "machine"})
	}
	mon.last[m] = cur

	if !cur.Replaying && cur.S == tsi.StepAwaitingFinalization && !rlc.CommitWaitElapsed {
		mon.viol("C08", "FinStepHasElapsed", ev, fmt.Sprintf("in %d/%d the step is AwaitingFinalization but the commit wait has not elapsed", cur.H, cur.R))
	}

	armed := rlc.StepTimer != nil
	if cur.Replaying {
		if armed {
			mon.viol("C12", "ArmedIffTimedStep", ev+":replaying:armed", fmt.Sprintf("a step timer is outstanding at %d/%d while the state machine is replaying", cur.H, cur.R))
		}
	} else if armed != verifTimedStep(cur.S) {
		mon.viol("C12", "ArmedIffTimedStep", ev+":"+cur.S.String()+fmt.Sprintf(":armed=%v", armed),
			fmt.Sprintf("after %s in %d/%d the step is %s and a step timer outstanding is %v", ev, cur.H, cur.R, cur.S, armed))
	}
	if (rlc.StepTimer == nil) != (rlc.CancelTimer == nil) {
		mon.viol("C12", "TimerAndCancelTogether", ev, fmt.Sprintf("at %d/%d step %s: StepTimer nil=%v, CancelTimer nil=%v", cur.H, cur.R, cur.S, rlc.StepTimer == nil, rlc.CancelTimer == nil))
	}
}
