package tmstate_test

// Replay of TLC-generated behaviours of spec/StateMachine.tla on the real tmstate.StateMachine.
// The harness plays every collaborator: mirror (round entrances, view updates, height-committed),
// consensus strategy (blocking calls released by the behaviour), round timer, driver, stores, signer.
// After every macro step the rlc projection and the multiset of outputs are compared with the spec,
// and the predicates of C02, C08 and C12(a) are evaluated on what the real code did.
// Overlaid into /repo by /verif/bin/check; not part of gordian.

import (
	"context"
	"encoding/json"
	"fmt"
	"io"
	"log/slog"
	"os"
	"runtime"
	"sort"
	"strings"
	"sync"
	"sync/atomic"
	"testing"
	"time"

	"github.com/gordian-engine/gordian/gassert/gasserttest"
	"github.com/gordian-engine/gordian/gcrypto"
	"github.com/gordian-engine/gordian/gwatchdog"
	vc "github.com/gordian-engine/gordian/internal/verifcommon"
	"github.com/gordian-engine/gordian/tm/tmconsensus"
	"github.com/gordian-engine/gordian/tm/tmdriver"
	"github.com/gordian-engine/gordian/tm/tmengine/internal/tmeil"
	"github.com/gordian-engine/gordian/tm/tmengine/internal/tmstate"
	"github.com/gordian-engine/gordian/tm/tmengine/tmelink"
	"github.com/gordian-engine/gordian/tm/tmstore"
	"github.com/gordian-engine/gordian/tm/tmstore/tmmemstore"
)

type M = map[string]any

var smSeq atomic.Uint64

// ---------------------------------------------------------------- output recorder

type recorder struct {
	mu  sync.Mutex
	out []M
}

func (r *recorder) add(m M) {
	m["_seq"] = smSeq.Add(1)
	r.mu.Lock()
	r.out = append(r.out, m)
	r.mu.Unlock()
}

func (r *recorder) take() []M {
	r.mu.Lock()
	defer r.mu.Unlock()
	o := r.out
	r.out = nil
	return o
}

// ---------------------------------------------------------------- behaviour format

type smStep struct {
	Op    string            `json:"op"`
	Args  json.RawMessage   `json:"args"`
	Resps []json.RawMessage `json:"resps"`
	Crash bool              `json:"crash"`
	Pan   string            `json:"pan"`
	Stop  bool              `json:"stop"`
	O     []M               `json:"o"`
	Exp   json.RawMessage   `json:"exp"`
}

type smBehaviour struct {
	ID    int      `json:"id"`
	Steps []smStep `json:"steps"`
}

type absView struct {
	H   uint64           `json:"h"`
	R   uint32           `json:"r"`
	Ver uint32           `json:"ver"`
	Phs []string         `json:"phs"`
	Pv  map[string][]int `json:"-"`
	Pc  map[string][]int `json:"-"`
}

func decodeVoteMap(raw json.RawMessage) map[string][]int {
	out := map[string][]int{}
	if len(raw) == 0 || raw[0] == '[' {
		return out
	}
	if err := json.Unmarshal(raw, &out); err != nil {
		panic(err)
	}
	return out
}

func (v *absView) UnmarshalJSON(b []byte) error {
	var t struct {
		H   uint64          `json:"h"`
		R   uint32          `json:"r"`
		Ver uint32          `json:"ver"`
		Phs []string        `json:"phs"`
		Pv  json.RawMessage `json:"pv"`
		Pc  json.RawMessage `json:"pc"`
	}
	if err := json.Unmarshal(b, &t); err != nil {
		return err
	}
	v.H, v.R, v.Ver, v.Phs, v.Pv, v.Pc = t.H, t.R, t.Ver, t.Phs, decodeVoteMap(t.Pv), decodeVoteMap(t.Pc)
	return nil
}

type entranceResp struct {
	Kind  string  `json:"kind"`
	V     absView `json:"v"`
	Block string  `json:"block"`
	R     uint32  `json:"r"`
	// the strategy is still inside a call made for the round that was left; it returns this answer right after the
	// round entrance has been answered (StateMachineMC.tla: LATE STRATEGY ANSWER)
	Late string `json:"late"`
}

type delta struct {
	K  string `json:"k"`
	B  string `json:"b"`
	T  string `json:"t"`
	Vs []int  `json:"vs"`
}

// ---------------------------------------------------------------- collaborators

type smStores struct {
	rec *recorder
	as  *tmmemstore.ActionStore
	fs  *tmmemstore.FinalizationStore
	ss  *tmmemstore.StateMachineStore

	mu      sync.Mutex
	actions map[string]string // "kind/h/r" -> target label
	fins    map[uint64]struct{}
	w       *vc.World
	hub     *smHub
}

type recActionStore struct{ s *smStores }

func (a recActionStore) SaveProposedHeaderAction(ctx context.Context, ph tmconsensus.ProposedHeader) error {
	// give a premature emission time to be observed before the save is recorded
	time.Sleep(2 * time.Millisecond)
	err := a.s.as.SaveProposedHeaderAction(ctx, ph)
	if err == nil {
		l := a.s.hub.registerOwnPH(ph)
		a.s.mu.Lock()
		a.s.actions[fmt.Sprintf("proposal/%d/%d", ph.Header.Height, ph.Round)] = l
		a.s.mu.Unlock()
		a.s.rec.add(M{"t": "write", "store": "action", "kind": "proposal", "h": ph.Header.Height, "r": ph.Round, "target": l})
	}
	return err
}
func (a recActionStore) SavePrevoteAction(ctx context.Context, pk gcrypto.PubKey, vt tmconsensus.VoteTarget, sig []byte) error {
	time.Sleep(2 * time.Millisecond)
	err := a.s.as.SavePrevoteAction(ctx, pk, vt, sig)
	if err == nil {
		l := a.s.hub.label(vt.Height, vt.BlockHash)
		a.s.mu.Lock()
		a.s.actions[fmt.Sprintf("prevote/%d/%d", vt.Height, vt.Round)] = l
		a.s.mu.Unlock()
		a.s.rec.add(M{"t": "write", "store": "action", "kind": "prevote", "h": vt.Height, "r": vt.Round, "target": l})
	}
	return err
}
func (a recActionStore) SavePrecommitAction(ctx context.Context, pk gcrypto.PubKey, vt tmconsensus.VoteTarget, sig []byte) error {
	time.Sleep(2 * time.Millisecond)
	err := a.s.as.SavePrecommitAction(ctx, pk, vt, sig)
	if err == nil {
		l := a.s.hub.label(vt.Height, vt.BlockHash)
		a.s.mu.Lock()
		a.s.actions[fmt.Sprintf("precommit/%d/%d", vt.Height, vt.Round)] = l
		a.s.mu.Unlock()
		a.s.rec.add(M{"t": "write", "store": "action", "kind": "precommit", "h": vt.Height, "r": vt.Round, "target": l})
	}
	return err
}
func (a recActionStore) LoadActions(ctx context.Context, h uint64, r uint32) (tmstore.RoundActions, error) {
	return a.s.as.LoadActions(ctx, h, r)
}

type recFinStore struct{ s *smStores }

func (f recFinStore) SaveFinalization(ctx context.Context, h uint64, r uint32, bh string, vs tmconsensus.ValidatorSet, ash string) error {
	err := f.s.fs.SaveFinalization(ctx, h, r, bh, vs, ash)
	if err == nil {
		f.s.mu.Lock()
		f.s.fins[h] = struct{}{}
		f.s.mu.Unlock()
		f.s.rec.add(M{"t": "write", "store": "fin", "h": h, "r": r, "vs": f.s.hub.vsLabel(vs)})
	}
	return err
}
func (f recFinStore) LoadFinalizationByHeight(ctx context.Context, h uint64) (uint32, string, tmconsensus.ValidatorSet, string, error) {
	return f.s.fs.LoadFinalizationByHeight(ctx, h)
}

type recSMStore struct{ s *smStores }

func (x recSMStore) SetStateMachineHeightRound(ctx context.Context, h uint64, r uint32) error {
	err := x.s.ss.SetStateMachineHeightRound(ctx, h, r)
	if err == nil {
		x.s.rec.add(M{"t": "write", "store": "sm", "h": h, "r": r})
	}
	return err
}
func (x recSMStore) StateMachineHeightRound(ctx context.Context) (uint64, uint32, error) {
	return x.s.ss.StateMachineHeightRound(ctx)
}

type recSigner struct {
	inner tmconsensus.Signer
	rec   *recorder
	hub   *smHub
}

func (s recSigner) Prevote(ctx context.Context, vt tmconsensus.VoteTarget) ([]byte, []byte, error) {
	s.rec.add(M{"t": "sign", "kind": "prevote", "h": vt.Height, "r": vt.Round, "target": s.hub.label(vt.Height, vt.BlockHash)})
	return s.inner.Prevote(ctx, vt)
}
func (s recSigner) Precommit(ctx context.Context, vt tmconsensus.VoteTarget) ([]byte, []byte, error) {
	s.rec.add(M{"t": "sign", "kind": "precommit", "h": vt.Height, "r": vt.Round, "target": s.hub.label(vt.Height, vt.BlockHash)})
	return s.inner.Precommit(ctx, vt)
}
func (s recSigner) SignProposedHeader(ctx context.Context, ph *tmconsensus.ProposedHeader) error {
	s.rec.add(M{"t": "sign", "kind": "proposal", "h": ph.Header.Height, "r": ph.Round, "target": string(ph.Header.DataID),
		"vs": s.hub.vsLabel(ph.Header.ValidatorSet), "nvs": s.hub.vsLabel(ph.Header.NextValidatorSet)})
	return s.inner.SignProposedHeader(ctx, ph)
}
func (s recSigner) PubKey() gcrypto.PubKey { return s.inner.PubKey() }

type recTimer struct {
	rec *recorder
	mu  sync.Mutex
	// the active timer, if any
	name   string
	ch     chan struct{}
	active bool
	starts int
}

func (t *recTimer) make(name string, h uint64, r uint32) (<-chan struct{}, func()) {
	t.mu.Lock()
	defer t.mu.Unlock()
	ch := make(chan struct{})
	wasActive := t.active
	t.name, t.ch, t.active = name, ch, true
	t.starts++
	t.rec.add(M{"t": "timerStart", "name": name, "h": h, "r": r, "_overlap": wasActive})
	var once sync.Once
	return ch, func() {
		once.Do(func() {
			t.mu.Lock()
			defer t.mu.Unlock()
			if t.ch == ch && t.active {
				t.active = false
			}
			t.rec.add(M{"t": "timerCancel", "name": name})
		})
	}
}
func (t *recTimer) ProposalTimer(_ context.Context, h uint64, r uint32) (<-chan struct{}, func()) {
	return t.make("Proposal", h, r)
}
func (t *recTimer) PrevoteDelayTimer(_ context.Context, h uint64, r uint32) (<-chan struct{}, func()) {
	return t.make("PrevoteDelay", h, r)
}
func (t *recTimer) PrecommitDelayTimer(_ context.Context, h uint64, r uint32) (<-chan struct{}, func()) {
	return t.make("PrecommitDelay", h, r)
}
func (t *recTimer) CommitWaitTimer(_ context.Context, h uint64, r uint32) (<-chan struct{}, func()) {
	return t.make("CommitWait", h, r)
}
func (t *recTimer) fire() bool {
	t.mu.Lock()
	defer t.mu.Unlock()
	if !t.active {
		return false
	}
	t.active = false
	close(t.ch)
	return true
}
func (t *recTimer) current() string {
	t.mu.Lock()
	defer t.mu.Unlock()
	if !t.active {
		return "none"
	}
	return t.name
}

// blocking strategy: each call is recorded and waits until the behaviour releases it
type stratCall struct {
	kind string
	ans  chan string
	h    uint64 // the round the call was made for
	r    uint32
}

type recStrategy struct {
	rec *recorder
	hub *smHub

	mu      sync.Mutex
	pending *stratCall
	propOut chan<- tmconsensus.Proposal
	curH    uint64
	curR    uint32
}

func (s *recStrategy) EnterRound(ctx context.Context, rv tmconsensus.RoundView, proposalOut chan<- tmconsensus.Proposal) error {
	s.mu.Lock()
	s.propOut, s.curH, s.curR = proposalOut, rv.Height, rv.Round
	s.mu.Unlock()
	s.rec.add(M{"t": "enterRound", "h": rv.Height, "r": rv.Round, "propose": proposalOut != nil})
	return nil
}

func (s *recStrategy) wait(ctx context.Context, kind string, arg any) (string, error) {
	c := &stratCall{kind: kind, ans: make(chan string, 1)}
	s.mu.Lock()
	s.pending = c
	h, r := s.curH, s.curR
	c.h, c.r = h, r
	s.mu.Unlock()
	s.rec.add(M{"t": "strategy", "kind": kind, "h": h, "r": r, "arg": arg})
	select {
	case a := <-c.ans:
		s.mu.Lock()
		if s.pending == c {
			s.pending = nil
		}
		s.mu.Unlock()
		if a == "NotReady" {
			return "", tmconsensus.ErrProposedBlockChoiceNotReady
		}
		return s.hub.hash(h, a), nil
	case <-ctx.Done():
		return "", ctx.Err()
	}
}

func (s *recStrategy) phLabels(phs []tmconsensus.ProposedHeader) []any {
	out := []any{}
	for _, ph := range phs {
		out = append(out, s.hub.label(ph.Header.Height, string(ph.Header.Hash)))
	}
	return out
}

func (s *recStrategy) ConsiderProposedBlocks(ctx context.Context, phs []tmconsensus.ProposedHeader, _ tmconsensus.ConsiderProposedBlocksReason) (string, error) {
	return s.wait(ctx, "Consider", s.phLabels(phs))
}
func (s *recStrategy) ChooseProposedBlock(ctx context.Context, phs []tmconsensus.ProposedHeader) (string, error) {
	return s.wait(ctx, "Choose", s.phLabels(phs))
}
func (s *recStrategy) DecidePrecommit(ctx context.Context, _ tmconsensus.VoteSummary) (string, error) {
	return s.wait(ctx, "Decide", "null")
}
func (s *recStrategy) busy() string {
	s.mu.Lock()
	defer s.mu.Unlock()
	if s.pending == nil {
		return "idle"
	}
	return s.pending.kind
}

// ---------------------------------------------------------------- hub: labels <-> concrete values, entrance server, driver

type smHub struct {
	w   *vc.World
	rec *recorder

	mu     sync.Mutex
	own    map[string]tmconsensus.ProposedHeader // label "P<h>" -> the state machine's own proposal
	ownBy  map[string]string                     // hash -> label
	plan   []entranceResp                        // responses for the next entrances
	extra  int                                   // entrances without a planned response
	acts   chan tmeil.StateMachineRoundAction
	free   bool // free run: answer unplanned round entrances with an empty view of the entered round
	// action channels of earlier entrances that may still hold an undrained action
	oldActs []chan tmeil.StateMachineRoundAction
	hc     chan<- struct{}
	finReq *tmdriver.FinalizeBlockRequest
	// label of the block finalized at each height (the previous-commit proof of later views is for it)
	finalized map[uint64]string
	// the view most recently given as a round entrance response (the state machine's current round view)
	served   *absView
}

func (h *smHub) blockLabel(height uint64, id string) string { return fmt.Sprintf("%s%d", id, height) }

// hash of abstract block id at height ("nil" -> "")
func (h *smHub) hash(height uint64, id string) string {
	if id == "nil" {
		return ""
	}
	h.mu.Lock()
	if ph, ok := h.own[h.blockLabel(height, id)]; ok {
		h.mu.Unlock()
		return string(ph.Header.Hash)
	}
	h.mu.Unlock()
	return string(h.w.Header(h.blockLabel(height, id)).Hash)
}

// abstract id of a concrete hash at height
func (h *smHub) label(height uint64, hash string) string {
	if hash == "" {
		return "nil"
	}
	h.mu.Lock()
	if l, ok := h.ownBy[hash]; ok {
		h.mu.Unlock()
		return l
	}
	h.mu.Unlock()
	l := h.w.Label(hash)
	return strings.TrimSuffix(l, fmt.Sprint(height))
}

func (h *smHub) registerOwnPH(ph tmconsensus.ProposedHeader) string {
	id := string(ph.Header.DataID)
	h.mu.Lock()
	h.own[h.blockLabel(ph.Header.Height, id)] = ph
	h.ownBy[string(ph.Header.Hash)] = id
	h.mu.Unlock()
	return id
}

func (h *smHub) proposedHeader(height uint64, round uint32, id string) tmconsensus.ProposedHeader {
	h.mu.Lock()
	if ph, ok := h.own[h.blockLabel(height, id)]; ok {
		h.mu.Unlock()
		return ph
	}
	h.mu.Unlock()
	return h.w.ProposedHeader(h.blockLabel(height, id), round, 2, "ok", true)
}

// smFinSet is the validator set the driver returns when it finalizes height h (it applies from h+2 on);
// smVSAt is the set the chain prescribes for height h (checks/sm_worlds.py has the same rule).
func smFinSet(h uint64) string {
	if h%2 == 1 {
		return "G2"
	}
	return "G"
}

func smVSAt(h uint64) string {
	if h <= 2 {
		return "G"
	}
	return smFinSet(h - 2)
}

// vsLabel names a validator set of the world by its hashes ("?" if it is none of them).
func (h *smHub) vsLabel(vs tmconsensus.ValidatorSet) string {
	for id, x := range h.w.Valsets {
		if string(x.PubKeyHash) == string(vs.PubKeyHash) && string(x.VotePowerHash) == string(vs.VotePowerHash) && len(x.Validators) == len(vs.Validators) {
			same := true
			for i := range x.Validators {
				if x.Validators[i].Power != vs.Validators[i].Power || !x.Validators[i].PubKey.Equal(vs.Validators[i].PubKey) {
					same = false
				}
			}
			if same {
				return id
			}
		}
	}
	return "?"
}

func (h *smHub) proofs(kind string, height uint64, round uint32, votes map[string][]int) map[string]gcrypto.CommonMessageSignatureProof {
	vs := h.w.Valsets[smVSAt(height)]
	out := map[string]gcrypto.CommonMessageSignatureProof{}
	for t, signers := range votes {
		hash := h.hash(height, t)
		p, err := h.w.CMSP.New(h.w.SignBytes(kind, height, round, hash), vs.PubKeys, string(vs.PubKeyHash))
		if err != nil {
			panic(err)
		}
		for _, pos := range signers {
			sig, err := h.w.Signer(h.w.Def.Valsets[smVSAt(height)].Keys[pos-1]).Sign(context.Background(), h.w.SignBytes(kind, height, round, hash))
			if err != nil {
				panic(err)
			}
			if err := p.AddSignature(sig, vs.PubKeys[pos-1]); err != nil {
				panic(err)
			}
		}
		out[hash] = p
	}
	return out
}

func (h *smHub) concreteView(v absView) tmconsensus.VersionedRoundView {
	vs := h.w.Valsets[smVSAt(v.H)]
	rv := tmconsensus.RoundView{
		Height: v.H, Round: v.R, ValidatorSet: vs,
		PrevCommitProof: tmconsensus.CommitProof{Proofs: map[string][]gcrypto.SparseSignature{}},
		PrevoteProofs:   h.proofs("prevote", v.H, v.R, v.Pv),
		PrecommitProofs: h.proofs("precommit", v.H, v.R, v.Pc),
		VoteSummary:     tmconsensus.NewVoteSummary(),
	}
	if v.H > 1 {
		h.mu.Lock()
		prevLabel, ok := h.finalized[v.H-1]
		h.mu.Unlock()
		if !ok {
			prevLabel = h.blockLabel(v.H-1, "A")
		}
		if _, known := h.w.Def.Hdr[prevLabel]; known {
			rv.PrevCommitProof = tmconsensus.CommitProof{Round: 0, PubKeyHash: string(h.w.Valsets[smVSAt(v.H-1)].PubKeyHash),
				Proofs: h.w.SparseProofs("precommit", v.H-1, 0, smVSAt(v.H-1), map[string][]vc.Entry{prevLabel: {{Pos: 1, Cls: "ok"}, {Pos: 2, Cls: "ok"}, {Pos: 3, Cls: "ok"}}})}
		}
	}
	for _, id := range v.Phs {
		rv.ProposedHeaders = append(rv.ProposedHeaders, h.proposedHeader(v.H, v.R, id))
	}
	rv.VoteSummary.SetAvailablePower(vs.Validators)
	rv.VoteSummary.SetVotePowers(vs.Validators, rv.PrevoteProofs, rv.PrecommitProofs)
	return tmconsensus.VersionedRoundView{RoundView: rv, Version: v.Ver}
}

// ---------------------------------------------------------------- rig

type smRig struct {
	w     *vc.World
	me    int
	rec   *recorder
	hub   *smHub
	st    *smStores
	timer *recTimer
	strat *recStrategy

	ctx    context.Context
	cancel context.CancelFunc
	wd     *gwatchdog.Watchdog
	sm     *tmstate.StateMachine

	viewIn     chan tmeil.StateMachineRoundView
	entrances  chan tmeil.StateMachineRoundEntrance
	finReqs    chan tmdriver.FinalizeBlockRequest
	blockData  chan tmelink.BlockDataArrival
	serverDone chan struct{}
	srvBusy    atomic.Int32

	evMu   sync.Mutex
	evCond *sync.Cond
	nEv    int
	last   tmstate.VerifRLC
}

var smQuiet = func() *slog.Logger {
	if os.Getenv("VERIF_SMLOG") != "" {
		return slog.New(slog.NewTextHandler(os.Stderr, &slog.HandlerOptions{Level: slog.LevelDebug}))
	}
	return slog.New(slog.NewTextHandler(io.Discard, nil))
}()

func newSMRig(w *vc.World, me int, st *smStores, rec *recorder, hub *smHub) *smRig {
	r := &smRig{w: w, me: me, rec: rec, hub: hub, st: st}
	r.evCond = sync.NewCond(&r.evMu)
	return r
}

func (r *smRig) start() {
	r.viewIn = make(chan tmeil.StateMachineRoundView)
	r.entrances = make(chan tmeil.StateMachineRoundEntrance)
	r.finReqs = make(chan tmdriver.FinalizeBlockRequest)
	r.blockData = make(chan tmelink.BlockDataArrival, 4)
	r.timer = &recTimer{rec: r.rec}
	r.strat = &recStrategy{rec: r.rec, hub: r.hub}

	ctx, cancel := context.WithCancel(context.Background())
	wd, wctx := gwatchdog.NewNopWatchdog(ctx, smQuiet)
	r.ctx, r.cancel, r.wd = wctx, cancel, wd

	tmstate.VerifSetSMHook(func(_ *tmstate.StateMachine, st tmstate.VerifRLC) {
		r.evMu.Lock()
		r.nEv++
		r.last = st
		r.evCond.Broadcast()
		r.evMu.Unlock()
	})

	// mirror + driver roles
	r.serverDone = make(chan struct{})
	go func() {
		defer close(r.serverDone)
		for {
			select {
			case <-wctx.Done():
				return
			case re := <-r.entrances:
				r.srvBusy.Add(1)
				r.rec.add(M{"t": "entrance", "h": re.H, "r": re.R})
				r.hub.mu.Lock()
				if r.hub.acts != nil {
					r.hub.oldActs = append(r.hub.oldActs, r.hub.acts)
				}
				r.hub.acts = re.Actions
				r.hub.hc = re.HeightCommitted
				var resp *entranceResp
				if len(r.hub.plan) > 0 && !r.hub.free {
					resp = &r.hub.plan[0]
					r.hub.plan = r.hub.plan[1:]
				} else if r.hub.free {
					resp = &entranceResp{Kind: "VRV", V: absView{H: re.H, R: re.R, Ver: 1, Pv: map[string][]int{}, Pc: map[string][]int{}}}
				} else {
					r.hub.extra++
				}
				r.hub.mu.Unlock()
				if resp == nil {
					// no planned answer: the spec did not expect this entrance; leave the state machine waiting
					r.srvBusy.Add(-1)
					continue
				}
				var rer tmeil.RoundEntranceResponse
				if resp.Kind == "VRV" {
					v := resp.V
					v.H, v.R = re.H, re.R
					rer.VRV = r.hub.concreteView(v)
					r.hub.mu.Lock()
					vv := v
					r.hub.served = &vv
					r.hub.mu.Unlock()
				} else {
					hdr := r.w.Header(r.hub.blockLabel(re.H, resp.Block))
					vsid := smVSAt(re.H)
					rer.CH = tmconsensus.CommittedHeader{Header: hdr, Proof: tmconsensus.CommitProof{Round: resp.R,
						PubKeyHash: string(r.w.Valsets[vsid].PubKeyHash),
						Proofs: r.w.SparseProofs("precommit", re.H, resp.R, vsid, map[string][]vc.Entry{r.hub.blockLabel(re.H, resp.Block): {{Pos: 1, Cls: "ok"}, {Pos: 2, Cls: "ok"}, {Pos: 3, Cls: "ok"}}})}}
				}
				re.Response <- rer
				if resp.Late != "" && resp.Late != "none" {
					// the state machine now waits in its EnterRound request behind the busy strategy: let the strategy return
					r.strat.mu.Lock()
					p := r.strat.pending
					r.strat.mu.Unlock()
					if p != nil {
						select {
						case p.ans <- resp.Late:
						default:
						}
					}
				}
				r.srvBusy.Add(-1)
			case fr := <-r.finReqs:
				r.srvBusy.Add(1)
				why := "quorum"
				r.hub.mu.Lock()
				f := fr
				r.hub.finReq = &f
				r.hub.mu.Unlock()
				r.rec.add(M{"t": "finalizeReq", "h": fr.Header.Height, "r": fr.Round, "block": r.hub.label(fr.Header.Height, string(fr.Header.Hash)), "why": why})
				r.srvBusy.Add(-1)
			}
		}
	}()

	cfg := tmstate.StateMachineConfig{
		HashScheme:                        r.w.HashScheme,
		SignatureScheme:                   r.w.SigScheme,
		CommonMessageSignatureProofScheme: r.w.CMSP,
		Genesis:                           r.w.Genesis(),
		ActionStore:                       recActionStore{r.st},
		FinalizationStore:                 recFinStore{r.st},
		StateMachineStore:                 recSMStore{r.st},
		RoundTimer:                        r.timer,
		ConsensusStrategy:                 r.strat,
		RoundViewInCh:                     r.viewIn,
		RoundEntranceOutCh:                r.entrances,
		BlockDataArrivalCh:                r.blockData,
		FinalizeBlockRequestCh:            r.finReqs,
		Watchdog:                          wd,
		AssertEnv:                         gasserttest.DefaultEnv(),
	}
	if r.me != 0 {
		cfg.Signer = recSigner{inner: tmconsensus.PassthroughSigner{Signer: r.w.Signer(r.me), SignatureScheme: r.w.SigScheme}, rec: r.rec, hub: r.hub}
	}
	sm, err := tmstate.NewStateMachine(wctx, smQuiet, cfg)
	if err != nil {
		panic(err)
	}
	r.sm = sm
}

func (r *smRig) stop() {
	if r.cancel != nil {
		r.cancel()
	}
	if r.sm != nil {
		done := make(chan struct{})
		go func() { r.sm.Wait(); close(done) }()
		select {
		case <-done:
		case <-time.After(5 * time.Second):
		}
		r.sm = nil
	}
	if r.serverDone != nil {
		select {
		case <-r.serverDone:
		case <-time.After(5 * time.Second):
		}
	}
	if r.wd != nil {
		wdDone := make(chan struct{})
		go func() { r.wd.Wait(); close(wdDone) }()
		select {
		case <-wdDone:
		case <-time.After(5 * time.Second):
		}
	}
	tmstate.VerifSetSMHook(nil)
}

func (r *smRig) events() int {
	r.evMu.Lock()
	defer r.evMu.Unlock()
	return r.nEv
}

// waitEvent waits for the state machine to finish handling one more event than n.
func (r *smRig) waitEvent(n int, d time.Duration) (tmstate.VerifRLC, bool) {
	deadline := time.Now().Add(d)
	r.evMu.Lock()
	defer r.evMu.Unlock()
	for r.nEv <= n {
		if time.Now().After(deadline) {
			return r.last, false
		}
		t := time.AfterFunc(20*time.Millisecond, func() { r.evMu.Lock(); r.evCond.Broadcast(); r.evMu.Unlock() })
		r.evCond.Wait()
		t.Stop()
	}
	return r.last, true
}

// ---------------------------------------------------------------- comparison helpers

func canonSM(v any) any {
	switch x := v.(type) {
	case map[string]any:
		out := make(map[string]any, len(x))
		for k, e := range x {
			if strings.HasPrefix(k, "_") {
				continue
			}
			out[k] = canonSM(e)
		}
		return out
	case []any:
		out := make([]any, len(x))
		keys := make([]string, len(x))
		for i, e := range x {
			out[i] = canonSM(e)
			b, _ := json.Marshal(out[i])
			keys[i] = string(b)
		}
		idx := make([]int, len(x))
		for i := range idx {
			idx[i] = i
		}
		sort.Slice(idx, func(a, b int) bool { return keys[idx[a]] < keys[idx[b]] })
		res := make([]any, 0, len(x))
		for _, i := range idx {
			res = append(res, out[i])
		}
		return res
	default:
		return v
	}
}

func toAnySM(v any) any {
	b, err := json.Marshal(v)
	if err != nil {
		panic(err)
	}
	var out any
	if err := json.Unmarshal(b, &out); err != nil {
		panic(err)
	}
	return out
}

func jsSM(v any) string {
	b, _ := json.Marshal(v)
	return string(b)
}

func mustSM(err error) {
	if err != nil {
		panic(err)
	}
}

// outputs compared as a multiset; the spec does not record who cancelled an already fired timer etc.
func normOutputs(o []M) []any {
	out := []any{}
	for _, m := range o {
		switch m["t"] {
		case "blocked":
			continue
		}
		c := M{}
		for k, v := range m {
			if strings.HasPrefix(k, "_") {
				continue
			}
			c[k] = v
		}
		if c["t"] == "finalizeReq" {
			delete(c, "why")
		}
		out = append(out, c)
	}
	return out
}

// ---------------------------------------------------------------- the runner

type smRunner struct {
	w        *vc.World
	me       int
	out      *vc.Out
	nSteps   int
	nBeh     int
	nMis     int
	nViol    int
	ops      map[string]int
	distinct map[string]struct{}
}

func (rn *smRunner) viol(beh, step int, prop, pred, site, class, what string) {
	rn.nViol++
	rn.out.Emit(vc.M{"kind": "violation", "prop": prop, "pred": pred, "site": site, "class": class, "what": what, "beh": beh, "step": step})
}

func (rn *smRunner) mismatch(beh, step int, st smStep, d []string) {
	rn.nMis++
	rn.out.Emit(vc.M{"kind": "mismatch", "beh": beh, "step": step, "op": st.Op, "args": st.Args, "diff": d})
}

func (rn *smRunner) run(b smBehaviour) {
	// a behaviour that does not finish (a goroutine of the component or of the harness is wedged) must not hold the whole
	// batch until the outer timeout: the child ends here, the parent attributes the death to the last begun step and goes on
	hangGuard := time.AfterFunc(120*time.Second, func() {
		rn.out.Emit(vc.M{"kind": "hang", "beh": b.ID})
		rn.out.Flush()
		buf := make([]byte, 1<<20)
		os.Stderr.Write(buf[:runtime.Stack(buf, true)])
		os.Exit(3)
	})
	defer hangGuard.Stop()
	w := rn.w
	rec := &recorder{}
	hub := &smHub{w: w, rec: rec, own: map[string]tmconsensus.ProposedHeader{}, ownBy: map[string]string{}, finalized: map[uint64]string{}}
	st := &smStores{rec: rec, as: tmmemstore.NewActionStore(), fs: tmmemstore.NewFinalizationStore(), ss: tmmemstore.NewStateMachineStore(),
		actions: map[string]string{}, fins: map[uint64]struct{}{}, w: w, hub: hub}
	// the engine stores a finalization below the initial height at start-up
	g := w.Genesis()
	gh, err := g.Header(w.HashScheme)
	mustSM(err)
	mustSM(st.fs.SaveFinalization(context.Background(), 0, 0, string(gh.Hash), g.ValidatorSet, string(g.CurrentAppStateHash)))

	var r *smRig
	defer func() {
		if r != nil {
			r.stop()
		}
	}()

	// property history on real observations
	type signKey struct {
		kind string
		h    uint64
		r    uint32
	}
	signs := map[signKey]int{}
	released := map[signKey]string{} // what was released to the mirror per (kind, height, round)
	decides := map[[2]uint64]int{}
	var lastEntered, wantResume [2]uint64
	haveEntered, haveResume := false, false
	// diverged: the real state machine left the model's prediction.  The rest of the behaviour is a free run:
	// events are still delivered when the real state machine can take them, round entrances are answered with
	// an empty view of the entered round, nothing is compared with the model any more, and the property
	// predicates (which never depended on the model) keep being evaluated on the real outputs.
	diverged := false
	curView := absView{}

	for i, s := range b.Steps {
		rn.nSteps++
		rn.ops[s.Op]++
		rn.out.Emit(vc.M{"kind": "begin", "beh": b.ID, "step": i, "op": s.Op, "args": s.Args, "expPan": s.Pan})
		rn.out.Flush()

		var resps []entranceResp
		for _, raw := range s.Resps {
			var e entranceResp
			mustSM(json.Unmarshal(raw, &e))
			resps = append(resps, e)
		}
		expectEvent := true
		extraEvent := false
		div := func(d []string) {
			if !diverged {
				rn.mismatch(b.ID, i, s, d)
				diverged = true
				hub.mu.Lock()
				hub.free = true
				hub.plan = nil
				hub.mu.Unlock()
			}
		}
		if diverged && r == nil && s.Op != "Restart" {
			continue
		}
		n0 := 0
		if r != nil {
			n0 = r.events()
		}

		switch s.Op {
		case "Boot", "Restart":
			var first entranceResp
			mustSM(json.Unmarshal(s.Args, &first))
			hub.mu.Lock()
			hub.plan = append([]entranceResp{first}, resps...)
			if diverged {
				hub.plan = nil
			}
			hub.extra = 0
			hub.mu.Unlock()
			// C10: the durable position the restarted state machine has to resume at
			wantResume, haveResume = [2]uint64{0, 0}, false
			if s.Op == "Restart" {
				if sh, sr, err := st.ss.StateMachineHeightRound(context.Background()); err == nil {
					wantResume, haveResume = [2]uint64{sh, uint64(sr)}, true
					if _, _, _, _, err := st.fs.LoadFinalizationByHeight(context.Background(), sh); err == nil {
						// the height was already finalized: it resumes at the first round of the next height
						wantResume = [2]uint64{sh + 1, 0}
					}
				}
			}
			r = newSMRig(w, rn.me, st, rec, hub)
			r.start()
			n0 = 0
		case "View":
			var d delta
			mustSM(json.Unmarshal(s.Args, &d))
			nv := curView
			nv.Ver++
			nv.Pv, nv.Pc = cloneVotes(curView.Pv), cloneVotes(curView.Pc)
			nv.Phs = append([]string(nil), curView.Phs...)
			switch d.K {
			case "ph":
				if !contains(nv.Phs, d.B) {
					nv.Phs = append(nv.Phs, d.B)
				}
			case "pv":
				nv.Pv[d.T] = union(nv.Pv[d.T], d.Vs)
			case "pc":
				nv.Pc[d.T] = union(nv.Pc[d.T], d.Vs)
			}
			hub.mu.Lock()
			hub.plan, hub.extra = resps, 0
			hub.mu.Unlock()
			select {
			case r.viewIn <- tmeil.StateMachineRoundView{VRV: hub.concreteView(nv)}:
			case <-time.After(5 * time.Second):
				if diverged {
					continue
				}
				rn.out.Emit(vc.M{"kind": "inconclusive", "beh": b.ID, "step": i, "why": "state machine does not read view updates"})
				return
			}
			curView = nv
		case "Jump":
			var j struct {
				H uint64 `json:"h"`
				R uint32 `json:"r"`
			}
			mustSM(json.Unmarshal(s.Args, &j))
			if diverged {
				// a jump-ahead is only ever sent for a round after the one the state machine is in
				r.evMu.Lock()
				lk := r.last
				r.evMu.Unlock()
				if !(j.H > lk.H || (j.H == lk.H && j.R > lk.R)) || j.H != lk.H {
					continue
				}
			}
			hub.mu.Lock()
			hub.plan, hub.extra = resps, 0
			hub.mu.Unlock()
			jv := hub.concreteView(absView{H: j.H, R: j.R, Ver: 1, Pv: map[string][]int{"nil": {2, 3}}, Pc: map[string][]int{}})
			select {
			case r.viewIn <- tmeil.StateMachineRoundView{JumpAheadRoundView: &jv}:
			case <-time.After(5 * time.Second):
				if diverged {
					continue
				}
				rn.out.Emit(vc.M{"kind": "inconclusive", "beh": b.ID, "step": i, "why": "state machine does not read view updates"})
				return
			}
		case "Timer":
			hub.mu.Lock()
			hub.plan, hub.extra = resps, 0
			hub.mu.Unlock()
			if !r.timer.fire() {
				div([]string{"spec fires a timer but no timer is armed on the real state machine"})
				continue
			}
		case "Strategy":
			var a struct {
				Kind string `json:"kind"`
				Ans  string `json:"ans"`
			}
			mustSM(json.Unmarshal(s.Args, &a))
			r.strat.mu.Lock()
			p := r.strat.pending
			r.strat.mu.Unlock()
			if p == nil || p.kind != a.Kind {
				div([]string{fmt.Sprintf("spec answers a %s call but the real strategy is in %v", a.Kind, r.strat.busy())})
				continue
			}
			// an event follows only if the state machine consumes the result
			expectEvent = false
			for _, o := range s.O {
				if o["t"] == "sign" {
					expectEvent = true
				}
			}
			if rn.me == 0 && a.Ans != "NotReady" {
				// non-participating: the result is still consumed (no signature) -- unless the call was made for a round that
				// has been left since (a late answer goes to that round's channel and is never read)
				r.evMu.Lock()
				lk := r.last
				r.evMu.Unlock()
				expectEvent = p.h == lk.H && p.r == lk.R
			}
			hub.mu.Lock()
			hub.plan, hub.extra = resps, 0
			hub.mu.Unlock()
			select {
			case p.ans <- a.Ans:
			case <-time.After(5 * time.Second):
				rn.out.Emit(vc.M{"kind": "inconclusive", "beh": b.ID, "step": i, "why": "strategy answer not taken"})
				return
			}
		case "Proposal":
			r.strat.mu.Lock()
			po := r.strat.propOut
			r.strat.mu.Unlock()
			if po == nil {
				div([]string{"spec lets the strategy propose but EnterRound gave no proposal channel"})
				continue
			}
			select {
			case po <- tmconsensus.Proposal{DataID: "P"}:
			case <-time.After(5 * time.Second):
				rn.out.Emit(vc.M{"kind": "inconclusive", "beh": b.ID, "step": i, "why": "proposal channel full"})
				return
			}
		case "ProposalDup":
			// a duplicate answer of the strategy on the proposal channel of this round (non-blocking: it is 1-buffered)
			r.strat.mu.Lock()
			po := r.strat.propOut
			r.strat.mu.Unlock()
			if po != nil {
				select {
				case po <- tmconsensus.Proposal{DataID: "P2"}:
				default:
				}
			}
			// nothing is expected to happen; give a state machine that (wrongly) still reads the channel time to act
			expectEvent = false
			time.Sleep(25 * time.Millisecond)
		case "Finalized":
			hub.mu.Lock()
			fr := hub.finReq
			hub.finReq = nil
			hub.plan, hub.extra = resps, 0
			hub.mu.Unlock()
			if fr == nil {
				div([]string{"spec finalizes but the driver received no finalize request"})
				continue
			}
			hub.mu.Lock()
			hub.finalized[fr.Header.Height] = w.Label(string(fr.Header.Hash))
			hub.mu.Unlock()
			select {
			case fr.Resp <- tmdriver.FinalizeBlockResponse{Height: fr.Header.Height, Round: fr.Round, BlockHash: fr.Header.Hash,
				Validators: w.Valsets[smFinSet(fr.Header.Height)].Validators, AppStateHash: []byte(fmt.Sprintf("app_state_%d", fr.Header.Height))}:
			case <-time.After(5 * time.Second):
				rn.out.Emit(vc.M{"kind": "inconclusive", "beh": b.ID, "step": i, "why": "finalization response channel full"})
				return
			}
		case "HeightCommitted":
			hub.mu.Lock()
			hc := hub.hc
			hub.hc = nil
			hub.plan, hub.extra = resps, 0
			hub.mu.Unlock()
			if hc == nil {
				div([]string{"no height-committed channel"})
				continue
			}
			close(hc)
		case "BlockData":
			var id string
			mustSM(json.Unmarshal(s.Args, &id))
			expectEvent = true
			dataID := id
			if id != "P" {
				dataID = fmt.Sprintf("%s%d", id, curView.H)
			}
			select {
			case r.blockData <- tmelink.BlockDataArrival{Height: curView.H, Round: curView.R, ID: dataID}:
			case <-time.After(5 * time.Second):
				rn.out.Emit(vc.M{"kind": "inconclusive", "beh": b.ID, "step": i, "why": "block data channel full"})
				return
			}
		default:
			rn.out.Emit(vc.M{"kind": "inconclusive", "beh": b.ID, "step": i, "why": "unknown op " + s.Op})
			return
		}

		// ---- wait for the state machine to finish the event
		var k tmstate.VerifRLC
		died := false
		if diverged {
			// free run: nothing is expected; let the state machine and its collaborators settle
			expectEvent = false
			time.Sleep(40 * time.Millisecond)
		}
		if expectEvent {
			var ok bool
			wait := 3 * time.Second
			if s.Pan != "" || s.Stop {
				wait = 400 * time.Millisecond // the spec expects the goroutine to end: no event will come
			}
			k, ok = r.waitEvent(n0, wait)
			if !ok {
				if s.Pan != "" || s.Stop {
					died = true
				} else {
					div([]string{"no state machine event within 3s (the spec expects the step to complete)"})
					continue
				}
			}
		} else {
			time.Sleep(10 * time.Millisecond)
			r.evMu.Lock()
			k = r.last
			r.evMu.Unlock()
			if r.events() != n0 && !diverged {
				// the property predicates are evaluated on what it did before the divergence is reported
				extraEvent = true
				time.Sleep(30 * time.Millisecond)
				r.evMu.Lock()
				k = r.last
				r.evMu.Unlock()
			}
		}
		// the consensus manager goroutine calls the strategy asynchronously: when the spec expects a call,
		// give it time to arrive (a call that never arrives shows up as an output mismatch below)
		for _, o := range s.O {
			if o["t"] == "strategy" && !died && r != nil && !diverged {
				for n := 0; n < 2000 && r.strat.busy() == "idle"; n++ {
					time.Sleep(time.Millisecond)
				}
			}
		}
		// outputs recorded by other goroutines (driver, mirror server) may lag behind the hook event:
		// wait until as many records of each asynchronous kind as the spec expects have arrived
		if !died && r != nil && !diverged {
			wantN := map[string]int{}
			for _, o := range s.O {
				if t, _ := o["t"].(string); t == "finalizeReq" || t == "entrance" {
					wantN[t]++
				}
			}
			for n := 0; n < 2000; n++ {
				have := map[string]int{}
				rec.mu.Lock()
				for _, o := range rec.out {
					if t, _ := o["t"].(string); t != "" {
						have[t]++
					}
				}
				rec.mu.Unlock()
				ok := true
				for t, c := range wantN {
					if have[t] < c {
						ok = false
					}
				}
				if ok {
					break
				}
				time.Sleep(time.Millisecond)
			}
		}
		// let the driver/mirror goroutines record what they received
		time.Sleep(3 * time.Millisecond)
		for n := 0; n < 200 && r.srvBusy.Load() != 0; n++ {
			time.Sleep(time.Millisecond)
		}
		outs := rec.take()
		hub.mu.Lock()
		if hub.served != nil {
			curView = *hub.served
			curView.Pv, curView.Pc = cloneVotes(curView.Pv), cloneVotes(curView.Pc)
			hub.served = nil
		}
		hub.mu.Unlock()

		// drain the actions channel: what the state machine released to the mirror
		hub.mu.Lock()
		acts := hub.acts
		oldActs := hub.oldActs
		hub.oldActs = nil
		hub.mu.Unlock()
		// an action sent for a round that was left within the same step sits in that entrance's channel
		pending := make(chan tmeil.StateMachineRoundAction, 16)
		for _, oc := range oldActs {
			for more := true; more; {
				select {
				case a := <-oc:
					pending <- a
				default:
					more = false
				}
			}
		}
		for acts != nil {
			var a tmeil.StateMachineRoundAction
			select {
			case a = <-pending:
			default:
				select {
				case a = <-acts:
				default:
					acts = nil
				}
			}
			if acts == nil {
				break
			}
			{
				m := M{"t": "action"}
				switch {
				case len(a.PH.Header.Hash) > 0:
					m["kind"], m["h"], m["r"], m["target"] = "proposal", a.PH.Header.Height, a.PH.Round, string(a.PH.Header.DataID)
				case len(a.Prevote.Sig) > 0:
					m["kind"], m["h"], m["r"], m["target"] = "prevote", k.H, k.R, hub.label(k.H, a.Prevote.TargetHash)
				default:
					m["kind"], m["h"], m["r"], m["target"] = "precommit", k.H, k.R, hub.label(k.H, a.Precommit.TargetHash)
				}
				// C02: recorded in the action store before it is released
				st.mu.Lock()
				_, saved := st.actions[fmt.Sprintf("%s/%d/%d", m["kind"], m["h"], m["r"])]
				st.mu.Unlock()
				if !saved {
					rn.viol(b.ID, i, "C02", "SavedBeforeSent", s.Op, fmt.Sprint(m["kind"]),
						fmt.Sprintf("a %s for %v/%v was released to the mirror without a matching action store record", m["kind"], m["h"], m["r"]))
				}
				outs = append(outs, m)
				if (s.Op == "Boot" || s.Op == "Restart") && m["kind"] == "proposal" {
					// the recorded proposal that a restarted state machine sends again reaches the mirror: the mirror's
					// view of that round (played by this harness) holds it from now on, as the model assumes
					if l := fmt.Sprint(m["target"]); toU64(m["h"]) == curView.H && uint32(toU64(m["r"])) == curView.R && !contains(curView.Phs, l) {
						curView.Phs = append(curView.Phs, l)
					}
				}
			}
		}

		// ---- predicates on the real outputs
		for _, o := range outs {
			switch o["t"] {
			case "action":
				// C02: whatever happens to the signer and the stores, two DIFFERENT proposals / votes for one round are never
				// released (re-sending the recorded one after a restart is the same content and is fine)
				key := signKey{fmt.Sprint(o["kind"]), toU64(o["h"]), uint32(toU64(o["r"]))}
				tgt := fmt.Sprint(o["target"])
				if prev, ok := released[key]; ok && prev != tgt {
					rn.viol(b.ID, i, "C02", "ReleasedOnce", s.Op, key.kind,
						fmt.Sprintf("a second, different %s for %d/%d was released to the mirror: first %s, now %s", key.kind, key.h, key.r, prev, tgt))
				}
				released[key] = tgt
			case "write":
				// C07: the finalization store records the validator set the driver returned for that height
				if o["store"] == "fin" {
					if got, want := fmt.Sprint(o["vs"]), smFinSet(toU64(o["h"])); got != want {
						rn.viol(b.ID, i, "C07", "FinalizationStoresDriverSet", s.Op, got+"!="+want,
							fmt.Sprintf("the finalization of height %v was stored with validator set %s; the driver returned %s", o["h"], got, want))
					}
				}
			case "sign":
				// C07: a header the state machine proposes carries the sets the chain prescribes for its height and the next
				if o["kind"] == "proposal" {
					hh := toU64(o["h"])
					if got, want := fmt.Sprint(o["vs"]), smVSAt(hh); got != want {
						rn.viol(b.ID, i, "C07", "ProposesWithChainSets", s.Op, "vs:"+got+"!="+want,
							fmt.Sprintf("the header proposed at height %d carries validator set %s; the chain prescribes %s (what the driver returned when finalizing height %d)", hh, got, want, hh-2))
					}
					if got, want := fmt.Sprint(o["nvs"]), smVSAt(hh+1); got != want {
						rn.viol(b.ID, i, "C07", "ProposesWithChainSets", s.Op, "nvs:"+got+"!="+want,
							fmt.Sprintf("the header proposed at height %d carries next validator set %s; the chain prescribes %s", hh, got, want))
					}
				}
				key := signKey{fmt.Sprint(o["kind"]), toU64(o["h"]), uint32(toU64(o["r"]))}
				signs[key]++
				if signs[key] > 1 {
					cls := key.kind
					if s.Op == "Restart" || restartedSince(b.Steps, i) {
						cls += ":after-restart"
					}
					rn.viol(b.ID, i, "C02", "SignOnce", s.Op, cls,
						fmt.Sprintf("the signer was asked for a second %s signature at %d/%d", key.kind, key.h, key.r))
				}
				if !died && (key.h != k.H || key.r != k.R) && s.Op != "Finalized" && s.Op != "Timer" && s.Op != "View" && s.Op != "Jump" {
					rn.viol(b.ID, i, "C08", "CallsReferToCurrentRound", s.Op, "sign",
						fmt.Sprintf("signed a %s for %d/%d while in %d/%d", key.kind, key.h, key.r, k.H, k.R))
				}
			case "entrance":
				h, rr := toU64(o["h"]), toU64(o["r"])
				if haveEntered && s.Op != "Restart" && s.Op != "Boot" {
					if h < lastEntered[0] || (h == lastEntered[0] && rr <= lastEntered[1]) {
						rn.viol(b.ID, i, "C08", "HRStrictlyIncreasing", s.Op, "entrance",
							fmt.Sprintf("entered %d/%d after %d/%d", h, rr, lastEntered[0], lastEntered[1]))
					}
				}
				if haveResume && s.Op == "Restart" {
					if h != wantResume[0] || rr != wantResume[1] {
						rn.viol(b.ID, i, "C10", "ResumesAtDurablePosition", s.Op, "entrance",
							fmt.Sprintf("after restart the state machine entered %d/%d; its stores put it at %d/%d", h, rr, wantResume[0], wantResume[1]))
					}
					haveResume = false
				}
				if haveEntered && (s.Op == "Restart") {
					if h < lastEntered[0] {
						rn.viol(b.ID, i, "C10", "NotBehindDurable", s.Op, "entrance",
							fmt.Sprintf("after restart entered %d/%d, before the stop it was at %d/%d", h, rr, lastEntered[0], lastEntered[1]))
					}
				}
				lastEntered, haveEntered = [2]uint64{h, rr}, true
			case "strategy":
				if o["kind"] == "Decide" {
					key := [2]uint64{toU64(o["h"]), toU64(o["r"])}
					decides[key]++
					if decides[key] > 1 && !restartedSince(b.Steps, i) {
						rn.viol(b.ID, i, "C08", "PrecommitExactlyOnceWhenDue", s.Op, "twice",
							fmt.Sprintf("the strategy was asked for its precommit twice in round %d/%d", key[0], key[1]))
					}
				}
			case "timerStart":
				if ov, _ := o["_overlap"].(bool); ov {
					rn.viol(b.ID, i, "C12", "AtMostOneTimer", s.Op, fmt.Sprint(o["name"]),
						fmt.Sprintf("a %s timer was started while another step timer was still outstanding", o["name"]))
				}
			case "finalizeReq":
				// C08: only on > 2/3 precommit power for that block in the current round view, or catch-up
				blk := fmt.Sprint(o["block"])
				quorum := len(curView.Pc[blk]) >= 3
				isCatchup := false
				for _, e := range append([]entranceResp{}, resps...) {
					if e.Kind == "CH" {
						isCatchup = true
					}
				}
				if s.Op == "Boot" || s.Op == "Restart" {
					var first entranceResp
					_ = json.Unmarshal(s.Args, &first)
					if first.Kind == "CH" {
						isCatchup = true
					}
					if first.Kind == "VRV" && len(first.V.Pc[blk]) >= 3 {
						quorum = true
					}
				}
				for _, e := range resps {
					if e.Kind == "VRV" && len(e.V.Pc[blk]) >= 3 {
						quorum = true
					}
				}
				if !quorum && !isCatchup {
					rn.viol(b.ID, i, "C08", "FinalizeNeedsQuorumOrCH", s.Op, "noquorum",
						fmt.Sprintf("asked the driver to finalize %s at %v/%v with %d of 4 precommits for it in view", blk, o["h"], o["r"], len(curView.Pc[blk])))
				}
			}
		}
		// C08: once its prevote is out and a prevote quorum for one target is visible in its round view,
		// the strategy must have been asked for the precommit
		if !died && !s.Crash && !k.Replaying && curView.H == k.H && curView.R == k.R && !k.PrevoteCh &&
			(k.S == "AwaitingPrevotes" || k.S == "PrevoteDelay" || k.S == "AwaitingPrecommits" || k.S == "PrecommitDelay") {
			quorum := false
			for _, signers := range curView.Pv {
				if len(signers) >= 3 {
					quorum = true
				}
			}
			if quorum && decides[[2]uint64{k.H, uint64(k.R)}] == 0 && !restartedSince(b.Steps, i) {
				cls, who := "never:"+k.S, "the state machine"
				if rn.me == 0 {
					cls, who = cls+":follower", "the state machine (no signer: it follows without voting)"
				}
				rn.viol(b.ID, i, "C08", "PrecommitExactlyOnceWhenDue", s.Op, cls,
					fmt.Sprintf("in %d/%d (step %s) %s has prevoted and sees a prevote quorum, but never asked the strategy for its precommit", k.H, k.R, k.S, who))
			}
		}
		// timer discipline (C12a)
		if !died && !s.Crash {
			timed := map[string]string{"AwaitingProposal": "Proposal", "PrevoteDelay": "PrevoteDelay", "PrecommitDelay": "PrecommitDelay", "CommitWait": "CommitWait"}
			want, isTimed := timed[k.S]
			cur := r.timer.current()
			if k.Replaying {
				isTimed = false
			}
			if isTimed && cur != want {
				rn.viol(b.ID, i, "C12", "ArmedIffTimedStep", s.Op, k.S+":"+cur,
					fmt.Sprintf("in step %s at %d/%d the outstanding timer is %q, expected %q", k.S, k.H, k.R, cur, want))
			}
			if !isTimed && cur != "none" {
				rn.viol(b.ID, i, "C12", "ArmedIffTimedStep", s.Op, k.S+":"+cur,
					fmt.Sprintf("in step %s at %d/%d a %s timer is outstanding although the step is not timed", k.S, k.H, k.R, cur))
			}
		}

		// unexpected entrances
		hub.mu.Lock()
		extra, left := hub.extra, len(hub.plan)
		hub.mu.Unlock()

		if diverged {
			// free run: nothing is compared with the model any more
			if s.Crash && r != nil {
				r.stop()
				r = nil
			}
			continue
		}
		// ---- expected death / stop
		if s.Pan != "" {
			rn.out.Emit(vc.M{"kind": "panic", "beh": b.ID, "step": i, "op": s.Op, "args": s.Args, "expected": s.Pan, "got": "survived"})
			div([]string{"spec expects panic: " + s.Pan + "; the real state machine survived"})
			continue
		}
		if extra > 0 || left > 0 {
			div([]string{fmt.Sprintf("round entrances: %d unplanned, %d planned responses unused", extra, left)})
			continue
		}

		// ---- compare outputs (multiset) and state
		wantO := canonSM(toAnySM(normOutputs(s.O)))
		gotO := canonSM(toAnySM(normOutputs(outs)))
		if jsSM(wantO) != jsSM(gotO) {
			div([]string{"outputs: spec=" + jsSM(wantO) + " real=" + jsSM(gotO)})
			continue
		}
		if extraEvent {
			div([]string{"the state machine handled an event the spec does not expect"})
			continue
		}
		if s.Stop {
			// the state machine goroutine ended (store refused a write): nothing more to compare
			return
		}
		if s.Crash {
			r.stop()
			r = nil
			continue
		}
		var exp map[string]any
		mustSM(json.Unmarshal(s.Exp, &exp))
		delete(exp, "st")
		got := M{"down": false, "H": k.H, "R": k.R, "S": k.S, "timer": r.timer.current(),
			"propCh": k.PropCh, "prevoteCh": k.PrevoteCh, "precommitCh": k.PrecommitCh, "finCh": k.FinCh,
			"finalized": k.Finalized, "cwElapsed": k.CWElapsed, "replaying": k.Replaying, "vrvVer": k.VRVVer, "cm": r.strat.busy()}
		if k.Replaying {
			got["S"] = "Catchup"
		}
		we, ge := canonSM(any(exp)), canonSM(toAnySM(got))
		if jsSM(we) != jsSM(ge) {
			var d []string
			wm, gm := we.(map[string]any), ge.(map[string]any)
			for key := range wm {
				if jsSM(wm[key]) != jsSM(gm[key]) {
					d = append(d, fmt.Sprintf("%s: spec=%s real=%s", key, jsSM(wm[key]), jsSM(gm[key])))
				}
			}
			sort.Strings(d)
			div(d)
			continue
		}
		rn.distinct[jsSM(ge)] = struct{}{}
	}
}

func restartedSince(steps []smStep, i int) bool {
	for j := 0; j <= i; j++ {
		if steps[j].Op == "Restart" {
			return true
		}
	}
	return false
}

func toU64(v any) uint64 {
	switch x := v.(type) {
	case uint64:
		return x
	case uint32:
		return uint64(x)
	case int:
		return uint64(x)
	case float64:
		return uint64(x)
	}
	return 0
}

func cloneVotes(m map[string][]int) map[string][]int {
	out := map[string][]int{}
	for k, v := range m {
		out[k] = append([]int(nil), v...)
	}
	return out
}

func contains(s []string, x string) bool {
	for _, e := range s {
		if e == x {
			return true
		}
	}
	return false
}

func union(a, b []int) []int {
	m := map[int]struct{}{}
	for _, x := range a {
		m[x] = struct{}{}
	}
	for _, x := range b {
		m[x] = struct{}{}
	}
	out := make([]int, 0, len(m))
	for x := range m {
		out = append(out, x)
	}
	sort.Ints(out)
	return out
}

// TestVerifSMReplay replays the behaviours of $VERIF_IN (lines $VERIF_FROM..$VERIF_TO).
func TestVerifSMReplay(t *testing.T) {
	var def vc.WorldDef
	b, err := os.ReadFile(os.Getenv("VERIF_WORLD"))
	mustSM(err)
	mustSM(json.Unmarshal(b, &def))
	w := vc.NewWorld(def)
	out := vc.Open("VERIF_OUT")
	defer out.Close()
	behs := vc.ReadNDJSON[smBehaviour]("VERIF_IN")
	from, to := vc.EnvInt("VERIF_FROM", 0), vc.EnvInt("VERIF_TO", len(behs))
	if to > len(behs) {
		to = len(behs)
	}
	rn := &smRunner{w: w, me: vc.EnvInt("VERIF_ME", 1), out: out, ops: map[string]int{}, distinct: map[string]struct{}{}}
	for i := from; i < to; i++ {
		rn.nBeh++
		rn.run(behs[i])
		out.Emit(vc.M{"kind": "done", "beh": behs[i].ID, "index": i})
		out.Flush()
	}
	out.Emit(vc.M{"kind": "summary", "behaviours": rn.nBeh, "steps": rn.nSteps, "mismatches": rn.nMis, "violations": rn.nViol,
		"ops": rn.ops, "distinct_states": len(rn.distinct)})
}
