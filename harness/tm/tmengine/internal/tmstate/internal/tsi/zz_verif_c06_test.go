package tsi_test

// C06 conformance harness for GetStepFromVoteSummary.  The summary is produced by the real
// VoteSummary.Set*Powers from real signature proofs (same plan of events as the other two C06
// harnesses, internal/verifc06); the step the state machine would derive from it is compared with
// the step the specification derives from the recount of the admitted signatures.

import (
	"fmt"
	"math/rand"
	"testing"

	c06 "github.com/gordian-engine/gordian/internal/verifc06"
	vc "github.com/gordian-engine/gordian/internal/verifcommon"
	"github.com/gordian-engine/gordian/tm/tmconsensus"
	"github.com/gordian-engine/gordian/tm/tmengine/internal/tmstate/internal/tsi"
)

func TestVerifC06Step(t *testing.T) {
	out := vc.Open("VERIF_OUT")
	defer out.Close()
	trace := vc.Open("VERIF_TRACE")
	defer trace.Close()
	rng := rand.New(rand.NewSource(int64(vc.EnvInt("VERIF_SEED", 1))))

	evs := c06.Plan()
	chk := c06.NewChecker(out)
	var w *c06.World
	nWorld := 0
	steps := map[string]int{}
	for i := range evs {
		ev := &evs[i]
		if ev.Op == "reset" {
			w = c06.NewWorld(ev.Pow, nWorld)
			nWorld++
			continue
		}
		func() {
			defer func() {
				if r := recover(); r != nil {
					out.Emit(vc.M{"kind": "panic", "i": ev.I, "src": ev.Src, "pow": ev.Pow, "what": fmt.Sprint(r), "state": w.StateJSON()})
				}
			}()
			w.Apply(ev)
			chk.Tally(ev, w)
			inc := ev.Op != "load"
			vs := tmconsensus.NewVoteSummary()
			vs.SetAvailablePower(w.Vals)
			vs.SetVotePowers(w.Vals, w.ProofMap("prevote", inc, rng), w.ProofMap("precommit", inc, rng))
			step := tsi.GetStepFromVoteSummary(vs).String()
			steps[step]++
			o, _ := w.Project(vs)
			chk.CheckStep(ev, w, o, step)
			if ev.Trace {
				trace.Emit(vc.M{"i": ev.I, "step": step})
			}
		}()
	}
	chk.Summary("tsi", vc.M{"worlds": nWorld, "steps": steps})
}
