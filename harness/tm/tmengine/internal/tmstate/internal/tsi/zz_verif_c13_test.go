package tsi_test

// C13 conformance harness for tsi.CommitProofFinalizer (overlaid into
// /repo/tm/tmengine/internal/tmstate/internal/tsi by /verif/bin/check).
// Every Finalize step (uncorrupted) of the behaviours exported from spec/SigProof.tla is driven through
// the state machine's CommitProofFinalizer with real keys and real precommit sign bytes, for both
// signature-proof schemes; the finalized commit proof is then validated the way Mirror.HandleProposedHeader
// does it and must give back exactly the per-block signer sets it was built from.

import (
	"context"
	"encoding/json"
	"fmt"
	"sort"
	"testing"

	"github.com/gordian-engine/gordian/gcrypto"
	"github.com/gordian-engine/gordian/gcrypto/gblsminsig"
	"github.com/gordian-engine/gordian/gcrypto/gblsminsig/gblsminsigtest"
	"github.com/gordian-engine/gordian/gcrypto/gcryptotest"
	vc "github.com/gordian-engine/gordian/internal/verifcommon"
	"github.com/gordian-engine/gordian/tm/tmconsensus"
	"github.com/gordian-engine/gordian/tm/tmconsensus/tmconsensustest"
	"github.com/gordian-engine/gordian/tm/tmengine/internal/tmstate/internal/tsi"
)

type c13Step struct {
	Op   string  `json:"op"`
	K    int     `json:"k"`
	Sch  string  `json:"sch"`
	Main []int   `json:"main"`
	Rest [][]int `json:"rest"`
	Fc   *struct {
		Kind string `json:"kind"`
	} `json:"fc"`
	Dev string `json:"dev"`
	Res *struct {
		Nilmap bool    `json:"nilmap"`
		Uniq   bool    `json:"uniq"`
		Exact  bool    `json:"exact"`
		Sets   [][]int `json:"sets"`
	} `json:"res"`
}

type c13Signer interface {
	PubKey() gcrypto.PubKey
	Sign(context.Context, []byte) ([]byte, error)
}

func TestVerifC13Finalizer(t *testing.T) {
	out := vc.Open("VERIF_OUT")
	defer out.Close()
	ctx := context.Background()
	const height, round = 7, 1
	hashes := []string{"blockA", "", "blockB"} // main, rest1 (nil block), rest2
	seen := map[string]bool{}
	n, nDouble := 0, 0
	schemes := map[string]bool{}
	for _, raw := range vc.ReadNDJSON[json.RawMessage]("VERIF_IN") {
		var beh []c13Step
		if err := json.Unmarshal(raw, &beh); err != nil {
			panic(err)
		}
		for i := 1; i < len(beh); i++ {
			st := beh[i]
			if st.Op != "fin" || st.Fc == nil || st.Fc.Kind != "none" {
				continue
			}
			k, sch := beh[0].K, beh[0].Sch
			key := fmt.Sprintf("%s/%d/%v/%v", sch, k, st.Main, st.Rest)
			if seen[key] {
				continue
			}
			seen[key] = true
			n++
			schemes[sch] = true

			var signers []c13Signer
			var cmsp gcrypto.CommonMessageSignatureProofScheme
			if sch == "simple" {
				for _, s := range gcryptotest.DeterministicEd25519Signers(k) {
					signers = append(signers, s)
				}
				cmsp = gcrypto.SimpleCommonMessageSignatureProofScheme{}
			} else {
				for _, s := range gblsminsigtest.DeterministicSigners(k) {
					signers = append(signers, s)
				}
				cmsp = gblsminsig.SignatureProofScheme{}
			}
			keys := make([]gcrypto.PubKey, k)
			for j := range keys {
				keys[j] = signers[j].PubKey()
			}
			sigScheme := tmconsensustest.SimpleSignatureScheme{}
			blocks := append([][]int{st.Main}, st.Rest...)
			cp := tmconsensus.CommitProof{Round: round, PubKeyHash: "pkh", Proofs: map[string][]gcrypto.SparseSignature{}}
			msgs := make([][]byte, len(blocks))
			for b, set := range blocks {
				msg, err := tmconsensus.PrecommitSignBytes(tmconsensus.VoteTarget{Height: height, Round: round, BlockHash: hashes[b]}, sigScheme)
				if err != nil {
					panic(err)
				}
				msgs[b] = msg
				p, err := cmsp.New(msg, keys, "pkh")
				if err != nil {
					panic(err)
				}
				for _, j := range set {
					sig, err := signers[j].Sign(ctx, msg)
					if err != nil {
						panic(err)
					}
					if err := p.AddSignature(sig, keys[j]); err != nil {
						panic(err)
					}
				}
				cp.Proofs[hashes[b]] = p.AsSparse().Signatures
			}
			double := !st.Res.Uniq
			if double {
				nDouble++
			}
			cls := fmt.Sprintf("fin:none,rest=%d,double=%v", len(st.Rest), double)

			func() {
				defer func() {
					if x := recover(); x != nil {
						c := "unexpected:" + cls
						if st.Dev == "bls-finalize-double" {
							c = st.Dev
						}
						out.Emit(vc.M{"kind": "violation", "predicate": "NoPanic", "site": "tsi.CommitProofFinalizer.Finalize",
							"class": c, "scheme": sch, "what": fmt.Sprintf("CommitProofFinalizer.Finalize panicked (%s, blocks %v): %v", sch, blocks, x), "step": st})
					}
				}()
				f := tsi.CommitProofFinalizer{SigScheme: sigScheme, CMSPScheme: cmsp}
				fcp, err := f.Finalize(height, hashes[0], cp, keys)
				if err != nil {
					out.Emit(vc.M{"kind": "violation", "predicate": "FinalizeRoundTrip", "site": "tsi.CommitProofFinalizer.Finalize",
						"class": cls, "scheme": sch, "what": "finalizer error: " + err.Error(), "step": st})
					return
				}
				// the way Mirror.HandleProposedHeader validates a previous commit proof
				fin := gcrypto.FinalizedCommonMessageSignatureProof{Keys: keys, PubKeyHash: fcp.PubKeyHash,
					MainMessage: msgs[0], MainSignatures: fcp.Proofs[hashes[0]]}
				hbc := map[string]string{string(msgs[0]): hashes[0]}
				if len(fcp.Proofs) > 1 {
					fin.Rest = map[string][]gcrypto.SparseSignature{}
					for b := 1; b < len(blocks); b++ {
						fin.Rest[string(msgs[b])] = fcp.Proofs[hashes[b]]
						hbc[string(msgs[b])] = hashes[b]
					}
				}
				m, uniq := cmsp.ValidateFinalizedProof(fin, hbc)
				bad := ""
				if (m == nil) != st.Res.Nilmap || uniq != st.Res.Uniq {
					bad = fmt.Sprintf("validated (nil map=%v, unique=%v), expected (nil map=%v, unique=%v)", m == nil, uniq, st.Res.Nilmap, st.Res.Uniq)
				} else if m != nil {
					for b, set := range blocks {
						bs, ok := m[hashes[b]]
						if !ok || bs == nil {
							if st.Res.Exact {
								bad = fmt.Sprintf("block %d missing from the validated map", b)
							}
							continue
						}
						got := []int{}
						for u, ok := bs.NextSet(0); ok; u, ok = bs.NextSet(u + 1) {
							got = append(got, int(u))
						}
						want := append([]int{}, set...)
						sort.Ints(want)
						if fmt.Sprint(got) != fmt.Sprint(want) {
							bad = fmt.Sprintf("block %d validates to signers %v, was built from %v", b, got, want)
						}
					}
				}
				if bad != "" {
					out.Emit(vc.M{"kind": "violation", "predicate": "FinalizeRoundTrip", "site": "tsi.CommitProofFinalizer.Finalize",
						"class": cls, "scheme": sch, "what": bad, "step": st})
				}
			}()
		}
	}
	sl := []string{}
	for s := range schemes {
		sl = append(sl, s)
	}
	sort.Strings(sl)
	out.Emit(vc.M{"kind": "summary", "scheme": "tsi", "finalized": n, "double": nDouble, "schemes": sl})
}
