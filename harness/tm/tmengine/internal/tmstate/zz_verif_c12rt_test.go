//go:build verif

package tmstate

// C12 (b) conformance harness for the production round timer (StandardRoundTimer), overlaid into
// /repo/tm/tmengine/internal/tmstate by /verif/checks/c12_timer.py; see /verif/spec/RoundTimer.tla.
//
// The test binary is always run as a CHILD process: a panic in the timer's background goroutine
// cannot be recovered and kills the process; the parent attributes the death by the last flushed
// "stage" record and the panic message on stderr.
//
//   VERIF_MODE=scripts  replay of the schedules projected from the TLC-exported behaviours.  The
//       background goroutine is parked by verifRTGateHook at its "running" gate (immediately before
//       the second select) while the caller performs the steps the behaviour orders before that
//       select executes (cancel, a new blocking start in its own goroutine, waiting for the tick),
//       then it is released.  Which ready case the Go select takes is random, so every schedule is
//       repeated VERIF_REPS times.  Variant "early" releases the gate at once and waits until the
//       goroutine is blocked inside the select (runtime.Stack) before every caller step: a select
//       that is already waiting takes the first case that becomes ready.
//   VERIF_MODE=stress   no gate: one timer object, cancel-then-start / elapse-then-start loop with
//       seeded random tiny and very long durations.
//
// Predicates (evaluated on what the real timer did):
//   RestartAfterCancelSucceeds  the process is not killed by "BUG: new timer requested ..." (parent),
//                               cancel() does not panic
//   CancelledNeverElapses       an Elapsed channel seen open after its cancel() returned stays open
//   FiresAtMostOnce             an uncancelled timer of one hour never reports elapsed; no double close
//   NoLostStart                 a start call returns within a generous bound
//
// Trace (VERIF_TRACE, code -> spec, RoundTimerTrace.tla): one event per line with a process-wide
// sequence number taken under one mutex: reset, call/ret of start, cancel, observe (ret carries the
// result), and gate(point, n) logged by the background goroutine itself before each select.

import (
	"bytes"
	"context"
	"fmt"
	"math/rand"
	"os"
	"runtime"
	"strings"
	"sync"
	"sync/atomic"
	"testing"
	"time"

	vc "github.com/gordian-engine/gordian/internal/verifcommon"
)

const (
	c12Short = time.Microsecond
	c12Long  = time.Hour
)

var (
	c12Bound  = 10 * time.Second // "never" for start / elapse / gate arrival
	c12TickMs = 1                // how long a 1us timer is given to fire
)

type c12Strat struct{ d atomic.Int64 }

func (s *c12Strat) dur() time.Duration                              { return time.Duration(s.d.Load()) }
func (s *c12Strat) ProposalTimeout(uint64, uint32) time.Duration       { return s.dur() }
func (s *c12Strat) PrevoteDelayTimeout(uint64, uint32) time.Duration   { return s.dur() }
func (s *c12Strat) PrecommitDelayTimeout(uint64, uint32) time.Duration { return s.dur() }
func (s *c12Strat) CommitWaitTimeout(uint64, uint32) time.Duration     { return s.dur() }

// ---------------------------------------------------------------- event log

type c12Logger struct {
	mu    sync.Mutex
	seq   int
	out   *vc.Out
	on    bool
	flush bool
}

func (l *c12Logger) ev(m vc.M) {
	l.mu.Lock()
	if l.on {
		l.seq++
		m["seq"] = l.seq
		l.out.Emit(m)
		if l.flush {
			l.out.Flush()
		}
	}
	l.mu.Unlock()
}

func (l *c12Logger) set(on bool) {
	l.mu.Lock()
	l.on = on
	l.mu.Unlock()
}

// ---------------------------------------------------------------- one timer object under test

type c12Timer struct {
	k            int
	long         bool
	elapsed      <-chan struct{}
	cancel       func()
	ret          chan struct{} // closed when the start call returned
	returned     bool
	cancelRet    bool
	openAtCancel bool
	seenClosed   bool
	closedBefore bool // seen closed before cancel returned
}

type c12Inst struct {
	log   *c12Logger
	strat *c12Strat
	rt    *StandardRoundTimer
	stop  context.CancelFunc
	cctx  context.Context // the caller's context (getTimer); cancelled when the instance is closed
	cstop context.CancelFunc

	mu       sync.Mutex
	cond     *sync.Cond
	t        *StandardRoundTimer // bound at the first gate call
	arrivals int
	lastPt   string
	runArr   int
	park     bool
	released map[int]bool
	idleSeen bool         // an idle gate was passed since the last running gate
	viaIdle  map[int]bool // running gate n was reached through the idle select
	dead     bool         // instance finished: never park, never log

	timers []*c12Timer
}

var c12Cur atomic.Pointer[c12Inst]

func c12Hook(t *StandardRoundTimer, point string) {
	in := c12Cur.Load()
	if in == nil {
		return
	}
	in.mu.Lock()
	defer in.mu.Unlock()
	if in.dead {
		return
	}
	if in.t == nil {
		in.t = t
	} else if in.t != t {
		return
	}
	in.arrivals++
	in.lastPt = point
	n := 0
	if point == "running" {
		in.runArr++
		n = in.runArr
		in.viaIdle[n] = in.idleSeen
		in.idleSeen = false
	} else {
		in.idleSeen = true
	}
	in.log.ev(vc.M{"ev": "gate", "pt": point, "n": n})
	in.cond.Broadcast()
	if point == "running" {
		for in.park && !in.released[n] && !in.dead {
			in.cond.Wait()
		}
	}
}

func c12New(log *c12Logger, park bool) *c12Inst {
	in := &c12Inst{log: log, strat: &c12Strat{}, park: park, released: map[int]bool{}, viaIdle: map[int]bool{}}
	in.cond = sync.NewCond(&in.mu)
	in.strat.d.Store(int64(c12Long))
	c12Cur.Store(in)
	ctx, cancel := context.WithCancel(context.Background())
	in.stop = cancel
	in.rt = NewStandardRoundTimer(ctx, in.strat)
	in.cctx, in.cstop = context.WithCancel(context.Background())
	return in
}

// close ends the instance; false if the background goroutine did not exit.
func (in *c12Inst) close() bool {
	in.log.set(false)
	in.mu.Lock()
	in.dead = true
	in.cond.Broadcast()
	in.mu.Unlock()
	in.stop()
	in.cstop()
	done := make(chan struct{})
	go func() { in.rt.Wait(); close(done) }()
	select {
	case <-done:
		c12Cur.Store(nil)
		return true
	case <-time.After(c12Bound):
		c12Cur.Store(nil)
		return false
	}
}

func (in *c12Inst) release(n int) {
	in.mu.Lock()
	in.released[n] = true
	in.cond.Broadcast()
	in.mu.Unlock()
}

// pastTimer: the background goroutine is done with timer k (it is at a later gate).
func (in *c12Inst) pastTimerLocked(k int) bool {
	return in.runArr > k || (in.runArr == k && in.lastPt == "idle")
}

// waitPast waits until the background goroutine has left timer k's running select behind.
func (in *c12Inst) waitPast(k int, d time.Duration) bool {
	deadline := time.Now().Add(d)
	in.mu.Lock()
	defer in.mu.Unlock()
	for !in.pastTimerLocked(k) {
		if time.Now().After(deadline) {
			return false
		}
		in.mu.Unlock()
		time.Sleep(20 * time.Microsecond)
		in.mu.Lock()
	}
	return true
}

// settle waits until the background goroutine has left timer k's running select behind or is blocked
// in a select (no timing assumption: the goroutine state is read from runtime.Stack).  It returns
// false when the goroutine sits in timer k's running select although the caller is done with timer k.
func (in *c12Inst) settle(k int) bool {
	deadline := time.Now().Add(c12Bound)
	for {
		if in.waitPast(k, 0) {
			return true
		}
		if c12InSelect(c12BgFn) {
			return in.waitPast(k, 0)
		}
		if time.Now().After(deadline) {
			return false
		}
		time.Sleep(20 * time.Microsecond)
	}
}

// waitAtRunning waits until the goroutine has arrived at the running gate of timer k.
func (in *c12Inst) waitAtRunning(k int, d time.Duration) bool {
	deadline := time.Now().Add(d)
	in.mu.Lock()
	defer in.mu.Unlock()
	for in.runArr < k {
		if time.Now().After(deadline) {
			return false
		}
		in.mu.Unlock()
		time.Sleep(20 * time.Microsecond)
		in.mu.Lock()
	}
	return true
}

// c12InSelect reports whether a goroutine whose stack contains `fn` is blocked in a select.
func c12InSelect(fn string) bool {
	buf := make([]byte, 1<<16)
	for {
		n := runtime.Stack(buf, true)
		if n < len(buf) {
			buf = buf[:n]
			break
		}
		buf = make([]byte, 2*len(buf))
	}
	for _, g := range bytes.Split(buf, []byte("\n\n")) {
		if bytes.Contains(g, []byte(fn)) {
			nl := bytes.IndexByte(g, '\n')
			if nl > 0 && bytes.Contains(g[:nl], []byte("[select")) {
				return true
			}
		}
	}
	return false
}

// c12BlockedInChanOp reports whether a goroutine whose stack contains `fn` is blocked in a plain channel
// send or receive (not a select): the round timer goroutine only ever waits in selects that include its
// context, so this state means it is stuck for good on a channel nobody serves.
func c12BlockedInChanOp(fn string) string {
	buf := make([]byte, 1<<16)
	for {
		n := runtime.Stack(buf, true)
		if n < len(buf) {
			buf = buf[:n]
			break
		}
		buf = make([]byte, 2*len(buf))
	}
	for _, g := range bytes.Split(buf, []byte("\n\n")) {
		if bytes.Contains(g, []byte(fn)) {
			nl := bytes.IndexByte(g, '\n')
			if nl > 0 && (bytes.Contains(g[:nl], []byte("[chan send")) || bytes.Contains(g[:nl], []byte("[chan receive"))) {
				return string(g[:nl])
			}
		}
	}
	return ""
}

func c12WaitInSelect(fn string, d time.Duration) bool {
	deadline := time.Now().Add(d)
	for !c12InSelect(fn) {
		if time.Now().After(deadline) {
			return false
		}
		time.Sleep(20 * time.Microsecond)
	}
	return true
}

const (
	c12BgFn    = "(*StandardRoundTimer).background"
	c12StartFn = "(*StandardRoundTimer).getTimer"
)

// ---------------------------------------------------------------- scripts

type c12Step struct {
	Op    string   `json:"op"` // start startRet cancel waitElapsed release
	K     int      `json:"k"`
	Dur   string   `json:"dur,omitempty"`   // start: "short" | "long"
	Ready []string `json:"ready,omitempty"` // release: the ready set the behaviour had at this select
}

type c12Script struct {
	Idx   int       `json:"idx"`
	Steps []c12Step `json:"steps"`
}

type c12Run struct {
	in      *c12Inst
	out     *vc.Out
	sc      *c12Script
	rep     int
	variant string
	viol    int
	notes   map[string]int
	outc    map[string]int
	rnd     *rand.Rand
	lost    bool
}

func has(xs []string, x string) bool {
	for _, y := range xs {
		if y == x {
			return true
		}
	}
	return false
}

func (r *c12Run) stage(at string, k int, ready []string) {
	r.out.Emit(vc.M{"kind": "stage", "script": r.sc.Idx, "rep": r.rep, "variant": r.variant, "at": at, "k": k, "ready": ready})
	r.out.Flush()
}

func (r *c12Run) violation(pred, class, detail string, k int) {
	r.viol++
	r.out.Emit(vc.M{"kind": "violation", "predicate": pred, "class": class, "detail": detail, "k": k,
		"script": r.sc.Idx, "rep": r.rep, "variant": r.variant})
	r.out.Flush()
}

func (r *c12Run) timer(k int) *c12Timer {
	if k < 1 || k > len(r.in.timers) {
		return nil
	}
	return r.in.timers[k-1]
}

func isClosed(ch <-chan struct{}) bool {
	select {
	case <-ch:
		return true
	default:
		return false
	}
}

// observe looks at every Elapsed channel held and evaluates the elapse predicates.
func (r *c12Run) observeAll() {
	for _, tm := range r.in.timers {
		if !tm.returned || tm.elapsed == nil || tm.seenClosed {
			continue
		}
		r.in.log.ev(vc.M{"ev": "call", "op": "observe", "k": tm.k})
		c := isClosed(tm.elapsed)
		r.in.log.ev(vc.M{"ev": "ret", "op": "observe", "k": tm.k, "closed": c})
		if !c {
			continue
		}
		tm.seenClosed = true
		if !tm.cancelRet {
			tm.closedBefore = true
		}
		switch {
		case tm.cancelRet && tm.openAtCancel:
			cl := "elapse-vs-cancel"
			if tm.long {
				cl = "cancelled-long-timer"
			}
			r.violation("CancelledNeverElapses", cl, fmt.Sprintf("timer %d: Elapsed was open after cancel() returned and is closed now", tm.k), tm.k)
		case tm.long:
			r.violation("FiresAtMostOnce", "spurious-elapse", fmt.Sprintf("timer %d was started for one hour and reports elapsed", tm.k), tm.k)
		}
	}
}

func (r *c12Run) doCancel(tm *c12Timer, class string) {
	func() {
		defer func() {
			if e := recover(); e != nil {
				r.violation("RestartAfterCancelSucceeds", class, fmt.Sprintf("cancel() of timer %d panicked: %v", tm.k, e), tm.k)
			}
		}()
		r.in.log.ev(vc.M{"ev": "call", "op": "cancel", "k": tm.k})
		tm.cancel()
		open := !isClosed(tm.elapsed)
		r.in.log.ev(vc.M{"ev": "ret", "op": "cancel", "k": tm.k})
		if !tm.cancelRet {
			tm.cancelRet = true
			tm.openAtCancel = open
		}
	}()
}

// run executes one repetition; false = the instance could not be driven (reported as error).
func (r *c12Run) run() (ok bool, why string) {
	in := r.in
	early := r.variant == "early"
	for _, st := range r.sc.Steps {
		switch st.Op {
		case "start":
			tm := &c12Timer{k: st.K, long: st.Dur != "short", ret: make(chan struct{})}
			if st.K != len(in.timers)+1 {
				return false, "script starts timers out of order"
			}
			in.timers = append(in.timers, tm)
			d := c12Long
			if !tm.long {
				d = c12Short
			}
			in.strat.d.Store(int64(d))
			if early && st.K > 1 {
				// the previous select must be waiting (or over) before the request is sent
				if !in.settle(st.K-1) {
					r.notes["bg-in-old-select-at-start"]++
				}
			}
			r.stage("start", st.K, nil)
			in.log.ev(vc.M{"ev": "call", "op": "start", "k": st.K, "long": tm.long})
			go func() {
				tm.elapsed, tm.cancel = in.rt.ProposalTimer(in.cctx, 1, 0)
				in.log.ev(vc.M{"ev": "ret", "op": "start", "k": tm.k})
				close(tm.ret)
			}()
		case "startRet":
			tm := r.timer(st.K)
			if tm == nil {
				return false, "startRet without start"
			}
			if tm.returned {
				continue
			}
			select {
			case <-tm.ret:
				tm.returned = true
			case <-time.After(c12Bound):
				cl := "first-start"
				if st.K > 1 {
					if p := r.timer(st.K - 1); p.cancelRet {
						cl = "cancel-then-start"
					} else {
						cl = "start-after-elapse"
					}
				}
				r.violation("NoLostStart", cl, fmt.Sprintf("start of timer %d did not return within %v", st.K, c12Bound), st.K)
				r.lost = true
				return true, ""
			}
			if tm.elapsed == nil || tm.cancel == nil {
				return false, "start returned nil although the context is alive"
			}
			if early {
				in.release(st.K)
				if !in.waitAtRunning(st.K, c12Bound) {
					return false, "background goroutine never reached its running gate"
				}
				in.settle(st.K)
			}
		case "cancel":
			tm := r.timer(st.K)
			if tm == nil || !tm.returned {
				return false, "cancel of a timer not held"
			}
			cl := "cancel-panics"
			if tm.seenClosed {
				cl = "cancel-after-elapse"
			}
			r.doCancel(tm, cl)
			if r.rep%4 == 1 {
				r.doCancel(tm, "double-cancel")
			}
			if early {
				// the waiting select takes the cancellation: let it come back to a gate
				if !in.settle(st.K) {
					r.notes["bg-not-back-after-cancel"]++
				}
			}
		case "waitElapsed":
			tm := r.timer(st.K)
			if tm == nil || !tm.returned || tm.long {
				return false, "waitElapsed on a timer that cannot be waited for"
			}
			if tm.cancelRet {
				// the behaviour saw the elapse before the cancellation took effect; on the real timer that
				// needs the tick to have been ready when the select ran, which a late runtime timer can
				// spoil: after a cancel an elapse is not owed, so only look
				if !isClosed(tm.elapsed) {
					r.notes["tick-was-not-ready"]++
				}
			} else {
				select {
				case <-tm.elapsed:
				case <-time.After(c12Bound):
					return false, fmt.Sprintf("a due, uncancelled timer (%d) did not elapse within %v", st.K, c12Bound)
				}
			}
		case "release":
			tm := r.timer(st.K)
			if tm == nil {
				return false, "release of unknown timer"
			}
			if early {
				if has(st.Ready, "tick") && !has(st.Ready, "cancel") && !tm.long {
					// the behaviour lets the timer elapse: nothing to do, the waiting select takes it
					in.waitPast(st.K, c12Bound)
				}
				continue
			}
			if !in.waitAtRunning(st.K, c12Bound) {
				return false, "background goroutine never reached its running gate"
			}
			if has(st.Ready, "tick") {
				time.Sleep(time.Duration(c12TickMs) * time.Millisecond)
			}
			pendingStart := false
			if has(st.Ready, "start") {
				nx := r.timer(st.K + 1)
				if nx == nil {
					return false, "ready set names a start that the script did not make"
				}
				// the sender must be blocked in its send before the select runs
				if !c12WaitInSelect(c12StartFn, c12Bound) {
					return false, "start call never blocked in its send"
				}
				pendingStart = true
			}
			r.stage("release", st.K, st.Ready)
			before := tm.seenClosed
			rs := strings.Join(st.Ready, "+") + "->"
			in.release(st.K)
			if !pendingStart && !in.settle(st.K) {
				r.notes["bg-not-past-select-after-release"]++
			}
			r.observeAll()
			// which case did the select take
			switch {
			case tm.seenClosed && !before:
				r.outc[rs+"tick"]++
			case pendingStart:
				nx := r.timer(st.K + 1)
				select {
				case <-nx.ret:
					in.waitAtRunning(st.K+1, c12Bound)
					in.mu.Lock()
					via := in.viaIdle[st.K+1]
					in.mu.Unlock()
					if via {
						r.outc[rs+"cancel,start-at-idle"]++
					} else {
						r.outc[rs+"start-served-directly"]++
					}
				case <-time.After(c12Bound):
					// reported by the startRet step that follows
				}
			default:
				r.outc[rs+"cancel"]++
			}
			continue
		default:
			return false, "unknown op " + st.Op
		}
		r.observeAll()
	}
	// settle: every start returned, the goroutine is past every cancelled / elapsed timer
	for _, tm := range in.timers {
		if !tm.returned {
			select {
			case <-tm.ret:
				tm.returned = true
			case <-time.After(c12Bound):
				r.violation("NoLostStart", "cancel-then-start", fmt.Sprintf("start of timer %d did not return within %v", tm.k, c12Bound), tm.k)
			}
		}
	}
	for _, tm := range in.timers {
		if !tm.returned {
			r.lost = true
			return true, ""
		}
		if tm.cancelRet {
			in.release(tm.k)
			if !in.settle(tm.k) {
				r.notes["bg-not-back-after-cancel"]++
			}
		}
	}
	r.observeAll()
	// restart probe: the last timer was cancelled (or seen elapsed): one more timer must be obtainable
	if n := len(in.timers); n > 0 {
		lastT := in.timers[n-1]
		if lastT.cancelRet || lastT.seenClosed {
			tm := &c12Timer{k: n + 1, long: true, ret: make(chan struct{})}
			in.timers = append(in.timers, tm)
			in.strat.d.Store(int64(c12Long))
			r.stage("final-start", tm.k, nil)
			in.log.ev(vc.M{"ev": "call", "op": "start", "k": tm.k, "long": true})
			go func() {
				tm.elapsed, tm.cancel = in.rt.ProposalTimer(in.cctx, 1, 0)
				in.log.ev(vc.M{"ev": "ret", "op": "start", "k": tm.k})
				close(tm.ret)
			}()
			select {
			case <-tm.ret:
				tm.returned = true
				if tm.elapsed == nil || tm.cancel == nil {
					return false, "start returned nil although the context is alive"
				}
				r.doCancel(tm, "cancel-panics")
				in.release(tm.k)
				in.settle(tm.k)
				r.observeAll()
			case <-time.After(c12Bound):
				cl := "start-after-elapse"
				if lastT.cancelRet {
					cl = "cancel-then-start"
				}
				r.violation("NoLostStart", cl, fmt.Sprintf("start of timer %d did not return within %v", tm.k, c12Bound), tm.k)
				r.lost = true
			}
		}
	}
	return true, ""
}

// ---------------------------------------------------------------- entry point

func TestVerifC12RT(t *testing.T) {
	mode := os.Getenv("VERIF_MODE")
	if mode == "" {
		t.Skip("driven by /verif/checks/c12_timer.py")
	}
	if ms := vc.EnvInt("VERIF_BOUND_MS", 0); ms > 0 {
		c12Bound = time.Duration(ms) * time.Millisecond
	}
	c12TickMs = vc.EnvInt("VERIF_TICK_MS", 1)
	out := vc.Open("VERIF_OUT")
	defer out.Close()
	log := &c12Logger{out: vc.Open("VERIF_TRACE"), flush: true}
	defer log.out.Close()
	seed := int64(vc.EnvInt("VERIF_SEED", 1))
	switch mode {
	case "scripts":
		c12Scripts(t, out, log, seed)
	case "stress":
		c12Stress(t, out, log, seed)
	default:
		t.Fatalf("unknown VERIF_MODE %q", mode)
	}
}

func c12Scripts(t *testing.T, out *vc.Out, log *c12Logger, seed int64) {
	verifRTGateHook = c12Hook
	defer func() { verifRTGateHook = nil }()
	scripts := vc.ReadNDJSON[c12Script]("VERIF_IN")
	from := vc.EnvInt("VERIF_FROM", 0)
	reps := vc.EnvInt("VERIF_REPS", 64)
	earlyReps := vc.EnvInt("VERIF_EARLY_REPS", 8)
	traceReps := vc.EnvInt("VERIF_TRACE_REPS", 2)
	rnd := rand.New(rand.NewSource(seed))
	lostTotal := 0
	for i := range scripts {
		if lostTotal >= 3 {
			break
		}
		sc := &scripts[i]
		if sc.Idx < from {
			continue
		}
		for _, variant := range []string{"parked", "early"} {
			n := reps
			if variant == "early" {
				n = earlyReps
			}
			outc, notes := map[string]int{}, map[string]int{}
			viol, done := 0, 0
			for rep := 0; rep < n; rep++ {
				traced := rep < traceReps
				log.mu.Lock()
				log.on = traced
				log.mu.Unlock()
				log.ev(vc.M{"ev": "reset", "script": sc.Idx, "rep": rep, "variant": variant})
				in := c12New(log, variant == "parked")
				r := &c12Run{in: in, out: out, sc: sc, rep: rep, variant: variant, notes: notes, outc: outc, rnd: rnd}
				ok, why := r.run()
				exited := in.close()
				viol += r.viol
				if !ok {
					out.Emit(vc.M{"kind": "error", "script": sc.Idx, "rep": rep, "variant": variant, "why": why})
					break
				}
				if !exited {
					if st := c12BlockedInChanOp(c12BgFn); st != "" {
						// evidence from the real goroutine: it is parked in a channel operation without its context,
						// so no later start request can ever be served
						out.Emit(vc.M{"kind": "violation", "predicate": "NoLostStart", "class": "timer-goroutine-wedged", "k": 0,
							"script": sc.Idx, "rep": rep, "variant": variant,
							"detail": "after this schedule the round timer goroutine is blocked for good (" + st + ") and did not return when its context was cancelled: every later timer request is lost"})
						out.Flush()
						t.Fatalf("background goroutine wedged")
					}
					out.Emit(vc.M{"kind": "error", "script": sc.Idx, "rep": rep, "variant": variant,
						"why": "background goroutine did not exit after its context was cancelled"})
					out.Flush()
					t.Fatalf("background goroutine did not exit")
				}
				done++
				if r.lost {
					lostTotal++
					break
				}
			}
			out.Emit(vc.M{"kind": "script", "script": sc.Idx, "variant": variant, "reps": done, "violations": viol,
				"outcomes": outc, "notes": notes})
			out.Flush()
		}
	}
	out.Emit(vc.M{"kind": "summary", "mode": "scripts", "from": from, "aborted": lostTotal >= 3})
	out.Flush()
}

// ---------------------------------------------------------------- ungated stress

func c12Stress(t *testing.T, out *vc.Out, log *c12Logger, seed int64) {
	iters := vc.EnvInt("VERIF_ITERS", 20000)
	gap := time.Duration(vc.EnvInt("VERIF_GAP_US", 0)) * time.Microsecond // pause between cancel and the next start
	tracedInst := vc.EnvInt("VERIF_TRACE_INST", 40)
	rnd := rand.New(rand.NewSource(seed))
	prog, err := os.OpenFile(os.Getenv("VERIF_PROGRESS"), os.O_CREATE|os.O_WRONLY|os.O_APPEND, 0o644)
	if err != nil {
		prog, _ = os.OpenFile(os.DevNull, os.O_WRONLY, 0)
	}
	defer prog.Close()

	// (1) traced, short-lived instances (gate hook logs only, never parks)
	verifRTGateHook = c12Hook
	tracedTimers := 0
	for i := 0; i < tracedInst; i++ {
		log.set(true)
		log.ev(vc.M{"ev": "reset", "script": -1, "rep": i, "variant": "free"})
		in := c12New(log, false)
		sc := &c12Script{Idx: -1}
		r := &c12Run{in: in, out: out, sc: sc, rep: i, variant: "free", notes: map[string]int{}, outc: map[string]int{}, rnd: rnd}
		fmt.Fprintf(prog, "{\"i\":%d,\"prev\":\"traced\"}\n", i)
		n := 2 + rnd.Intn(3)
		prevCancelled := true
		for k := 1; k <= n; k++ {
			tm := &c12Timer{k: k, long: rnd.Intn(3) == 0, ret: make(chan struct{})}
			in.timers = append(in.timers, tm)
			d := c12Long
			if !tm.long {
				d = time.Duration(1+rnd.Intn(30)) * time.Microsecond
			}
			in.strat.d.Store(int64(d))
			log.ev(vc.M{"ev": "call", "op": "start", "k": k, "long": tm.long})
			go func() {
				tm.elapsed, tm.cancel = in.rt.ProposalTimer(in.cctx, 1, 0)
				log.ev(vc.M{"ev": "ret", "op": "start", "k": tm.k})
				close(tm.ret)
			}()
			select {
			case <-tm.ret:
			case <-time.After(c12Bound):
				cl := "first-start"
				if k > 1 {
					cl = "start-after-elapse"
					if prevCancelled {
						cl = "cancel-then-start"
					}
				}
				r.violation("NoLostStart", cl, fmt.Sprintf("start of timer %d did not return within %v", k, c12Bound), k)
				os.Exit(3)
			}
			if tm.elapsed == nil || tm.cancel == nil {
				out.Emit(vc.M{"kind": "error", "why": "start returned nil although the context is alive"})
				out.Flush()
				t.Fatal("nil timer")
			}
			tm.returned = true
			tracedTimers++
			if sp := rnd.Intn(4); sp > 0 {
				c12Spin(time.Duration(rnd.Intn(40)) * time.Microsecond)
			}
			if !tm.long && rnd.Intn(3) == 0 {
				select {
				case <-tm.elapsed:
				case <-time.After(c12Bound):
					out.Emit(vc.M{"kind": "error", "why": "a due, uncancelled timer did not elapse"})
					out.Flush()
					t.Fatal("timer did not elapse")
				}
				r.observeAll()
				prevCancelled = false
				if rnd.Intn(2) == 0 {
					r.doCancel(tm, "cancel-after-elapse")
				}
			} else {
				r.doCancel(tm, "cancel-panics")
				prevCancelled = true
			}
			r.observeAll()
		}
		time.Sleep(200 * time.Microsecond)
		r.observeAll()
		if !in.close() {
			if st := c12BlockedInChanOp(c12BgFn); st != "" {
				out.Emit(vc.M{"kind": "violation", "predicate": "NoLostStart", "class": "timer-goroutine-wedged", "k": 0, "script": -1, "rep": 0, "variant": "loop",
					"detail": "the round timer goroutine is blocked for good (" + st + ") and did not return when its context was cancelled: every later timer request is lost"})
				out.Flush()
				t.Fatal("background goroutine wedged")
			}
			out.Emit(vc.M{"kind": "error", "why": "background goroutine did not exit after its context was cancelled"})
			out.Flush()
			t.Fatal("background goroutine did not exit")
		}
	}
	verifRTGateHook = nil
	log.set(false)

	// (2) the loop proper: one timer object, no hook
	strat := &c12Strat{}
	ctx, stop := context.WithCancel(context.Background())
	rt := NewStandardRoundTimer(ctx, strat)
	var progress atomic.Int64
	wdDone := make(chan struct{})
	go func() { // watchdog: a start that never returns
		last, lastT := int64(-1), time.Now()
		for {
			select {
			case <-wdDone:
				return
			case <-time.After(100 * time.Millisecond):
			}
			if p := progress.Load(); p != last {
				last, lastT = p, time.Now()
			} else if time.Since(lastT) > c12Bound {
				out.Emit(vc.M{"kind": "violation", "predicate": "NoLostStart", "class": "stress", "k": 0, "script": -2, "rep": int(p), "variant": "stress",
					"detail": fmt.Sprintf("stress iteration %d made no progress for %v", p, c12Bound)})
				out.Flush()
				os.Exit(3)
			}
		}
	}()
	type held struct {
		ch   <-chan struct{}
		long bool
		i    int
	}
	var ring []held
	nviol := 0
	check := func(h held) {
		if isClosed(h.ch) {
			cl := "elapse-vs-cancel"
			if h.long {
				cl = "cancelled-long-timer"
			}
			nviol++
			if nviol <= 20 {
				out.Emit(vc.M{"kind": "violation", "predicate": "CancelledNeverElapses", "class": cl, "k": 0, "script": -2, "rep": h.i, "variant": "stress",
					"detail": fmt.Sprintf("stress iteration %d: Elapsed was open after cancel() returned and was closed later", h.i)})
				out.Flush()
			}
		}
	}
	counts := map[string]int{}
	prev := "none"
	for i := 0; i < iters; i++ {
		long := rnd.Intn(5) < 2
		d := c12Long
		if !long {
			d = time.Duration(1+rnd.Intn(50)) * time.Microsecond
			if rnd.Intn(4) == 0 {
				d = time.Duration(1 + rnd.Intn(900)) // nanoseconds: due at once
			}
		}
		strat.d.Store(int64(d))
		fmt.Fprintf(prog, "{\"i\":%d,\"prev\":%q}\n", i, prev)
		el, cancel := rt.ProposalTimer(context.Background(), 1, 0)
		progress.Add(1)
		if el == nil || cancel == nil {
			out.Emit(vc.M{"kind": "error", "why": "start returned nil although the context is alive"})
			out.Flush()
			t.Fatal("nil timer")
		}
		counts["start-after-"+prev]++
		if !long && rnd.Intn(4) == 0 {
			select {
			case <-el:
			case <-time.After(c12Bound):
				out.Emit(vc.M{"kind": "error", "why": "a due, uncancelled timer did not elapse"})
				out.Flush()
				t.Fatal("timer did not elapse")
			}
			prev = "elapsed"
			if rnd.Intn(2) == 0 {
				cancel()
			}
			continue
		}
		switch rnd.Intn(3) {
		case 1:
			runtime.Gosched()
		case 2:
			c12Spin(time.Duration(rnd.Intn(60)) * time.Microsecond)
		}
		cancel()
		open := !isClosed(el)
		if i%7 == 0 {
			cancel()
		}
		prev = "cancelled"
		if gap > 0 {
			runtime.Gosched()
			c12Spin(gap)
			prev = "cancelled-gap"
		}
		if open {
			counts["cancelled-while-open"]++
			ring = append(ring, held{el, long, i})
			if len(ring) > 512 {
				check(ring[0])
				ring = ring[1:]
			}
		} else {
			counts["elapsed-before-cancel"]++
			if long {
				out.Emit(vc.M{"kind": "violation", "predicate": "FiresAtMostOnce", "class": "spurious-elapse", "k": 0, "script": -2, "rep": i, "variant": "stress",
					"detail": fmt.Sprintf("stress iteration %d: a timer started for one hour reports elapsed", i)})
				out.Flush()
			}
		}
	}
	time.Sleep(2 * time.Millisecond)
	for _, h := range ring {
		check(h)
	}
	close(wdDone)
	stop()
	done := make(chan struct{})
	go func() { rt.Wait(); close(done) }()
	select {
	case <-done:
	case <-time.After(c12Bound):
		if st := c12BlockedInChanOp(c12BgFn); st != "" {
			out.Emit(vc.M{"kind": "violation", "predicate": "NoLostStart", "class": "timer-goroutine-wedged", "k": 0, "script": -2, "rep": 0, "variant": "stress",
				"detail": "after the stress loop the round timer goroutine is blocked for good (" + st + ") and did not return when its context was cancelled: every later timer request is lost"})
			out.Flush()
			t.Fatal("background goroutine wedged")
		}
		out.Emit(vc.M{"kind": "error", "why": "background goroutine did not exit after its context was cancelled"})
	}
	out.Emit(vc.M{"kind": "summary", "mode": "stress", "iters": iters, "counts": counts, "traced_timers": tracedTimers,
		"late_elapse": nviol})
	out.Flush()
}

func c12Spin(d time.Duration) {
	t0 := time.Now()
	for time.Since(t0) < d {
	}
}
