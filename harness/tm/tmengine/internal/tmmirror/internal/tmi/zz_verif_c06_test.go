package tmi

// C06 conformance harness for newVoteDistribution (unexported, hence package tmi).
// Same plan of events as the tm/tmconsensus harness (internal/verifc06), real signature proofs.

import (
	"fmt"
	"math/rand"
	"reflect"
	"testing"

	c06 "github.com/gordian-engine/gordian/internal/verifc06"
	vc "github.com/gordian-engine/gordian/internal/verifcommon"
)

func TestVerifC06Dist(t *testing.T) {
	out := vc.Open("VERIF_OUT")
	defer out.Close()
	trace := vc.Open("VERIF_TRACE")
	defer trace.Close()
	reps := vc.EnvInt("VERIF_REPS", 4)
	rng := rand.New(rand.NewSource(int64(vc.EnvInt("VERIF_SEED", 1))))

	evs := c06.Plan()
	chk := c06.NewChecker(out)
	var w *c06.World
	nWorld := 0
	for i := range evs {
		ev := &evs[i]
		if ev.Op == "reset" {
			w = c06.NewWorld(ev.Pow, nWorld)
			nWorld++
			continue
		}
		func() {
			defer func() {
				if r := recover(); r != nil {
					out.Emit(vc.M{"kind": "panic", "i": ev.I, "src": ev.Src, "pow": ev.Pow, "what": fmt.Sprint(r), "state": w.StateJSON()})
				}
			}()
			w.Apply(ev)
			chk.Tally(ev, w)
			dists := map[string]c06.Dist{}
			for _, k := range c06.Kinds {
				var first c06.Dist
				for r := 0; r < reps; r++ {
					d := newVoteDistribution(w.ProofMap(k, ev.Op != "load", rng), w.Vals)
					o, unk := w.ProjectDist(d.AvailableVotePower, d.VotePowerPresent, d.BlockVotePower)
					if len(unk) > 0 {
						out.Emit(vc.M{"kind": "violation", "predicate": "DistBlockPowerIsSigners", "site": "newVoteDistribution", "class": "unknown-hash",
							"what": fmt.Sprintf("block power reported for hashes nobody signed: %v", unk), "i": ev.I, "src": ev.Src, "state": w.StateJSON()})
					}
					if r == 0 {
						first = o
					} else if !reflect.DeepEqual(o, first) {
						out.Emit(vc.M{"kind": "violation", "predicate": "Deterministic", "site": "newVoteDistribution", "class": "same-input-different-summary",
							"what": fmt.Sprintf("the same proofs gave two different distributions: %+v vs %+v", first, o),
							"i":    ev.I, "src": ev.Src, "pow": ev.Pow, "state": w.StateJSON()})
						break
					}
				}
				chk.CheckDist(ev, w, k, first)
				dists[k] = first
			}
			if ev.Trace {
				trace.Emit(vc.M{"i": ev.I, "dist": dists})
			}
		}()
	}
	chk.Summary("tmi", vc.M{"worlds": nWorld, "reps": reps})
}
