//go:build verif

package tmi

// Invariant monitor for executions of the repository's own test-suite (code -> spec direction):
// when $VERIF_MONITOR_OUT is set, every kernel of the process evaluates, at each of its trace points
// (i.e. after every handled request, inside the kernel goroutine), the state predicates of
// spec/MirrorMC.tla that can be stated on kState alone, and appends violations to that file.
// Overlaid into the package by `go test -overlay`; not part of gordian.

import (
	"bytes"
	"encoding/binary"
	"encoding/json"
	"fmt"
	"os"
	"sync"

	"github.com/gordian-engine/gordian/gcrypto"
	"github.com/gordian-engine/gordian/tm/tmconsensus"
)

type verifMon struct {
	mu       sync.Mutex
	f        *os.File
	verified map[string]bool
	pos      map[*Kernel][2]uint64
	vers     map[*Kernel]map[[2]uint64]uint32
	events   uint64
	kernels  map[*Kernel]struct{}
	reported map[string]int
}

var verifMonitor *verifMon

func init() {
	p := os.Getenv("VERIF_MONITOR_OUT")
	if p == "" {
		return
	}
	f, err := os.OpenFile(p, os.O_CREATE|os.O_WRONLY|os.O_APPEND, 0o644)
	if err != nil {
		panic(err)
	}
	verifMonitor = &verifMon{f: f, verified: map[string]bool{}, pos: map[*Kernel][2]uint64{},
		vers: map[*Kernel]map[[2]uint64]uint32{}, kernels: map[*Kernel]struct{}{}, reported: map[string]int{}}
	prev := verifKernelHook
	verifKernelHook = func(k *Kernel, ev string, s *kState) {
		verifMonitor.check(k, ev, s)
		if prev != nil {
			prev(k, ev, s)
		}
	}
}

func (m *verifMon) emit(rec map[string]any) {
	b, _ := json.Marshal(rec)
	m.f.Write(append(b, '\n'))
}

func (m *verifMon) viol(prop, pred, class, what string) {
	key := prop + pred + class
	m.reported[key]++
	if m.reported[key] > 3 {
		return
	}
	m.emit(map[string]any{"kind": "violation", "prop": prop, "pred": pred, "site": "suite", "class": class, "what": what})
}

func (m *verifMon) sigOK(k *Kernel, kind string, h uint64, r uint32, hash string, pk gcrypto.PubKey, sig []byte) bool {
	key := kind + fmt.Sprintf("/%d/%d/", h, r) + hash + "/" + string(pk.PubKeyBytes()) + "/" + string(sig)
	if ok, have := m.verified[key]; have {
		return ok
	}
	vt := tmconsensus.VoteTarget{Height: h, Round: r, BlockHash: hash}
	var msg []byte
	var err error
	if kind == "prevote" {
		msg, err = tmconsensus.PrevoteSignBytes(vt, k.sigScheme)
	} else {
		msg, err = tmconsensus.PrecommitSignBytes(vt, k.sigScheme)
	}
	ok := err == nil && pk.Verify(msg, sig)
	m.verified[key] = ok
	return ok
}

func (m *verifMon) checkProofs(k *Kernel, where, kind string, v *tmconsensus.VersionedRoundView, proofs map[string]gcrypto.CommonMessageSignatureProof) (union map[int]struct{}, perBlock map[string]uint64) {
	union = map[int]struct{}{}
	perBlock = map[string]uint64{}
	vals := v.ValidatorSet.Validators
	for hash, p := range proofs {
		for _, ss := range p.AsSparse().Signatures {
			if len(ss.KeyID) != 2 {
				continue // aggregated key ids (other schemes) are not decoded here
			}
			idx := int(binary.BigEndian.Uint16(ss.KeyID))
			if idx >= len(vals) {
				m.viol("C05", "AllFiledAuthentic", where+":"+kind, fmt.Sprintf("%s %s proof at %d/%d holds a signature for key index %d beyond the validator set", where, kind, v.Height, v.Round, idx))
				continue
			}
			if !m.sigOK(k, kind, v.Height, v.Round, hash, vals[idx].PubKey, ss.Sig) {
				m.viol("C05", "AllFiledAuthentic", where+":"+kind, fmt.Sprintf("%s %s proof at %d/%d for %x holds a signature that does not verify for validator %d", where, kind, v.Height, v.Round, hash, idx))
				continue
			}
			union[idx] = struct{}{}
			perBlock[hash] += vals[idx].Power
		}
	}
	return union, perBlock
}

func (m *verifMon) checkView(k *Kernel, where string, v *tmconsensus.VersionedRoundView) {
	if v.Height == 0 || len(v.ValidatorSet.Validators) == 0 {
		return
	}
	if _, simple := k.cmspScheme.(gcrypto.SimpleCommonMessageSignatureProofScheme); !simple {
		return
	}
	vals := v.ValidatorSet.Validators
	var avail uint64
	for _, x := range vals {
		avail += x.Power
	}
	vs := v.VoteSummary
	if vs.AvailablePower != avail {
		m.viol("C06", "SummaryIsRecount", where+":available", fmt.Sprintf("%s at %d/%d: AvailablePower=%d, validators sum to %d", where, v.Height, v.Round, vs.AvailablePower, avail))
	}
	for _, e := range []struct {
		kind   string
		proofs map[string]gcrypto.CommonMessageSignatureProof
		total  uint64
		block  map[string]uint64
	}{{"prevote", v.PrevoteProofs, vs.TotalPrevotePower, vs.PrevoteBlockPower}, {"precommit", v.PrecommitProofs, vs.TotalPrecommitPower, vs.PrecommitBlockPower}} {
		union, perBlock := m.checkProofs(k, where, e.kind, v, e.proofs)
		var upw uint64
		for idx := range union {
			upw += vals[idx].Power
		}
		if e.total != upw {
			m.viol("C06", "TotalCountsDistinctValidators", where+":"+e.kind, fmt.Sprintf("%s at %d/%d: total %s power reported %d, distinct signers hold %d", where, v.Height, v.Round, e.kind, e.total, upw))
		}
		for hash, pw := range perBlock {
			if e.block[hash] != pw {
				m.viol("C06", "SummaryIsRecount", where+":"+e.kind+":block", fmt.Sprintf("%s at %d/%d: %s power of %x reported %d, recount %d", where, v.Height, v.Round, e.kind, hash, e.block[hash], pw))
			}
		}
	}
}

func (m *verifMon) check(k *Kernel, ev string, s *kState) {
	m.mu.Lock()
	defer m.mu.Unlock()
	m.events++
	if _, ok := m.kernels[k]; !ok {
		m.kernels[k] = struct{}{}
		m.vers[k] = map[[2]uint64]uint32{}
		m.emit(map[string]any{"kind": "kernel"})
	}
	if m.events%100 == 0 {
		m.emit(map[string]any{"kind": "progress", "pid": os.Getpid(), "events": m.events})
	}

	m.checkView(k, "Voting", &s.Voting)
	m.checkView(k, "NextRound", &s.NextRound)
	m.checkView(k, "Committing", &s.Committing)

	// C04: positions
	p := [2]uint64{s.Voting.Height, uint64(s.Voting.Round)}
	if last, ok := m.pos[k]; ok && (p[0] < last[0] || (p[0] == last[0] && p[1] < last[1])) {
		m.viol("C04", "PositionMonotone", "memory", fmt.Sprintf("voting position went from %d/%d to %d/%d", last[0], last[1], p[0], p[1]))
	}
	m.pos[k] = p
	if s.Committing.Height > 0 && s.Voting.Height != s.Committing.Height+1 {
		m.viol("C04", "VotingIsCommittingPlusOne", "memory", fmt.Sprintf("voting height %d, committing height %d", s.Voting.Height, s.Committing.Height))
	}
	if s.NextRound.Height != s.Voting.Height || s.NextRound.Round != s.Voting.Round+1 {
		m.viol("C04", "VotingIsCommittingPlusOne", "nextround", fmt.Sprintf("next-round view is %d/%d, voting %d/%d", s.NextRound.Height, s.NextRound.Round, s.Voting.Height, s.Voting.Round))
	}

	// C01 / C07: the committing header
	if len(s.CommittingHeader.Hash) > 0 {
		if _, simple := k.cmspScheme.(gcrypto.SimpleCommonMessageSignatureProofScheme); simple && len(s.Committing.ValidatorSet.Validators) > 0 {
			union, perBlock := m.checkProofs(k, "Committing", "precommit", &s.Committing, s.Committing.PrecommitProofs)
			_ = union
			var avail uint64
			for _, x := range s.Committing.ValidatorSet.Validators {
				avail += x.Power
			}
			need := 2*avail/3 + 1
			for 3*(need-1) > 2*avail {
				need--
			}
			if perBlock[string(s.CommittingHeader.Hash)] < need {
				m.viol("C01", "CommitHasCert", "committingView", fmt.Sprintf("committing header %x at height %d has authentic precommit power %d of %d (need %d)",
					s.CommittingHeader.Hash, s.CommittingHeader.Height, perBlock[string(s.CommittingHeader.Hash)], avail, need))
			}
		}
		if s.CommittingHeader.Height != s.Committing.Height {
			m.viol("C01", "CommitHasCert", "committingHeaderHeight", fmt.Sprintf("committing header height %d, committing view %d", s.CommittingHeader.Height, s.Committing.Height))
		}
		nv := s.CommittingHeader.NextValidatorSet
		if len(nv.Validators) > 0 && s.Voting.Height == s.CommittingHeader.Height+1 {
			if !bytes.Equal(nv.PubKeyHash, s.Voting.ValidatorSet.PubKeyHash) || !bytes.Equal(nv.VotePowerHash, s.Voting.ValidatorSet.VotePowerHash) ||
				!tmconsensus.ValidatorSlicesEqual(nv.Validators, s.Voting.ValidatorSet.Validators) {
				m.viol("C07", "ViewValsetIsChain", "Voting", fmt.Sprintf("voting view at height %d does not use the next validator set of the header committing at %d", s.Voting.Height, s.CommittingHeader.Height))
			}
		}
	}

	// C11: per (height, round) view versions never decrease
	for _, v := range []*tmconsensus.VersionedRoundView{&s.Voting, &s.NextRound, &s.Committing} {
		if v.Height == 0 {
			continue
		}
		key := [2]uint64{v.Height, uint64(v.Round)}
		if last, ok := m.vers[k][key]; ok && v.Version < last {
			m.viol("C11", "ViewsOnlyGrow", "version", fmt.Sprintf("view %d/%d went from version %d to %d", v.Height, v.Round, last, v.Version))
		}
		m.vers[k][key] = v.Version
	}
}
